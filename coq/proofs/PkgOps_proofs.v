(** Proofs about model/PkgOps.v (C02). *)
From V.lib Require Import Prelude.
From V.model Require Import PackUri PkgOps.
From V.model Require Ids Opc.
From V.proofs Require Prelude_proofs PackUri_proofs Ids_proofs Opc_proofs.
From Coq Require Import Permutation.

(* ------------------------------------------------------------------------------ *)
(** * Reachability: iter_pids computes the parts the relationship graph reaches *)

Definition wfg (s : state) : Prop :=
  (forall q, In q (int_targets (st_prels s)) -> q < length (st_parts s)) /\
  (forall p x q, getp s p = Some x -> In q (int_targets (pt_rels x)) -> q < length (st_parts s)).

Inductive reachP (s : state) : nat -> Prop :=
| rp0 q : In q (int_targets (st_prels s)) -> reachP s q
| rp1 p q x : reachP s p -> getp s p = Some x -> In q (int_targets (pt_rels x)) -> reachP s q.

Lemma key_inj a b : key a = key b -> a = b.
Proof. unfold key. intros H. inversion H. lia. Qed.

Lemma unkey_key a : unkey (key a) = a.
Proof. unfold unkey, key. lia. Qed.

Definition okk (s : state) (k : str) : Prop := exists p, p < length (st_parts s) /\ k = key p.

Lemma gsucc_key s p : gsucc (st_parts s) (key p) =
  match getp s p with Some x => map key (int_targets (pt_rels x)) | None => [] end.
Proof. unfold gsucc, key, getp. rewrite Nat2N.id. reflexivity. Qed.

Lemma okk_closed s : wfg s -> forall x y, okk s x -> In y (gsucc (st_parts s) x) -> okk s y.
Proof.
  intros [_ Hw] x y (p & Hp & ->) Hy. rewrite gsucc_key in Hy.
  destruct (getp s p) as [px|] eqn:E; [|destruct Hy].
  apply in_map_iff in Hy as (q & <- & Hq). exists q. split; auto. eapply Hw; eauto.
Qed.

Lemma okk_U s x : okk s x -> In x (map key (seq 0 (length (st_parts s)))).
Proof. intros (p & Hp & ->). apply in_map. apply in_seq. lia. Qed.

Lemma reach_keys s : wfg s -> forall y x, okk s y -> Opc.reach (gsucc (st_parts s)) y x -> okk s x.
Proof. intros Hw y x Hy Hr. induction Hr; auto. eapply okk_closed; eauto. Qed.

Lemma reachP_of_key s : forall q p, In q (int_targets (st_prels s)) ->
  Opc.reach (gsucc (st_parts s)) (key q) (key p) -> reachP s p.
Proof.
  intros q p Hq Hr. remember (key p) as kp eqn:Ekp. revert p Ekp.
  induction Hr as [|x y Hr IH Hy]; intros p Ekp.
  - apply key_inj in Ekp. subst. constructor; auto.
  - subst y. (* x is a key *)
    assert (Hx : exists px, x = key px).
    { clear IH Hy. remember (key q) as kq. induction Hr.
      - eauto.
      - destruct IHHr as (pz & ->); auto. rewrite gsucc_key in H.
        destruct (getp s pz); [|destruct H]. apply in_map_iff in H as (w & <- & _). eauto. }
    destruct Hx as (px & ->). specialize (IH px eq_refl).
    rewrite gsucc_key in Hy. destruct (getp s px) as [xx|] eqn:E; [|destruct Hy].
    apply in_map_iff in Hy as (w & Hw & Hin). apply key_inj in Hw. subst w.
    eapply rp1; eauto.
Qed.

Lemma key_of_reachP s p : reachP s p ->
  exists q, In q (int_targets (st_prels s)) /\ Opc.reach (gsucc (st_parts s)) (key q) (key p).
Proof.
  induction 1 as [q Hq|p q x Hp IH Hx Hq].
  - exists q. split; auto. apply Opc.r0.
  - destruct IH as (r & Hr & Hreach). exists r. split; auto.
    eapply Opc.r1; eauto. rewrite gsucc_key, Hx. apply in_map; auto.
Qed.

Lemma iter_pids_spec s : wfg s ->
  (forall p, In p (iter_pids s) <-> reachP s p) /\ NoDup (iter_pids s) /\
  (forall p, In p (iter_pids s) -> p < length (st_parts s)).
Proof.
  intros Hw. unfold iter_pids.
  set (g := gsucc (st_parts s)). set (ys := map key (int_targets (st_prels s))).
  assert (Hys : forall y, In y ys -> okk s y).
  { intros y Hy. apply in_map_iff in Hy as (q & <- & Hq). exists q. split; auto. apply (proj1 Hw); auto. }
  destruct (Opc_proofs.walk_reach g (okk s) (map key (seq 0 (length (st_parts s))))
              (okk_closed s Hw) (okk_U s) ys (S (length (st_parts s))) Hys) as [Hiff Hnd].
  { rewrite map_length, seq_length. lia. }
  assert (Hall : forall k, In k (Opc.walk g (S (S (length (st_parts s)))) [] ys) -> okk s k).
  { intros k Hk. apply Hiff in Hk as (y & Hy & Hr). eapply reach_keys; eauto. }
  split; [|split].
  - intros p. rewrite in_map_iff. split.
    + intros (k & <- & Hk). apply in_rev in Hk. destruct (Hall k Hk) as (q & Hq & ->).
      rewrite unkey_key. apply Hiff in Hk as (y & Hy & Hr).
      apply in_map_iff in Hy as (r & <- & Hrin). eapply reachP_of_key; eauto.
    + intros Hp. exists (key p). split; [apply unkey_key|]. apply -> in_rev.
      apply Hiff. destruct (key_of_reachP s p Hp) as (q & Hq & Hr).
      exists (key q). split; auto. apply in_map; auto.
  - assert (Hnd' : NoDup (rev (Opc.walk g (S (S (length (st_parts s)))) [] ys))).
    { apply NoDup_rev. exact Hnd. }
    revert Hnd'. assert (Hall' : forall k, In k (rev (Opc.walk g (S (S (length (st_parts s)))) [] ys)) -> okk s k).
    { intros k Hk. apply Hall. apply in_rev. exact Hk. }
    revert Hall'. generalize (rev (Opc.walk g (S (S (length (st_parts s)))) [] ys)).
    induction l as [|a l IH]; intros Hok Hn; simpl; constructor.
    + inversion Hn; subst. intros Hin. apply in_map_iff in Hin as (b & Hb & Hbin).
      destruct (Hok a (or_introl eq_refl)) as (pa & _ & ->).
      destruct (Hok b (or_intror Hbin)) as (pb & _ & ->).
      rewrite !unkey_key in Hb. subst. auto.
    + inversion Hn; subst. apply IH; auto. intros k Hk. apply Hok. right; auto.
  - intros p Hp. apply in_map_iff in Hp as (k & <- & Hk). apply in_rev in Hk.
    destruct (Hall k Hk) as (q & Hq & ->). rewrite unkey_key. exact Hq.
Qed.

(* ------------------------------------------------------------------------------ *)
(** * Small facts *)

Lemma NoDup_nodupb l : NoDup l -> Opc.nodupb l = true.
Proof.
  induction 1 as [|x l Hx Hnd IH]; simpl; auto.
  rewrite IH, andb_true_r. apply negb_true_iff. apply Opc_proofs.mem_str_nIn. exact Hx.
Qed.

Lemma getp_lt s p x : getp s p = Some x -> p < length (st_parts s).
Proof. unfold getp. intros H. apply nth_error_Some. congruence. Qed.

Lemma getp_some s p : p < length (st_parts s) -> exists x, getp s p = Some x.
Proof. unfold getp. intros H. destruct (nth_error (st_parts s) p) eqn:E; eauto. apply nth_error_None in E. lia. Qed.

Lemma name_of_getp s p x : getp s p = Some x -> name_of (st_parts s) p = pt_name x.
Proof. unfold getp, name_of. intros ->. reflexivity. Qed.

Lemma inv_wfg T s : Inv T s -> wfg s.
Proof.
  intros I. split; [apply (iv_ptgts T s I)|].
  intros p x q Hx Hq. exact (gp_tgts _ _ (iv_parts T s I p x Hx) q Hq).
Qed.

Lemma find_rel_In rid rs r : find_rel rid rs = Some r -> In r rs /\ rr_id r = rid.
Proof.
  induction rs as [|a rs IH]; simpl; [discriminate|].
  destruct (str_eqb_spec (rr_id a) rid) as [E|E].
  - intros [= <-]. auto.
  - intros H. destruct (IH H). auto.
Qed.

Lemma find_rel_None rid rs : find_rel rid rs = None <-> ~ In rid (map rr_id rs).
Proof.
  induction rs as [|a rs IH]; simpl; [tauto|].
  destruct (str_eqb_spec (rr_id a) rid) as [E|E]; [split; [discriminate|tauto]|].
  rewrite IH. tauto.
Qed.

Lemma find_rel_NoDup rs r : NoDup (map rr_id rs) -> In r rs -> find_rel (rr_id r) rs = Some r.
Proof.
  induction rs as [|a rs IH]; simpl; [tauto|]. intros Hnd [->|Hin].
  - rewrite str_eqb_refl. reflexivity.
  - inversion Hnd; subst. destruct (str_eqb_spec (rr_id a) (rr_id r)) as [E|E]; [|auto].
    exfalso. apply H1. rewrite E. apply in_map. exact Hin.
Qed.

Lemma int_targets_In q rs : In q (int_targets rs) <-> exists r, In r rs /\ rr_tgt r = TInt q.
Proof.
  unfold int_targets. rewrite in_flat_map. split.
  - intros (r & Hr & Hq). exists r. split; auto. destruct (rr_tgt r); simpl in Hq; [destruct Hq as [->|[]]; auto|destruct Hq].
  - intros (r & Hr & E). exists r. split; auto. rewrite E. simpl; auto.
Qed.

(** the parts save writes are the reached ones, each once *)
Definition memf (s : state) (p : nat) : pmember :=
  match getp s p with
  | Some x => mkMem (pt_name x) p (out_rels (st_parts s) (pt_base x) (pt_rels x))
  | None => mkMem [] p []
  end.

Lemma filter_all_true {A} (f : A -> bool) l : (forall x, In x l -> f x = true) -> filter f l = l.
Proof. induction l as [|a l IH]; simpl; auto. intros H. rewrite H by auto. f_equal. apply IH. auto. Qed.

Lemma save_members T s : wfg s -> ph_members (save_phys T s) = map (memf s) (iter_pids s).
Proof.
  intros Hw. destruct (iter_pids_spec s Hw) as (_ & _ & Hlt). unfold save_phys. cbn [ph_members].
  rewrite filter_all_true.
  - revert Hlt. generalize (iter_pids s). induction l as [|p l IH]; intros Hlt; simpl; auto.
    destruct (getp_some s p (Hlt p (or_introl eq_refl))) as (x & Hx).
    unfold memf at 1. rewrite Hx. simpl. f_equal. apply IH. intros; apply Hlt; simpl; auto.
  - intros p Hp. destruct (getp_some s p (Hlt p Hp)) as (x & ->). reflexivity.
Qed.

Lemma save_plist T s : wfg s ->
  ph_cts (save_phys T s) =
  Opc.content_types_item (tenv T)
    (map (fun p => Opc.mkPart (name_of (st_parts s) p)
                              (match getp s p with Some x => pt_ct x | None => [] end) tt []) (iter_pids s)).
Proof.
  intros Hw. destruct (iter_pids_spec s Hw) as (_ & _ & Hlt). unfold save_phys. cbn [ph_cts].
  f_equal. rewrite filter_all_true.
  - revert Hlt. generalize (iter_pids s). induction l as [|p l IH]; intros Hlt; simpl; auto.
    destruct (getp_some s p (Hlt p (or_introl eq_refl))) as (x & Hx).
    rewrite Hx, (name_of_getp s p x Hx). simpl. f_equal. apply IH. intros; apply Hlt; simpl; auto.
  - intros p Hp. destruct (getp_some s p (Hlt p Hp)) as (x & ->). reflexivity.
Qed.

Lemma memf_name s p : pm_name (memf s p) = name_of (st_parts s) p.
Proof. unfold memf, name_of, getp. destruct (nth_error (st_parts s) p); reflexivity. Qed.

Lemma memf_pid s p : pm_pid (memf s p) = p.
Proof. unfold memf. destruct (getp s p); reflexivity. Qed.

(** the writer's content types item offers every part it was computed from exactly the
    content type of that part (generic form of the C01 argument, exact-case Override lookup) *)
Lemma cti_resolve {blob} (E : Opc.env blob) (L : list (Opc.part blob)) :
  Opc.env_ok E -> NoDup (map Opc.p_name L) -> Opc_proofs.clashfree E L ->
  NoDup (map fst (fst (Opc.content_types_item E L))) /\
  NoDup (map fst (snd (Opc.content_types_item E L))) /\
  forall pt, In pt L -> ct_resolve (Opc.content_types_item E L) (Opc.p_name pt) = Ok (Opc.p_ct pt).
Proof.
  intros [Hi1 Hi2] Hnd Hcf. unfold Opc.content_types_item, Opc.defaults_and_overrides.
  destruct (fold_left (Opc.cti_step E) L (Opc.initdefs E, [])) as [D O] eqn:EDO.
  assert (HO : O = map (fun pt => (Opc.p_name pt, Opc.p_ct pt)) (filter (fun pt => negb (Opc_proofs.intab E pt)) L)).
  { change O with (snd (D, O)). rewrite <- EDO. rewrite Opc_proofs.cti_overrides; auto. }
  assert (HD : D = fst (fold_left (Opc.cti_step E) L (Opc.initdefs E, []))) by (rewrite EDO; auto).
  destruct (Opc_proofs.cti_defaults_keys E L (Opc.initdefs E) []) as [HDnd HDlow]; auto.
  { intros k0 Hk. apply in_map_iff in Hk as (kv & <- & Hkv). auto. }
  rewrite <- HD in HDnd, HDlow.
  assert (HOnd : NoDup (map fst O)).
  { rewrite HO, map_map. simpl. clear - Hnd. induction L as [|a l IH]; simpl; [constructor|].
    simpl in Hnd. inversion Hnd; subst. destruct (negb (Opc_proofs.intab E a)); simpl; auto. constructor; auto.
    intros Hin. apply H1. apply in_map_iff in Hin as (pt & He & Hpt). apply filter_In in Hpt as [Hpt _].
    rewrite <- He. apply in_map; auto. }
  cbn [fst snd]. split; [|split].
  - eapply Permutation_NoDup; [apply Permutation_map, Permutation_sym, Opc_proofs.sort_by_perm|auto].
  - eapply Permutation_NoDup; [apply Permutation_map, Permutation_sym, Opc_proofs.sort_by_perm|auto].
  - intros pt Hpt. unfold ct_resolve. cbn [fst snd].
    rewrite Opc_proofs.lookup_sort by auto.
    destruct (Opc_proofs.intab E pt) eqn:Eq.
    + assert (HnO : Opc.lookup (Opc.p_name pt) O = None).
      { apply Opc_proofs.lookup_None. intros Hin. rewrite HO, map_map in Hin. simpl in Hin.
        apply in_map_iff in Hin as (pt' & He & Hpt'). apply filter_In in Hpt' as [Hpt' Hni].
        assert (pt' = pt).
        { clear - Hnd Hpt Hpt' He. induction L as [|a l IH]; [destruct Hpt|]. simpl in Hnd. inversion Hnd; subst.
          destruct Hpt as [->|Hpt], Hpt' as [->|Hpt']; auto.
          - exfalso. apply H1. rewrite <- He. apply in_map; auto.
          - exfalso. apply H1. rewrite He. apply in_map; auto. }
        subst pt'. rewrite Eq in Hni. discriminate. }
      rewrite HnO. rewrite Opc_proofs.lookup_sort by auto.
      change (Opc.lower (ext (Opc.p_name pt))) with (Opc_proofs.pext pt).
      destruct (Opc_proofs.cti_defaults_key E L (Opc.initdefs E) [] _ Hpt Eq) as (v & Hv).
      rewrite <- HD in Hv. rewrite Hv.
      rewrite HD in Hv. apply Opc_proofs.cti_defaults_val in Hv as [(pt' & Hpt' & Hi & He & Hct)|[_ Hno]].
      * rewrite <- Hct. f_equal. apply Hcf; auto.
      * exfalso. apply (Hno _ Hpt Eq). reflexivity.
    + rewrite (Opc_proofs.lookup_NoDup_In (Opc.p_name pt) (Opc.p_ct pt)); auto.
      rewrite HO. apply in_map_iff. exists pt. split; auto.
      apply filter_In. split; auto. rewrite Eq. reflexivity.
Qed.

(* ------------------------------------------------------------------------------ *)
(** * Closed, clause by clause *)

Section SaveClosed.
Variable T : tables.
Variable s : state.
Hypothesis HI : Inv T s.
Hypothesis HT : tables_ok T.

Let Hw : wfg s := inv_wfg T s HI.

Lemma iter_good p : In p (iter_pids s) -> exists x, getp s p = Some x /\ good_part (length (st_parts s)) x.
Proof.
  intros Hp. destruct (iter_pids_spec s Hw) as (_ & _ & Hlt).
  destruct (getp_some s p (Hlt p Hp)) as (x & Hx). exists x. split; auto. exact (iv_parts T s HI p x Hx).
Qed.

Lemma iter_part_name p : In p (iter_pids s) -> Opc.part_name (name_of (st_parts s) p).
Proof. intros Hp. destruct (iter_good p Hp) as (x & Hx & G). rewrite (name_of_getp s p x Hx). apply (gp_name _ _ G). Qed.

(** ** member names are unique *)
Lemma closed_names : c_names (save_phys T s) = true.
Proof.
  unfold c_names. apply NoDup_nodupb. unfold member_names. rewrite save_members by exact Hw.
  pose proof (iv_names T s HI) as Hnd. unfold iter_names in Hnd.
  pose proof iter_part_name as Hpn.
  set (L := iter_pids s) in *.
  set (f := fun m : pmember => pm_name m :: rels_member (pm_name m) (pm_rels m)).
  assert (Hf : forall p z, In p L -> In z (f (memf s p)) ->
                z = name_of (st_parts s) p \/ z = Opc.rels_item_name (name_of (st_parts s) p)).
  { intros p z Hp Hz. unfold f in Hz. rewrite memf_name in Hz. destruct Hz as [<-|Hz]; auto.
    unfold rels_member in Hz. destruct (pm_rels (memf s p)); [destruct Hz|]. destruct Hz as [<-|[]]. auto. }
  assert (Hnot_ct : forall z, In z (flat_map f (map (memf s) L)) -> z <> Opc.ct_uri).
  { intros z Hz. apply in_flat_map in Hz as (m & Hm & Hz). apply in_map_iff in Hm as (p & <- & Hp).
    destruct (Hf p z Hp Hz) as [->| ->].
    - apply Opc_proofs.part_name_ne_ct. auto.
    - intros E. apply Opc_proofs.ct_uri_not_shaped. rewrite <- E. apply Opc_proofs.rels_item_shaped. auto. }
  assert (Hnot_root : forall z, In z (flat_map f (map (memf s) L)) -> z <> Opc.rels_item_name Opc.root).
  { intros z Hz. apply in_flat_map in Hz as (m & Hm & Hz). apply in_map_iff in Hm as (p & <- & Hp).
    destruct (Hf p z Hp Hz) as [->| ->].
    - intros E. apply (Opc_proofs.part_name_not_shaped _ (Hpn p Hp)). rewrite E. apply Opc_proofs.rels_item_root_shaped.
    - apply Opc_proofs.rels_item_not_root. auto. }
  constructor.
  - intros [E|Hin].
    + revert E. vm_compute. discriminate.
    + apply (Hnot_ct _ Hin). reflexivity.
  - constructor.
    + intros Hin. apply (Hnot_root _ Hin). reflexivity.
    + apply Opc_proofs.NoDup_flat_map.
      * apply FinFun.Injective_map_NoDup.
        -- intros a b E. apply (f_equal pm_pid) in E. rewrite !memf_pid in E. exact E.
        -- destruct (iter_pids_spec s Hw) as (_ & H & _). exact H.
      * intros m Hm. apply in_map_iff in Hm as (p & <- & Hp). unfold f. rewrite memf_name.
        unfold rels_member. destruct (pm_rels (memf s p)); [repeat constructor; auto|].
        constructor; [|repeat constructor; auto]. intros [E|[]].
        apply (Opc_proofs.part_name_not_shaped _ (Hpn p Hp)). rewrite <- E.
        apply Opc_proofs.rels_item_shaped. auto.
      * intros m1 m2 z Hm1 Hm2 Hne Hz1 Hz2.
        apply in_map_iff in Hm1 as (p1 & <- & Hp1). apply in_map_iff in Hm2 as (p2 & <- & Hp2).
        assert (Hpne : p1 <> p2) by (intros ->; apply Hne; reflexivity).
        assert (Hnn : name_of (st_parts s) p1 <> name_of (st_parts s) p2).
        { intros E. apply Hpne. clear - Hnd Hp1 Hp2 E. induction L as [|a L IH]; [destruct Hp1|].
          simpl in Hnd. inversion Hnd; subst.
          destruct Hp1 as [->|Hp1], Hp2 as [->|Hp2]; auto.
          - exfalso. apply H1. rewrite E. apply in_map. auto.
          - exfalso. apply H1. rewrite <- E. apply in_map. auto. }
        destruct (Hf p1 z Hp1 Hz1) as [E1|E1], (Hf p2 z Hp2 Hz2) as [E2|E2]; subst z.
        -- apply Hnn; auto.
        -- apply (Opc_proofs.part_name_not_shaped _ (Hpn p1 Hp1)). rewrite E2. apply Opc_proofs.rels_item_shaped. auto.
        -- apply (Opc_proofs.part_name_not_shaped _ (Hpn p2 Hp2)). rewrite <- E2. apply Opc_proofs.rels_item_shaped. auto.
        -- apply Hnn. apply Opc_proofs.rels_item_inj; auto.
Qed.


(** ** every part has exactly one resolvable content type, the one it was created or loaded with *)
Lemma closed_types : c_types s (save_phys T s) = true.
Proof.
  unfold c_types. rewrite save_plist by exact Hw. rewrite save_members by exact Hw.
  set (PL := map (fun p => Opc.mkPart (name_of (st_parts s) p)
                    (match getp s p with Some x => pt_ct x | None => [] end) tt []) (iter_pids s)).
  assert (Hn : map Opc.p_name PL = iter_names s).
  { unfold PL, iter_names. rewrite map_map. reflexivity. }
  destruct (cti_resolve (tenv T) PL) as (H1 & H2 & H3).
  - apply (tk_env T HT).
  - rewrite Hn. apply (iv_names T s HI).
  - intros a b Ha Hb Hia Hib He. unfold PL in Ha, Hb.
    apply in_map_iff in Ha as (p & <- & Hp). apply in_map_iff in Hb as (q & <- & Hq).
    destruct (iter_good p Hp) as (x & Hx & _). destruct (iter_good q Hq) as (y & Hy & _).
    unfold Opc_proofs.intab, Opc_proofs.pext in *. cbn [Opc.p_name Opc.p_ct Opc.deftbl tenv] in *.
    rewrite Hx in *. rewrite Hy in *. rewrite (name_of_getp s p x Hx) in *. rewrite (name_of_getp s q y Hy) in *.
    apply (iv_clash T s HI p q x y); unfold reach_part; auto.
  - rewrite (NoDup_nodupb _ H1), (NoDup_nodupb _ H2). cbn [andb].
    apply forallb_forall. intros m Hm. apply in_map_iff in Hm as (p & <- & Hp).
    rewrite memf_pid, memf_name. destruct (iter_good p Hp) as (x & Hx & _). rewrite Hx.
    specialize (H3 (Opc.mkPart (name_of (st_parts s) p) (pt_ct x) tt [])). cbn [Opc.p_name Opc.p_ct] in H3.
    rewrite H3; [apply str_eqb_refl|].
    unfold PL. apply in_map_iff. exists p. rewrite Hx. auto.
Qed.

Lemma part_name_nonnil t : Opc.part_name t -> t <> [].
Proof. intros (P & _ & _ & -> & _). unfold render. discriminate. Qed.

Lemma from_rel_ref_roundtrip src t : (src = Opc.root \/ Opc.part_name src) -> Opc.part_name t ->
  from_rel_ref (baseURI src) (Opc.rel_ref t (baseURI src)) = Ok t.
Proof.
  intros Hs Ht. pose proof (Opc_proofs.resolve_rel_ref src t Hs Ht) as H. unfold Opc.resolve in H.
  destruct (from_rel_ref (baseURI src) (Opc.rel_ref t (baseURI src))) as [t'|e]; [congruence|].
  exfalso. apply (part_name_nonnil t Ht). auto.
Qed.

Lemma find_member_iter p : In p (iter_pids s) ->
  find_member (save_phys T s) (name_of (st_parts s) p) = Some (memf s p).
Proof.
  intros Hp. unfold find_member. rewrite save_members by exact Hw.
  pose proof (iv_names T s HI) as Hnd. unfold iter_names in Hnd.
  revert Hp Hnd. generalize (iter_pids s). induction l as [|a l IH]; intros Hp Hnd; [destruct Hp|].
  simpl. rewrite memf_name. simpl in Hnd. inversion Hnd; subst.
  destruct (str_eqb_spec (name_of (st_parts s) a) (name_of (st_parts s) p)) as [E|E].
  - destruct Hp as [->|Hp]; auto. exfalso. apply H1. rewrite E. apply in_map; auto.
  - destruct Hp as [->|Hp]; [congruence|]. apply IH; auto.
Qed.

(** one written relationship of a source whose in-memory relationships are [rs] *)
Lemma target_ok_out src base rs r :
  (src = Opc.root \/ Opc.part_name src) -> base = baseURI src ->
  NoDup (map rr_id rs) -> (forall r', In r' rs -> rr_ref r' = None) ->
  (forall q, In q (int_targets rs) -> In q (iter_pids s)) ->
  In r rs -> target_ok (save_phys T s) src rs (out_rel (st_parts s) base r) = true.
Proof.
  intros Hsrc -> Hnd Hnc Hcl Hr. unfold target_ok, out_rel.
  destruct (rr_tgt r) as [q|u] eqn:Et; cbn [Opc.r_mode Opc.r_target Opc.r_id]; auto.
  rewrite (Hnc r Hr).
  assert (Hq : In q (iter_pids s)) by (apply Hcl; apply int_targets_In; eauto).
  rewrite from_rel_ref_roundtrip; auto; [|apply iter_part_name; auto].
  rewrite (find_member_iter q Hq). rewrite (find_rel_NoDup rs r Hnd Hr). rewrite Et.
  rewrite memf_pid. apply Nat.eqb_refl.
Qed.

Lemma forallb_out_rels src base rs :
  (src = Opc.root \/ Opc.part_name src) -> base = baseURI src ->
  NoDup (map rr_id rs) -> (forall r', In r' rs -> rr_ref r' = None) ->
  (forall q, In q (int_targets rs) -> In q (iter_pids s)) ->
  forallb (target_ok (save_phys T s) src rs) (out_rels (st_parts s) base rs) = true.
Proof.
  intros H1 H2 H3 H4 H5. apply forallb_forall. intros o Ho. unfold out_rels in Ho.
  apply in_map_iff in Ho as (r & <- & Hr).
  apply (Permutation_in r (Opc_proofs.sort_by_perm _ rs)) in Hr.
  apply target_ok_out; auto.
Qed.

Lemma iter_closed p x q : In p (iter_pids s) -> getp s p = Some x -> In q (int_targets (pt_rels x)) ->
  In q (iter_pids s).
Proof.
  intros Hp Hx Hq. destruct (iter_pids_spec s Hw) as (Hiff & _). apply Hiff. apply Hiff in Hp.
  eapply rp1; eauto.
Qed.

Lemma iter_roots q : In q (int_targets (st_prels s)) -> In q (iter_pids s).
Proof. intros Hq. destruct (iter_pids_spec s Hw) as (Hiff & _). apply Hiff. constructor. exact Hq. Qed.

(** ** every internal Target names a member, the one holding the part the relationship points to *)
Lemma closed_targets : c_targets s (save_phys T s) = true.
Proof.
  unfold c_targets. apply andb_true_iff. split.
  - unfold save_phys at 2. cbn [ph_prels]. apply forallb_out_rels; auto.
    + apply (iv_pkeys T s HI).
    + apply (iv_pnocache T s HI).
    + apply iter_roots.
  - rewrite save_members by exact Hw. apply forallb_forall. intros m Hm.
    apply in_map_iff in Hm as (p & <- & Hp). rewrite memf_pid.
    destruct (iter_good p Hp) as (x & Hx & G). rewrite Hx. unfold memf. rewrite Hx. cbn [pm_name pm_rels].
    apply forallb_out_rels.
    + right. apply (gp_name _ _ G).
    + apply (gp_base _ _ G).
    + apply (gp_keys _ _ G).
    + apply (gp_nocache _ _ G).
    + intros q Hq. eapply iter_closed; eauto.
Qed.

Lemma out_rels_ids base rs : Permutation (map Opc.r_id (out_rels (st_parts s) base rs)) (map rr_id rs).
Proof.
  unfold out_rels. rewrite map_map.
  assert (E : forall l, map (fun r => Opc.r_id (out_rel (st_parts s) base r)) l = map rr_id l).
  { intros l. apply map_ext. intros r. unfold out_rel. destruct (rr_tgt r); reflexivity. }
  rewrite E. apply Permutation_map. apply Opc_proofs.sort_by_perm.
Qed.

(** ** every relationship id used in a part's XML is defined by its rels item *)
Lemma closed_refs : c_refs s (save_phys T s) = true.
Proof.
  unfold c_refs. rewrite save_members by exact Hw. apply forallb_forall. intros m Hm.
  apply in_map_iff in Hm as (p & <- & Hp). rewrite memf_pid.
  destruct (iter_good p Hp) as (x & Hx & G). rewrite Hx. unfold memf. rewrite Hx. cbn [pm_rels].
  apply forallb_forall. intros kr Hkr. apply mem_str_In.
  eapply Permutation_in; [apply Permutation_sym, out_rels_ids|]. apply (gp_refs _ _ G). exact Hkr.
Qed.

Lemma Permutation_filter' {A} (f : A -> bool) l l' : Permutation l l' -> Permutation (filter f l) (filter f l').
Proof.
  induction 1; simpl; auto.
  - destruct (f x); auto.
  - destruct (f x), (f y); auto. apply perm_swap.
  - eapply perm_trans; eauto.
Qed.

(** ** the officeDocument relationship leads to the presentation part *)
Lemma closed_main : c_main s (save_phys T s) = true.
Proof.
  unfold c_main. destruct (iv_main T s HI) as (r & Hf & Ht).
  unfold save_phys at 1. cbn [ph_prels]. unfold out_rels.
  set (srt := Opc.sort_by (fun a b => Opc.rid_leb (rr_id a) (rr_id b)) (st_prels s)).
  assert (Hfs : filter (fun r0 => str_eqb (rr_type r0) rt_office_document) srt = [r]).
  { assert (HP : Permutation (filter (fun r0 => str_eqb (rr_type r0) rt_office_document) srt) [r]).
    { rewrite <- Hf. apply Permutation_filter'. apply Opc_proofs.sort_by_perm. }
    apply Permutation_sym, Permutation_length_1_inv in HP. exact HP. }
  assert (Hfm : filter (fun o => str_eqb (Opc.r_type o) rt_office_document) (map (out_rel (st_parts s) s_slash) srt)
                = [out_rel (st_parts s) s_slash r]).
  { change [out_rel (st_parts s) s_slash r] with (map (out_rel (st_parts s) s_slash) [r]). rewrite <- Hfs.
    clear. induction srt as [|a l IH]; simpl; auto.
    assert (E : Opc.r_type (out_rel (st_parts s) s_slash a) = rr_type a) by (unfold out_rel; destruct (rr_tgt a); reflexivity).
    rewrite E. destruct (str_eqb (rr_type a) rt_office_document); simpl; rewrite IH; reflexivity. }
  rewrite Hfm.
  assert (Hr : In r (st_prels s)).
  { assert (In r [r]) by (simpl; auto). rewrite <- Hf in H. apply filter_In in H. tauto. }
  unfold out_rel. rewrite Ht. rewrite (iv_pnocache T s HI r Hr). cbn [Opc.r_mode Opc.r_target].
  assert (Hp : In (st_pres s) (iter_pids s)) by (apply iter_roots; apply int_targets_In; eauto).
  change s_slash with (baseURI Opc.root).
  rewrite from_rel_ref_roundtrip; auto; [|apply iter_part_name; auto].
  rewrite (find_member_iter _ Hp). rewrite memf_pid. apply Nat.eqb_refl.
Qed.

Theorem save_closed_aux : Closed s (save_phys T s).
Proof.
  unfold Closed, closedb. rewrite closed_names, closed_types, closed_targets, closed_refs, closed_main. reflexivity.
Qed.

End SaveClosed.

(** Inv gives Closed for the package save writes (the code as it is: no target cache) *)
Theorem save_closed T s : tables_ok T -> Inv T s ->
  snd (step false T s Save) = Saved (save_phys T s) /\ fst (step false T s Save) = s /\
  Closed s (save_phys T s).
Proof.
  intros HT HI. split; [reflexivity|]. split; [reflexivity|]. apply save_closed_aux; auto.
Qed.

(* ------------------------------------------------------------------------------ *)
(** * The decidable forms are sound *)

Lemma memn_In n l : memn n l = true <-> In n l.
Proof.
  unfold memn. rewrite existsb_exists. split.
  - intros (x & Hx & E). apply Nat.eqb_eq in E. subst. auto.
  - intros H. exists n. split; auto. apply Nat.eqb_refl.
Qed.

Lemma nodupn_NoDup l : nodupn l = true -> NoDup l.
Proof.
  induction l as [|a l IH]; simpl; [constructor|]. intros H. apply andb_true_iff in H as [H1 H2].
  constructor; auto. intros Hin. apply memn_In in Hin. rewrite Hin in H1. discriminate.
Qed.

Lemma resolve_all_F2 rs rids tg : resolve_all rs rids = Some tg ->
  Forall2 (fun rid q => related_part rid rs = Ok q) rids tg.
Proof.
  revert tg. induction rids as [|r l IH]; simpl; intros tg H.
  - inversion H. constructor.
  - destruct (related_part r rs) as [q|] eqn:E; [|discriminate].
    destruct (resolve_all rs l) as [t|]; [|discriminate]. inversion H; subst. constructor; auto.
Qed.

Lemma names_from_spec parts tg : forall i, names_from parts i tg = true ->
  forall j q, nth_error tg j = Some q -> name_of parts q = Ids.slide_name (i + N.of_nat j)%N.
Proof.
  induction tg as [|a t IH]; intros i H j q Hj; [destruct j; discriminate|].
  simpl in H. apply andb_true_iff in H as [H1 H2]. destruct j as [|j]; simpl in Hj.
  - inversion Hj; subst. apply str_eqb_eq in H1. rewrite H1. f_equal. lia.
  - rewrite (IH _ H2 j q Hj). f_equal. lia.
Qed.

Lemma good_partb_sound n x : good_partb n x = true -> good_part n x.
Proof.
  unfold good_partb. intros H.
  apply andb_true_iff in H as [H H10]. apply andb_true_iff in H as [H H9].
  apply andb_true_iff in H as [H H8]. apply andb_true_iff in H as [H H7].
  apply andb_true_iff in H as [H H6]. apply andb_true_iff in H as [H H5].
  apply andb_true_iff in H as [H H4]. apply andb_true_iff in H as [H H3].
  apply andb_true_iff in H as [H1 H2].
  constructor.
  - apply Opc_proofs.part_nameb_sound. exact H1.
  - apply str_eqb_eq. exact H2.
  - intros q Hq. rewrite forallb_forall in H3. apply Nat.ltb_lt. apply H3. exact Hq.
  - apply Opc_proofs.nodupb_NoDup. exact H4.
  - intros r Hr. rewrite forallb_forall in H5. specialize (H5 r Hr). destruct (rr_ref r); [discriminate|reflexivity].
  - intros kr Hkr. rewrite forallb_forall in H6. apply mem_str_In. apply H6. exact Hkr.
  - intros k r x' Hin Hk Hf. rewrite forallb_forall in H7. specialize (H7 (k, r) Hin). cbn [fst snd] in H7.
    apply orb_true_iff in H7 as [H7|H7].
    + apply str_eqb_eq in H7. contradiction.
    + rewrite Hf in H7. apply negb_true_iff in H7. intros Hc. apply mem_str_In in Hc. congruence.
  - intros r Hr. rewrite forallb_forall in H8. specialize (H8 r Hr).
    destruct (find_rel r (pt_rels x)) as [x'|]; [|discriminate]. exists x'. split; auto. apply mem_str_In. exact H8.
  - intros Hc. apply orb_true_iff in H9 as [H9|H9].
    + apply negb_true_iff, orb_false_iff in H9 as [Ha Hb].
      destruct Hc as [Hc|Hc]; rewrite Hc, str_eqb_refl in *; discriminate.
    + destruct (pt_idl x); [reflexivity|discriminate].
  - intros Hc. apply orb_true_iff in H10 as [H10|H10].
    + rewrite Hc, str_eqb_refl in H10. discriminate.
    + apply andb_true_iff in H10 as [H10 Hd]. apply andb_true_iff in H10 as [Ha Hb].
      split; [apply Opc_proofs.nodupb_NoDup; exact Ha|]. split.
      * intros kr Hkr Hin. rewrite forallb_forall in Hb. specialize (Hb kr Hkr).
        apply negb_true_iff in Hb. apply mem_str_In in Hin. congruence.
      * intros r x' Hr Hf E. rewrite forallb_forall in Hd. specialize (Hd r Hr). rewrite Hf, E, str_eqb_refl in Hd. discriminate.
Qed.

Lemma reach_iter_parts s p x : reach_part s p x -> In x (iter_parts s).
Proof.
  intros [Hp Hx]. unfold iter_parts. apply in_flat_map. exists p. split; auto. rewrite Hx. simpl; auto.
Qed.

Lemma has_type_ne t rs : has_type t rs = true -> filter (fun r => str_eqb (rr_type r) t) rs <> [].
Proof. unfold has_type. destruct (filter _ rs); [discriminate|discriminate]. Qed.

Theorem invb_sound T s : invb T s = true -> Inv T s.
Proof.
  unfold invb. intros H.
  apply andb_true_iff in H as [H H11]. apply andb_true_iff in H as [H H10].
  apply andb_true_iff in H as [H H9]. apply andb_true_iff in H as [H H8].
  apply andb_true_iff in H as [H H7]. apply andb_true_iff in H as [H H6].
  apply andb_true_iff in H as [H H5]. apply andb_true_iff in H as [H H4].
  apply andb_true_iff in H as [H H3]. apply andb_true_iff in H as [H1 H2].
  constructor.
  - intros p x Hx. apply good_partb_sound. rewrite forallb_forall in H1. apply H1.
    unfold getp in Hx. eapply nth_error_In; eauto.
  - intros q Hq. rewrite forallb_forall in H2. apply Nat.ltb_lt. auto.
  - apply Opc_proofs.nodupb_NoDup. exact H3.
  - intros r Hr. rewrite forallb_forall in H4. specialize (H4 r Hr). destruct (rr_ref r); [discriminate|reflexivity].
  - apply Opc_proofs.nodupb_NoDup. exact H5.
  - destruct (filter (fun r => str_eqb (rr_type r) rt_office_document) (st_prels s)) as [|r [|]]; try discriminate.
    exists r. split; auto. destruct (rr_tgt r); [|discriminate]. apply Nat.eqb_eq in H6. subst. reflexivity.
  - destruct (getp s (st_pres s)) as [pp|]; [|discriminate]. exists pp. split; auto.
    intros Hc. apply mem_str_In in Hc. rewrite Hc in H7. discriminate.
  - intros p q x y Hx Hy He Hix Hiy. unfold clashb in H8. rewrite forallb_forall in H8.
    specialize (H8 x (reach_iter_parts s p x Hx)). rewrite forallb_forall in H8.
    specialize (H8 y (reach_iter_parts s q y Hy)). unfold intabb in H8.
    rewrite He, str_eqb_refl in H8. rewrite <- He in H8 at 1. rewrite Hix, Hiy in H8. simpl in H8.
    apply str_eqb_eq. exact H8.
  - unfold slidesb in H9. destruct (getp s (st_pres s)) as [pp|] eqn:Epp; [|discriminate].
    destruct (resolve_all (pt_rels pp) (pt_idl pp)) as [tg|] eqn:Etg; [|discriminate].
    apply andb_true_iff in H9 as [H9 Hd]. apply andb_true_iff in H9 as [H9 Hc].
    apply andb_true_iff in H9 as [Ha Hb].
    exists pp, tg. split; auto. split; [apply resolve_all_F2; auto|]. split; [apply nodupn_NoDup; auto|].
    split; [|split].
    + intros q Hq. rewrite forallb_forall in Hb. apply str_eqb_eq. auto.
    + intros p x [Hp Hx] Hdir. rewrite forallb_forall in Hc. specialize (Hc p Hp).
      rewrite (name_of_getp s p x Hx), Hdir, str_eqb_refl in Hc. simpl in Hc. apply memn_In. exact Hc.
    + intros Hs j q Hj. rewrite Hs in Hd. simpl in Hd.
      rewrite (names_from_spec _ _ _ Hd j q Hj). f_equal. lia.
  - intros m mx rid lp lx m' Hm Hct Hrid Hlp Hlx Hm'. unfold masterb in H10. rewrite forallb_forall in H10.
    assert (Hin : In m (seq 0 (length (st_parts s)))) by (apply in_seq; pose proof (getp_lt s m mx Hm); lia).
    specialize (H10 m Hin). rewrite Hm, Hct, str_eqb_refl in H10. simpl in H10.
    rewrite forallb_forall in H10. specialize (H10 rid Hrid). rewrite Hlp, Hlx, Hm' in H10.
    apply Nat.eqb_eq. exact H10.
  - unfold fixedb in H11. destruct (getp s (st_pres s)) as [pp|] eqn:Epp; [|discriminate].
    apply andb_true_iff in H11 as [H11 Hc]. apply andb_true_iff in H11 as [Ha Hb].
    split; [|split].
    + intros pp' Hpp' Hin. rewrite Epp in Hpp'; injection Hpp' as <-. apply mem_str_In in Hin. rewrite Hin in Ha. simpl in Ha.
      apply has_type_ne. exact Ha.
    + intros Hin. apply mem_str_In in Hin. rewrite Hin in Hb. simpl in Hb. apply has_type_ne. exact Hb.
    + intros pp' p Hpp' Hnm. rewrite Epp in Hpp'; injection Hpp' as <-. rewrite Hnm in Hc.
      destruct (part_with_reltype rt_notes_master (pt_rels pp)) as [q|]; [|discriminate].
      apply Nat.eqb_eq in Hc. subst. reflexivity.
Qed.

Theorem tables_okb_sound T : tables_okb T = true -> tables_ok T.
Proof.
  unfold tables_okb. intros H.
  apply andb_true_iff in H as [H H4]. apply andb_true_iff in H as [H1 H2].
  constructor.
  - split; cbn.
    + apply Opc_proofs.nodupb_NoDup. exact H1.
    + intros kv Hkv. rewrite forallb_forall in H2. apply str_eqb_eq. auto.
  - intros e c1 c2 Ha Hb Hne. exfalso. apply Hne. unfold Opc.in_table in Ha, Hb.
    destruct (Opc.ext_types (t_def T) e) as [|t [|t' l]]; try discriminate.
    apply str_eqb_eq in Ha, Hb. congruence.
  - intros c Hc. rewrite forallb_forall in H4. specialize (H4 c Hc). apply negb_true_iff in H4. exact H4.
Qed.

(* ------------------------------------------------------------------------------ *)
(** * drop_rel: reference counting *)

Lemma pop_rel_spec rid rs rs' : pop_rel rid rs = Ok rs' ->
  In rid (map rr_id rs) /\ rs' = filter (fun r => negb (str_eqb (rr_id r) rid)) rs.
Proof. unfold pop_rel. destruct (mem_str rid (map rr_id rs)) eqn:E; [|discriminate]. intros [= <-]. split; auto. apply mem_str_In; auto. Qed.

(** a relationship is removed only when at most one r:id attribute names it; every other
    relationship, and everything else about the part, stays *)
Theorem drop_rel_spec p rid p' : drop_rel p rid = Ok p' ->
  (2 <= ref_count rid p /\ p' = p) \/
  (ref_count rid p < 2 /\ In rid (map rr_id (pt_rels p)) /\
   p' = with_rels p (filter (fun r => negb (str_eqb (rr_id r) rid)) (pt_rels p))).
Proof.
  unfold drop_rel. destruct (Nat.ltb (ref_count rid p) 2) eqn:E.
  - apply Nat.ltb_lt in E. destruct (pop_rel rid (pt_rels p)) as [rs|] eqn:Ep; cbn [bind]; [|discriminate].
    intros [= <-]. right. apply pop_rel_spec in Ep as [H1 ->]. auto.
  - apply Nat.ltb_ge in E. intros [= <-]. left. auto.
Qed.

Theorem drop_rel_keeps_shared p rid : 2 <= ref_count rid p -> drop_rel p rid = Ok p.
Proof. intros H. unfold drop_rel. apply Nat.ltb_ge in H. rewrite H. reflexivity. Qed.

Theorem drop_rel_err p rid e : drop_rel p rid = Err e ->
  e = KeyErr /\ ref_count rid p < 2 /\ ~ In rid (map rr_id (pt_rels p)).
Proof.
  unfold drop_rel. destruct (Nat.ltb (ref_count rid p) 2) eqn:E; [|discriminate].
  apply Nat.ltb_lt in E. unfold pop_rel. destruct (mem_str rid (map rr_id (pt_rels p))) eqn:Em; cbn [bind]; [discriminate|].
  intros [= <-]. split; auto. split; auto. apply Opc_proofs.mem_str_nIn. exact Em.
Qed.

(** the other relationships are untouched by a drop *)
Lemma drop_rel_others p rid p' r : drop_rel p rid = Ok p' -> In r (pt_rels p) -> rr_id r <> rid -> In r (pt_rels p').
Proof.
  intros H Hr Hne. apply drop_rel_spec in H as [[_ ->]|(_ & _ & ->)]; auto.
  cbn [pt_rels with_rels]. apply filter_In. split; auto. apply negb_true_iff. apply Opc_proofs.str_eqb_neq. exact Hne.
Qed.

(** ** the implicit-relationship edge.  get_or_add hands back an existing relationship of
    the same type and target whether or not anything in the XML refers to it ... *)
Theorem get_or_add_reuses t g rs r : In r rs -> rr_type r = t -> rr_tgt r = g ->
  exists rid, get_or_add t g rs = Ok (rs, rid) /\ In rid (map rr_id rs).
Proof.
  intros Hr Ht Hg. unfold get_or_add, get_matching.
  destruct (find (fun r0 => str_eqb (rr_type r0) t && tgt_eqb (rr_tgt r0) g) rs) as [r0|] eqn:E.
  - exists (rr_id r0). split; auto. apply find_some in E as [Hin _]. apply in_map. exact Hin.
  - exfalso. apply (find_none _ _ E) in Hr. rewrite Ht, Hg, str_eqb_refl in Hr. simpl in Hr.
    destruct g; simpl in Hr; [rewrite Nat.eqb_refl in Hr|rewrite str_eqb_refl in Hr]; discriminate.
Qed.

(** ... and drop_rel counts r:id attributes only: a relationship that existed without any
    reference (count 0) and is then named by one link slot (count 1) is removed with it *)
Theorem drop_rel_implicit p rid : ref_count rid p <= 1 -> In rid (map rr_id (pt_rels p)) ->
  exists p', drop_rel p rid = Ok p' /\ ~ In rid (map rr_id (pt_rels p')).
Proof.
  intros Hc Hin. unfold drop_rel. assert (E : Nat.ltb (ref_count rid p) 2 = true) by (apply Nat.ltb_lt; lia).
  rewrite E. unfold pop_rel. apply mem_str_In in Hin. rewrite Hin. cbn [bind].
  eexists. split; [reflexivity|]. cbn [pt_rels with_rels]. intros H. apply in_map_iff in H as (r & Hr & Hf).
  apply filter_In in Hf as [_ Hf]. rewrite Hr, str_eqb_refl in Hf. discriminate.
Qed.

(* ------------------------------------------------------------------------------ *)
(** * A concrete deck: presentation, master, layout and two slides whose part names are out
      of presentation order (the first listed slide is slide2.xml) *)
Import Coq.Strings.String.StringSyntax.

Definition wT : tables :=
  mkT [(asc "png", asc "image/png")]
      [(asc "rels", asc "application/vnd.openxmlformats-package.relationships+xml"); (asc "xml", asc "application/xml")].

Definition w_ct_pres : str := asc "application/vnd.openxmlformats-officedocument.presentationml.presentation.main+xml".
Definition rid_ (n : N) : str := Ids.rId_name n.

Definition w_part (name ct : str) (idl : list str) (refs : list (str * str)) (phs : nat) (rels : list relr) : part :=
  mkP name (baseURI name) ct 0 idl refs [] phs false rels.

Definition wdeck : state :=
  mkS [ w_part (asc "/ppt/presentation.xml") w_ct_pres [rid_ 2; rid_ 3] [(k_id, rid_ 1)] 0
          [mkR (rid_ 1) rt_slide_master (TInt 1) None; mkR (rid_ 2) rt_slide (TInt 3) None; mkR (rid_ 3) rt_slide (TInt 4) None];
        w_part (asc "/ppt/slideMasters/slideMaster1.xml") ct_slide_master [rid_ 1] [] 0
          [mkR (rid_ 1) rt_slide_layout (TInt 2) None];
        w_part (asc "/ppt/slideLayouts/slideLayout1.xml") ct_slide_layout [] [] 1
          [mkR (rid_ 1) rt_slide_master (TInt 1) None];
        w_part (asc "/ppt/slides/slide2.xml") ct_slide [] [] 0 [mkR (rid_ 1) rt_slide_layout (TInt 2) None];
        w_part (asc "/ppt/slides/slide1.xml") ct_slide [] [] 0 [mkR (rid_ 1) rt_slide_layout (TInt 2) None] ]
      [mkR (rid_ 1) rt_office_document (TInt 0) None] 0 (Some (rid_ 1)) false None None.

Lemma wT_ok : tables_ok wT.
Proof. apply tables_okb_sound. vm_compute. reflexivity. Qed.

Lemma wdeck_inv : Inv wT wdeck.
Proof. apply invb_sound. vm_compute. reflexivity. Qed.

Definition saved_closed (lz : bool) (T : tables) (s : state) : bool :=
  match step lz T s Save with
  | (s1, Saved ph) => closedb s1 ph
  | _ => false
  end.

(** with target_ref as a lazyproperty (the code before 5eaa1dfb): save, first access of
    prs.slides, save -- the second package is not Closed (its Targets are the cached ones);
    with the property computed on each access the same history is Closed at both saves *)
Theorem stale_target_regression :
  exists T s, tables_ok T /\ Inv T s /\
    saved_closed true T s = true /\
    saved_closed true T (run true T s [Save; AccessSlides]) = false /\
    c_targets (fst (step true T (run true T s [Save; AccessSlides]) Save))
              (save_phys T (fst (step true T (run true T s [Save; AccessSlides]) Save))) = false /\
    saved_closed false T (run false T s [Save; AccessSlides]) = true.
Proof.
  exists wT, wdeck. split; [exact wT_ok|]. split; [exact wdeck_inv|]. vm_compute. repeat split.
Qed.

(** the notes slide of slide [i]: relationship of type slide from the notes-slide part *)
Definition notes_slide_rels (s : state) (i : nat) : list relr :=
  match getp s (st_pres s) with
  | Some pp =>
      match nth_error (pt_idl pp) i with
      | Some rid =>
          match related_part rid (pt_rels pp) with
          | Ok sp => match getp s sp with
                     | Some x => match part_with_reltype rt_notes_slide (pt_rels x) with
                                 | Ok np => match getp s np with
                                            | Some nx => filter (fun r => str_eqb (rr_type r) rt_slide) (pt_rels nx)
                                            | None => []
                                            end
                                 | Err _ => []
                                 end
                     | None => []
                     end
          | Err _ => []
          end
      | None => []
      end
  | None => []
  end.

(** the implicit relationship notes slide -> slide is reused by a slide jump from the notes
    placeholder to that slide and goes away when the jump is cleared; the package stays
    Closed and the invariant holds, but the notes slide no longer names its slide *)
Theorem implicit_rel_witness :
  exists T s, tables_ok T /\ Inv T s /\
    let s1 := run false T s [AccessNotes 0] in
    let s2 := run false T s [AccessNotes 0; SetNotesJump 0 0] in
    let s3 := run false T s [AccessNotes 0; SetNotesJump 0 0; ClearNotesJump 0] in
    length (notes_slide_rels s1 0) = 1 /\
    notes_slide_rels s2 0 = notes_slide_rels s1 0 /\      (* no second relationship: the implicit one is reused *)
    notes_slide_rels s3 0 = [] /\
    invb T s3 = true /\ saved_closed false T s3 = true.
Proof.
  exists wT, wdeck. split; [exact wT_ok|]. split; [exact wdeck_inv|]. vm_compute. repeat split.
Qed.

(** a jump to another slide goes through a relationship of its own and leaves the implicit one alone *)
Example implicit_rel_other_slide :
  let s3 := run false wT wdeck [AccessNotes 0; SetNotesJump 0 1; ClearNotesJump 0] in
  length (notes_slide_rels s3 0) = 1.
Proof. vm_compute. reflexivity. Qed.

(** add_movie refused because of its poster frame image keeps the media part and both of its
    relationships; nothing in the slide refers to them; the invariant still holds *)
Theorem refused_movie_witness :
  exists T s v, tables_ok T /\ Inv T s /\ blob_ok T v /\
    snd (step false T s (AddMovie 0 v PBad)) = Refused ValueErr /\
    length (st_parts (fst (step false T s (AddMovie 0 v PBad)))) = S (length (st_parts s)) /\
    invb T (fst (step false T s (AddMovie 0 v PBad))) = true.
Proof.
  exists wT, wdeck, (mkB 20 (asc "vid") (asc "video/unknown")).
  split; [exact wT_ok|]. split; [exact wdeck_inv|]. split.
  - unfold blob_ok. split; [vm_compute; reflexivity|]. split; [vm_compute; reflexivity|].
    intros H. vm_compute in H. repeat (destruct H as [H|H]; [discriminate|]). exact H.
  - vm_compute. repeat split.
Qed.

(* ------------------------------------------------------------------------------ *)
(** * Frame facts: how the reached set and the reach-dependent clauses of Inv move *)

Lemma getp_setp_same s p x : p < length (st_parts s) -> getp (setp s p x) p = Some x.
Proof. intros H. unfold getp, setp. cbn. apply Ids_proofs.set_nth_same. exact H. Qed.

Lemma getp_setp_other s p x q : p <> q -> getp (setp s p x) q = getp s q.
Proof. intros H. unfold getp, setp. cbn. apply Ids_proofs.set_nth_other. exact H. Qed.

Lemma length_setp s p x : length (st_parts (setp s p x)) = length (st_parts s).
Proof. unfold setp. cbn. apply Ids_proofs.set_nth_length. Qed.

Lemma getp_app_old s x q : q < length (st_parts s) -> getp (with_parts s (st_parts s ++ [x])) q = getp s q.
Proof. intros H. unfold getp. cbn. apply nth_error_app1. exact H. Qed.

Lemma getp_app_new s x : getp (with_parts s (st_parts s ++ [x])) (length (st_parts s)) = Some x.
Proof. unfold getp. cbn. rewrite nth_error_app2 by lia. rewrite Nat.sub_diag. reflexivity. Qed.

Lemma good_part_mono n n' x : n <= n' -> good_part n x -> good_part n' x.
Proof.
  intros Hle [H1 H2 H3 H4 H5 H6 H7 H8 H9 H10]. constructor; auto. intros q Hq. specialize (H3 q Hq). lia.
Qed.

Lemma reachP_dec s : wfg s -> forall p, reachP s p \/ ~ reachP s p.
Proof.
  intros Hw p. destruct (iter_pids_spec s Hw) as (Hiff & _).
  destruct (in_dec Nat.eq_dec p (iter_pids s)) as [H|H]; [left|right]; rewrite <- Hiff; auto.
Qed.

(** every edge of [s'] from a node that is reached in [s] or lies in [N] leads to such a node *)
Lemma reach_frame s s' (N : nat -> Prop) :
  (forall q, In q (int_targets (st_prels s')) -> reachP s q \/ N q) ->
  (forall p x' q, getp s' p = Some x' -> In q (int_targets (pt_rels x')) ->
                  (reachP s p \/ N p) -> reachP s q \/ N q) ->
  forall p, reachP s' p -> reachP s p \/ N p.
Proof. intros H1 H2 p Hp. induction Hp; eauto. Qed.

Lemma NoDup_map_pairwise {A B} (f : A -> B) l :
  NoDup l -> (forall a b, In a l -> In b l -> a <> b -> f a <> f b) -> NoDup (map f l).
Proof.
  induction 1 as [|x l Hx Hnd IH]; intros Hp; simpl; constructor.
  - intros Hin. apply in_map_iff in Hin as (y & Hy & Hyl). apply (Hp y x); simpl; auto. intros ->. auto.
  - apply IH. intros a b Ha Hb. apply Hp; simpl; auto.
Qed.

Lemma NoDup_map_inj_on {A B} (f : A -> B) l a b :
  NoDup (map f l) -> In a l -> In b l -> f a = f b -> a = b.
Proof.
  induction l as [|x l IH]; simpl; [tauto|]. intros Hnd Ha Hb E. inversion Hnd; subst.
  destruct Ha as [->|Ha], Hb as [->|Hb]; auto.
  - exfalso. apply H1. rewrite E. apply in_map. auto.
  - exfalso. apply H1. rewrite <- E. apply in_map. auto.
Qed.

Lemma reach_part_iff s : wfg s -> forall p x, reach_part s p x <-> (reachP s p /\ getp s p = Some x).
Proof. intros Hw p x. unfold reach_part. destruct (iter_pids_spec s Hw) as (Hiff & _). rewrite Hiff. tauto. Qed.

Lemma in_iter_names s : wfg s -> forall n, In n (iter_names s) <-> exists p x, reach_part s p x /\ pt_name x = n.
Proof.
  intros Hw n. unfold iter_names. rewrite in_map_iff. destruct (iter_pids_spec s Hw) as (_ & _ & Hlt). split.
  - intros (p & <- & Hp). destruct (getp_some s p (Hlt p Hp)) as (x & Hx). exists p, x.
    split; [split; auto|]. symmetry. apply name_of_getp. exact Hx.
  - intros (p & x & [Hp Hx] & <-). exists p. split; auto. apply name_of_getp. exact Hx.
Qed.

(** what a part that becomes reached must satisfy *)
Record new_ok (T : tables) (s : state) (x : part) : Prop := mkNew {
  nw_fresh : ~ In (pt_name x) (iter_names s);
  nw_bin : Opc.in_table (t_def T) s_bin (pt_ct x) = false
}.

(** the reach-dependent clauses of Inv carry over to a state [s'] whose reached parts are
    reached parts of [s], unchanged in name and content type, or members of the list [N] *)
Section Transfer.
Variable T : tables.
Variables s s' : state.
Variable N : list nat.
Hypothesis HT : tables_ok T.
Hypothesis HI : Inv T s.
Hypothesis Hw' : wfg s'.
Hypothesis Hreach : forall p, reachP s' p -> reachP s p \/ In p N.
Hypothesis Hold : forall p x x', reachP s p -> getp s p = Some x -> getp s' p = Some x' ->
                                 pt_name x' = pt_name x /\ pt_ct x' = pt_ct x.
Hypothesis HN : forall n x', In n N -> ~ reachP s n -> getp s' n = Some x' -> new_ok T s x'.
Hypothesis HNd : forall n m x y, In n N -> In m N -> n <> m -> ~ reachP s n -> ~ reachP s m ->
                                 getp s' n = Some x -> getp s' m = Some y -> pt_name x <> pt_name y.

Let Hw : wfg s := inv_wfg T s HI.

Lemma tr_old p x' : reachP s' p -> reachP s p -> getp s' p = Some x' ->
  exists x, getp s p = Some x /\ pt_name x' = pt_name x /\ pt_ct x' = pt_ct x.
Proof.
  intros _ Hp Hx'. destruct (iter_pids_spec s Hw) as (Hiff & _ & Hlt).
  destruct (getp_some s p (Hlt p (proj2 (Hiff p) Hp))) as (x & Hx). exists x. split; auto. eapply Hold; eauto.
Qed.

Lemma tr_names : NoDup (iter_names s').
Proof.
  destruct (iter_pids_spec s' Hw') as (Hiff' & Hnd' & Hlt'). destruct (iter_pids_spec s Hw) as (Hiff & _ & _).
  unfold iter_names. apply NoDup_map_pairwise; auto.
  intros a b Ha Hb Hab E. apply Hiff' in Ha, Hb.
  destruct (getp_some s' a (Hlt' a (proj2 (Hiff' a) Ha))) as (xa & Hxa).
  destruct (getp_some s' b (Hlt' b (proj2 (Hiff' b) Hb))) as (xb & Hxb).
  rewrite (name_of_getp s' a xa Hxa), (name_of_getp s' b xb Hxb) in E.
  assert (Hfresh : forall n m xn xm, reachP s' n -> reachP s' m -> reachP s m -> ~ reachP s n -> getp s' n = Some xn ->
                     getp s' m = Some xm -> pt_name xn <> pt_name xm).
  { intros n m xn xm Hn Hm' Hm Hnn Hxn Hxm E'. destruct (Hreach n Hn) as [|HnN]; [contradiction|].
    destruct (tr_old m xm Hm' Hm Hxm) as (x & Hx & En & _).
    apply (nw_fresh T s xn (HN n xn HnN Hnn Hxn)). rewrite E', En.
    apply (in_iter_names s Hw). exists m, x. split; auto. apply (reach_part_iff s Hw). auto. }
  destruct (reachP_dec s Hw a) as [Ra|Ra], (reachP_dec s Hw b) as [Rb|Rb].
  - destruct (tr_old a xa Ha Ra Hxa) as (ya & Hya & Ena & _). destruct (tr_old b xb Hb Rb Hxb) as (yb & Hyb & Enb & _).
    apply Hab. apply (NoDup_map_inj_on (name_of (st_parts s)) (iter_pids s)).
    + apply (iv_names T s HI).
    + apply Hiff; auto.
    + apply Hiff; auto.
    + rewrite (name_of_getp s a ya Hya), (name_of_getp s b yb Hyb). congruence.
  - apply (Hfresh b a xb xa); auto.
  - apply (Hfresh a b xa xb); auto.
  - destruct (Hreach a Ha) as [|HaN]; [contradiction|]. destruct (Hreach b Hb) as [|HbN]; [contradiction|].
    apply (HNd a b xa xb); auto.
Qed.

Lemma tr_clash : clash_free T s'.
Proof.
  intros p q x y Hx Hy He Hix Hiy.
  apply (reach_part_iff s' Hw') in Hx as [Rp Hx]. apply (reach_part_iff s' Hw') in Hy as [Rq Hy].
  destruct (Opc_proofs.str_eq_dec (pt_ct x) (pt_ct y)) as [|Hne]; auto. exfalso.
  pose proof (tk_fun T HT _ _ _ Hix (eq_ind_r (fun e => Opc.in_table (t_def T) e (pt_ct y) = true) Hiy He) Hne) as Hbin.
  assert (Hnew : forall n xn, reachP s' n -> getp s' n = Some xn -> ~ reachP s n ->
                   Opc.in_table (t_def T) s_bin (pt_ct xn) = true -> False).
  { intros n xn Rn Hxn Hnn Hin. destruct (Hreach n Rn) as [|HnN]; [contradiction|].
    rewrite (nw_bin T s xn (HN n xn HnN Hnn Hxn)) in Hin. discriminate. }
  destruct (reachP_dec s Hw p) as [Ra|Ra], (reachP_dec s Hw q) as [Rb|Rb].
  - destruct (tr_old p x Rp Ra Hx) as (xa & Hxa & Ena & Eca). destruct (tr_old q y Rq Rb Hy) as (yb & Hyb & Enb & Ecb).
    apply Hne. rewrite Eca, Ecb. rewrite Ena, Eca in Hix. rewrite Enb, Ecb in Hiy. rewrite Ena, Enb in He.
    apply (iv_clash T s HI p q xa yb); auto; apply (reach_part_iff s Hw); auto.
  - apply (Hnew q y Rq Hy Rb). rewrite <- Hbin, He. exact Hiy.
  - apply (Hnew p x Rp Hx Ra). rewrite <- Hbin. exact Hix.
  - apply (Hnew p x Rp Hx Ra). rewrite <- Hbin. exact Hix.
Qed.

Lemma tr_dir (tg tg' : list nat) :
  (forall p x, reach_part s p x -> baseURI (pt_name x) = s_slides_dir -> In p tg) -> incl tg tg' ->
  (forall n x', In n N -> ~ reachP s n -> getp s' n = Some x' -> baseURI (pt_name x') = s_slides_dir -> In n tg') ->
  forall p x', reach_part s' p x' -> baseURI (pt_name x') = s_slides_dir -> In p tg'.
Proof.
  intros H1 H2 H3 p x' Hx Hd. apply (reach_part_iff s' Hw') in Hx as [Rp Hx].
  destruct (reachP_dec s Hw p) as [Ra|Ra].
  - destruct (tr_old p x' Rp Ra Hx) as (x & Hxx & En & _). apply H2. apply (H1 p x).
    + apply (reach_part_iff s Hw). auto.
    + rewrite <- En. exact Hd.
  - destruct (Hreach p Rp) as [|HpN]; [contradiction|]. eapply H3; eauto.
Qed.

Lemma tr_name_in nm : In nm (iter_names s') ->
  In nm (iter_names s) \/ exists n x', In n N /\ ~ reachP s n /\ getp s' n = Some x' /\ pt_name x' = nm.
Proof.
  intros H. apply (in_iter_names s' Hw') in H as (p & x' & Hx & En).
  apply (reach_part_iff s' Hw') in Hx as [Rp Hx].
  destruct (reachP_dec s Hw p) as [Ra|Ra].
  - left. destruct (tr_old p x' Rp Ra Hx) as (x & Hxx & En' & _). apply (in_iter_names s Hw).
    exists p, x. split; [apply (reach_part_iff s Hw); auto|congruence].
  - right. destruct (Hreach p Rp) as [|HpN]; [contradiction|]. exists p, x'. auto.
Qed.
End Transfer.

(* ------------------------------------------------------------------------------ *)
(** * The part names the operations allocate *)

Definition stem_ok (stem : str) : bool :=
  match stem with c :: _ => negb (is_dot c) && forallb not_slash stem | [] => false end.

Lemma render_snoc_app d f g : render (d ++ [f]) ++ g = render (d ++ [f ++ g]).
Proof.
  rewrite !PackUri_proofs.render_snoc. destruct d; rewrite <- app_assoc; reflexivity.
Qed.

Lemma wf_segb_stem stem rest : stem_ok stem = true -> forallb not_slash rest = true -> wf_segb (stem ++ rest) = true.
Proof.
  destruct stem as [|c r]; [discriminate|]. simpl. intros H Hr. apply andb_true_iff in H as [Hd Hs].
  apply andb_true_iff in Hs as [Hc Hs]. apply negb_true_iff in Hd. unfold is_dot in Hd.
  unfold wf_segb. change ((c :: r) ++ rest) with (c :: (r ++ rest)). cbn [forallb].
  rewrite forallb_app, Hc, Hs, Hr. unfold s_dot, s_dotdot. cbn [str_eqb]. rewrite Hd. reflexivity.
Qed.

Lemma seg_free_wf d : wf_name d -> Opc_proofs.seg_free d.
Proof.
  intros H. unfold Opc_proofs.seg_free. eapply Forall_impl; [|exact H]. intros a Ha.
  apply PackUri_proofs.wf_segb_inv in Ha as (_ & Ha & _). exact Ha.
Qed.

Lemma part_name_snoc d f : wf_name d -> d <> [] -> last d [] <> s_rels_dir -> wf_segb f = true ->
  Opc.part_name (render (d ++ [f])).
Proof.
  intros Hd Hne Hl Hf. exists (d ++ [f]).
  assert (Hwf : wf_name (d ++ [f])) by (apply Forall_app; split; auto).
  split; auto. split; [intros E; apply app_eq_nil in E as [_ E]; discriminate|]. split; auto. split.
  - rewrite Opc_proofs.ct_uri_render. intros E. apply Opc_proofs.render_inj in E.
    + destruct d as [|a [|b d']]; [contradiction|discriminate|discriminate].
    + intros E'; apply app_eq_nil in E' as [_ E']; discriminate.
    + discriminate.
    + apply seg_free_wf. exact Hwf.
    + repeat constructor.
  - intros (d' & f' & E). change [s_rels_dir; f'] with ([s_rels_dir] ++ [f']) in E. rewrite app_assoc in E.
    apply app_inj_tail in E as [E _]. apply Hl. rewrite E. apply last_last.
Qed.

Lemma dec_not_slash n : forallb not_slash (dec_of_N n) = true.
Proof.
  pose proof (Ids_proofs.dec_of_N_digits n) as H. rewrite forallb_forall in *. intros c Hc.
  apply PackUri_proofs.digit_not_slash. auto.
Qed.

(** a name made of a directory, a stem, decimal digits and a tail *)
Lemma tmpl_name_facts d stem post k :
  wf_name d -> d <> [] -> last d [] <> s_rels_dir -> stem_ok stem = true -> forallb not_slash post = true ->
  Opc.part_name (Ids.tmpl_apply (render (d ++ [stem])) post k) /\
  baseURI (Ids.tmpl_apply (render (d ++ [stem])) post k) = render d.
Proof.
  intros Hd Hne Hl Hs Hp. unfold Ids.tmpl_apply. rewrite render_snoc_app.
  assert (Hf : wf_segb (stem ++ dec_of_N k ++ post) = true).
  { apply wf_segb_stem; auto. rewrite forallb_app, dec_not_slash, Hp. reflexivity. }
  split; [apply part_name_snoc; auto|apply PackUri_proofs.baseURI_render; auto].
Qed.

Definition seg (s : String.string) : str := asc s.

Definition known_tps : list (str * str) := [tp_theme; tp_notes_slide; tp_chart; tp_xlsx; tp_docx; tp_pptx; tp_ole].

Definition other_dirs : list str :=
  [asc "/ppt/theme"; asc "/ppt/notesSlides"; asc "/ppt/charts"; asc "/ppt/embeddings"; asc "/ppt/media"].

(** a name allocated from one of the templates: a part name in one of the directories above *)
Lemma tp_case d st post k : wf_name d -> d <> [] -> last d [] <> s_rels_dir -> stem_ok st = true ->
  forallb not_slash post = true -> In (render d) other_dirs ->
  Opc.part_name (Ids.tmpl_apply (render (d ++ [st])) post k) /\
  In (baseURI (Ids.tmpl_apply (render (d ++ [st])) post k)) other_dirs.
Proof.
  intros H1 H2 H3 H4 H5 H6. destruct (tmpl_name_facts d st post k H1 H2 H3 H4 H5) as [P B].
  split; auto. rewrite B. exact H6.
Qed.

Ltac tp_solve d st :=
  apply (tp_case d st);
  [repeat constructor|discriminate|vm_compute; discriminate|reflexivity|reflexivity|vm_compute; tauto].

Lemma tp_name_facts tp k : In tp known_tps ->
  Opc.part_name (Ids.tmpl_apply (fst tp) (snd tp) k) /\ In (baseURI (Ids.tmpl_apply (fst tp) (snd tp) k)) other_dirs.
Proof.
  intros H. simpl in H. destruct H as [<-|[<-|[<-|[<-|[<-|[<-|[<-|[]]]]]]]].
  - tp_solve [asc "ppt"; asc "theme"] (asc "theme").
  - tp_solve [asc "ppt"; asc "notesSlides"] (asc "notesSlide").
  - tp_solve [asc "ppt"; asc "charts"] (asc "chart").
  - tp_solve [asc "ppt"; asc "embeddings"] (asc "Microsoft_Excel_Sheet").
  - tp_solve [asc "ppt"; asc "embeddings"] (asc "Microsoft_Word_Document").
  - tp_solve [asc "ppt"; asc "embeddings"] (asc "Microsoft_PowerPoint_Presentation").
  - tp_solve [asc "ppt"; asc "embeddings"] (asc "oleObject").
Qed.

Lemma slide_name_facts k : Opc.part_name (Ids.slide_name k) /\ baseURI (Ids.slide_name k) = s_slides_dir.
Proof.
  unfold Ids.slide_name. change Ids.s_slide_pre with (render ([asc "ppt"; asc "slides"] ++ [asc "slide"])).
  destruct (tmpl_name_facts [asc "ppt"; asc "slides"] (asc "slide") Ids.s_xml_post k) as [P B];
    [repeat constructor|discriminate|discriminate|reflexivity|reflexivity|].
  split; auto.
Qed.

Lemma ext_ok_spec e : ext_ok e = true -> PackUri_proofs.no_dot e = true /\ forallb not_slash e = true.
Proof.
  unfold ext_ok, PackUri_proofs.no_dot. intros H. split; apply forallb_forall; intros c Hc;
    rewrite forallb_forall in H; specialize (H c Hc); apply andb_true_iff in H; tauto.
Qed.

Lemma media_dir_name stem (i : Z) e : stem_ok stem = true -> (0 < i)%Z -> ext_ok e = true ->
  let n := (c_slash :: asc "ppt/media/") ++ stem ++ Wire.show_Z i ++ [c_dot] ++ e in
  packuri_new n = Ok n /\ Opc.part_name n /\ baseURI n = asc "/ppt/media".
Proof.
  intros Hs Hi He. cbv zeta. split; [reflexivity|].
  rewrite (Ids_proofs.show_Z_pos i Hi).
  assert (E : (c_slash :: asc "ppt/media/") ++ stem ++ dec_of_N (Z.to_N i) ++ [c_dot] ++ e
              = Ids.tmpl_apply (render ([asc "ppt"; asc "media"] ++ [stem])) (c_dot :: e) (Z.to_N i)).
  { unfold Ids.tmpl_apply. rewrite PackUri_proofs.render_snoc.
    change (render [asc "ppt"; asc "media"]) with (c_slash :: asc "ppt/media").
    change (c_slash :: asc "ppt/media/") with ((c_slash :: asc "ppt/media") ++ [c_slash]).
    rewrite <- !app_assoc. reflexivity. }
  rewrite E. destruct (tmpl_name_facts [asc "ppt"; asc "media"] stem (c_dot :: e) (Z.to_N i)) as [P B];
    [repeat constructor|discriminate|vm_compute; discriminate|exact Hs| |].
  - cbn [forallb]. destruct (ext_ok_spec e He) as [_ H2]. rewrite H2. reflexivity.
  - split; auto.
Qed.

(* ------------------------------------------------------------------------------ *)
(** * Replacing one part object (not the presentation part, not a slide master) *)

Definition type_filter (t : str) (rs : list relr) : list relr := filter (fun r => str_eqb (rr_type r) t) rs.

Lemma part_with_reltype_filter t rs rs' : type_filter t rs' = type_filter t rs ->
  part_with_reltype t rs' = part_with_reltype t rs.
Proof. unfold part_with_reltype, type_filter. intros ->. reflexivity. Qed.

Lemma name_of_setp s p x x' q : getp s p = Some x -> pt_name x' = pt_name x ->
  name_of (st_parts (setp s p x')) q = name_of (st_parts s) q.
Proof.
  intros Hx En. unfold name_of. change (nth_error (st_parts (setp s p x')) q) with (getp (setp s p x') q).
  change (nth_error (st_parts s) q) with (getp s q).
  destruct (Nat.eq_dec p q) as [<-|Hne].
  - rewrite getp_setp_same by (eapply getp_lt; eauto). rewrite Hx. exact En.
  - rewrite getp_setp_other by auto. reflexivity.
Qed.

Section SetPart.
Variable T : tables.
Variable s : state.
Variables (p : nat) (x x' : part) (N : list nat).
Hypothesis HT : tables_ok T.
Hypothesis HI : Inv T s.
Hypothesis Hx : getp s p = Some x.
Hypothesis En : pt_name x' = pt_name x.
Hypothesis Ec : pt_ct x' = pt_ct x.
Hypothesis Hgood : good_part (length (st_parts s)) x'.
Hypothesis Hnp : p <> st_pres s.
Hypothesis Hmaster : pt_ct x = ct_slide_master -> forall rid lp, In rid (pt_idl x') ->
  related_part rid (pt_rels x') = Ok lp -> In rid (pt_idl x) /\ related_part rid (pt_rels x) = Ok lp.
Hypothesis Hmf : type_filter rt_slide_master (pt_rels x') = type_filter rt_slide_master (pt_rels x).
Hypothesis HpN : ~ In p N.
Hypothesis Hedges : forall q, In q (int_targets (pt_rels x')) ->
  In q (int_targets (pt_rels x)) \/ reachP s q \/ In q N \/ ~ reachP s p.
Hypothesis HNcl : forall n y q, In n N -> getp s n = Some y -> In q (int_targets (pt_rels y)) -> reachP s q \/ In q N.
Hypothesis HNok : forall n y, In n N -> ~ reachP s n -> getp s n = Some y ->
  new_ok T s y /\ baseURI (pt_name y) <> s_slides_dir /\ pt_name y <> n_notes_master /\ pt_name y <> n_core.
Hypothesis HNd : forall n m y z, In n N -> In m N -> n <> m -> ~ reachP s n -> ~ reachP s m ->
  getp s n = Some y -> getp s m = Some z -> pt_name y <> pt_name z.

Let s' := setp s p x'.
Let Hw : wfg s := inv_wfg T s HI.
Let Hlt : p < length (st_parts s) := getp_lt s p x Hx.

Lemma sp_getp q : getp s' q = if Nat.eqb p q then Some x' else getp s q.
Proof.
  unfold s'. destruct (Nat.eqb_spec p q) as [<-|Hne]; [apply getp_setp_same; auto|apply getp_setp_other; auto].
Qed.

Lemma sp_parts q y : getp s' q = Some y -> good_part (length (st_parts s')) y.
Proof.
  unfold s'. rewrite length_setp. fold s'. rewrite sp_getp. destruct (Nat.eqb p q).
  - intros [= <-]. exact Hgood.
  - apply (iv_parts T s HI).
Qed.

Lemma sp_wfg : wfg s'.
Proof.
  split.
  - unfold s'. rewrite length_setp. apply (iv_ptgts T s HI).
  - intros a y q Hy Hq. exact (gp_tgts _ _ (sp_parts a y Hy) q Hq).
Qed.

Lemma sp_reach q : reachP s' q -> reachP s q \/ In q N.
Proof.
  apply (reach_frame s s' (fun q => In q N)).
  - intros r Hr. left. constructor. exact Hr.
  - intros a y q0 Hy Hq Ha. rewrite sp_getp in Hy. destruct (Nat.eqb_spec p a) as [<-|Hne].
    + injection Hy as <-. destruct Ha as [Ha|Ha]; [|contradiction].
      destruct (Hedges q0 Hq) as [H|[H|[H|H]]]; auto; [|contradiction]. left. eapply rp1; eauto.
    + destruct Ha as [Ha|Ha]; [left; eapply rp1; eauto|eapply HNcl; eauto].
Qed.

Lemma sp_old q y y' : reachP s q -> getp s q = Some y -> getp s' q = Some y' ->
  pt_name y' = pt_name y /\ pt_ct y' = pt_ct y.
Proof.
  intros _ Hy Hy'. rewrite sp_getp in Hy'. destruct (Nat.eqb_spec p q) as [<-|Hne].
  - injection Hy' as <-. rewrite Hx in Hy. injection Hy as <-. auto.
  - rewrite Hy in Hy'. injection Hy' as <-. auto.
Qed.

Lemma sp_N n y' : In n N -> getp s' n = Some y' -> getp s n = Some y'.
Proof.
  intros Hn Hy'. rewrite sp_getp in Hy'. destruct (Nat.eqb_spec p n) as [<-|Hne]; [contradiction|exact Hy'].
Qed.

Theorem inv_setp_gen : Inv T s'.
Proof.
  assert (Hnames : forall q, name_of (st_parts s') q = name_of (st_parts s) q)
    by (intros q; apply (name_of_setp s p x x' q Hx En)).
  assert (HNnew : forall n y', In n N -> ~ reachP s n -> getp s' n = Some y' -> new_ok T s y').
  { intros n y' Hn Hr Hy'. apply (HNok n y' Hn Hr). apply sp_N; auto. }
  assert (HNdist : forall n m y z, In n N -> In m N -> n <> m -> ~ reachP s n -> ~ reachP s m ->
                     getp s' n = Some y -> getp s' m = Some z -> pt_name y <> pt_name z).
  { intros n m y z Hn Hm Hne Rn Rm Hy Hz. apply (HNd n m y z); auto; apply sp_N; auto. }
  constructor.
  - exact sp_parts.
  - unfold s'. rewrite length_setp. apply (iv_ptgts T s HI).
  - apply (iv_pkeys T s HI).
  - apply (iv_pnocache T s HI).
  - apply (tr_names T s s' N HI sp_wfg sp_reach sp_old HNnew HNdist).
  - apply (iv_main T s HI).
  - destruct (iv_pres T s HI) as (pp & Hpp & Hc). exists pp. split; auto.
    change (st_pres s') with (st_pres s). rewrite sp_getp.
    destruct (Nat.eqb_spec p (st_pres s)); [contradiction|exact Hpp].
  - apply (tr_clash T s s' N HT HI sp_wfg sp_reach sp_old HNnew).
  - destruct (iv_slides T s HI) as (pp & tg & Hpp & HF & Hnd & Hdir & Hall & Hnm').
    exists pp, tg. split.
    { change (st_pres s') with (st_pres s). rewrite sp_getp.
      destruct (Nat.eqb_spec p (st_pres s)); [contradiction|exact Hpp]. }
    split; auto. split; auto. split; [intros q Hq; rewrite Hnames; auto|]. split.
    + apply (tr_dir T s s' N HI sp_wfg sp_reach sp_old tg tg); auto; [apply incl_refl|].
      intros n y' Hn Rn Hy' Hd. exfalso. destruct (HNok n y' Hn Rn (sp_N n y' Hn Hy')) as (_ & H & _). auto.
    + intros Hs j q Hj. rewrite Hnames. apply Hnm'; auto.
  - intros m mx rid lp lx m' Hm Hct Hrid Hlp Hlx Hm'.
    rewrite sp_getp in Hm. destruct (Nat.eqb_spec p m) as [<-|Hne].
    { injection Hm as <-. rewrite Ec in Hct. destruct (Hmaster Hct rid lp Hrid Hlp) as [Hrid0 Hlp0].
      rewrite sp_getp in Hlx. destruct (Nat.eqb_spec p lp) as [<-|Hne2].
      - injection Hlx as <-. rewrite (part_with_reltype_filter _ _ _ Hmf) in Hm'. eapply (iv_master T s HI); eauto.
      - eapply (iv_master T s HI); eauto. }
    rewrite sp_getp in Hlx. destruct (Nat.eqb_spec p lp) as [<-|Hne2].
    + injection Hlx as <-. rewrite (part_with_reltype_filter _ _ _ Hmf) in Hm'.
      eapply (iv_master T s HI); eauto.
    + eapply (iv_master T s HI); eauto.
  - destruct (iv_fixed T s HI) as (F1 & F2 & F3).
    assert (Hpres : forall pp, getp s' (st_pres s') = Some pp -> getp s (st_pres s) = Some pp).
    { intros pp. change (st_pres s') with (st_pres s). rewrite sp_getp.
      destruct (Nat.eqb_spec p (st_pres s)); [contradiction|auto]. }
    assert (Hin : forall nm, nm = n_notes_master \/ nm = n_core -> In nm (iter_names s') -> In nm (iter_names s)).
    { intros nm Hnmc H. destruct (tr_name_in T s s' N HI sp_wfg sp_reach sp_old nm H) as [|(n & y' & Hn & Rn & Hy' & E)]; auto.
      exfalso. destruct (HNok n y' Hn Rn (sp_N n y' Hn Hy')) as (_ & _ & H1 & H2). destruct Hnmc; congruence. }
    split; [|split].
    + intros pp Hpp H. apply F1; auto.
    + intros H. apply F2; auto.
    + intros pp q Hpp. apply F3; auto.
Qed.
End SetPart.

Theorem inv_setp T s p x x' N : tables_ok T -> Inv T s -> getp s p = Some x ->
  pt_name x' = pt_name x -> pt_ct x' = pt_ct x -> good_part (length (st_parts s)) x' ->
  p <> st_pres s -> pt_ct x <> ct_slide_master ->
  type_filter rt_slide_master (pt_rels x') = type_filter rt_slide_master (pt_rels x) -> ~ In p N ->
  (forall q, In q (int_targets (pt_rels x')) -> In q (int_targets (pt_rels x)) \/ reachP s q \/ In q N \/ ~ reachP s p) ->
  (forall n y q, In n N -> getp s n = Some y -> In q (int_targets (pt_rels y)) -> reachP s q \/ In q N) ->
  (forall n y, In n N -> ~ reachP s n -> getp s n = Some y ->
     new_ok T s y /\ baseURI (pt_name y) <> s_slides_dir /\ pt_name y <> n_notes_master /\ pt_name y <> n_core) ->
  (forall n m y z, In n N -> In m N -> n <> m -> ~ reachP s n -> ~ reachP s m ->
     getp s n = Some y -> getp s m = Some z -> pt_name y <> pt_name z) ->
  Inv T (setp s p x').
Proof.
  intros HT HI Hx En Ec G Hnp Hnm Hmf HpN He H1 H2 H3.
  apply (inv_setp_gen T s p x x' N); auto. intros E. contradiction.
Qed.

(* ------------------------------------------------------------------------------ *)
(** * A new part object nobody relates to yet *)

Lemma reachP_lt s : wfg s -> forall p, reachP s p -> p < length (st_parts s).
Proof. intros Hw p Hp. destruct (iter_pids_spec s Hw) as (Hiff & _ & Hlt). apply Hlt. apply Hiff. exact Hp. Qed.

Lemma related_part_target rid rs q : related_part rid rs = Ok q -> In q (int_targets rs).
Proof.
  unfold related_part. destruct (find_rel rid rs) as [r|] eqn:E; [|discriminate].
  destruct (rr_tgt r) eqn:Et; [|discriminate]. intros [= <-]. apply find_rel_In in E as [Hin _].
  apply int_targets_In. eauto.
Qed.

Section Append.
Variable T : tables.
Variable s : state.
Variable y : part.
Hypothesis HT : tables_ok T.
Hypothesis HI : Inv T s.
Hypothesis Hgood : good_part (S (length (st_parts s))) y.
Hypothesis Hidl : pt_idl y = [].

Let s' := with_parts s (st_parts s ++ [y]).
Let n := length (st_parts s).
Let Hw : wfg s := inv_wfg T s HI.

Lemma ap_len : length (st_parts s') = S n.
Proof. unfold s'. cbn. rewrite app_length. simpl. unfold n. lia. Qed.

Lemma ap_getp q : getp s' q = if Nat.ltb q n then getp s q else if Nat.eqb q n then Some y else None.
Proof.
  unfold s', n. destruct (Nat.ltb_spec q (length (st_parts s))).
  - apply getp_app_old. auto.
  - destruct (Nat.eqb_spec q (length (st_parts s))) as [->|Hne]; [apply getp_app_new|].
    unfold getp. cbn. apply nth_error_None. rewrite app_length. simpl. lia.
Qed.

Lemma ap_getp_old q z : getp s q = Some z -> getp s' q = Some z.
Proof. intros H. rewrite ap_getp. pose proof (getp_lt s q z H). destruct (Nat.ltb_spec q n); [auto|unfold n in *; lia]. Qed.

Lemma ap_parts q z : getp s' q = Some z -> good_part (length (st_parts s')) z.
Proof.
  rewrite ap_len, ap_getp. destruct (Nat.ltb q n).
  - intros H. eapply good_part_mono; [|apply (iv_parts T s HI q z H)]. unfold n. lia.
  - destruct (Nat.eqb q n); [intros [= <-]; exact Hgood|discriminate].
Qed.

Lemma ap_wfg : wfg s'.
Proof.
  split.
  - intros q Hq. rewrite ap_len. pose proof (iv_ptgts T s HI q Hq). unfold n. lia.
  - intros a z q Hz Hq. exact (gp_tgts _ _ (ap_parts a z Hz) q Hq).
Qed.

Lemma ap_reach q : reachP s' q -> reachP s q \/ In q (@nil nat).
Proof.
  apply (reach_frame s s' (fun q => In q (@nil nat))).
  - intros r Hr. left. constructor. exact Hr.
  - intros a z q0 Hz Hq [Ha|[]]. left. pose proof (reachP_lt s Hw a Ha) as Hlt.
    rewrite ap_getp in Hz. destruct (Nat.ltb_spec a n); [|unfold n in *; lia]. eapply rp1; eauto.
Qed.

Lemma ap_reach_iff q : reachP s' q <-> reachP s q.
Proof.
  split.
  - intros H. destruct (ap_reach q H) as [|[]]; auto.
  - intros H. induction H as [q Hq|a q z Ha IH Hz Hq]; [constructor; exact Hq|].
    eapply rp1; eauto. apply ap_getp_old. exact Hz.
Qed.

Lemma ap_old q z z' : reachP s q -> getp s q = Some z -> getp s' q = Some z' ->
  pt_name z' = pt_name z /\ pt_ct z' = pt_ct z.
Proof. intros _ Hz Hz'. rewrite (ap_getp_old q z Hz) in Hz'. injection Hz' as <-. auto. Qed.

Lemma ap_name q : q < n -> name_of (st_parts s') q = name_of (st_parts s) q.
Proof. intros H. unfold name_of. change (nth_error (st_parts s') q) with (getp s' q). rewrite ap_getp.
  destruct (Nat.ltb_spec q n); [reflexivity|lia]. Qed.

Theorem inv_append : Inv T s'.
Proof.
  assert (HN0 : forall m y', In m (@nil nat) -> ~ reachP s m -> getp s' m = Some y' -> new_ok T s y') by (intros m y' []).
  assert (HNd0 : forall a b ya yb, In a (@nil nat) -> In b (@nil nat) -> a <> b -> ~ reachP s a -> ~ reachP s b ->
                   getp s' a = Some ya -> getp s' b = Some yb -> pt_name ya <> pt_name yb) by (intros a b ya yb []).
  constructor.
  - exact ap_parts.
  - intros q Hq. rewrite ap_len. pose proof (iv_ptgts T s HI q Hq). unfold n. lia.
  - apply (iv_pkeys T s HI).
  - apply (iv_pnocache T s HI).
  - apply (tr_names T s s' [] HI ap_wfg ap_reach ap_old HN0 HNd0).
  - apply (iv_main T s HI).
  - destruct (iv_pres T s HI) as (pp & Hpp & Hc). exists pp. split; auto. apply ap_getp_old. exact Hpp.
  - apply (tr_clash T s s' [] HT HI ap_wfg ap_reach ap_old HN0).
  - destruct (iv_slides T s HI) as (pp & tg & Hpp & HF & Hnd & Hdir & Hall & Hnm').
    assert (Htg : forall q, In q tg -> q < n).
    { intros q Hq. apply In_nth_error in Hq as (j & Hj).
      assert (exists rid, nth_error (pt_idl pp) j = Some rid /\ related_part rid (pt_rels pp) = Ok q) as (rid & _ & Hr).
      { clear - HF Hj. revert j Hj. induction HF; intros j Hj; [destruct j; discriminate|].
        destruct j; simpl in *; [injection Hj as <-; eauto|eauto]. }
      apply related_part_target in Hr. exact (gp_tgts _ _ (iv_parts T s HI _ pp Hpp) q Hr). }
    exists pp, tg. split; [apply ap_getp_old; exact Hpp|]. split; auto. split; auto.
    split; [intros q Hq; rewrite ap_name; auto|]. split.
    + apply (tr_dir T s s' [] HI ap_wfg ap_reach ap_old tg tg); auto; [apply incl_refl|intros m y' []].
    + intros Hs j q Hj. rewrite ap_name; [apply Hnm'; auto|]. apply Htg. eapply nth_error_In; eauto.
  - intros m mx rid lp lx m' Hm Hct Hrid Hlp Hlx Hm'.
    rewrite ap_getp in Hm. destruct (Nat.ltb_spec m n).
    + assert (Hlp' : lp < n).
      { apply related_part_target in Hlp. exact (gp_tgts _ _ (iv_parts T s HI m mx Hm) lp Hlp). }
      rewrite ap_getp in Hlx. destruct (Nat.ltb_spec lp n); [|lia]. eapply (iv_master T s HI); eauto.
    + destruct (Nat.eqb m n); [|discriminate]. injection Hm as <-. rewrite Hidl in Hrid. destruct Hrid.
  - destruct (iv_fixed T s HI) as (F1 & F2 & F3).
    assert (Hpres : forall pp, getp s' (st_pres s') = Some pp -> getp s (st_pres s) = Some pp).
    { intros pp Hpp'. destruct (iv_pres T s HI) as (pp0 & Hpp0 & _).
      change (st_pres s') with (st_pres s) in Hpp'. rewrite (ap_getp_old _ _ Hpp0) in Hpp'. congruence. }
    assert (Hin : forall nm, In nm (iter_names s') -> In nm (iter_names s)).
    { intros nm H. destruct (tr_name_in T s s' [] HI ap_wfg ap_reach ap_old nm H) as [|(m & y' & [] & _)]; auto. }
    split; [|split].
    + intros pp Hpp H. apply F1; auto.
    + intros H. apply F2; auto.
    + intros pp q Hpp. apply F3; auto.
Qed.
End Append.

(* ------------------------------------------------------------------------------ *)
(** * Local facts: relationship collections and good_part under the edits the operations make *)

Lemma find_rel_app_old rid rs extra : In rid (map rr_id rs) -> find_rel rid (rs ++ extra) = find_rel rid rs.
Proof.
  induction rs as [|a rs IH]; simpl; [tauto|]. intros H.
  destruct (str_eqb_spec (rr_id a) rid) as [E|E]; auto. apply IH. destruct H; [contradiction|auto].
Qed.

Lemma find_rel_app_new rid rs r : ~ In rid (map rr_id rs) -> rr_id r = rid -> find_rel rid (rs ++ [r]) = Some r.
Proof.
  induction rs as [|a rs IH]; simpl; intros Hn E.
  - rewrite E, str_eqb_refl. reflexivity.
  - destruct (str_eqb_spec (rr_id a) rid) as [E'|E']; [exfalso; apply Hn; auto|]. apply IH; auto.
Qed.

Lemma int_targets_app a b : int_targets (a ++ b) = int_targets a ++ int_targets b.
Proof. unfold int_targets. apply flat_map_app. Qed.

Lemma type_filter_app t a b : type_filter t (a ++ b) = type_filter t a ++ type_filter t b.
Proof. unfold type_filter. apply filter_app. Qed.

(** get_or_add never raises; it either finds or appends under a fresh rId *)
Lemma get_or_add_cases t g rs :
  (exists rid r, get_or_add t g rs = Ok (rs, rid) /\ In r rs /\ rr_id r = rid /\ rr_type r = t /\ rr_tgt r = g) \/
  (exists rid, get_or_add t g rs = Ok (rs ++ [mkR rid t g None], rid) /\ ~ In rid (map rr_id rs) /\
               forall r, In r rs -> rr_type r = t -> rr_tgt r <> g).
Proof.
  unfold get_or_add, get_matching.
  destruct (find (fun r => str_eqb (rr_type r) t && tgt_eqb (rr_tgt r) g) rs) as [r|] eqn:E.
  - left. apply find_some in E as [Hin Hb]. apply andb_true_iff in Hb as [H1 H2]. apply str_eqb_eq in H1.
    exists (rr_id r), r. repeat split; auto.
    destruct (rr_tgt r), g; simpl in H2; try discriminate.
    + apply Nat.eqb_eq in H2. subst; auto.
    + apply str_eqb_eq in H2. subst; auto.
  - right. unfold add_rel. destruct (Ids_proofs.rid_fresh (map rr_id rs)) as (rid & Hr & Hf & _).
    rewrite Hr. cbn [bind]. exists rid. repeat split; auto.
    intros r Hin Ht Hg. pose proof (find_none _ _ E r Hin) as Hb. cbn beta in Hb.
    rewrite Ht, Hg, str_eqb_refl in Hb. simpl in Hb.
    destruct g; simpl in Hb; [rewrite Nat.eqb_refl in Hb|rewrite str_eqb_refl in Hb]; discriminate.
Qed.

Lemma good_add_rel n x rid t g :
  good_part n x -> pt_ct x <> ct_slide_master -> ~ In rid (map rr_id (pt_rels x)) -> (forall q, g = TInt q -> q < n) ->
  good_part n (with_rels x (pt_rels x ++ [mkR rid t g None])).
Proof.
  intros [H1 H2 H3 H4 H5 H6 H7 H8 H9 H10] Hm Hf Hq. constructor; cbn [pt_name pt_base pt_rels pt_ct pt_idl pt_refs pt_slots with_rels]; auto.
  - intros q. rewrite int_targets_app. intros Hin. apply in_app_or in Hin as [Hin|Hin]; auto.
    destruct g; simpl in Hin; [destruct Hin as [<-|[]]; auto|destruct Hin].
  - rewrite map_app. simpl. apply Ids_proofs.NoDup_snoc; auto.
  - intros r Hr. apply in_app_or in Hr as [Hr|[<-|[]]]; auto.
  - intros kr Hkr. rewrite map_app. apply in_or_app. left. apply H6. exact Hkr.
  - intros k r x' Hin Hk Hfr. rewrite find_rel_app_old in Hfr by (apply (H6 (k, r)); auto). eapply H7; eauto.
  - intros r Hr. destruct (H8 r Hr) as (x' & Hx' & Ht). exists x'. split; auto.
    rewrite find_rel_app_old; auto. apply find_rel_In in Hx' as [Hin <-]. apply in_map. auto.
  - intros Hc. contradiction.
Qed.

Lemma all_refs_with_refs x l : all_refs (with_refs x l) = map (fun r => (k_id, r)) (pt_idl x) ++ l ++ slot_refs (pt_slots x).
Proof. reflexivity. Qed.

(** appending references that name relationships of the right kind *)
Lemma good_add_refs n x krs :
  good_part n x -> pt_ct x <> ct_slide_master ->
  (forall k r, In (k, r) krs -> exists r', find_rel r (pt_rels x) = Some r' /\ (k <> k_id -> ~ In (rr_type r') link_types)) ->
  good_part n (with_refs x (pt_refs x ++ krs)).
Proof.
  intros [H1 H2 H3 H4 H5 H6 H7 H8 H9 H10] Hm Hk. constructor; cbn [pt_name pt_base pt_rels pt_ct pt_idl pt_refs pt_slots with_refs]; auto.
  - intros kr. rewrite all_refs_with_refs. intros Hin.
    apply in_app_or in Hin as [Hin|Hin]; [apply H6; unfold all_refs; apply in_or_app; auto|].
    apply in_app_or in Hin as [Hin|Hin]; [|apply H6; unfold all_refs; apply in_or_app; right; apply in_or_app; auto].
    apply in_app_or in Hin as [Hin|Hin]; [apply H6; unfold all_refs; apply in_or_app; right; apply in_or_app; auto|].
    destruct kr as [k r]. destruct (Hk k r Hin) as (r' & Hr' & _). apply find_rel_In in Hr' as [Hi <-]. cbn [snd]. apply in_map; auto.
  - intros k r x'. rewrite all_refs_with_refs. intros Hin Hkk Hf.
    assert (Hold : In (k, r) (all_refs x) -> ~ In (rr_type x') link_types) by (intros Ho; eapply H7; eauto).
    apply in_app_or in Hin as [Hin|Hin]; [apply Hold; unfold all_refs; apply in_or_app; auto|].
    apply in_app_or in Hin as [Hin|Hin]; [|apply Hold; unfold all_refs; apply in_or_app; right; apply in_or_app; auto].
    apply in_app_or in Hin as [Hin|Hin]; [apply Hold; unfold all_refs; apply in_or_app; right; apply in_or_app; auto|].
    destruct (Hk k r Hin) as (r' & Hr' & Hn). rewrite Hf in Hr'. injection Hr' as <-. auto.
  - intros Hc. contradiction.
Qed.

Lemma slot_refs_app a b : slot_refs (a ++ b) = slot_refs a ++ slot_refs b.
Proof. unfold slot_refs. apply flat_map_app. Qed.

Lemma good_add_slot n x : good_part n x -> pt_ct x <> ct_slide_master ->
  good_part n (with_slots x (pt_slots x ++ [(None, None)])).
Proof.
  intros [H1 H2 H3 H4 H5 H6 H7 H8 H9 H10] Hm.
  assert (E : slot_refs (pt_slots x ++ [(None, None)]) = slot_refs (pt_slots x)).
  { rewrite slot_refs_app. simpl. apply app_nil_r. }
  constructor; cbn [pt_name pt_base pt_rels pt_ct pt_idl pt_refs pt_slots with_slots]; auto.
  - intros kr. unfold all_refs. cbn [pt_idl pt_refs pt_slots with_slots]. rewrite E. apply H6.
  - intros k r x'. unfold all_refs. cbn [pt_idl pt_refs pt_slots with_slots]. rewrite E. apply H7.
  - intros r. unfold slot_rids. cbn [pt_slots with_slots]. rewrite E. apply H8.
  - intros Hc. contradiction.
Qed.

(* ------------------------------------------------------------------------------ *)
(** * part.relate_to *)

Lemma m_part_run s p x : getp s p = Some x -> m_part p s = (s, Ok x).
Proof. intros H. unfold m_part, bindM, getS. rewrite H. reflexivity. Qed.

Lemma m_setp_run s p x : m_setp p x s = (setp s p x, Ok tt).
Proof. reflexivity. Qed.

Lemma m_relate_run s src t g x rs rid : getp s src = Some x -> get_or_add t g (pt_rels x) = Ok (rs, rid) ->
  m_relate src t g s = (setp s src (with_rels x rs), Ok rid).
Proof.
  intros Hx Hg. unfold m_relate, bindM. rewrite (m_part_run s src x Hx). unfold lift. rewrite Hg. reflexivity.
Qed.

Lemma with_rels_same x : with_rels x (pt_rels x) = x.
Proof. destruct x; reflexivity. Qed.

Definition rel_facts (x : part) (rs : list relr) (rid t : str) (g : tgt) : Prop :=
  (rs = pt_rels x \/ (rs = pt_rels x ++ [mkR rid t g None] /\ ~ In rid (map rr_id (pt_rels x)))) /\
  (exists r, find_rel rid rs = Some r /\ rr_type r = t /\ rr_tgt r = g) /\
  (forall k, In k (map rr_id (pt_rels x)) -> find_rel k rs = find_rel k (pt_rels x)).

Lemma get_or_add_facts n x t g : good_part n x ->
  exists rs rid, get_or_add t g (pt_rels x) = Ok (rs, rid) /\ rel_facts x rs rid t g.
Proof.
  intros G. destruct (get_or_add_cases t g (pt_rels x)) as [(rid & r & E & Hin & Hid & Ht & Hg)|(rid & E & Hf & _)].
  - exists (pt_rels x), rid. split; auto. split; [left; auto|]. split; auto.
    exists r. split; auto. rewrite <- Hid. apply find_rel_NoDup; auto. apply (gp_keys _ _ G).
  - exists (pt_rels x ++ [mkR rid t g None]), rid. split; auto. split; [right; auto|]. split.
    + eexists. split; [apply find_rel_app_new; auto|]. auto.
    + intros k Hk. apply find_rel_app_old. auto.
Qed.

Section Relate.
Variable T : tables.
Variable s : state.
Variables (src : nat) (x : part) (t : str) (q : nat) (N : list nat).
Hypothesis HT : tables_ok T.
Hypothesis HI : Inv T s.
Hypothesis Hx : getp s src = Some x.
Hypothesis Hnp : src <> st_pres s.
Hypothesis Hnm : pt_ct x <> ct_slide_master.
Hypothesis Ht : t <> rt_slide_master.
Hypothesis Hq : q < length (st_parts s).
Hypothesis HsN : ~ In src N.
Hypothesis Hqr : reachP s q \/ In q N \/ ~ reachP s src.
Hypothesis HNcl : forall n y q', In n N -> getp s n = Some y -> In q' (int_targets (pt_rels y)) -> reachP s q' \/ In q' N.
Hypothesis HNok : forall n y, In n N -> ~ reachP s n -> getp s n = Some y ->
  new_ok T s y /\ baseURI (pt_name y) <> s_slides_dir /\ pt_name y <> n_notes_master /\ pt_name y <> n_core.
Hypothesis HNd : forall n m y z, In n N -> In m N -> n <> m -> ~ reachP s n -> ~ reachP s m ->
  getp s n = Some y -> getp s m = Some z -> pt_name y <> pt_name z.

Theorem relate_inv :
  exists rs rid, get_or_add t (TInt q) (pt_rels x) = Ok (rs, rid) /\ rel_facts x rs rid t (TInt q) /\
                 Inv T (setp s src (with_rels x rs)).
Proof.
  pose proof (iv_parts T s HI src x Hx) as G.
  destruct (get_or_add_facts _ x t (TInt q) G) as (rs & rid & E & F). exists rs, rid. split; auto. split; auto.
  destruct F as ([->|[-> Hf]] & _ & _).
  - rewrite with_rels_same. apply (inv_setp T s src x x N); auto.
  - apply (inv_setp T s src x _ N); auto.
    + apply good_add_rel; auto. intros q' [= <-]. exact Hq.
    + cbn [pt_rels with_rels]. rewrite type_filter_app. simpl.
      destruct (str_eqb_spec t rt_slide_master); [contradiction|]. apply app_nil_r.
    + cbn [pt_rels with_rels]. intros q'. rewrite int_targets_app. intros Hin.
      apply in_app_or in Hin as [Hin|Hin]; auto. simpl in Hin. destruct Hin as [<-|[]]. tauto.
Qed.
End Relate.

(** an external relationship: no edge of the graph changes *)
Theorem relate_ext_inv T s src x t u : tables_ok T -> Inv T s -> getp s src = Some x -> src <> st_pres s ->
  pt_ct x <> ct_slide_master -> t <> rt_slide_master ->
  exists rs rid, get_or_add t (TExt u) (pt_rels x) = Ok (rs, rid) /\ rel_facts x rs rid t (TExt u) /\
                 Inv T (setp s src (with_rels x rs)).
Proof.
  intros HT HI Hx Hnp Hnm Ht. pose proof (iv_parts T s HI src x Hx) as G.
  destruct (get_or_add_facts _ x t (TExt u) G) as (rs & rid & E & F). exists rs, rid. split; auto. split; auto.
  destruct F as ([->|[-> Hf]] & _ & _).
  - rewrite with_rels_same. apply (inv_setp T s src x x []); auto; try (intros; contradiction).
  - apply (inv_setp T s src x _ []); auto; try (intros; contradiction).
    + apply good_add_rel; auto. intros q' [=].
    + cbn [pt_rels with_rels]. rewrite type_filter_app. simpl.
      destruct (str_eqb_spec t rt_slide_master); [contradiction|]. apply app_nil_r.
    + cbn [pt_rels with_rels]. intros q'. rewrite int_targets_app. intros Hin.
      apply in_app_or in Hin as [Hin|Hin]; auto; simpl in Hin; destruct Hin.
Qed.

(* ------------------------------------------------------------------------------ *)
(** * Presentation.slides: the slide parts are renamed slide1..n *)

Lemma set_names_nth parts : forall names q, length names = length parts ->
  nth_error (set_names parts names) q =
  match nth_error parts q, nth_error names q with
  | Some x, Some n => Some (with_name x n)
  | _, _ => None
  end.
Proof.
  induction parts as [|a parts IH]; intros [|n names] q Hl; simpl in Hl; try discriminate.
  - destruct q; reflexivity.
  - destruct q; simpl; [reflexivity|]. apply IH. lia.
Qed.

Lemma set_names_length parts : forall names, length names = length parts -> length (set_names parts names) = length parts.
Proof.
  induction parts as [|a parts IH]; intros [|n names] Hl; simpl in *; try discriminate; auto.
Qed.

Lemma lookup_rel_idx rid rs q : related_part rid rs = Ok q -> Ids.lookup_rel rid (prels_idx rs) = Some q.
Proof.
  unfold related_part. induction rs as [|a rs IH]; simpl; [discriminate|].
  destruct (str_eqb_spec (rr_id a) rid) as [E|E].
  - destruct (rr_tgt a) eqn:Et; [|discriminate]. intros [= <-]. simpl. rewrite E, str_eqb_refl. reflexivity.
  - intros H. destruct (rr_tgt a); simpl; [|auto].
    destruct (str_eqb_spec rid (rr_id a)) as [E'|E']; [congruence|auto].
Qed.

Lemma resolvable_prefix_all rs rids tg :
  Forall2 (fun rid q => related_part rid rs = Ok q) rids tg -> resolvable_prefix rs rids = (rids, None).
Proof.
  induction 1 as [|rid q rids tg Hr _ IH]; simpl; auto.
  unfold related_part in Hr. destruct (find_rel rid rs) as [r|]; [|discriminate].
  destruct (rr_tgt r); [|discriminate]. rewrite IH. reflexivity.
Qed.

Lemma ext_slide_name k : ext (Ids.slide_name k) = asc "xml".
Proof.
  unfold Ids.slide_name, Ids.tmpl_apply.
  change Ids.s_slide_pre with (render ([asc "ppt"; asc "slides"] ++ [asc "slide"])).
  rewrite render_snoc_app. change Ids.s_xml_post with (c_dot :: asc "xml"). rewrite app_assoc.
  apply PackUri_proofs.ext_render.
  - repeat constructor.
  - rewrite <- app_assoc. apply wf_segb_stem; [reflexivity|]. rewrite forallb_app, dec_not_slash. reflexivity.
  - reflexivity.
  - reflexivity.
Qed.

(** with a well-behaved default table only bin can clash *)
Lemma clash_only_bin T x y : tables_ok T ->
  Opc.lower (ext (pt_name x)) = Opc.lower (ext (pt_name y)) ->
  Opc.in_table (t_def T) (Opc.lower (ext (pt_name x))) (pt_ct x) = true ->
  Opc.in_table (t_def T) (Opc.lower (ext (pt_name y))) (pt_ct y) = true ->
  Opc.lower (ext (pt_name x)) <> s_bin -> pt_ct x = pt_ct y.
Proof.
  intros HT He Hx Hy Hb. destruct (Opc_proofs.str_eq_dec (pt_ct x) (pt_ct y)) as [|Hne]; auto.
  exfalso. apply Hb. rewrite <- He in Hy. exact (tk_fun T HT _ _ _ Hx Hy Hne).
Qed.

Section Rename.
Variable T : tables.
Variable s : state.
Hypothesis HT : tables_ok T.
Hypothesis HI : Inv T s.
Variables (pp : part) (tg : list nat) (names' : list str).
Hypothesis Hpp : getp s (st_pres s) = Some pp.
Hypothesis HF : Forall2 (fun rid q => related_part rid (pt_rels pp) = Ok q) (pt_idl pp) tg.
Hypothesis Hnd : NoDup tg.
Hypothesis Hdir : forall q, In q tg -> baseURI (name_of (st_parts s) q) = s_slides_dir.
Hypothesis Hall : forall p x, reach_part s p x -> baseURI (pt_name x) = s_slides_dir -> In p tg.
Hypothesis Hlen : length names' = length (st_parts s).
Hypothesis Hlisted : forall j p, nth_error tg j = Some p -> nth_error names' p = Some (Ids.slide_name (N.of_nat j + 1)%N).
Hypothesis Hother : forall q, ~ In q tg -> nth_error names' q = nth_error (map pt_name (st_parts s)) q.

Let s' := with_slides (with_parts s (set_names (st_parts s) names')) true.
Let Hw : wfg s := inv_wfg T s HI.

Lemma rn_getp q : getp s' q =
  match getp s q with
  | Some x => Some (with_name x (match nth_error names' q with Some n => n | None => [] end))
  | None => None
  end.
Proof.
  unfold s', getp. cbn. rewrite set_names_nth by exact Hlen.
  destruct (nth_error (st_parts s) q) eqn:E; [|reflexivity].
  destruct (nth_error names' q) eqn:E2; [reflexivity|].
  apply nth_error_None in E2. assert (q < length (st_parts s)) by (apply nth_error_Some; congruence). lia.
Qed.

Lemma rn_same q x : getp s q = Some x -> ~ In q tg -> getp s' q = Some x.
Proof.
  intros Hx Hq. rewrite rn_getp, Hx. rewrite (Hother q Hq). rewrite nth_error_map.
  unfold getp in Hx. rewrite Hx. simpl. destruct x; reflexivity.
Qed.

Lemma rn_listed j q x : nth_error tg j = Some q -> getp s q = Some x ->
  getp s' q = Some (with_name x (Ids.slide_name (N.of_nat j + 1)%N)).
Proof. intros Hj Hx. rewrite rn_getp, Hx, (Hlisted j q Hj). reflexivity. Qed.

Lemma rn_cases q x' : getp s' q = Some x' ->
  exists x, getp s q = Some x /\ pt_rels x' = pt_rels x /\ pt_ct x' = pt_ct x /\ pt_base x' = pt_base x /\
            pt_idl x' = pt_idl x /\ pt_refs x' = pt_refs x /\ pt_slots x' = pt_slots x /\
            ((~ In q tg /\ x' = x) \/ (exists j, nth_error tg j = Some q /\ pt_name x' = Ids.slide_name (N.of_nat j + 1)%N)).
Proof.
  intros H. destruct (getp s q) as [x|] eqn:Hx; [|rewrite rn_getp, Hx in H; discriminate].
  exists x. split; auto. destruct (in_dec Nat.eq_dec q tg) as [Hin|Hin].
  - apply In_nth_error in Hin as (j & Hj). rewrite (rn_listed j q x Hj Hx) in H. injection H as <-.
    repeat split; auto. right. exists j. auto.
  - rewrite (rn_same q x Hx Hin) in H. injection H as <-. repeat split; auto.
Qed.

Lemma rn_reach q : reachP s' q <-> reachP s q.
Proof.
  split; intros H.
  - induction H as [q Hq|a q z Ha IH Hz Hq]; [constructor; exact Hq|].
    destruct (rn_cases a z Hz) as (x & Hx & Er & _). eapply rp1; eauto. rewrite <- Er. exact Hq.
  - induction H as [q Hq|a q z Ha IH Hz Hq]; [constructor; exact Hq|].
    destruct (getp s' a) as [z'|] eqn:Hz'; [|rewrite rn_getp, Hz in Hz'; discriminate].
    destruct (rn_cases a z' Hz') as (x & Hx & Er & _). rewrite Hz in Hx. injection Hx as <-.
    eapply rp1; eauto. rewrite Er. exact Hq.
Qed.

Lemma rn_len : length (st_parts s') = length (st_parts s).
Proof. unfold s'. cbn. apply set_names_length. exact Hlen. Qed.

Lemma rn_good q x' : getp s' q = Some x' -> good_part (length (st_parts s')) x'.
Proof.
  intros H. rewrite rn_len. destruct (rn_cases q x' H) as (x & Hx & Er & Ec & Eb & Ei & Ef & Es & Hc).
  pose proof (iv_parts T s HI q x Hx) as G. destruct Hc as [[_ ->]|(j & Hj & En)]; auto.
  destruct G as [H1 H2 H3 H4 H5 H6 H7 H8 H9 H10].
  destruct (slide_name_facts (N.of_nat j + 1)%N) as [Pn Bn].
  constructor; unfold all_refs, slot_rids; rewrite ?Er, ?Ec, ?Ei, ?Ef, ?Es, ?En; auto.
  - rewrite Eb, H2, Bn. rewrite <- (name_of_getp s q x Hx). apply Hdir. eapply nth_error_In; eauto.
Qed.

Lemma rn_wfg : wfg s'.
Proof.
  split.
  - rewrite rn_len. apply (iv_ptgts T s HI).
  - intros a z q Hz Hq. exact (gp_tgts _ _ (rn_good a z Hz) q Hq).
Qed.

Lemma rn_name_neq a b xa xb : reachP s a -> reachP s b -> a <> b -> getp s' a = Some xa -> getp s' b = Some xb ->
  pt_name xa <> pt_name xb.
Proof.
  intros Ra Rb Hab Ha Hb E.
  destruct (rn_cases a xa Ha) as (ya & Hya & _ & _ & _ & _ & _ & _ & Ca).
  destruct (rn_cases b xb Hb) as (yb & Hyb & _ & _ & _ & _ & _ & _ & Cb).
  destruct (iter_pids_spec s Hw) as (Hiff & _).
  assert (Hnl : forall c yc xc k, reachP s c -> getp s c = Some yc -> ~ In c tg -> xc = yc ->
                 pt_name xc = Ids.slide_name k -> False).
  { intros c yc xc k Rc Hyc Hnc -> En. apply Hnc. apply (Hall c yc); [split; [apply Hiff; auto|auto]|].
    rewrite En. apply slide_name_facts. }
  destruct Ca as [[Na ->]|(ja & Hja & Ena)], Cb as [[Nb ->]|(jb & Hjb & Enb)].
  - apply Hab. apply (NoDup_map_inj_on (name_of (st_parts s)) (iter_pids s)); try (apply Hiff; auto).
    + apply (iv_names T s HI).
    + rewrite (name_of_getp s a ya Hya), (name_of_getp s b yb Hyb). exact E.
  - eapply (Hnl a ya ya); eauto. rewrite E. exact Enb.
  - eapply (Hnl b yb yb); eauto. rewrite <- E. exact Ena.
  - rewrite Ena, Enb in E. apply Ids_proofs.slide_name_inj in E.
    assert (ja = jb) by lia. subst jb. rewrite Hja in Hjb. congruence.
Qed.

Theorem inv_rename : Inv T s'.
Proof.
  destruct (iter_pids_spec s' rn_wfg) as (Hiff' & Hnd' & Hlt').
  constructor.
  - exact rn_good.
  - rewrite rn_len. apply (iv_ptgts T s HI).
  - apply (iv_pkeys T s HI).
  - apply (iv_pnocache T s HI).
  - unfold iter_names. apply NoDup_map_pairwise; auto. intros a b Ha Hb Hab.
    apply Hiff' in Ha, Hb.
    destruct (getp_some s' a (Hlt' a (proj2 (Hiff' a) Ha))) as (xa & Hxa).
    destruct (getp_some s' b (Hlt' b (proj2 (Hiff' b) Hb))) as (xb & Hxb).
    rewrite (name_of_getp s' a xa Hxa), (name_of_getp s' b xb Hxb).
    apply (rn_name_neq a b xa xb); auto; apply rn_reach; auto.
  - apply (iv_main T s HI).
  - destruct (getp s' (st_pres s')) as [pp'|] eqn:E.
    + exists pp'. split; auto. destruct (rn_cases _ pp' E) as (x & Hx & _ & Ec & _).
      change (st_pres s') with (st_pres s) in Hx. rewrite Hpp in Hx. injection Hx as <-. rewrite Ec.
      destruct (iv_pres T s HI) as (pp0 & Hpp0 & Hc). rewrite Hpp in Hpp0. injection Hpp0 as <-. exact Hc.
    + change (st_pres s') with (st_pres s) in E. rewrite rn_getp, Hpp in E. discriminate.
  - intros a b xa xb [Ha Hxa] [Hb Hxb] He Hia Hib.
    destruct (rn_cases a xa Hxa) as (ya & Hya & _ & Eca & _ & _ & _ & _ & Ca).
    destruct (rn_cases b xb Hxb) as (yb & Hyb & _ & Ecb & _ & _ & _ & _ & Cb).
    assert (Hxml : forall z k, pt_name z = Ids.slide_name k -> Opc.lower (ext (pt_name z)) <> s_bin).
    { intros z k En. rewrite En, ext_slide_name. vm_compute. discriminate. }
    destruct Ca as [[Na ->]|(ja & Hja & Ena)].
    + destruct Cb as [[Nb ->]|(jb & Hjb & Enb)].
      * apply (iv_clash T s HI a b ya yb); auto; split; auto;
          apply (iter_pids_spec s Hw); apply rn_reach; apply Hiff'; auto.
      * apply (clash_only_bin T ya xb HT He Hia Hib). rewrite He. eapply Hxml; eauto.
    + apply (clash_only_bin T xa xb HT He Hia Hib). eapply Hxml; eauto.
  - destruct (getp s' (st_pres s')) as [pp'|] eqn:E.
    2:{ change (st_pres s') with (st_pres s) in E. rewrite rn_getp, Hpp in E. discriminate. }
    destruct (rn_cases _ pp' E) as (x & Hx & Er & _ & _ & Ei & _).
    change (st_pres s') with (st_pres s) in Hx. rewrite Hpp in Hx. injection Hx as <-.
    exists pp', tg. split; auto. rewrite Er, Ei. split; auto. split; auto.
    assert (Htgn : forall j q, nth_error tg j = Some q -> name_of (st_parts s') q = Ids.slide_name (N.of_nat j + 1)%N).
    { intros j q Hj. assert (Hq : q < length (st_parts s)).
      { assert (Hin : In q tg) by (eapply nth_error_In; eauto).
        clear - HF Hin Hpp HI. induction HF; [destruct Hin|]. destruct Hin as [<-|Hin]; auto.
        apply related_part_target in H. exact (gp_tgts _ _ (iv_parts T s HI _ pp Hpp) _ H). }
      destruct (getp_some s q Hq) as (x & Hx). rewrite (name_of_getp s' q _ (rn_listed j q x Hj Hx)). reflexivity. }
    split; [|split].
    + intros q Hq. apply In_nth_error in Hq as (j & Hj). rewrite (Htgn j q Hj). apply slide_name_facts.
    + intros a xa [Ha Hxa] Hd. destruct (rn_cases a xa Hxa) as (ya & Hya & _ & _ & _ & _ & _ & _ & Ca).
      destruct Ca as [[Na ->]|(ja & Hja & _)]; [|eapply nth_error_In; eauto].
      apply (Hall a ya); auto. split; auto. apply (iter_pids_spec s Hw). apply rn_reach. apply Hiff'. exact Ha.
    + intros _ j q Hj. apply Htgn. exact Hj.
  - intros m mx rid lp lx m' Hm Hct Hrid Hlp Hlx Hm'.
    destruct (rn_cases m mx Hm) as (ym & Hym & Erm & Ecm & _ & Eim & _).
    destruct (rn_cases lp lx Hlx) as (yl & Hyl & Erl & _).
    rewrite Erm in Hlp. rewrite Ecm in Hct. rewrite Eim in Hrid. rewrite Erl in Hm'.
    eapply (iv_master T s HI); eauto.
  - destruct (iv_fixed T s HI) as (F1 & F2 & F3).
    assert (Hin : forall nm, (forall k, nm <> Ids.slide_name k) -> In nm (iter_names s') -> In nm (iter_names s)).
    { intros nm Hk H. apply (in_iter_names s' rn_wfg) in H as (a & xa & [Ha Hxa] & En).
      destruct (rn_cases a xa Hxa) as (ya & Hya & _ & _ & _ & _ & _ & _ & Ca).
      destruct Ca as [[Na ->]|(ja & Hja & Ena)]; [|exfalso; eapply Hk; rewrite <- En; eauto].
      apply (in_iter_names s Hw). exists a, ya. split; auto. split; auto.
      apply (iter_pids_spec s Hw). apply rn_reach. apply Hiff'. exact Ha. }
    assert (Hk1 : forall k, n_notes_master <> Ids.slide_name k).
    { intros k E. pose proof (proj2 (slide_name_facts k)) as B. rewrite <- E in B. vm_compute in B. discriminate. }
    assert (Hk2 : forall k, n_core <> Ids.slide_name k).
    { intros k E. pose proof (proj2 (slide_name_facts k)) as B. rewrite <- E in B. vm_compute in B. discriminate. }
    assert (Hpr : forall pp', getp s' (st_pres s') = Some pp' -> pt_rels pp' = pt_rels pp).
    { intros pp' E. destruct (rn_cases _ pp' E) as (x & Hx & Er & _).
      change (st_pres s') with (st_pres s) in Hx. rewrite Hpp in Hx. injection Hx as <-. exact Er. }
    split; [|split].
    + intros pp' E H. rewrite (Hpr pp' E). apply (F1 pp Hpp). apply Hin; auto.
    + intros H. apply F2. apply Hin; auto.
    + intros pp' q E Hq. rewrite (Hpr pp' E). apply (F3 pp q Hpp). exact Hq.
Qed.
End Rename.

Lemma Forall2_impl {A B} (P Q : A -> B -> Prop) l l' : (forall a b, P a b -> Q a b) -> Forall2 P l l' -> Forall2 Q l l'.
Proof. intros H. induction 1; constructor; auto. Qed.

Lemma with_name_same x : with_name x (pt_name x) = x.
Proof. destruct x; reflexivity. Qed.

Theorem access_inv T s : tables_ok T -> Inv T s ->
  exists s1, m_access_slides s = (s1, Ok tt) /\ Inv T s1 /\ st_slides s1 = true /\ st_pres s1 = st_pres s /\
    st_mrid s1 = st_mrid s /\ length (st_parts s1) = length (st_parts s) /\
    forall q x, getp s q = Some x -> exists nm, getp s1 q = Some (with_name x nm).
Proof.
  intros HT HI. unfold m_access_slides. destruct (st_slides s) eqn:Es.
  - exists s. split; [reflexivity|]. split; [exact HI|]. split; [exact Es|]. split; [reflexivity|].
    split; [reflexivity|]. split; [reflexivity|]. intros q x Hx. exists (pt_name x). rewrite with_name_same. exact Hx.
  - destruct (iv_slides T s HI) as (pp & tg & Hpp & HF & Hnd & Hdir & Hall & _). rewrite Hpp.
    rewrite (resolvable_prefix_all _ _ _ HF).
    assert (Hres : Ids_proofs.resolves (prels_idx (pt_rels pp)) (pt_idl pp) tg).
    { unfold Ids_proofs.resolves. eapply Forall2_impl; [|exact HF]. intros a b. apply lookup_rel_idx. }
    assert (Hrange : forall p, In p tg -> p < length (map pt_name (st_parts s))).
    { rewrite map_length. intros q Hin. clear - HF Hin Hpp HI. induction HF; [destruct Hin|]. destruct Hin as [<-|Hin]; auto.
      apply related_part_target in H. exact (gp_tgts _ _ (iv_parts T s HI _ pp Hpp) _ H). }
    destruct (Ids_proofs.rename_listed _ _ _ (map pt_name (st_parts s)) Hres Hnd Hrange) as (names' & E & Hl & H3 & H4 & _).
    rewrite E. eexists. split; [reflexivity|]. rewrite map_length in Hl.
    split; [apply (inv_rename T s HT HI pp tg names'); auto|]. split; [reflexivity|]. split; [reflexivity|].
    split; [reflexivity|]. split; [apply (rn_len s names' Hl)|].
    intros q x0 Hx0. rewrite (rn_getp s names' Hl q), Hx0. eauto.
Qed.

(** prs.slides at i: a slide part the presentation part reaches *)
Definition listed (s : state) (sp : nat) : Prop :=
  exists pp rid, getp s (st_pres s) = Some pp /\ related_part rid (pt_rels pp) = Ok sp.

Definition slidep (s : state) (sp : nat) : Prop :=
  st_slides s = true /\ reachP s sp /\ sp <> st_pres s /\ (exists x, getp s sp = Some x /\ pt_ct x = ct_slide) /\ listed s sp.

Lemma pres_reach T s : Inv T s -> reachP s (st_pres s).
Proof.
  intros HI. destruct (iv_main T s HI) as (r & Hf & Ht). constructor. apply int_targets_In. exists r. split; auto.
  assert (In r [r]) by (simpl; auto). rewrite <- Hf in H. apply filter_In in H. tauto.
Qed.

Lemma m_class_run s p ct x : getp s p = Some x ->
  m_class p ct s = (s, if str_eqb (pt_ct x) ct then Ok tt else Err OtherErr).
Proof. intros H. unfold m_class, bindM. rewrite (m_part_run s p x H). destruct (str_eqb (pt_ct x) ct); reflexivity. Qed.

Theorem slide_inv T s i : tables_ok T -> Inv T s ->
  exists s1, Inv T s1 /\ st_pres s1 = st_pres s /\
    ((exists e, m_slide i s = (s1, Err e)) \/ (exists sp, m_slide i s = (s1, Ok sp) /\ slidep s1 sp)).
Proof.
  intros HT HI. destruct (access_inv T s HT HI) as (s1 & E & HI1 & Hs1 & Hp1 & _).
  exists s1. split; auto. split; auto. unfold m_slide, bindM. rewrite E. unfold getS.
  destruct (iv_pres T s1 HI1) as (pp & Hpp & Hc). rewrite (m_part_run s1 _ pp Hpp).
  destruct (nth_error (pt_idl pp) i) as [rid|] eqn:En; [|left; eexists; reflexivity].
  unfold lift. destruct (related_part rid (pt_rels pp)) as [sp|e] eqn:Er; [|left; eexists; reflexivity].
  assert (Hsp : sp < length (st_parts s1)).
  { apply related_part_target in Er. exact (gp_tgts _ _ (iv_parts T s1 HI1 _ pp Hpp) _ Er). }
  destruct (getp_some s1 sp Hsp) as (x & Hx). rewrite (m_class_run s1 sp ct_slide x Hx).
  destruct (str_eqb_spec (pt_ct x) ct_slide) as [Ec|Ec]; [|left; eexists; reflexivity].
  right. exists sp. split; [reflexivity|]. split; auto. split; [|split; [|split]].
  - eapply rp1; [apply (pres_reach T s1 HI1)|exact Hpp|]. apply related_part_target in Er. exact Er.
  - intros ->. rewrite Hpp in Hx. injection Hx as <-. apply Hc. rewrite Ec. simpl. auto.
  - eauto.
  - exists pp, rid. auto.
Qed.

(* ------------------------------------------------------------------------------ *)
(** * Running the monadic code under the invariant *)

Definition MH {A} (T : tables) (m : M A) (s : state) (Q : A -> state -> Prop) : Prop :=
  Inv T (fst (m s)) /\ forall a, snd (m s) = Ok a -> Q a (fst (m s)).

Lemma MH_bind {A B} T (m : M A) (f : A -> M B) s Q R :
  MH T m s Q -> (forall a s1, Inv T s1 -> Q a s1 -> MH T (f a) s1 R) -> MH T (bindM m f) s R.
Proof.
  intros [H1 H2] Hf. unfold MH, bindM. destruct (m s) as [s1 [a|e]]; cbn [fst snd] in *.
  - apply Hf; auto.
  - split; auto. discriminate.
Qed.

Lemma MH_weaken {A} T (m : M A) s (Q R : A -> state -> Prop) :
  MH T m s Q -> (forall a s1, Q a s1 -> R a s1) -> MH T m s R.
Proof. intros [H1 H2] H. split; auto. Qed.

Lemma MH_ret {A} T (a : A) s (Q : A -> state -> Prop) : Inv T s -> Q a s -> MH T (ret a) s Q.
Proof. intros H1 H2. split; cbn; auto. intros b [= <-]. auto. Qed.

Lemma MH_fail {A} T e s (Q : A -> state -> Prop) : Inv T s -> MH T (fail e) s Q.
Proof. intros H1. split; cbn; auto. discriminate. Qed.

Lemma MH_lift {A} T (r : res A) s (Q : A -> state -> Prop) : Inv T s -> (forall a, r = Ok a -> Q a s) -> MH T (lift r) s Q.
Proof. intros H1 H2. split; cbn; auto. Qed.

Lemma MH_getS T s (Q : state -> state -> Prop) : Inv T s -> Q s s -> MH T getS s Q.
Proof. intros H1 H2. split; cbn; auto. intros b [= <-]. auto. Qed.

Lemma MH_part T s p x (Q : part -> state -> Prop) : Inv T s -> getp s p = Some x -> Q x s -> MH T (m_part p) s Q.
Proof. intros H1 Hx H2. unfold MH. rewrite (m_part_run s p x Hx). cbn. split; auto. intros b [= <-]. auto. Qed.

Lemma MH_part_any T s p (Q : part -> state -> Prop) : Inv T s -> (forall x, getp s p = Some x -> Q x s) -> MH T (m_part p) s Q.
Proof.
  intros H1 H2. destruct (getp s p) as [x|] eqn:E; [apply (MH_part T s p x); auto|].
  unfold MH, m_part, bindM, getS. rewrite E. cbn. split; auto. discriminate.
Qed.

Lemma MH_setp T s p x (Q : unit -> state -> Prop) : Inv T (setp s p x) -> Q tt (setp s p x) -> MH T (m_setp p x) s Q.
Proof. intros H1 H2. split; cbn; auto. intros [] _. auto. Qed.

Lemma MH_class T s p ct (Q : unit -> state -> Prop) : Inv T s ->
  (forall x, getp s p = Some x -> pt_ct x = ct -> Q tt s) -> MH T (m_class p ct) s Q.
Proof.
  intros H1 H2. unfold m_class. apply (MH_bind T _ _ s (fun x s1 => s1 = s /\ getp s p = Some x)).
  - apply MH_part_any; auto.
  - intros x s1 _ [-> Hx]. destruct (str_eqb_spec (pt_ct x) ct) as [E|E]; [apply MH_ret; eauto|apply MH_fail; auto].
Qed.

Lemma MH_slide T s i : tables_ok T -> Inv T s ->
  MH T (m_slide i) s (fun sp s1 => slidep s1 sp /\ st_pres s1 = st_pres s).
Proof.
  intros HT HI. destruct (slide_inv T s i HT HI) as (s1 & HI1 & Hp & [(e & E)|(sp & E & Hs)]); unfold MH; rewrite E; cbn.
  - split; auto. discriminate.
  - split; auto. intros a [= <-]. auto.
Qed.

Lemma MH_access T s : tables_ok T -> Inv T s ->
  MH T m_access_slides s (fun _ s1 => st_slides s1 = true /\ st_pres s1 = st_pres s).
Proof.
  intros HT HI. destruct (access_inv T s HT HI) as (s1 & E & HI1 & Hs & Hp & _). unfold MH. rewrite E. cbn. split; auto.
Qed.

Lemma fst_fin {A} (f : A -> outcome) (m : M A) s : fst (fin f m s) = fst (m s).
Proof. unfold fin. destruct (m s). reflexivity. Qed.

Lemma ct_slide_ne_master : ct_slide <> ct_slide_master. Proof. vm_compute. discriminate. Qed.
Lemma ct_notes_ne_master : ct_notes_slide <> ct_slide_master. Proof. vm_compute. discriminate. Qed.
Lemma ct_chart_ne_master : ct_chart <> ct_slide_master. Proof. vm_compute. discriminate. Qed.

(** a part the link operations and the shape additions edit: a slide or a notes slide *)
Definition editable (s : state) (p : nat) (x : part) : Prop :=
  getp s p = Some x /\ p <> st_pres s /\ (pt_ct x = ct_slide \/ pt_ct x = ct_notes_slide).

Lemma editable_not_master s p x : editable s p x -> pt_ct x <> ct_slide_master.
Proof. intros (_ & _ & [E|E]); rewrite E; [apply ct_slide_ne_master|apply ct_notes_ne_master]. Qed.

Lemma slidep_editable s sp : slidep s sp -> exists x, editable s sp x /\ pt_ct x = ct_slide /\ reachP s sp.
Proof. intros (_ & Hr & Hn & (x & Hx & Ec) & _). exists x. split; [split; auto|auto]. Qed.

(** ** the operations that only touch flags, slots or nothing *)

Lemma step_access T s : tables_ok T -> Inv T s -> Inv T (fst (step false T s AccessSlides)).
Proof. intros HT HI. cbn [step]. rewrite fst_fin. apply (MH_access T s HT HI). Qed.

Lemma step_save T s : Inv T s -> Inv T (fst (step false T s Save)).
Proof. intros HI. exact HI. Qed.

Lemma step_picture_bad T s i : tables_ok T -> Inv T s -> Inv T (fst (step false T s (AddPictureBad i))).
Proof.
  intros HT HI. cbn [step]. rewrite fst_fin. unfold m_add_picture_bad.
  apply (MH_bind T _ _ s _ (fun _ _ => True) (MH_slide T s i HT HI)). intros sp s1 HI1 _. apply MH_fail. auto.
Qed.

Lemma step_plain T s i : tables_ok T -> Inv T s -> Inv T (fst (step false T s (AddPlainShape i))).
Proof.
  intros HT HI. cbn [step]. rewrite fst_fin.
  apply (MH_bind T _ _ s _ (fun _ _ => True) (MH_slide T s i HT HI)). intros sp s1 HI1 [Hs _].
  destruct (slidep_editable s1 sp Hs) as (x & He & Ec & Hr). destruct He as (Hx & Hnp & Hcls).
  apply (MH_bind T _ _ s1 (fun y s2 => y = x /\ s2 = s1)); [apply (MH_part T s1 sp x); auto|].
  intros y s2 _ [-> ->]. apply MH_setp; auto.
  apply (inv_setp T s1 sp x _ []); auto; try (intros; contradiction);
    try (rewrite Ec; apply ct_slide_ne_master).
  apply good_add_slot; [apply (iv_parts T s1 HI1 sp x Hx)|rewrite Ec; apply ct_slide_ne_master].
Qed.

Lemma listed_reach T s sp : Inv T s -> listed s sp -> reachP s sp.
Proof.
  intros HI (pp & rid & Hpp & Hr). eapply rp1; [apply (pres_reach T s HI)|exact Hpp|].
  apply related_part_target in Hr. exact Hr.
Qed.

Lemma listed_setp s p x sp : p <> st_pres s -> listed s sp -> listed (setp s p x) sp.
Proof.
  intros Hn (pp & rid & Hpp & Hr). exists pp, rid. split; auto.
  change (st_pres (setp s p x)) with (st_pres s). rewrite getp_setp_other; auto.
Qed.

(* ------------------------------------------------------------------------------ *)
(** * Hyperlinks and slide jumps *)

Lemma slot_refs_split slots : forall j cr w rid, nth_error slots j = Some cr -> slot_get w cr = Some rid ->
  exists l1 l2, slot_refs slots = l1 ++ (k_id, rid) :: l2 /\
                slot_refs (Ids.set_nth j (slot_set w cr None) slots) = l1 ++ l2.
Proof.
  induction slots as [|a slots IH]; intros [|j] cr w rid Hn Hg; simpl in Hn; try discriminate.
  - injection Hn as ->. destruct cr as [c r]. destruct w; simpl in Hg; subst.
    + exists [], (opt_ref r ++ slot_refs slots). split; reflexivity.
    + exists (opt_ref c), (slot_refs slots). simpl. unfold slot_refs. simpl. rewrite <- !app_assoc. split; reflexivity.
  - destruct (IH j cr w rid Hn Hg) as (l1 & l2 & E1 & E2).
    exists ((opt_ref (fst a) ++ opt_ref (snd a)) ++ l1), l2. simpl. unfold slot_refs in *. simpl.
    rewrite E1, E2, <- !app_assoc. split; reflexivity.
Qed.

Lemma slot_refs_set_subset slots : forall j cr w o kr, nth_error slots j = Some cr ->
  In kr (slot_refs (Ids.set_nth j (slot_set w cr o) slots)) ->
  In kr (slot_refs slots) \/ exists r, o = Some r /\ kr = (k_id, r).
Proof.
  induction slots as [|a slots IH]; intros [|j] cr w o kr Hn Hin; simpl in Hn; try discriminate.
  - injection Hn as ->. destruct cr as [c r]. unfold slot_refs in *. simpl in *.
    apply in_app_or in Hin as [Hin|Hin]; [|left; apply in_or_app; right; exact Hin].
    destruct w; simpl in Hin; apply in_app_or in Hin as [Hin|Hin].
    + destruct o; simpl in Hin; [destruct Hin as [<-|[]]; right; eauto|destruct Hin].
    + left. apply in_or_app. left. apply in_or_app. right. exact Hin.
    + left. apply in_or_app. left. apply in_or_app. left. exact Hin.
    + destruct o; simpl in Hin; [destruct Hin as [<-|[]]; right; eauto|destruct Hin].
  - unfold slot_refs in *. simpl in *. apply in_app_or in Hin as [Hin|Hin]; [left; apply in_or_app; left; exact Hin|].
    destruct (IH j cr w o kr Hn Hin) as [H|H]; [left; apply in_or_app; right; exact H|right; exact H].
Qed.

Lemma find_rel_filter rid r rs : r <> rid ->
  find_rel r (filter (fun a => negb (str_eqb (rr_id a) rid)) rs) = find_rel r rs.
Proof.
  intros Hne. induction rs as [|a rs IH]; simpl; auto.
  destruct (str_eqb_spec (rr_id a) rid) as [E|E]; simpl.
  - destruct (str_eqb_spec (rr_id a) r) as [E'|E']; [congruence|exact IH].
  - destruct (str_eqb_spec (rr_id a) r); [reflexivity|exact IH].
Qed.

Lemma filter_count_app {A} (f : A -> bool) a b : length (filter f (a ++ b)) = length (filter f a) + length (filter f b).
Proof. rewrite filter_app, app_length. reflexivity. Qed.

(** clearing a link slot: drop_rel, then the element goes *)
Lemma good_clear_slot n x j cr w rid x1 :
  good_part n x -> pt_ct x <> ct_slide_master -> nth_error (pt_slots x) j = Some cr -> slot_get w cr = Some rid ->
  drop_rel x rid = Ok x1 ->
  good_part n (with_slots x1 (Ids.set_nth j (slot_set w cr None) (pt_slots x1))) /\
  incl (pt_rels x1) (pt_rels x) /\ pt_slots x1 = pt_slots x /\ pt_name x1 = pt_name x /\ pt_ct x1 = pt_ct x /\
  type_filter rt_slide_master (pt_rels x1) = type_filter rt_slide_master (pt_rels x).
Proof.
  intros G Hm Hn Hg Hd. pose proof G as [H1 H2 H3 H4 H5 H6 H7 H8 H9 H10].
  destruct (slot_refs_split (pt_slots x) j cr w rid Hn Hg) as (l1 & l2 & E1 & E2).
  set (A := map (fun r => (k_id, r)) (pt_idl x) ++ pt_refs x).
  assert (Eall : all_refs x = A ++ l1 ++ (k_id, rid) :: l2).
  { unfold all_refs, A. rewrite E1, <- app_assoc. reflexivity. }
  assert (Hsub : forall kr, In kr (A ++ l1 ++ l2) -> In kr (all_refs x)).
  { intros kr Hin. rewrite Eall. apply in_app_or in Hin as [Hin|Hin]; [apply in_or_app; auto|].
    apply in_or_app. right. apply in_app_or in Hin as [Hin|Hin]; apply in_or_app; [left|right; right]; auto. }
  assert (Hrid_slot : In rid (slot_rids x)).
  { unfold slot_rids. rewrite E1, map_app. apply in_or_app. right. simpl. auto. }
  destruct (H8 rid Hrid_slot) as (rl & Hrl & Hlt).
  apply drop_rel_spec in Hd as [[Hc ->]|(Hc & Hkey & ->)].
  - (* the relationship stays *)
    split; [|repeat split; auto; apply incl_refl].
    constructor; cbn [pt_name pt_base pt_rels pt_ct pt_idl pt_refs pt_slots with_slots]; auto.
    + intros kr Hkr. apply H6. apply Hsub. unfold all_refs in Hkr. cbn [pt_idl pt_refs pt_slots with_slots] in Hkr.
      rewrite E2 in Hkr. unfold A. rewrite <- app_assoc. exact Hkr.
    + intros k r x' Hkr. apply H7. apply Hsub. unfold all_refs in Hkr. cbn [pt_idl pt_refs pt_slots with_slots] in Hkr.
      rewrite E2 in Hkr. unfold A. rewrite <- app_assoc. exact Hkr.
    + intros r Hr. apply H8. unfold slot_rids in *. cbn [pt_slots with_slots] in Hr. rewrite E2 in Hr. rewrite E1.
      rewrite map_app in *. apply in_app_or in Hr as [Hr|Hr]; apply in_or_app; [left|right; right]; auto.
    + intros Hc'. contradiction.
  - (* the relationship goes: nothing else names it *)
    cbn [pt_rels pt_slots pt_name pt_ct with_rels].
    assert (Hnone : forall k, ~ In (k, rid) (A ++ l1 ++ l2)).
    { intros k Hin. destruct (Opc_proofs.str_eq_dec k k_id) as [->|Hk].
      - unfold ref_count in Hc. rewrite Eall in Hc.
        assert (E : A ++ l1 ++ (k_id, rid) :: l2 = (A ++ l1) ++ [(k_id, rid)] ++ l2) by (rewrite <- app_assoc; reflexivity).
        assert (E1' : length (filter (is_id_ref rid) [(k_id, rid)]) = 1).
        { unfold is_id_ref. cbn [filter fst snd]. rewrite !str_eqb_refl. reflexivity. }
        rewrite E, !filter_count_app, E1' in Hc.
        assert (Hpos : 1 <= length (filter (is_id_ref rid) (A ++ l1)) + length (filter (is_id_ref rid) l2)).
        { rewrite app_assoc in Hin. apply in_app_or in Hin as [Hin|Hin].
          - assert (In (k_id, rid) (filter (is_id_ref rid) (A ++ l1))).
            { apply filter_In. split; auto. unfold is_id_ref. cbn. rewrite !str_eqb_refl. reflexivity. }
            destruct (filter (is_id_ref rid) (A ++ l1)); [destruct H|simpl; lia].
          - assert (In (k_id, rid) (filter (is_id_ref rid) l2)).
            { apply filter_In. split; auto. unfold is_id_ref. cbn. rewrite !str_eqb_refl. reflexivity. }
            destruct (filter (is_id_ref rid) l2); [destruct H|simpl; lia]. }
        rewrite ?filter_count_app in Hpos. simpl in Hc. lia.
      - apply (H7 k rid rl (Hsub _ Hin) Hk Hrl). exact Hlt. }
    split; [|repeat split; auto].
    2:{ intros r Hr. apply filter_In in Hr. tauto. }
    2:{ assert (Hty : forall a, In a (pt_rels x) -> rr_id a = rid -> str_eqb (rr_type a) rt_slide_master = false).
        { intros a Ha Ea. pose proof (find_rel_NoDup _ a H4 Ha) as Hf. rewrite Ea, Hrl in Hf. injection Hf as <-.
          destruct Hlt as [E|[E|[]]]; rewrite <- E; vm_compute; reflexivity. }
        unfold type_filter. clear - Hty. induction (pt_rels x) as [|a rs IH]; simpl; auto.
        destruct (str_eqb_spec (rr_id a) rid) as [E|E]; simpl.
        - rewrite (Hty a (or_introl eq_refl) E). apply IH. intros b Hb. apply Hty. right; auto.
        - destruct (str_eqb (rr_type a) rt_slide_master); [f_equal|]; apply IH; intros b Hb; apply Hty; right; auto. }
    constructor; cbn [pt_name pt_base pt_rels pt_ct pt_idl pt_refs pt_slots with_slots with_rels]; auto.
    + intros q Hq. apply H3. apply int_targets_In in Hq as (r & Hr & Et). apply filter_In in Hr as [Hr _].
      apply int_targets_In. eauto.
    + clear - H4. induction (pt_rels x) as [|a rs IH]; simpl; [constructor|]. simpl in H4. inversion H4; subst.
      destruct (negb (str_eqb (rr_id a) rid)); simpl; auto. constructor; auto.
      intros Hin. apply H1. apply in_map_iff in Hin as (r & E & Hr). apply filter_In in Hr as [Hr _].
      rewrite <- E. apply in_map. exact Hr.
    + intros r Hr. apply filter_In in Hr as [Hr _]. auto.
    + intros kr Hkr. unfold all_refs in Hkr. cbn [pt_idl pt_refs pt_slots with_slots with_rels] in Hkr.
      rewrite E2 in Hkr. assert (Hkr' : In kr (A ++ l1 ++ l2)) by (unfold A; rewrite <- app_assoc; exact Hkr).
      pose proof (H6 kr (Hsub kr Hkr')) as Hk. apply in_map_iff in Hk as (r & Er & Hr).
      apply in_map_iff. exists r. split; auto. apply filter_In. split; auto.
      apply negb_true_iff. apply Opc_proofs.str_eqb_neq. intros E. destruct kr as [k r0]. cbn [snd] in Er.
      apply (Hnone k). rewrite <- E, Er. exact Hkr'.
    + intros k r x' Hkr Hk Hf. unfold all_refs in Hkr. cbn [pt_idl pt_refs pt_slots with_slots with_rels] in Hkr.
      rewrite E2 in Hkr. assert (Hkr' : In (k, r) (A ++ l1 ++ l2)) by (unfold A; rewrite <- app_assoc; exact Hkr).
      assert (Hne : r <> rid) by (intros ->; exact (Hnone k Hkr')).
      rewrite find_rel_filter in Hf by exact Hne. apply (H7 k r x' (Hsub _ Hkr') Hk Hf).
    + intros r Hr. unfold slot_rids in Hr. cbn [pt_slots with_slots with_rels] in Hr. rewrite E2 in Hr.
      assert (Hin' : In (k_id, r) (A ++ l1 ++ l2)).
      { apply in_map_iff in Hr as ([k0 r0] & Er & Hr). cbn [snd] in Er. subst r0.
        assert (k0 = k_id).
        { assert (Hs : In (k0, r) (slot_refs (pt_slots x))).
          { rewrite E1. apply in_app_or in Hr as [Hr|Hr]; apply in_or_app; [left|right; right]; auto. }
          clear - Hs. unfold slot_refs in Hs. apply in_flat_map in Hs as (cr0 & _ & Hs).
          apply in_app_or in Hs as [Hs|Hs]; [destruct (fst cr0)|destruct (snd cr0)]; simpl in Hs;
            try (destruct Hs as [[= <- _]|[]]; reflexivity); destruct Hs. }
        subst k0. apply in_or_app. right. exact Hr. }
      assert (Hne : r <> rid) by (intros ->; exact (Hnone k_id Hin')).
      rewrite find_rel_filter by exact Hne. apply H8. unfold slot_rids. rewrite E1.
      unfold slot_rids in Hr. cbn [pt_slots with_slots with_rels] in Hr.
      rewrite map_app in *. apply in_app_or in Hr as [Hr|Hr]; apply in_or_app; [left|right; right]; auto.
    + intros Hc'. contradiction.
Qed.

Lemma good_fill_slot n x j cr w rid :
  good_part n x -> pt_ct x <> ct_slide_master -> nth_error (pt_slots x) j = Some cr ->
  (exists r, find_rel rid (pt_rels x) = Some r /\ In (rr_type r) link_types) ->
  good_part n (with_slots x (Ids.set_nth j (slot_set w cr (Some rid)) (pt_slots x))).
Proof.
  intros [H1 H2 H3 H4 H5 H6 H7 H8 H9 H10] Hm Hn (rl & Hrl & Hlt).
  assert (Hs : forall kr, In kr (slot_refs (Ids.set_nth j (slot_set w cr (Some rid)) (pt_slots x))) ->
                 In kr (slot_refs (pt_slots x)) \/ kr = (k_id, rid)).
  { intros kr Hkr. destruct (slot_refs_set_subset _ j cr w (Some rid) kr Hn Hkr) as [|(r & [= <-] & ->)]; auto. }
  assert (Hall : forall kr, In kr (all_refs (with_slots x (Ids.set_nth j (slot_set w cr (Some rid)) (pt_slots x)))) ->
                   In kr (all_refs x) \/ kr = (k_id, rid)).
  { intros kr. unfold all_refs. cbn [pt_idl pt_refs pt_slots with_slots]. intros Hkr.
    apply in_app_or in Hkr as [Hkr|Hkr]; [left; apply in_or_app; auto|].
    apply in_app_or in Hkr as [Hkr|Hkr]; [left; apply in_or_app; right; apply in_or_app; auto|].
    destruct (Hs kr Hkr) as [H|H]; auto. left. apply in_or_app; right; apply in_or_app; auto. }
  constructor; cbn [pt_name pt_base pt_rels pt_ct]; auto.
  - intros kr Hkr. destruct (Hall kr Hkr) as [H| ->]; [apply H6; auto|]. cbn [snd].
    apply find_rel_In in Hrl as [Hi <-]. apply in_map. exact Hi.
  - intros k r x' Hkr Hk Hf. destruct (Hall _ Hkr) as [H|[= E _]]; [eapply H7; eauto|contradiction].
  - intros r Hr. unfold slot_rids in Hr. cbn [pt_slots with_slots] in Hr. apply in_map_iff in Hr as ([k0 r0] & Er & Hr).
    cbn [snd] in Er. subst r0. destruct (Hs _ Hr) as [H|[= _ ->]].
    + apply H8. unfold slot_rids. apply in_map_iff. exists (k0, r). auto.
    + eauto.
  - intros Hc. contradiction.
Qed.

(** what an edit of one part leaves alone *)
Definition frame (p : nat) (s s1 : state) : Prop :=
  st_pres s1 = st_pres s /\ st_slides s1 = st_slides s /\ length (st_parts s1) = length (st_parts s) /\
  forall q, q <> p -> getp s1 q = getp s q.

Lemma frame_refl p s : frame p s s.
Proof. repeat split; auto. Qed.

Lemma frame_trans p s s1 s2 : frame p s s1 -> frame p s1 s2 -> frame p s s2.
Proof.
  intros (A1 & A2 & A3 & A4) (B1 & B2 & B3 & B4). repeat split; try congruence.
  intros q Hq. rewrite B4, A4; auto.
Qed.

Lemma frame_setp p s x x0 : getp s p = Some x0 -> frame p s (setp s p x).
Proof. intros Hx. repeat split; auto. - apply length_setp. - intros q Hq. apply getp_setp_other. auto. Qed.

Lemma frame_listed p s s1 sp : frame p s s1 -> p <> st_pres s -> listed s sp -> listed s1 sp.
Proof.
  intros (A1 & _ & _ & A4) Hn (pp & rid & Hpp & Hr). exists pp, rid. split; auto. rewrite A1, A4; auto.
Qed.

Lemma editable_setp s p x x' : editable s p x -> pt_ct x' = pt_ct x -> editable (setp s p x') p x'.
Proof.
  intros (Hx & Hn & Hc) Ec. split; [apply getp_setp_same; eapply getp_lt; eauto|]. split; auto. rewrite Ec. exact Hc.
Qed.

Definition edit_post (p : nat) (x : part) (s : state) : state -> Prop :=
  fun s1 => frame p s s1 /\ exists x1, editable s1 p x1 /\ pt_ct x1 = pt_ct x /\ length (pt_slots x1) = length (pt_slots x).

Lemma set_nth_len {A} (l : list A) n v : length (Ids.set_nth n v l) = length l.
Proof. apply Ids_proofs.set_nth_length. Qed.

Lemma MH_clear T s p x w j : tables_ok T -> Inv T s -> editable s p x ->
  MH T (m_clear_slot p w j) s (fun _ s1 => edit_post p x s s1).
Proof.
  intros HT HI He. pose proof He as (Hx & Hnp & Hc). pose proof (editable_not_master s p x He) as Hm.
  assert (Hself : edit_post p x s s) by (split; [apply frame_refl|exists x; auto]).
  unfold m_clear_slot.
  apply (MH_bind T _ _ s (fun y s1 => y = x /\ s1 = s)); [apply (MH_part T s p x); auto|].
  intros y s1 _ [-> ->]. destruct (nth_error (pt_slots x) j) as [cr|] eqn:En; [|apply MH_fail; auto].
  destruct (slot_get w cr) as [rid|] eqn:Eg; [|apply MH_ret; auto].
  pose proof (iv_parts T s HI p x Hx) as G.
  destruct (drop_rel x rid) as [x1|e] eqn:Ed.
  2:{ apply (MH_bind T _ _ s (fun _ _ => False)); [apply MH_lift; auto; discriminate|intros ? ? _ []]. }
  destruct (good_clear_slot _ x j cr w rid x1 G Hm En Eg Ed) as (G' & Hincl & Esl & Enm & Ect & Emf).
  apply (MH_bind T _ _ s (fun y s1 => y = x1 /\ s1 = s)); [apply MH_lift; auto; intros a [= <-]; auto|].
  intros y s1 _ [-> ->].
  set (x' := with_slots x1 (Ids.set_nth j (slot_set w cr None) (pt_slots x1))).
  apply MH_setp.
  - apply (inv_setp T s p x x' []); auto; try (intros; contradiction).
    intros q Hq. left. apply int_targets_In in Hq as (r & Hr & Et). apply int_targets_In. exists r. split; auto.
  - split; [eapply frame_setp; eauto|]. exists x'. split; [apply (editable_setp s p x x'); auto|]. split; auto.
    unfold x'. cbn [pt_slots with_slots]. rewrite set_nth_len, Esl. reflexivity.
Qed.

Lemma MH_fill T s p x w j rid : tables_ok T -> Inv T s -> editable s p x ->
  (exists r, find_rel rid (pt_rels x) = Some r /\ In (rr_type r) link_types) ->
  MH T (m_fill_slot p w j rid) s (fun _ s1 => edit_post p x s s1).
Proof.
  intros HT HI He Hr. pose proof He as (Hx & Hnp & Hc). pose proof (editable_not_master s p x He) as Hm.
  unfold m_fill_slot.
  apply (MH_bind T _ _ s (fun y s1 => y = x /\ s1 = s)); [apply (MH_part T s p x); auto|].
  intros y s1 _ [-> ->]. destruct (nth_error (pt_slots x) j) as [cr|] eqn:En; [|apply MH_fail; auto].
  pose proof (iv_parts T s HI p x Hx) as G.
  apply MH_setp.
  - apply (inv_setp T s p x _ []); auto; try (intros; contradiction). apply good_fill_slot; auto.
  - split; [eapply frame_setp; eauto|]. eexists. split; [apply (editable_setp s p x); auto|]. split; auto.
    cbn [pt_slots with_slots]. apply set_nth_len.
Qed.

Lemma MH_relate_ext T s src x t u : tables_ok T -> Inv T s -> getp s src = Some x -> src <> st_pres s ->
  pt_ct x <> ct_slide_master -> t <> rt_slide_master ->
  MH T (m_relate src t (TExt u)) s
     (fun rid s1 => exists rs, s1 = setp s src (with_rels x rs) /\ rel_facts x rs rid t (TExt u)).
Proof.
  intros HT HI Hx Hnp Hnm Ht. destruct (relate_ext_inv T s src x t u HT HI Hx Hnp Hnm Ht) as (rs & rid & E & F & HI').
  unfold MH. rewrite (m_relate_run s src t (TExt u) x rs rid Hx E). cbn. split; auto. intros a [= <-]. eauto.
Qed.

Lemma MH_relate_int T s src x t q N : tables_ok T -> Inv T s -> getp s src = Some x -> src <> st_pres s ->
  pt_ct x <> ct_slide_master -> t <> rt_slide_master -> q < length (st_parts s) -> ~ In src N ->
  (reachP s q \/ In q N \/ ~ reachP s src) ->
  (forall n y q', In n N -> getp s n = Some y -> In q' (int_targets (pt_rels y)) -> reachP s q' \/ In q' N) ->
  (forall n y, In n N -> ~ reachP s n -> getp s n = Some y ->
     new_ok T s y /\ baseURI (pt_name y) <> s_slides_dir /\ pt_name y <> n_notes_master /\ pt_name y <> n_core) ->
  (forall n m y z, In n N -> In m N -> n <> m -> ~ reachP s n -> ~ reachP s m ->
     getp s n = Some y -> getp s m = Some z -> pt_name y <> pt_name z) ->
  MH T (m_relate src t (TInt q)) s
     (fun rid s1 => exists rs, s1 = setp s src (with_rels x rs) /\ rel_facts x rs rid t (TInt q)).
Proof.
  intros HT HI Hx Hnp Hnm Ht Hq HsN Hqr H1 H2 H3.
  destruct (relate_inv T s src x t q N HT HI Hx Hnp Hnm Ht Hq HsN Hqr H1 H2 H3) as (rs & rid & E & F & HI').
  unfold MH. rewrite (m_relate_run s src t (TInt q) x rs rid Hx E). cbn. split; auto. intros a [= <-]. eauto.
Qed.

(** after a relate on an editable part it is still editable, with the same slots *)
Lemma editable_relate s p x rs : editable s p x -> editable (setp s p (with_rels x rs)) p (with_rels x rs).
Proof. intros He. apply (editable_setp s p x); auto. Qed.

Lemma link_type_hyperlink : In rt_hyperlink link_types. Proof. simpl; auto. Qed.
Lemma link_type_slide : In rt_slide link_types. Proof. simpl; auto. Qed.
Lemma rt_hyperlink_ne_master : rt_hyperlink <> rt_slide_master. Proof. vm_compute; discriminate. Qed.
Lemma rt_slide_ne_master : rt_slide <> rt_slide_master. Proof. vm_compute; discriminate. Qed.

Lemma MH_set_link T s p x w j url : tables_ok T -> Inv T s -> editable s p x ->
  MH T (m_set_link p w j url) s (fun _ s1 => edit_post p x s s1).
Proof.
  intros HT HI He. unfold m_set_link.
  apply (MH_bind T _ _ s _ _ (MH_clear T s p x w j HT HI He)).
  intros [] s1 HI1 (Hf1 & x1 & He1 & Ec1 & El1). destruct url as [|c url'].
  { apply MH_ret; auto. split; auto. exists x1. auto. }
  pose proof He1 as (Hx1 & Hnp1 & Hc1).
  apply (MH_bind T _ _ s1 _ _ (MH_relate_ext T s1 p x1 rt_hyperlink (c :: url') HT HI1 Hx1 Hnp1
                                  (editable_not_master _ _ _ He1) rt_hyperlink_ne_master)).
  intros rid s2 HI2 (rs & -> & F).
  assert (He2 : editable (setp s1 p (with_rels x1 rs)) p (with_rels x1 rs)) by (apply editable_relate; auto).
  eapply MH_weaken.
  - apply (MH_fill T _ p (with_rels x1 rs) w j rid HT HI2 He2).
    destruct F as (_ & (r & Hr & Ht & _) & _). exists r. split; auto. rewrite Ht. apply link_type_hyperlink.
  - intros [] s3 (Hf3 & x3 & He3 & Ec3 & El3). split.
    + eapply frame_trans; [exact Hf1|]. eapply frame_trans; [eapply frame_setp; eauto|exact Hf3].
    + exists x3. split; auto. split; [rewrite Ec3; exact Ec1|]. rewrite El3. exact El1.
Qed.

Lemma MH_set_jump T s p x j tp : tables_ok T -> Inv T s -> editable s p x -> listed s tp ->
  MH T (m_set_jump p j tp) s (fun _ s1 => edit_post p x s s1).
Proof.
  intros HT HI He Hl. unfold m_set_jump.
  apply (MH_bind T _ _ s _ _ (MH_clear T s p x WClick j HT HI He)).
  intros [] s1 HI1 (Hf1 & x1 & He1 & Ec1 & El1).
  pose proof He1 as (Hx1 & Hnp1 & Hc1). pose proof He as (_ & Hnp & _).
  assert (Hl1 : listed s1 tp) by (eapply frame_listed; eauto).
  pose proof (listed_reach T s1 tp HI1 Hl1) as Hr1.
  apply (MH_bind T _ _ s1 (fun rid s2 => exists rs, s2 = setp s1 p (with_rels x1 rs) /\ rel_facts x1 rs rid rt_slide (TInt tp))).
  - apply (MH_relate_int T s1 p x1 rt_slide tp []); auto; try (intros; contradiction).
    + apply (editable_not_master _ _ _ He1).
    + apply rt_slide_ne_master.
    + apply (reachP_lt s1 (inv_wfg T s1 HI1)). exact Hr1.
  - intros rid s2 HI2 (rs & -> & F).
    assert (He2 : editable (setp s1 p (with_rels x1 rs)) p (with_rels x1 rs)) by (apply editable_relate; auto).
    eapply MH_weaken.
    + apply (MH_fill T _ p (with_rels x1 rs) WClick j rid HT HI2 He2).
      destruct F as (_ & (r & Hr & Ht & _) & _). exists r. split; auto. rewrite Ht. apply link_type_slide.
    + intros [] s3 (Hf3 & x3 & He3 & Ec3 & El3). split.
      * eapply frame_trans; [exact Hf1|]. eapply frame_trans; [eapply frame_setp; eauto|exact Hf3].
      * exists x3. split; auto. split; [rewrite Ec3; exact Ec1|]. rewrite El3. exact El1.
Qed.

Lemma MH_has_slot T s p x j : Inv T s -> getp s p = Some x ->
  MH T (m_has_slot p j) s (fun _ s1 => s1 = s).
Proof.
  intros HI Hx. unfold m_has_slot. apply (MH_bind T _ _ s (fun y s1 => s1 = s)); [apply (MH_part T s p x); auto|].
  intros y s1 _ ->. apply MH_ret; auto.
Qed.

(** ** the link operations *)

Lemma MH_true {A} T (m : M A) s Q : MH T m s Q -> Inv T (fst (m s)).
Proof. intros [H _]. exact H. Qed.

Lemma step_set_link T s w i j url : tables_ok T -> Inv T s -> Inv T (fst (step false T s (SetLink w i j url))).
Proof.
  intros HT HI. cbn [step]. rewrite fst_fin. eapply MH_true.
  apply (MH_bind T _ _ s _ (fun _ _ => True) (MH_slide T s i HT HI)). intros sp s1 HI1 [Hs _].
  destruct (slidep_editable s1 sp Hs) as (x & He & Ec & Hr). pose proof He as (Hx & _).
  apply (MH_bind T _ _ s1 _ _ (MH_has_slot T s1 sp x j HI1 Hx)). intros h s2 _ ->.
  destruct h; [|apply MH_ret; auto].
  apply (MH_bind T _ _ s1 _ _ (MH_set_link T s1 sp x w j url HT HI1 He)). intros [] s3 HI3 _. apply MH_ret; auto.
Qed.

Lemma step_clear_link T s w i j : tables_ok T -> Inv T s -> Inv T (fst (step false T s (ClearLink w i j))).
Proof.
  intros HT HI. cbn [step]. rewrite fst_fin. eapply MH_true.
  apply (MH_bind T _ _ s _ (fun _ _ => True) (MH_slide T s i HT HI)). intros sp s1 HI1 [Hs _].
  destruct (slidep_editable s1 sp Hs) as (x & He & Ec & Hr). pose proof He as (Hx & _).
  apply (MH_bind T _ _ s1 _ _ (MH_has_slot T s1 sp x j HI1 Hx)). intros h s2 _ ->.
  destruct h; [|apply MH_ret; auto].
  apply (MH_bind T _ _ s1 _ _ (MH_clear T s1 sp x w j HT HI1 He)). intros [] s3 HI3 _. apply MH_ret; auto.
Qed.

Lemma step_clear_jump T s i j : tables_ok T -> Inv T s -> Inv T (fst (step false T s (ClearJump i j))).
Proof.
  intros HT HI. cbn [step]. rewrite fst_fin. eapply MH_true.
  apply (MH_bind T _ _ s _ (fun _ _ => True) (MH_slide T s i HT HI)). intros sp s1 HI1 [Hs _].
  destruct (slidep_editable s1 sp Hs) as (x & He & Ec & Hr). pose proof He as (Hx & _).
  apply (MH_bind T _ _ s1 _ _ (MH_has_slot T s1 sp x j HI1 Hx)). intros h s2 _ ->.
  destruct h; [|apply MH_ret; auto].
  apply (MH_bind T _ _ s1 _ _ (MH_clear T s1 sp x WClick j HT HI1 He)). intros [] s3 HI3 _. apply MH_ret; auto.
Qed.

Lemma slide_pure s k : st_slides s = true -> fst (m_slide k s) = s.
Proof.
  intros Hs. unfold m_slide, bindM, m_access_slides. rewrite Hs. unfold getS, m_part, bindM, getS, ret, fail, lift, m_class, m_part, bindM, getS.
  destruct (getp s (st_pres s)) as [pp|]; cbn; auto.
  destruct (nth_error (pt_idl pp) k) as [rid|]; cbn; auto.
  destruct (related_part rid (pt_rels pp)) as [sp|]; cbn; auto.
  unfold ret, fail. destruct (getp s sp) as [x|]; cbn; auto.
  destruct (str_eqb (pt_ct x) ct_slide); cbn; auto.
Qed.

Lemma MH_slide_again T s k : tables_ok T -> Inv T s -> st_slides s = true ->
  MH T (m_slide k) s (fun tp s1 => s1 = s /\ slidep s tp).
Proof.
  intros HT HI Hs. destruct (MH_slide T s k HT HI) as [H1 H2]. pose proof (slide_pure s k Hs) as E.
  split; [rewrite E; auto|]. intros a Ha. specialize (H2 a Ha). rewrite E in *. tauto.
Qed.

Lemma step_set_jump T s i j k : tables_ok T -> Inv T s -> Inv T (fst (step false T s (SetJump i j k))).
Proof.
  intros HT HI. cbn [step]. rewrite fst_fin. eapply MH_true.
  apply (MH_bind T _ _ s _ (fun _ _ => True) (MH_slide T s i HT HI)). intros sp s1 HI1 [Hs _].
  destruct (slidep_editable s1 sp Hs) as (x & He & Ec & Hr). pose proof He as (Hx & _).
  apply (MH_bind T _ _ s1 _ _ (MH_has_slot T s1 sp x j HI1 Hx)). intros h s2 _ ->.
  destruct h; [|apply MH_ret; auto].
  apply (MH_bind T _ _ s1 _ _ (MH_slide_again T s1 k HT HI1 (proj1 Hs))). intros tp s2 _ [-> Htp].
  apply (MH_bind T _ _ s1 _ _ (MH_set_jump T s1 sp x j tp HT HI1 He (proj2 (proj2 (proj2 (proj2 Htp)))))).
  intros [] s3 HI3 _. apply MH_ret; auto.
Qed.

(** a read access changes nothing (target_ref is an ordinary property) *)
Lemma read_link_pure p w j s : fst (m_read_link false p w j s) = s.
Proof.
  unfold m_read_link, bindM, m_part, bindM, getS, ret, fail.
  destruct (getp s p) as [x|]; cbn; auto.
  destruct (nth_error (pt_slots x) j) as [cr|]; cbn; auto.
  destruct (slot_get w cr) as [rid|]; cbn; auto.
  unfold m_target_ref, bindM, m_part, bindM, getS, ret, fail. destruct (getp s p) as [x'|]; cbn; auto.
  destruct (find_rel rid (pt_rels x')) as [r|]; cbn; auto.
  destruct (rr_tgt r), (rr_ref r); cbn; auto.
Qed.

Lemma step_read_link T s w i j : tables_ok T -> Inv T s -> Inv T (fst (step false T s (ReadLink w i j))).
Proof.
  intros HT HI. cbn [step]. rewrite fst_fin. unfold bindM.
  destruct (MH_slide T s i HT HI) as [H1 _]. destruct (m_slide i s) as [s1 [sp|e]]; cbn in *; auto.
  rewrite read_link_pure. exact H1.
Qed.

(* ------------------------------------------------------------------------------ *)
(** * Creating a part and relating to it *)

Definition addp (s : state) (y : part) : state := with_parts s (st_parts s ++ [y]).

Lemma m_new_run s y : m_new y s = (addp s y, Ok (length (st_parts s))).
Proof. reflexivity. Qed.

Lemma MH_new T s y (Q : nat -> state -> Prop) : tables_ok T -> Inv T s ->
  good_part (S (length (st_parts s))) y -> pt_idl y = [] ->
  Q (length (st_parts s)) (addp s y) -> MH T (m_new y) s Q.
Proof.
  intros HT HI G Hi HQ. unfold MH. rewrite m_new_run. cbn. split; [apply inv_append; auto|].
  intros a [= <-]. exact HQ.
Qed.

Lemma addp_names_in T s y nm : tables_ok T -> Inv T s -> good_part (S (length (st_parts s))) y -> pt_idl y = [] ->
  In nm (iter_names (addp s y)) -> In nm (iter_names s).
Proof.
  intros HT HI G Hi H. pose proof (inv_append T s y HT HI G Hi) as HI'.
  apply (in_iter_names _ (inv_wfg T _ HI')) in H as (p & x & Hpx & En).
  apply (reach_part_iff _ (inv_wfg T _ HI')) in Hpx as [Hr Hx].
  apply (ap_reach_iff T s y HI) in Hr. apply (in_iter_names s (inv_wfg T s HI)).
  exists p, x. split; auto. apply (reach_part_iff s (inv_wfg T s HI)). split; auto.
  pose proof (reachP_lt s (inv_wfg T s HI) p Hr) as Hlt.
  unfold addp in Hx. rewrite getp_app_old in Hx; auto.
Qed.

Lemma addp_not_reach T s y : Inv T s -> ~ reachP (addp s y) (length (st_parts s)).
Proof.
  intros HI Hr. apply (ap_reach_iff T s y HI) in Hr. pose proof (reachP_lt s (inv_wfg T s HI) _ Hr). lia.
Qed.

(** a new part fit to be reached: a fresh part name outside the special directories, a content
    type the default table does not list for bin *)
Record leaf_ok (T : tables) (s : state) (y : part) : Prop := mkLeaf {
  lf_good : good_part (S (length (st_parts s))) y;
  lf_idl : pt_idl y = [];
  lf_fresh : ~ In (pt_name y) (iter_names s);
  lf_bin : Opc.in_table (t_def T) s_bin (pt_ct y) = false;
  lf_dir : baseURI (pt_name y) <> s_slides_dir;
  lf_nm : pt_name y <> n_notes_master;
  lf_core : pt_name y <> n_core
}.

(** relating a part [src] of the state just extended by the unreached leaf [y] to that leaf *)
Lemma MH_relate_leaf T s y src x t : tables_ok T -> Inv T s -> leaf_ok T s y -> pt_rels y = [] ->
  getp s src = Some x -> src <> st_pres s -> pt_ct x <> ct_slide_master -> t <> rt_slide_master ->
  MH T (m_relate src t (TInt (length (st_parts s)))) (addp s y)
     (fun rid s1 => exists rs, s1 = setp (addp s y) src (with_rels x rs) /\ rel_facts x rs rid t (TInt (length (st_parts s)))).
Proof.
  intros HT HI [G Hi Hf Hb Hd Hn Hc] Hr Hx Hnp Hnm Ht.
  pose proof (inv_append T s y HT HI G Hi) as HI'.
  assert (Hx' : getp (addp s y) src = Some x) by (unfold addp; rewrite getp_app_old; auto; eapply getp_lt; eauto).
  assert (Hy : getp (addp s y) (length (st_parts s)) = Some y) by apply getp_app_new.
  apply (MH_relate_int T (addp s y) src x t (length (st_parts s)) [length (st_parts s)]); auto.
  - unfold addp. cbn. rewrite app_length. simpl. lia.
  - intros [E|[]]. pose proof (getp_lt s src x Hx). lia.
  - right. left. simpl. auto.
  - intros n z q' [<-|[]] Hz Hq'. rewrite Hy in Hz. injection Hz as <-. rewrite Hr in Hq'. destruct Hq'.
  - intros n z [<-|[]] _ Hz. rewrite Hy in Hz. injection Hz as <-. split; [|auto].
    constructor; auto. intros Hin. apply Hf. eapply addp_names_in; eauto.
  - intros n m z z' [<-|[]] [<-|[]] Hne. contradiction.
Qed.

Lemma good_new_part n name ct sha : Opc.part_name name -> good_part n (new_part name ct sha).
Proof.
  intros H. constructor; cbn; auto; try (intros; contradiction).
  - constructor.
  - intros _. split; [constructor|]. split; [intros kr []|intros r x' []].
Qed.

Lemma typed_targets_int ts rs p : In p (typed_targets ts rs) -> In p (int_targets rs).
Proof.
  unfold typed_targets. intros H. apply in_flat_map in H as (r & Hr & Hp). apply int_targets_In. exists r. split; auto.
  destruct (mem_str (rr_type r) ts); [|destruct Hp]. destruct (rr_tgt r); simpl in Hp; [destruct Hp as [->|[]]; auto|destruct Hp].
Qed.

Lemma rel_targets_reach s ts p : wfg s -> In p (rel_targets s ts) -> reachP s p.
Proof.
  intros Hw H. unfold rel_targets in H. apply in_app_or in H as [H|H].
  - constructor. eapply typed_targets_int; eauto.
  - apply in_flat_map in H as (a & Ha & Hp). destruct (getp s a) as [x|] eqn:Hx; [|destruct Hp].
    eapply rp1; [apply (iter_pids_spec s Hw); exact Ha|exact Hx|eapply typed_targets_int; eauto].
Qed.

Lemma find_image_In s sha cands p : find_image s sha cands = Some p -> In p cands.
Proof.
  induction cands as [|a l IH]; simpl; [discriminate|]. destruct (getp s a) as [x|].
  - destruct (negb (N.eqb (pt_sha x) 0) && N.eqb (pt_sha x) sha); [intros [= <-]; auto|auto].
  - auto.
Qed.

Lemma find_media_In s sha cands p : find_media s sha cands = Ok (Some p) -> In p cands.
Proof.
  induction cands as [|a l IH]; simpl; [discriminate|]. destruct (getp s a) as [x|].
  - destruct (N.eqb (pt_sha x) 0); [discriminate|]. destruct (N.eqb (pt_sha x) sha); [intros [= <-]; auto|auto].
  - auto.
Qed.

Lemma media_leaf T s stem i b :
  tables_ok T -> Inv T s -> blob_ok T b -> stem_ok stem = true -> (0 < i)%Z ->
  let name := (c_slash :: asc "ppt/media/") ++ stem ++ Wire.show_Z i ++ [c_dot] ++ b_ext b in
  ~ In name (iter_names s) -> leaf_ok T s (new_part name (b_ct b) (b_sha b)).
Proof.
  intros HT HI (He & Hb & _) Hs Hi name Hf.
  destruct (media_dir_name stem i (b_ext b) Hs Hi He) as (_ & Hpn & Hbase). fold name in Hpn, Hbase.
  constructor; cbn [pt_name pt_ct pt_idl new_part]; auto.
  - apply good_new_part. exact Hpn.
  - rewrite Hbase. vm_compute. discriminate.
  - intros E. rewrite E in Hbase. vm_compute in Hbase. discriminate.
  - intros E. rewrite E in Hbase. vm_compute in Hbase. discriminate.
Qed.

(** Package.get_or_add_image_part: an image part that is reached already, or a new leaf *)
Lemma MH_image T s b : tables_ok T -> Inv T s -> blob_ok T b ->
  MH T (m_image b) s (fun ip s1 =>
    (s1 = s /\ reachP s ip) \/
    (exists y, s1 = addp s y /\ ip = length (st_parts s) /\ leaf_ok T s y /\ pt_rels y = [])).
Proof.
  intros HT HI Hb. pose proof (inv_wfg T s HI) as Hw. unfold m_image.
  apply (MH_bind T _ _ s (fun a s1 => a = s /\ s1 = s)); [apply MH_getS; auto|]. intros a s1 _ [-> ->].
  destruct (find_image s (b_sha b) (rel_targets s [rt_image])) as [p|] eqn:Ef.
  - apply MH_ret; auto. left. split; auto. eapply rel_targets_reach; eauto. eapply find_image_In; eauto.
  - destruct Hb as (He & Hbin & Hcls). destruct (ext_ok_spec _ He) as [Hnd Hns].
    destruct (Ids_proofs.image_idx_fresh (iter_names s)) as [Hpos _].
    pose proof (Ids_proofs.image_name_fresh (b_ext b) (iter_names s)) as Hfresh.
    unfold Ids.next_image_partname in *.
    change Ids.s_img_prefix with ((c_slash :: asc "ppt/media/") ++ asc "image") in *.
    rewrite <- app_assoc in *.
    destruct (media_dir_name (asc "image") (Ids.next_image_idx (iter_names s)) (b_ext b) eq_refl ltac:(lia) He) as (Hok & _).
    cbv zeta in Hok. rewrite Hok in *. 
    apply (MH_bind T _ _ s (fun nm s1 => s1 = s /\ nm = (c_slash :: asc "ppt/media/") ++ asc "image" ++ Wire.show_Z (Ids.next_image_idx (iter_names s)) ++ [c_dot] ++ b_ext b)).
    + apply MH_lift; auto. intros nm [= <-]. auto.
    + intros nm s1 _ [-> ->].
      assert (Hl : leaf_ok T s (new_part ((c_slash :: asc "ppt/media/") ++ asc "image" ++ Wire.show_Z (Ids.next_image_idx (iter_names s)) ++ [c_dot] ++ b_ext b) (b_ct b) (b_sha b))).
      { assert (Hbo : blob_ok T b) by (repeat split; auto).
        assert (Hlt : (0 < Ids.next_image_idx (iter_names s))%Z) by lia.
        apply (media_leaf T s (asc "image") _ b HT HI Hbo eq_refl Hlt).
        apply (Hfresh _ Hnd Hns). reflexivity. }
      apply MH_new; auto; [apply (lf_good _ _ _ Hl)|].
      right. eexists. split; [reflexivity|]. split; auto.
Qed.

(** what an operation that may add parts leaves alone *)
Definition gframe (src : nat) (s s1 : state) : Prop :=
  st_pres s1 = st_pres s /\ st_slides s1 = st_slides s /\ length (st_parts s) <= length (st_parts s1) /\
  forall q, q <> src -> q < length (st_parts s) -> getp s1 q = getp s q.

Lemma gframe_refl src s : gframe src s s.
Proof. repeat split; auto. Qed.

Lemma gframe_trans src s s1 s2 : gframe src s s1 -> gframe src s1 s2 -> gframe src s s2.
Proof.
  intros (A1 & A2 & A3 & A4) (B1 & B2 & B3 & B4). repeat split; try congruence; try lia.
  intros q Hq Hl. rewrite B4, A4; auto. lia.
Qed.

Lemma gframe_setp src s x : gframe src s (setp s src x).
Proof. repeat split; auto. - rewrite length_setp. lia. - intros q Hq _. apply getp_setp_other. auto. Qed.

Lemma gframe_addp src s y : gframe src s (addp s y).
Proof.
  repeat split; auto.
  - unfold addp. cbn. rewrite app_length. lia.
  - intros q _ Hl. unfold addp. apply getp_app_old. exact Hl.
Qed.

Lemma gframe_listed src s s1 sp : gframe src s s1 -> src <> st_pres s -> (exists pp, getp s (st_pres s) = Some pp) ->
  listed s sp -> listed s1 sp.
Proof.
  intros (A1 & _ & _ & A4) Hn _ (pp & rid & Hpp & Hr). exists pp, rid. split; auto. rewrite A1, A4; auto.
  eapply getp_lt; eauto.
Qed.

Definition rel_post (src : nat) (x : part) (t : str) (s : state) (rid : str) (s1 : state) : Prop :=
  gframe src s s1 /\ exists rs ip, getp s1 src = Some (with_rels x rs) /\ rel_facts x rs rid t (TInt ip).

Lemma rt_image_ne_master : rt_image <> rt_slide_master. Proof. vm_compute; discriminate. Qed.

Lemma MH_part_image T s src x b : tables_ok T -> Inv T s -> blob_ok T b ->
  getp s src = Some x -> src <> st_pres s -> pt_ct x <> ct_slide_master ->
  MH T (m_part_image src b) s (rel_post src x rt_image s).
Proof.
  intros HT HI Hb Hx Hnp Hnm. unfold m_part_image. pose proof (getp_lt s src x Hx) as Hlt.
  apply (MH_bind T _ _ s _ _ (MH_image T s b HT HI Hb)).
  intros ip s1 HI1 [[-> Hr]|(y & -> & -> & Hl & Hrel)].
  - eapply MH_weaken.
    + apply (MH_relate_int T s src x rt_image ip []); auto; try (intros; contradiction).
      * apply rt_image_ne_master.
      * apply (reachP_lt s (inv_wfg T s HI)). exact Hr.
    + intros rid s2 (rs & -> & F). split; [apply gframe_setp|]. exists rs, ip. split; auto. apply getp_setp_same. exact Hlt.
  - eapply MH_weaken.
    + apply (MH_relate_leaf T s y src x rt_image); auto. apply rt_image_ne_master.
    + intros rid s2 (rs & -> & F). split; [eapply gframe_trans; [apply gframe_addp|apply gframe_setp]|].
      exists rs, (length (st_parts s)). split; auto. apply getp_setp_same.
      unfold addp. cbn. rewrite app_length. lia.
Qed.

(** appending references to relationships of a kind that is not a link type *)
Lemma MH_add_refs T s p x krs : tables_ok T -> Inv T s -> getp s p = Some x -> p <> st_pres s ->
  pt_ct x <> ct_slide_master ->
  (forall k r, In (k, r) krs -> exists r', find_rel r (pt_rels x) = Some r' /\ (k <> k_id -> ~ In (rr_type r') link_types)) ->
  Inv T (setp s p (with_refs x (pt_refs x ++ krs))).
Proof.
  intros HT HI Hx Hnp Hnm Hk. apply (inv_setp T s p x _ []); auto; try (intros; contradiction).
  apply good_add_refs; auto. apply (iv_parts T s HI p x Hx).
Qed.

Lemma not_link_image : ~ In rt_image link_types.
Proof. intros H. vm_compute in H. destruct H as [H|[H|[]]]; discriminate. Qed.

Lemma step_add_picture T s i b : tables_ok T -> blob_ok T b -> Inv T s -> Inv T (fst (step false T s (AddPicture i b))).
Proof.
  intros HT Hb HI. cbn [step]. rewrite fst_fin. eapply MH_true. unfold m_add_picture.
  apply (MH_bind T _ _ s _ (fun _ _ => True) (MH_slide T s i HT HI)). intros sp s1 HI1 [Hs _].
  destruct (slidep_editable s1 sp Hs) as (x & He & Ec & Hr). pose proof He as (Hx & Hnp & _).
  pose proof (editable_not_master _ _ _ He) as Hnm.
  apply (MH_bind T _ _ s1 _ _ (MH_part_image T s1 sp x b HT HI1 Hb Hx Hnp Hnm)).
  intros rid s2 HI2 (Hg & rs & ip & Hx2 & F). unfold m_add_ref.
  apply (MH_bind T _ _ s2 (fun y s3 => y = with_rels x rs /\ s3 = s2)); [apply (MH_part T s2 sp (with_rels x rs)); auto|].
  intros y s3 _ [-> ->]. apply MH_setp; auto.
  apply (MH_add_refs T s2 sp (with_rels x rs) [(k_embed, rid)]); auto.
  - destruct Hg as (E & _). rewrite E. exact Hnp.
  - intros k r [[= <- <-]|[]]. destruct F as (_ & (r' & Hr' & Ht & _) & _). exists r'. split; auto.
    intros _. rewrite Ht. apply not_link_image.
Qed.

Lemma good_with_phs n x k : good_part n x -> good_part n (with_phs x k).
Proof. intros [H1 H2 H3 H4 H5 H6 H7 H8 H9 H10]. constructor; auto. Qed.

Lemma step_insert_picture T s i b : tables_ok T -> blob_ok T b -> Inv T s -> Inv T (fst (step false T s (InsertPicture i b))).
Proof.
  intros HT Hb HI. cbn [step]. rewrite fst_fin. eapply MH_true.
  apply (MH_bind T _ _ s _ (fun _ _ => True) (MH_slide T s i HT HI)). intros sp s1 HI1 [Hs _].
  destruct (slidep_editable s1 sp Hs) as (x & He & Ec & Hr). pose proof He as (Hx & Hnp & _).
  pose proof (editable_not_master _ _ _ He) as Hnm.
  apply (MH_bind T _ _ s1 (fun y s3 => y = x /\ s3 = s1)); [apply (MH_part T s1 sp x); auto|].
  intros y s3 _ [-> ->]. destruct (pt_phs x) as [|n]; [apply MH_ret; auto|].
  apply (MH_bind T _ _ s1 _ _ (MH_part_image T s1 sp x b HT HI1 Hb Hx Hnp Hnm)).
  intros rid s2 HI2 (Hg & rs & ip & Hx2 & F).
  apply (MH_bind T _ _ s2 (fun y s3 => y = with_rels x rs /\ s3 = s2)); [apply (MH_part T s2 sp (with_rels x rs)); auto|].
  intros y s3 _ [-> ->].
  assert (Hnp2 : sp <> st_pres s2) by (destruct Hg as (E & _); rewrite E; exact Hnp).
  apply (MH_bind T _ _ s2 (fun _ _ => True)); [|intros; apply MH_ret; auto].
  apply MH_setp; auto.
  apply (inv_setp T s2 sp (with_rels x rs) _ []); auto; try (intros; contradiction).
  apply good_with_phs. apply good_add_refs; auto; [apply (iv_parts T s2 HI2 sp _ Hx2)|].
  intros k r [[= <- <-]|[]]. destruct F as (_ & (r' & Hr' & Ht & _) & _). exists r'. split; auto.
  intros _. rewrite Ht. apply not_link_image.
Qed.

(* ------------------------------------------------------------------------------ *)
(** * Parts named from a template *)

Lemma other_dirs_plain d : In d other_dirs ->
  d <> s_slides_dir /\ d <> baseURI n_notes_master /\ d <> baseURI n_core.
Proof.
  intros H. simpl in H. repeat (destruct H as [<-|H]; [repeat split; vm_compute; discriminate|]). destruct H.
Qed.

Lemma tmpl_leaf T s tp k ct sha : tables_ok T -> Inv T s -> In tp known_tps -> In ct new_part_cts ->
  ~ In (Ids.tmpl_apply (fst tp) (snd tp) k) (iter_names s) ->
  leaf_ok T s (new_part (Ids.tmpl_apply (fst tp) (snd tp) k) ct sha).
Proof.
  intros HT HI Htp Hct Hf. destruct (tp_name_facts tp k Htp) as [Hpn Hd].
  destruct (other_dirs_plain _ Hd) as (D1 & D2 & D3).
  constructor; cbn [pt_name pt_ct pt_idl new_part]; auto.
  - apply good_new_part. exact Hpn.
  - apply (tk_bin T HT). exact Hct.
  - intros E. apply D2. rewrite E. reflexivity.
  - intros E. apply D3. rewrite E. reflexivity.
Qed.

Lemma MH_next_partname T s tp : Inv T s -> In tp known_tps ->
  MH T (m_next_partname tp) s (fun nm s1 => s1 = s /\ ~ In nm (iter_names s) /\
                                             exists k, nm = Ids.tmpl_apply (fst tp) (snd tp) k).
Proof.
  intros HI Htp. unfold m_next_partname.
  apply (MH_bind T _ _ s (fun a s1 => a = s /\ s1 = s)); [apply MH_getS; auto|]. intros a s1 _ [-> ->].
  apply MH_lift; auto. intros nm E. pose proof (Ids_proofs.partname_fresh (fst tp) (snd tp) (iter_names s)) as H.
  rewrite E in H. destruct H as (Hf & k & _ & Hk). split; auto. split; auto. eauto.
Qed.

Lemma rel_facts_keep x rs rid t g k r : rel_facts x rs rid t g -> find_rel k (pt_rels x) = Some r -> find_rel k rs = Some r.
Proof.
  intros (_ & _ & H) Hf. rewrite H; auto. apply find_rel_In in Hf as [Hin <-]. apply in_map. exact Hin.
Qed.

Lemma ole_spec_facts k : let '(tp, ct, rt) := ole_spec k in
  In tp known_tps /\ In ct new_part_cts /\ rt <> rt_slide_master /\ ~ In rt link_types.
Proof.
  destruct k; cbn; (split; [simpl; tauto|split; [simpl; tauto|split; [vm_compute; discriminate|]]]);
    intros H; vm_compute in H; destruct H as [H|[H|[]]]; discriminate.
Qed.

Lemma icon_blob_ok T k : tables_ok T -> blob_ok T (icon_blob k).
Proof.
  intros HT. destruct k; (split; [reflexivity|split; [apply (tk_bin T HT); simpl; tauto|]]);
    intros H; vm_compute in H; repeat (destruct H as [H|H]; [discriminate|]); exact H.
Qed.

Lemma speaker_blob_ok T : tables_ok T -> blob_ok T speaker_blob.
Proof.
  intros HT. split; [reflexivity|split; [apply (tk_bin T HT); simpl; tauto|]].
  intros H; vm_compute in H; repeat (destruct H as [H|H]; [discriminate|]); exact H.
Qed.

Lemma step_add_ole T s i k : tables_ok T -> Inv T s -> Inv T (fst (step false T s (AddOle i k))).
Proof.
  intros HT HI. cbn [step]. rewrite fst_fin. eapply MH_true. unfold m_add_ole.
  apply (MH_bind T _ _ s _ (fun _ _ => True) (MH_slide T s i HT HI)). intros sp s1 HI1 [Hs _].
  destruct (slidep_editable s1 sp Hs) as (x & He & Ec & Hr). pose proof He as (Hx & Hnp & _).
  pose proof (editable_not_master _ _ _ He) as Hnm.
  pose proof (ole_spec_facts k) as Hk. destruct (ole_spec k) as [[tp ct] rt]. destruct Hk as (Htp & Hct & Hrt & Hnl).
  apply (MH_bind T _ _ s1 _ _ (MH_next_partname T s1 tp HI1 Htp)). intros nm s2 _ (-> & Hf & kk & ->).
  pose proof (tmpl_leaf T s1 tp kk ct 0 HT HI1 Htp Hct Hf) as Hl.
  apply (MH_bind T _ _ s1 (fun ep s2 => ep = length (st_parts s1) /\ s2 = addp s1 (new_part (Ids.tmpl_apply (fst tp) (snd tp) kk) ct 0))).
  { apply MH_new; [exact HT|exact HI1|apply (lf_good _ _ _ Hl)|reflexivity|split; reflexivity]. }
  intros ep s2 HI2 [-> ->].
  apply (MH_bind T _ _ _ _ _ (MH_relate_leaf T s1 _ sp x rt HT HI1 Hl eq_refl Hx Hnp Hnm Hrt)).
  intros ole_rid s3 HI3 (rs & -> & F).
  set (s2 := addp s1 (new_part (Ids.tmpl_apply (fst tp) (snd tp) kk) ct 0)) in *.
  assert (Hlt : sp < length (st_parts s2)).
  { unfold s2, addp. cbn. rewrite app_length. pose proof (getp_lt s1 sp x Hx). lia. }
  assert (Hx3 : getp (setp s2 sp (with_rels x rs)) sp = Some (with_rels x rs)) by (apply getp_setp_same; auto).
  apply (MH_bind T _ _ _ _ _ (MH_part_image T _ sp (with_rels x rs) (icon_blob k) HT HI3 (icon_blob_ok T k HT) Hx3 Hnp Hnm)).
  intros icon_rid s4 HI4 (Hg & rs2 & ip & Hx4 & F2).
  apply (MH_bind T _ _ s4 (fun y s5 => y = with_rels (with_rels x rs) rs2 /\ s5 = s4)); [apply (MH_part T s4 sp _ _ HI4 Hx4); auto|].
  intros y s5 _ [-> ->]. apply MH_setp; auto.
  apply (MH_add_refs T s4 sp _ [(k_id, ole_rid); (k_embed, icon_rid)]); auto.
  - destruct Hg as (E & _). rewrite E. exact Hnp.
  - intros k0 r [[= <- <-]|[[= <- <-]|[]]].
    + destruct F as (_ & (r' & Hr' & Ht & _) & _). exists r'. split.
      * apply (rel_facts_keep _ _ _ _ _ _ _ F2). exact Hr'.
      * intros _. rewrite Ht. exact Hnl.
    + destruct F2 as (_ & (r' & Hr' & Ht & _) & _). exists r'. split; auto. intros _. rewrite Ht. apply not_link_image.
Qed.

(* ------------------------------------------------------------------------------ *)
(** * Movies *)

Definition got (T : tables) (s : state) (ip : nat) (s1 : state) : Prop :=
  (s1 = s /\ reachP s ip) \/
  (exists y, s1 = addp s y /\ ip = length (st_parts s) /\ leaf_ok T s y /\ pt_rels y = []).

Lemma MH_relate_got T s s' src x t ip : tables_ok T -> Inv T s -> got T s ip s' ->
  getp s src = Some x -> src <> st_pres s -> pt_ct x <> ct_slide_master -> t <> rt_slide_master ->
  MH T (m_relate src t (TInt ip)) s'
     (fun rid s2 => gframe src s s2 /\ exists rs, getp s2 src = Some (with_rels x rs) /\ rel_facts x rs rid t (TInt ip)).
Proof.
  intros HT HI Hg Hx Hnp Hnm Ht. pose proof (getp_lt s src x Hx) as Hlt.
  destruct Hg as [[-> Hr]|(y & -> & -> & Hl & Hrel)].
  - eapply MH_weaken.
    + apply (MH_relate_int T s src x t ip []); auto; try (intros; contradiction).
      apply (reachP_lt s (inv_wfg T s HI)). exact Hr.
    + intros rid s2 (rs & -> & F). split; [apply gframe_setp|]. exists rs. split; auto. apply getp_setp_same. exact Hlt.
  - eapply MH_weaken.
    + apply (MH_relate_leaf T s y src x t); auto.
    + intros rid s2 (rs & -> & F). split; [eapply gframe_trans; [apply gframe_addp|apply gframe_setp]|].
      exists rs. split; auto. apply getp_setp_same. unfold addp. cbn. rewrite app_length. lia.
Qed.

Lemma MH_media T s v : tables_ok T -> Inv T s -> blob_ok T v ->
  MH T (m_media v) s (fun mp s1 => got T s mp s1).
Proof.
  intros HT HI Hb. pose proof (inv_wfg T s HI) as Hw. unfold m_media.
  apply (MH_bind T _ _ s (fun a s1 => a = s /\ s1 = s)); [apply MH_getS; auto|]. intros a s1 _ [-> ->].
  destruct (find_media s (b_sha v) (rel_targets s [rt_media; rt_video])) as [[p|]|e] eqn:Ef.
  - apply (MH_bind T _ _ s (fun o s1 => o = Some p /\ s1 = s)); [apply MH_lift; auto; intros o [= <-]; auto|].
    intros o s1 _ [-> ->]. apply MH_ret; auto. left. split; auto.
    eapply rel_targets_reach; eauto. eapply find_media_In; eauto.
  - apply (MH_bind T _ _ s (fun o s1 => o = None /\ s1 = s)); [apply MH_lift; auto; intros o [= <-]; auto|].
    intros o s1 _ [-> ->]. destruct Hb as (He & Hbin & Hcls). destruct (ext_ok_spec _ He) as [Hnd Hns].
    pose proof (Ids_proofs.media_idx_spec (iter_names s)) as Hidx.
    pose proof (Ids_proofs.media_name_fresh (b_ext v) (iter_names s)) as Hfresh.
    unfold Ids.next_media_partname in *.
    destruct (Ids.next_media_idx (iter_names s)) as [idx|e] eqn:Ei; cbn [bind] in *.
    2:{ apply (MH_bind T _ _ s (fun _ _ => False)); [apply MH_lift; auto; discriminate|intros ? ? _ []]. }
    destruct Hidx as [Hpos _].
    change Ids.s_med_prefix with ((c_slash :: asc "ppt/media/") ++ asc "media") in *.
    rewrite <- app_assoc in *.
    destruct (media_dir_name (asc "media") idx (b_ext v) eq_refl ltac:(lia) He) as (Hok & _).
    cbv zeta in Hok. rewrite Hok in *.
    apply (MH_bind T _ _ s (fun nm s1 => s1 = s /\ nm = (c_slash :: asc "ppt/media/") ++ asc "media" ++ Wire.show_Z idx ++ [c_dot] ++ b_ext v)).
    + apply MH_lift; auto. intros nm [= <-]. auto.
    + intros nm s1 _ [-> ->].
      assert (Hl : leaf_ok T s (new_part ((c_slash :: asc "ppt/media/") ++ asc "media" ++ Wire.show_Z idx ++ [c_dot] ++ b_ext v) (b_ct v) (b_sha v))).
      { assert (Hbo : blob_ok T v) by (repeat split; auto).
        assert (Hlt : (0 < idx)%Z) by lia.
        apply (media_leaf T s (asc "media") _ v HT HI Hbo eq_refl Hlt).
        apply (Hfresh _ Hnd Hns). reflexivity. }
      apply MH_new; [exact HT|exact HI|apply (lf_good _ _ _ Hl)|reflexivity|].
      right. eexists. split; [reflexivity|]. split; auto.
  - apply (MH_bind T _ _ s (fun _ _ => False)); [apply MH_lift; auto; discriminate|intros ? ? _ []].
Qed.

Lemma rt_media_ne_master : rt_media <> rt_slide_master. Proof. vm_compute; discriminate. Qed.
Lemma rt_video_ne_master : rt_video <> rt_slide_master. Proof. vm_compute; discriminate. Qed.
Lemma not_link_media : ~ In rt_media link_types.
Proof. intros H. vm_compute in H. destruct H as [H|[H|[]]]; discriminate. Qed.
Lemma not_link_video : ~ In rt_video link_types.
Proof. intros H. vm_compute in H. destruct H as [H|[H|[]]]; discriminate. Qed.

Lemma rel_facts_target x rs rid t q : rel_facts x rs rid t (TInt q) -> In q (int_targets rs).
Proof.
  intros (_ & (r & Hr & _ & Hg) & _). apply find_rel_In in Hr as [Hin _]. apply int_targets_In. eauto.
Qed.

Lemma step_add_movie T s i v po : tables_ok T -> blob_ok T v -> match po with PImg b => blob_ok T b | _ => True end ->
  Inv T s -> Inv T (fst (step false T s (AddMovie i v po))).
Proof.
  intros HT Hv Hpo HI. cbn [step]. rewrite fst_fin. eapply MH_true. unfold m_add_movie.
  apply (MH_bind T _ _ s _ (fun _ _ => True) (MH_slide T s i HT HI)). intros sp s1 HI1 [Hs _].
  destruct (slidep_editable s1 sp Hs) as (x & He & Ec & Hr). pose proof He as (Hx & Hnp & _).
  pose proof (editable_not_master _ _ _ He) as Hnm.
  assert (Hlist : listed s1 sp) by (destruct Hs as (_ & _ & _ & _ & H); exact H).
  apply (MH_bind T _ _ s1 _ _ (MH_media T s1 v HT HI1 Hv)). intros mp s1' HI1' Hgot.
  apply (MH_bind T _ _ s1' _ _ (MH_relate_got T s1 s1' sp x rt_media mp HT HI1 Hgot Hx Hnp Hnm rt_media_ne_master)).
  intros media_rid s2 HI2 (Hg2 & rs & Hx2 & F).
  assert (Hnp2 : sp <> st_pres s2) by (destruct Hg2 as (E & _); rewrite E; exact Hnp).
  assert (Hl2 : listed s2 sp).
  { eapply gframe_listed; eauto. destruct (iv_pres T s1 HI1) as (pp & Hpp & _). eauto. }
  pose proof (listed_reach T s2 sp HI2 Hl2) as Hr2.
  assert (Hmp : reachP s2 mp) by (eapply rp1; [exact Hr2|exact Hx2|eapply rel_facts_target; eauto]).
  apply (MH_bind T _ _ s2 (fun rid s3 => exists rs3, s3 = setp s2 sp (with_rels (with_rels x rs) rs3) /\
                                                      rel_facts (with_rels x rs) rs3 rid rt_video (TInt mp))).
  { apply (MH_relate_int T s2 sp (with_rels x rs) rt_video mp []); auto; try (intros; contradiction).
    - apply rt_video_ne_master.
    - apply (reachP_lt s2 (inv_wfg T s2 HI2)). exact Hmp. }
  intros video_rid s3 HI3 (rs3 & -> & F3).
  set (x3 := with_rels (with_rels x rs) rs3).
  assert (Hx3 : getp (setp s2 sp x3) sp = Some x3) by (apply getp_setp_same; eapply getp_lt; eauto).
  assert (Hpost : forall b, blob_ok T b ->
            MH T (do poster_rid <- m_part_image sp b ;; do x0 <- m_part sp ;;
                  m_setp sp (with_refs x0 (pt_refs x0 ++ [(k_link, video_rid); (k_embed, media_rid); (k_embed, poster_rid)])))
               (setp s2 sp x3) (fun _ _ => True)).
  { intros b Hb.
    apply (MH_bind T _ _ _ _ _ (MH_part_image T _ sp x3 b HT HI3 Hb Hx3 Hnp2 Hnm)).
    intros poster_rid s4 HI4 (Hg4 & rs4 & ip & Hx4 & F4).
    apply (MH_bind T _ _ s4 (fun y s5 => y = with_rels x3 rs4 /\ s5 = s4)); [apply (MH_part T s4 sp _ _ HI4 Hx4); auto|].
    intros y s5 _ [-> ->]. apply MH_setp; auto.
    apply (MH_add_refs T s4 sp _ [(k_link, video_rid); (k_embed, media_rid); (k_embed, poster_rid)]); auto.
    - destruct Hg4 as (E & _). rewrite E. exact Hnp2.
    - intros k0 r [[= <- <-]|[[= <- <-]|[[= <- <-]|[]]]].
      + destruct F3 as (F3a & (r' & Hr' & Ht & Hg') & F3c). exists r'. split.
        * apply (rel_facts_keep _ _ _ _ _ _ _ F4). exact Hr'.
        * intros _. rewrite Ht. apply not_link_video.
      + destruct F as (Fa & (r' & Hr' & Ht & Hg') & Fc). exists r'. split.
        * apply (rel_facts_keep _ _ _ _ _ _ _ F4). apply (rel_facts_keep _ _ _ _ _ _ _ F3). exact Hr'.
        * intros _. rewrite Ht. apply not_link_media.
      + destruct F4 as (_ & (r' & Hr' & Ht & _) & _). exists r'. split; auto. intros _. rewrite Ht. apply not_link_image. }
  destruct po as [|b|].
  - apply (Hpost speaker_blob (speaker_blob_ok T HT)).
  - apply (Hpost b Hpo).
  - apply (MH_bind T _ _ _ (fun _ _ => False)); [apply MH_fail; auto|intros ? ? _ []].
Qed.

(* ------------------------------------------------------------------------------ *)
(** * States that differ only in parts nobody reaches *)

Definition ext_unreach (s s' : state) : Prop :=
  st_prels s' = st_prels s /\ length (st_parts s) <= length (st_parts s') /\
  forall p, reachP s p -> getp s' p = getp s p.

Lemma ext_unreach_refl s : ext_unreach s s.
Proof. repeat split; auto. Qed.

Lemma ext_reach T s s' : Inv T s -> ext_unreach s s' -> forall p, reachP s' p -> reachP s p.
Proof.
  intros HI (Hr & _ & Hg) p Hp.
  destruct (reach_frame s s' (fun _ => False)) with (p := p) as [|[]]; auto.
  - intros q Hq. left. constructor. rewrite <- Hr. exact Hq.
  - intros a x' q Hx' Hq [Ha|[]]. left. rewrite (Hg a Ha) in Hx'. eapply rp1; eauto.
Qed.

Lemma ext_reach_back s s' : ext_unreach s s' -> forall p, reachP s p -> reachP s' p.
Proof.
  intros (Hr & _ & Hg) p Hp. induction Hp as [q Hq|a q x Ha IH Hx Hq].
  - constructor. rewrite Hr. exact Hq.
  - eapply rp1; eauto. rewrite (Hg a Ha). exact Hx.
Qed.

Lemma ext_trans T s s1 s2 : Inv T s -> ext_unreach s s1 -> ext_unreach s1 s2 -> ext_unreach s s2.
Proof.
  intros HI (A1 & A2 & A3) (B1 & B2 & B3). split; [congruence|]. split; [lia|].
  intros p Hp. rewrite B3, A3; auto. apply (ext_reach_back s s1); auto. repeat split; auto.
Qed.

Lemma ext_names T s s' nm : Inv T s -> Inv T s' -> ext_unreach s s' -> In nm (iter_names s') -> In nm (iter_names s).
Proof.
  intros HI HI' He H. apply (in_iter_names _ (inv_wfg T _ HI')) in H as (p & x & Hpx & En).
  apply (reach_part_iff _ (inv_wfg T _ HI')) in Hpx as [Hr Hx].
  pose proof (ext_reach T s s' HI He p Hr) as Hr0. destruct He as (_ & _ & Hg). rewrite (Hg p Hr0) in Hx.
  apply (in_iter_names s (inv_wfg T s HI)). exists p, x. split; auto. apply (reach_part_iff s (inv_wfg T s HI)). auto.
Qed.

Lemma ext_addp T s y : Inv T s -> ext_unreach s (addp s y).
Proof.
  intros HI. split; [reflexivity|]. split; [unfold addp; cbn; rewrite app_length; lia|].
  intros p Hp. unfold addp. apply getp_app_old. apply (reachP_lt s (inv_wfg T s HI)). exact Hp.
Qed.

Lemma ext_setp_unreach s p x : ~ reachP s p -> ext_unreach s (setp s p x).
Proof.
  intros Hn. split; [reflexivity|]. split; [rewrite length_setp; lia|].
  intros q Hq. apply getp_setp_other. intros ->. contradiction.
Qed.

Lemma good_set_idl n x l : good_part n x -> pt_ct x <> ct_slide -> pt_ct x <> ct_notes_slide -> pt_ct x <> ct_slide_master ->
  (forall r, In r l -> In r (map rr_id (pt_rels x))) -> good_part n (with_idl x l).
Proof.
  intros [H1 H2 H3 H4 H5 H6 H7 H8 H9 H10] C1 C2 C3 Hl.
  assert (Hall : forall kr, In kr (all_refs (with_idl x l)) -> (fst kr = k_id /\ In (snd kr) l) \/ In kr (all_refs x)).
  { intros kr. unfold all_refs. cbn [pt_idl pt_refs pt_slots with_idl]. intros Hin.
    apply in_app_or in Hin as [Hin|Hin]; [|right; apply in_or_app; right; exact Hin].
    apply in_map_iff in Hin as (r & <- & Hr). left. auto. }
  constructor; cbn [pt_name pt_base pt_rels pt_ct]; auto.
  - intros kr Hkr. destruct (Hall kr Hkr) as [[_ H]|H]; auto.
  - intros k r x' Hkr Hk Hf. destruct (Hall _ Hkr) as [[E _]|H]; [contradiction|eapply H7; eauto].
  - intros [E|E]; contradiction.
  - intros E. contradiction.
Qed.

Lemma rt_package_ne_master : rt_package <> rt_slide_master. Proof. vm_compute; discriminate. Qed.
Lemma rt_chart_ne_master : rt_chart <> rt_slide_master. Proof. vm_compute; discriminate. Qed.
Lemma not_link_chart : ~ In rt_chart link_types.
Proof. intros H. vm_compute in H. destruct H as [H|[H|[]]]; discriminate. Qed.
Lemma ct_chart_ne_slide : ct_chart <> ct_slide. Proof. vm_compute; discriminate. Qed.
Lemma ct_chart_ne_notes : ct_chart <> ct_notes_slide. Proof. vm_compute; discriminate. Qed.

Lemma tp_chart_known : In tp_chart known_tps. Proof. simpl; tauto. Qed.
Lemma tp_xlsx_known : In tp_xlsx known_tps. Proof. simpl; tauto. Qed.
Lemma ct_chart_new : In ct_chart new_part_cts. Proof. simpl; tauto. Qed.
Lemma ct_xlsx_new : In ct_xlsx new_part_cts. Proof. simpl; tauto. Qed.

(* ------------------------------------------------------------------------------ *)
(** * Charts *)

Definition xlsx_part (k : N) : part := new_part (Ids.tmpl_apply (fst tp_xlsx) (snd tp_xlsx) k) ct_xlsx 0.

Definition xlsx_post (s : state) (cp : nat) (c : part) (s1 : state) : Prop :=
  (s1 = s /\ pt_idl c <> []) \/
  exists k rs rid, ~ In (pt_name (xlsx_part k)) (iter_names s) /\
    rel_facts c rs rid rt_package (TInt (length (st_parts s))) /\
    s1 = setp (setp (addp s (xlsx_part k)) cp (with_rels c rs)) cp (with_idl (with_rels c rs) [rid]).

Lemma MH_update_xlsx T s cp c : tables_ok T -> Inv T s -> getp s cp = Some c -> cp <> st_pres s -> pt_ct c = ct_chart ->
  MH T (m_update_xlsx cp) s (fun _ s1 => xlsx_post s cp c s1).
Proof.
  intros HT HI Hc Hnp Ect. unfold m_update_xlsx.
  assert (Hnm : pt_ct c <> ct_slide_master) by (rewrite Ect; apply ct_chart_ne_master).
  apply (MH_bind T _ _ s (fun y s1 => y = c /\ s1 = s)); [apply (MH_part T s cp c); auto|].
  intros y s1 _ [-> ->]. destruct (pt_idl c) as [|rid0 rest] eqn:Eidl.
  - apply (MH_bind T _ _ s _ _ (MH_next_partname T s tp_xlsx HI tp_xlsx_known)). intros nm s2 _ (-> & Hf & k & ->).
    pose proof (tmpl_leaf T s tp_xlsx k ct_xlsx 0 HT HI tp_xlsx_known ct_xlsx_new Hf) as Hl. fold (xlsx_part k) in Hl.
    apply (MH_bind T _ _ s (fun xp s2 => xp = length (st_parts s) /\ s2 = addp s (xlsx_part k))).
    { apply MH_new; [exact HT|exact HI|apply (lf_good _ _ _ Hl)|reflexivity|split; reflexivity]. }
    intros xp s2 HI2 [-> ->].
    apply (MH_bind T _ _ _ _ _ (MH_relate_leaf T s _ cp c rt_package HT HI Hl eq_refl Hc Hnp Hnm rt_package_ne_master)).
    intros rid s3 HI3 (rs & -> & F).
    assert (Hlt : cp < length (st_parts (addp s (xlsx_part k)))).
    { unfold addp. cbn. rewrite app_length. pose proof (getp_lt s cp c Hc). lia. }
    apply (MH_bind T _ _ _ (fun y s4 => y = with_rels c rs /\ s4 = setp (addp s (xlsx_part k)) cp (with_rels c rs))).
    { apply (MH_part T _ cp (with_rels c rs)); auto. apply getp_setp_same. exact Hlt. }
    intros y s4 _ [-> ->]. apply MH_setp.
    + apply (inv_setp T _ cp (with_rels c rs) _ []); auto; try (intros; contradiction).
      * apply getp_setp_same. exact Hlt.
      * apply good_set_idl.
        -- apply (iv_parts T _ HI3 cp). apply getp_setp_same. exact Hlt.
        -- cbn. rewrite Ect. apply ct_chart_ne_slide.
        -- cbn. rewrite Ect. apply ct_chart_ne_notes.
        -- cbn. exact Hnm.
        -- intros r [<-|[]]. cbn. destruct F as (_ & (r' & Hr' & _) & _). apply find_rel_In in Hr' as [Hin <-].
           apply in_map. exact Hin.
    + right. exists k, rs, rid. auto.
  - apply (MH_bind T _ _ s (fun _ s1 => s1 = s)); [apply MH_lift; auto|]. intros _ s1 _ ->. apply MH_ret; auto. left; split; auto. rewrite Eidl. discriminate.
Qed.

Lemma setp_setp s p x y : setp (setp s p x) p y = setp s p y.
Proof.
  unfold setp, with_parts. cbn. f_equal. generalize (st_parts s). intros l. revert p.
  induction l as [|a l IH]; intros [|p]; simpl; auto. f_equal. apply IH.
Qed.

Lemma chart_name_dir k : baseURI (Ids.tmpl_apply (fst tp_chart) (snd tp_chart) k) = asc "/ppt/charts".
Proof.
  change (fst tp_chart) with (render ([asc "ppt"; asc "charts"] ++ [asc "chart"])).
  destruct (tmpl_name_facts [asc "ppt"; asc "charts"] (asc "chart") (snd tp_chart) k) as [_ B];
    [repeat constructor|discriminate|vm_compute; discriminate|reflexivity|reflexivity|exact B].
Qed.

Lemma xlsx_name_dir k : baseURI (Ids.tmpl_apply (fst tp_xlsx) (snd tp_xlsx) k) = asc "/ppt/embeddings".
Proof.
  change (fst tp_xlsx) with (render ([asc "ppt"; asc "embeddings"] ++ [asc "Microsoft_Excel_Sheet"])).
  destruct (tmpl_name_facts [asc "ppt"; asc "embeddings"] (asc "Microsoft_Excel_Sheet") (snd tp_xlsx) k) as [_ B];
    [repeat constructor|discriminate|vm_compute; discriminate|reflexivity|reflexivity|exact B].
Qed.

Lemma leaf_new_ok T s s' y : Inv T s -> Inv T s' -> ext_unreach s s' -> leaf_ok T s y ->
  new_ok T s' y /\ baseURI (pt_name y) <> s_slides_dir /\ pt_name y <> n_notes_master /\ pt_name y <> n_core.
Proof.
  intros HI HI' He [G Hi Hf Hb Hd Hn Hc]. split; [|auto]. constructor; auto.
  intros Hin. apply Hf. eapply ext_names; eauto.
Qed.

Lemma step_add_chart T s i : tables_ok T -> Inv T s -> Inv T (fst (step false T s (AddChart i))).
Proof.
  intros HT HI. cbn [step]. rewrite fst_fin. eapply MH_true. unfold m_add_chart.
  apply (MH_bind T _ _ s _ (fun _ _ => True) (MH_slide T s i HT HI)). intros sp s1 HI1 [Hs _].
  destruct (slidep_editable s1 sp Hs) as (x & He & Ec & Hr). pose proof He as (Hx & Hnp & _).
  pose proof (editable_not_master _ _ _ He) as Hnm. pose proof (getp_lt s1 sp x Hx) as Hsplt.
  apply (MH_bind T _ _ s1 _ _ (MH_next_partname T s1 tp_chart HI1 tp_chart_known)). intros nm s2 _ (-> & Hf & kc & ->).
  set (C0 := new_part (Ids.tmpl_apply (fst tp_chart) (snd tp_chart) kc) ct_chart 0).
  pose proof (tmpl_leaf T s1 tp_chart kc ct_chart 0 HT HI1 tp_chart_known ct_chart_new Hf) as Hlc. fold C0 in Hlc.
  set (cp := length (st_parts s1)).
  apply (MH_bind T _ _ s1 (fun a s2 => a = cp /\ s2 = addp s1 C0)).
  { apply MH_new; [exact HT|exact HI1|apply (lf_good _ _ _ Hlc)|reflexivity|split; reflexivity]. }
  intros a s2 HI2 [-> ->]. set (sA := addp s1 C0) in *.
  assert (HC0 : getp sA cp = Some C0) by apply getp_app_new.
  assert (Hcp_np : cp <> st_pres sA).
  { cbn. destruct (iv_pres T s1 HI1) as (pp & Hpp & _). pose proof (getp_lt s1 _ pp Hpp). unfold cp. lia. }
  apply (MH_bind T _ _ _ _ _ (MH_update_xlsx T sA cp C0 HT HI2 HC0 Hcp_np eq_refl)).
  intros [] s3 HI3 [[_ Hne]|(kx & rs & rid1 & Hfx & F & ->)]; [exfalso; apply Hne; reflexivity|].
  rewrite setp_setp in *. set (X := xlsx_part kx) in *. set (sB := addp sA X) in *.
  set (C2 := with_idl (with_rels C0 rs) [rid1]) in *.
  assert (HlenA : length (st_parts sA) = S cp) by (unfold sA, addp; cbn; rewrite app_length; simpl; unfold cp; lia).
  assert (HlenB : length (st_parts sB) = S (S cp)) by (unfold sB, addp; cbn [st_parts with_parts]; rewrite app_length, HlenA; simpl; lia).
  set (xp := length (st_parts sA)) in *.
  assert (Hrs : int_targets rs = [xp]).
  { destruct F as ([->|[-> _]] & (r & Hr' & _) & _); [cbn in Hr'; discriminate|]. reflexivity. }
  assert (Hnr_cp : ~ reachP sB cp).
  { intros H. assert (He1 : ext_unreach s1 sB) by (eapply ext_trans; [exact HI1|apply (ext_addp T s1 C0 HI1)|apply (ext_addp T sA X HI2)]).
    apply (ext_reach T s1 sB HI1 He1) in H. pose proof (reachP_lt s1 (inv_wfg T s1 HI1) cp H). unfold cp in *. lia. }
  assert (HIB : Inv T sB).
  { apply inv_append; auto. pose proof (tmpl_leaf T sA tp_xlsx kx ct_xlsx 0 HT HI2 tp_xlsx_known ct_xlsx_new Hfx) as Hlx.
    apply (lf_good _ _ _ Hlx). }
  assert (He13 : ext_unreach s1 (setp sB cp C2)).
  { eapply ext_trans; [exact HI1| |apply ext_setp_unreach; exact Hnr_cp].
    eapply ext_trans; [exact HI1|apply (ext_addp T s1 C0 HI1)|apply (ext_addp T sA X HI2)]. }
  assert (HeA3 : ext_unreach sA (setp sB cp C2)).
  { eapply ext_trans; [exact HI2|apply (ext_addp T sA X HI2)|apply ext_setp_unreach; exact Hnr_cp]. }
  set (s3 := setp sB cp C2) in *.
  assert (Hcp3 : getp s3 cp = Some C2) by (apply getp_setp_same; rewrite HlenB; lia).
  assert (Hxp3 : getp s3 xp = Some X).
  { unfold s3. rewrite getp_setp_other by lia. apply getp_app_new. }
  assert (Hsp3 : getp s3 sp = Some x).
  { unfold s3. rewrite getp_setp_other by (unfold cp; lia). unfold sB, addp. rewrite getp_app_old by (fold xp; unfold cp in *; lia).
    unfold sA, addp. rewrite getp_app_old; auto. }
  assert (Hnr3 : forall n, n = cp \/ n = xp -> ~ reachP s3 n).
  { intros n Hn H. apply (ext_reach T s1 s3 HI1 He13) in H. pose proof (reachP_lt s1 (inv_wfg T s1 HI1) n H).
    destruct Hn as [->| ->]; unfold cp in *; lia. }
  apply (MH_bind T _ _ s3 (fun rid s4 => exists rs4, s4 = setp s3 sp (with_rels x rs4) /\ rel_facts x rs4 rid rt_chart (TInt cp))).
  { apply (MH_relate_int T s3 sp x rt_chart cp [cp; xp]); auto.
    - apply rt_chart_ne_master.
    - unfold s3. rewrite length_setp, HlenB. lia.
    - intros [E|[E|[]]]; unfold cp in *; lia.
    - right. left. simpl. auto.
    - intros n y q' [<-|[<-|[]]] Hy Hq'.
      + rewrite Hcp3 in Hy. injection Hy as <-. unfold C2 in Hq'. cbn [pt_rels with_idl with_rels] in Hq'.
        rewrite Hrs in Hq'. destruct Hq' as [<-|[]]. right. simpl. auto.
      + rewrite Hxp3 in Hy. injection Hy as <-. destruct Hq'.
    - intros n y [<-|[<-|[]]] _ Hy.
      + rewrite Hcp3 in Hy. injection Hy as <-.
        destruct (leaf_new_ok T s1 s3 C0 HI1 HI3 He13 Hlc) as ([Hfr Hb] & D1 & D2 & D3).
        split; [constructor; auto|auto].
      + rewrite Hxp3 in Hy. injection Hy as <-.
        pose proof (tmpl_leaf T sA tp_xlsx kx ct_xlsx 0 HT HI2 tp_xlsx_known ct_xlsx_new Hfx) as Hlx.
        apply (leaf_new_ok T sA s3 _ HI2 HI3 HeA3 Hlx).
    - intros n m y z Hn Hm Hne _ _ Hy Hz.
      assert (Hdiff : pt_name C2 <> pt_name X).
      { intros E. pose proof (chart_name_dir kc) as B1. pose proof (xlsx_name_dir kx) as B2.
        change (pt_name C2) with (Ids.tmpl_apply (fst tp_chart) (snd tp_chart) kc) in E.
        change (pt_name X) with (Ids.tmpl_apply (fst tp_xlsx) (snd tp_xlsx) kx) in E.
        rewrite E in B1. rewrite B1 in B2. vm_compute in B2. discriminate. }
      destruct Hn as [<-|[<-|[]]], Hm as [<-|[<-|[]]]; try contradiction.
      + rewrite Hcp3 in Hy. rewrite Hxp3 in Hz. injection Hy as <-. injection Hz as <-. exact Hdiff.
      + rewrite Hxp3 in Hy. rewrite Hcp3 in Hz. injection Hy as <-. injection Hz as <-. intros E. apply Hdiff. auto. }
  intros rid s4 HI4 (rs4 & -> & F4). unfold m_add_ref.
  assert (Hsp4 : getp (setp s3 sp (with_rels x rs4)) sp = Some (with_rels x rs4)).
  { apply getp_setp_same. unfold s3. rewrite length_setp, HlenB. unfold cp. lia. }
  apply (MH_bind T _ _ _ (fun y s5 => y = with_rels x rs4 /\ s5 = setp s3 sp (with_rels x rs4))); [apply (MH_part T _ sp _ _ HI4 Hsp4); auto|].
  intros y s5 _ [-> ->]. apply MH_setp; auto.
  apply (MH_add_refs T _ sp (with_rels x rs4) [(k_id, rid)]); auto.
  intros k0 r [[= <- <-]|[]]. destruct F4 as (_ & (r' & Hr' & Ht & _) & _). exists r'. split; auto; intros H; contradiction.
Qed.

Lemma class_not_pres T s p x ct : Inv T s -> getp s p = Some x -> pt_ct x = ct -> In ct class_cts -> p <> st_pres s.
Proof.
  intros HI Hx Ec Hin ->. destruct (iv_pres T s HI) as (pp & Hpp & Hc). rewrite Hpp in Hx. injection Hx as <-.
  apply Hc. rewrite Ec. exact Hin.
Qed.

Lemma step_replace_data T s i j : tables_ok T -> Inv T s -> Inv T (fst (step false T s (ReplaceData i j))).
Proof.
  intros HT HI. cbn [step]. rewrite fst_fin. eapply MH_true. unfold m_replace_data.
  apply (MH_bind T _ _ s _ (fun _ _ => True) (MH_slide T s i HT HI)). intros sp s1 HI1 [Hs _].
  destruct (slidep_editable s1 sp Hs) as (x & He & Ec & Hr). pose proof He as (Hx & Hnp & _).
  apply (MH_bind T _ _ s1 (fun y s3 => y = x /\ s3 = s1)); [apply (MH_part T s1 sp x); auto|].
  intros y s3 _ [-> ->]. destruct (nth_error (chart_parts x) j) as [cp|]; [|apply MH_ret; auto].
  apply (MH_bind T _ _ s1 (fun _ s2 => s2 = s1 /\ exists c, getp s1 cp = Some c /\ pt_ct c = ct_chart)).
  { apply MH_class; auto. intros c Hc Ect. split; eauto. }
  intros [] s2 _ (-> & c & Hc & Ect).
  assert (Hcnp : cp <> st_pres s1) by (eapply class_not_pres; eauto; simpl; tauto).
  apply (MH_bind T _ _ s1 _ _ (MH_update_xlsx T s1 cp c HT HI1 Hc Hcnp Ect)). intros [] s4 HI4 _. apply MH_ret; auto.
Qed.

(* ------------------------------------------------------------------------------ *)
(** * Replacing the presentation part: more relationships, a longer slide id list *)

Lemma related_part_app_old rid rs extra q : related_part rid rs = Ok q -> related_part rid (rs ++ extra) = Ok q.
Proof.
  unfold related_part. destruct (find_rel rid rs) as [r|] eqn:E; [|discriminate]. intros H.
  rewrite find_rel_app_old; [rewrite E; exact H|]. apply find_rel_In in E as [Hin <-]. apply in_map. exact Hin.
Qed.

Lemma Forall2_app_intro {A B} (R : A -> B -> Prop) l1 l2 m1 m2 : Forall2 R l1 m1 -> Forall2 R l2 m2 -> Forall2 R (l1 ++ l2) (m1 ++ m2).
Proof. induction 1; simpl; auto. Qed.

Section SetPres.
Variable T : tables.
Variable s : state.
Variables (pp pp' : part) (N : list nat) (extra : list relr) (idlx : list str) (tgx : list nat).
Hypothesis HT : tables_ok T.
Hypothesis HI : Inv T s.
Hypothesis Hpp : getp s (st_pres s) = Some pp.
Hypothesis En : pt_name pp' = pt_name pp.
Hypothesis Ec : pt_ct pp' = pt_ct pp.
Hypothesis Hgood : good_part (length (st_parts s)) pp'.
Hypothesis Hrels : pt_rels pp' = pt_rels pp ++ extra.
Hypothesis Hidl : pt_idl pp' = pt_idl pp ++ idlx.
Hypothesis HFx : Forall2 (fun rid q => related_part rid (pt_rels pp') = Ok q) idlx tgx.
Hypothesis Hedges : forall q, In q (int_targets extra) -> reachP s q \/ In q N.
Hypothesis HpN : ~ In (st_pres s) N.
Hypothesis HNcl : forall n y q, In n N -> getp s n = Some y -> In q (int_targets (pt_rels y)) -> reachP s q \/ In q N.
Hypothesis HNok : forall n y, In n N -> ~ reachP s n -> getp s n = Some y ->
  new_ok T s y /\ (baseURI (pt_name y) = s_slides_dir -> In n tgx) /\
  (pt_name y = n_notes_master -> type_filter rt_notes_master extra <> []) /\ pt_name y <> n_core.
Hypothesis HNd : forall n m y z, In n N -> In m N -> n <> m -> ~ reachP s n -> ~ reachP s m ->
  getp s n = Some y -> getp s m = Some z -> pt_name y <> pt_name z.
Hypothesis Htgx : NoDup tgx /\ forall q, In q tgx -> ~ reachP s q /\ baseURI (name_of (st_parts s) q) = s_slides_dir.
Hypothesis Htgx_names : st_slides s = true -> forall j q, nth_error tgx j = Some q ->
  name_of (st_parts s) q = Ids.slide_name (N.of_nat (length (pt_idl pp) + j) + 1)%N.
Hypothesis Hnm_extra : forall p, st_nm s = Some p -> type_filter rt_notes_master extra = [].
Hypothesis Hmf : type_filter rt_slide_master extra = [].

Let s' := setp s (st_pres s) pp'.
Let Hw : wfg s := inv_wfg T s HI.
Let Hlt : st_pres s < length (st_parts s) := getp_lt s _ pp Hpp.

Lemma pr_getp q : getp s' q = if Nat.eqb (st_pres s) q then Some pp' else getp s q.
Proof.
  unfold s'. destruct (Nat.eqb_spec (st_pres s) q) as [<-|Hne]; [apply getp_setp_same; auto|apply getp_setp_other; auto].
Qed.

Lemma pr_parts q y : getp s' q = Some y -> good_part (length (st_parts s')) y.
Proof.
  unfold s'. rewrite length_setp. fold s'. rewrite pr_getp. destruct (Nat.eqb (st_pres s) q).
  - intros [= <-]. exact Hgood.
  - apply (iv_parts T s HI).
Qed.

Lemma pr_wfg : wfg s'.
Proof.
  split.
  - unfold s'. rewrite length_setp. apply (iv_ptgts T s HI).
  - intros a y q Hy Hq. exact (gp_tgts _ _ (pr_parts a y Hy) q Hq).
Qed.

Lemma pr_reach q : reachP s' q -> reachP s q \/ In q N.
Proof.
  apply (reach_frame s s' (fun q => In q N)).
  - intros r Hr. left. constructor. exact Hr.
  - intros a y q0 Hy Hq Ha. rewrite pr_getp in Hy. destruct (Nat.eqb_spec (st_pres s) a) as [<-|Hne].
    + injection Hy as <-. rewrite Hrels, int_targets_app in Hq. apply in_app_or in Hq as [Hq|Hq]; [|auto].
      left. eapply rp1; [apply (pres_reach T s HI)|exact Hpp|exact Hq].
    + destruct Ha as [Ha|Ha]; [left; eapply rp1; eauto|eapply HNcl; eauto].
Qed.

Lemma pr_old q y y' : reachP s q -> getp s q = Some y -> getp s' q = Some y' ->
  pt_name y' = pt_name y /\ pt_ct y' = pt_ct y.
Proof.
  intros _ Hy Hy'. rewrite pr_getp in Hy'. destruct (Nat.eqb_spec (st_pres s) q) as [<-|Hne].
  - injection Hy' as <-. rewrite Hpp in Hy. injection Hy as <-. auto.
  - rewrite Hy in Hy'. injection Hy' as <-. auto.
Qed.

Lemma pr_N n y' : In n N -> getp s' n = Some y' -> getp s n = Some y'.
Proof.
  intros Hn Hy'. rewrite pr_getp in Hy'. destruct (Nat.eqb_spec (st_pres s) n) as [<-|Hne]; [contradiction|exact Hy'].
Qed.

Theorem inv_setp_pres : Inv T s'.
Proof.
  assert (Hnames : forall q, name_of (st_parts s') q = name_of (st_parts s) q)
    by (intros q; apply (name_of_setp s _ pp pp' q Hpp En)).
  assert (HNnew : forall n y', In n N -> ~ reachP s n -> getp s' n = Some y' -> new_ok T s y').
  { intros n y' Hn Hr Hy'. apply (HNok n y' Hn Hr). apply pr_N; auto. }
  assert (HNdist : forall n m y z, In n N -> In m N -> n <> m -> ~ reachP s n -> ~ reachP s m ->
                     getp s' n = Some y -> getp s' m = Some z -> pt_name y <> pt_name z).
  { intros n m y z Hn Hm Hne Rn Rm Hy Hz. apply (HNd n m y z); auto; apply pr_N; auto. }
  assert (Hpp' : getp s' (st_pres s') = Some pp') by (apply getp_setp_same; auto).
  constructor.
  - exact pr_parts.
  - unfold s'. rewrite length_setp. apply (iv_ptgts T s HI).
  - apply (iv_pkeys T s HI).
  - apply (iv_pnocache T s HI).
  - apply (tr_names T s s' N HI pr_wfg pr_reach pr_old HNnew HNdist).
  - apply (iv_main T s HI).
  - exists pp'. split; auto. rewrite Ec. destruct (iv_pres T s HI) as (pp0 & Hpp0 & Hc).
    rewrite Hpp in Hpp0. injection Hpp0 as <-. exact Hc.
  - apply (tr_clash T s s' N HT HI pr_wfg pr_reach pr_old HNnew).
  - destruct (iv_slides T s HI) as (pp0 & tg & Hpp0 & HF & Hnd & Hdir & Hall & Hnm').
    rewrite Hpp in Hpp0. injection Hpp0 as <-.
    assert (Htg_reach : forall q, In q tg -> reachP s q).
    { intros q Hq. apply In_nth_error in Hq as (j & Hj).
      assert (exists rid, related_part rid (pt_rels pp) = Ok q) as (rid & Hr).
      { clear - HF Hj. revert j Hj. induction HF; intros j Hj; [destruct j; discriminate|].
        destruct j; simpl in *; [injection Hj as <-; eauto|eauto]. }
      eapply rp1; [apply (pres_reach T s HI)|exact Hpp|]. apply related_part_target in Hr. exact Hr. }
    exists pp', (tg ++ tgx). split; auto. split; [|split; [|split; [|split]]].
    + rewrite Hidl. apply Forall2_app_intro; auto. rewrite Hrels.
      eapply Forall2_impl; [|exact HF]. intros a b. apply related_part_app_old.
    + apply Opc_proofs.NoDup_app_intro; auto; [apply (proj1 Htgx)|].
      intros q Hq Hq'. apply (proj1 (proj2 Htgx q Hq')). apply Htg_reach. exact Hq.
    + intros q Hq. rewrite Hnames. apply in_app_or in Hq as [Hq|Hq]; auto. apply (proj2 Htgx q Hq).
    + apply (tr_dir T s s' N HI pr_wfg pr_reach pr_old tg (tg ++ tgx)); auto; [apply incl_appl, incl_refl|].
      intros n y' Hn Rn Hy' Hd. apply in_or_app. right.
      destruct (HNok n y' Hn Rn (pr_N n y' Hn Hy')) as (_ & H & _). auto.
    + intros Hs j q Hj. rewrite Hnames. change (st_slides s') with (st_slides s) in Hs.
      assert (Hlen : length tg = length (pt_idl pp)) by (symmetry; eapply Ids_proofs.Forall2_len; eauto).
      destruct (Nat.ltb_spec j (length tg)) as [Hl|Hl].
      * rewrite nth_error_app1 in Hj by auto. apply Hnm'; auto.
      * rewrite nth_error_app2 in Hj by auto. rewrite (Htgx_names Hs _ _ Hj). f_equal. lia.
  - intros m mx rid lp lx m' Hm Hct Hrid Hlp Hlx Hm'.
    rewrite pr_getp in Hm. destruct (Nat.eqb_spec (st_pres s) m) as [<-|Hne].
    { injection Hm as <-. exfalso. destruct (iv_pres T s HI) as (pp0 & Hpp0 & Hc). rewrite Hpp in Hpp0.
      injection Hpp0 as <-. apply Hc. rewrite <- Ec, Hct. simpl. tauto. }
    rewrite pr_getp in Hlx. destruct (Nat.eqb_spec (st_pres s) lp) as [<-|Hne2].
    + injection Hlx as <-. assert (E : type_filter rt_slide_master (pt_rels pp') = type_filter rt_slide_master (pt_rels pp)).
      { rewrite Hrels, type_filter_app, Hmf. apply app_nil_r. }
      rewrite (part_with_reltype_filter _ _ _ E) in Hm'. eapply (iv_master T s HI); eauto.
    + eapply (iv_master T s HI); eauto.
  - destruct (iv_fixed T s HI) as (F1 & F2 & F3).
    split; [|split].
    + intros pp0 Hpp0 H. rewrite Hpp' in Hpp0. injection Hpp0 as <-.
      change (filter (fun r => str_eqb (rr_type r) rt_notes_master) (pt_rels pp')) with (type_filter rt_notes_master (pt_rels pp')).
      rewrite Hrels, type_filter_app.
      destruct (tr_name_in T s s' N HI pr_wfg pr_reach pr_old _ H) as [Hin|(n & y' & Hn & Rn & Hy' & E)].
      * pose proof (F1 pp Hpp Hin) as Hne. intros E. apply app_eq_nil in E as [E _]. apply Hne. exact E.
      * destruct (HNok n y' Hn Rn (pr_N n y' Hn Hy')) as (_ & _ & H1 & _). intros E'. apply app_eq_nil in E' as [_ E'].
        apply (H1 E). exact E'.
    + intros H. apply F2.
      destruct (tr_name_in T s s' N HI pr_wfg pr_reach pr_old _ H) as [Hin|(n & y' & Hn & Rn & Hy' & E)]; auto.
      exfalso. destruct (HNok n y' Hn Rn (pr_N n y' Hn Hy')) as (_ & _ & _ & H2). auto.
    + intros pp0 q Hpp0 Hq. rewrite Hpp' in Hpp0. injection Hpp0 as <-. change (st_nm s') with (st_nm s) in Hq.
      assert (E : type_filter rt_notes_master (pt_rels pp') = type_filter rt_notes_master (pt_rels pp)).
      { rewrite Hrels, type_filter_app, (Hnm_extra q Hq). apply app_nil_r. }
      rewrite (part_with_reltype_filter _ _ _ E). apply (F3 pp q Hpp Hq).
Qed.
End SetPres.

(* ------------------------------------------------------------------------------ *)
(** * Slides.add_slide *)

Definition pureM {A} (m : M A) : Prop := forall s, fst (m s) = s.

Lemma pure_bind {A B} (m : M A) (f : A -> M B) : pureM m -> (forall a, pureM (f a)) -> pureM (bindM m f).
Proof.
  intros Hm Hf s. unfold bindM. specialize (Hm s). destruct (m s) as [s1 [a|e]]; cbn in *; subst; auto. apply Hf.
Qed.
Lemma pure_ret {A} (a : A) : pureM (ret a). Proof. intros s. reflexivity. Qed.
Lemma pure_fail {A} e : pureM (@fail A e). Proof. intros s. reflexivity. Qed.
Lemma pure_lift {A} (r : res A) : pureM (lift r). Proof. intros s. reflexivity. Qed.
Lemma pure_getS : pureM getS. Proof. intros s. reflexivity. Qed.
Lemma pure_part p : pureM (m_part p).
Proof. unfold m_part. apply pure_bind; [apply pure_getS|]. intros s0. destruct (getp s0 p); [apply pure_ret|apply pure_fail]. Qed.
Lemma pure_class p ct : pureM (m_class p ct).
Proof. unfold m_class. apply pure_bind; [apply pure_part|]. intros x. destruct (str_eqb (pt_ct x) ct); [apply pure_ret|apply pure_fail]. Qed.

Lemma layout_pure s l : fst (m_layout l s) = s.
Proof.
  revert s. change (pureM (m_layout l)). unfold m_layout.
  apply pure_bind; [apply pure_getS|]. intros s0. apply pure_bind; [apply pure_part|]. intros pp.
  destruct (st_mrid s0); [|apply pure_fail].
  apply pure_bind; [apply pure_lift|]. intros m. apply pure_bind; [apply pure_class|]. intros _.
  apply pure_bind; [apply pure_part|]. intros mp. destruct (nth_error (pt_idl mp) l); [|apply pure_fail].
  apply pure_bind; [apply pure_lift|]. intros lp. apply pure_bind; [apply pure_class|]. intros _. apply pure_ret.
Qed.

Lemma layout_facts s l m lp rid : snd (m_layout l s) = Ok (m, lp, rid) ->
  exists pp mrid mp lx, getp s (st_pres s) = Some pp /\ st_mrid s = Some mrid /\ related_part mrid (pt_rels pp) = Ok m /\
    getp s m = Some mp /\ pt_ct mp = ct_slide_master /\ nth_error (pt_idl mp) l = Some rid /\
    related_part rid (pt_rels mp) = Ok lp /\ getp s lp = Some lx /\ pt_ct lx = ct_slide_layout.
Proof.
  unfold m_layout, bindM, getS, m_part, bindM, getS, ret, fail, lift, m_class, m_part, bindM, getS, ret, fail.
  destruct (getp s (st_pres s)) as [pp|] eqn:E1; cbn; [|discriminate].
  destruct (st_mrid s) as [mrid|] eqn:E2; cbn; [|discriminate].
  destruct (related_part mrid (pt_rels pp)) as [m0|] eqn:E3; cbn; [|discriminate].
  destruct (getp s m0) as [mp|] eqn:E4; cbn; [|discriminate].
  destruct (str_eqb_spec (pt_ct mp) ct_slide_master) as [E5|]; cbn; [|discriminate].
  rewrite E4. cbn.
  destruct (nth_error (pt_idl mp) l) as [rid0|] eqn:E6; cbn; [|discriminate].
  destruct (related_part rid0 (pt_rels mp)) as [lp0|] eqn:E7; cbn; [|discriminate].
  destruct (getp s lp0) as [lx|] eqn:E8; cbn; [|discriminate].
  destruct (str_eqb_spec (pt_ct lx) ct_slide_layout) as [E9|]; cbn; [|discriminate].
  intros [= <- <- <-]. exists pp, mrid, mp, lx. repeat split; auto.
Qed.

Lemma MH_layout T s l : Inv T s ->
  MH T (m_layout l) s (fun r s1 => s1 = s /\ snd (m_layout l s) = Ok r).
Proof. intros HI. unfold MH. rewrite layout_pure. split; auto. Qed.

Lemma master_reach T s pp mrid m : Inv T s -> getp s (st_pres s) = Some pp -> related_part mrid (pt_rels pp) = Ok m -> reachP s m.
Proof.
  intros HI Hpp Hr. eapply rp1; [apply (pres_reach T s HI)|exact Hpp|]. apply related_part_target in Hr. exact Hr.
Qed.

(** the part name add_slide gives the new slide (_next_slide_partname as repaired by
    086e8ef1): in ANY state and for any number of p:sldId entries the call does not raise, the
    name is a slide part name and no part iter_parts yields carries it *)
Lemma slide_name_fresh s n :
  exists k, (1 <= k)%N /\ Ids.next_slide_partname n (iter_names s) = Ok (Ids.slide_name k) /\
            ~ In (Ids.slide_name k) (iter_names s).
Proof.
  destruct (Ids_proofs.next_slide_partname_spec n (iter_names s)) as (k & H1 & H2 & H3 & _). eauto.
Qed.

(** under the invariant, once prs.slides has been evaluated, no reached part carries the
    conventional name slide(n+1).xml, so that is the answer: the listed slides stay slide1..n *)
Lemma slide_name_conventional T s pp : Inv T s -> st_slides s = true -> getp s (st_pres s) = Some pp ->
  Ids.next_slide_partname (length (pt_idl pp)) (iter_names s)
  = Ok (Ids.slide_name (N.of_nat (length (pt_idl pp)) + 1)%N).
Proof.
  intros HI Hs Hpp. apply Ids_proofs.next_slide_partname_conventional. intros Hin.
  pose proof (inv_wfg T s HI) as Hw.
  destruct (iv_slides T s HI) as (pp0 & tg & Hpp0 & HF & Hnd & Hdir & Hall & Hnm).
  rewrite Hpp in Hpp0. injection Hpp0 as <-.
  apply (in_iter_names s Hw) in Hin as (p & x & Hpx & En).
  assert (Hd : baseURI (pt_name x) = s_slides_dir) by (rewrite En; apply slide_name_facts).
  pose proof (Hall p x Hpx Hd) as Hp. apply In_nth_error in Hp as (j & Hj).
  pose proof (Hnm Hs j p Hj) as E. destruct Hpx as [_ Hx]. rewrite (name_of_getp s p x Hx), En in E.
  apply Ids_proofs.slide_name_inj in E.
  assert (j < length tg) by (apply nth_error_Some; congruence).
  pose proof (Ids_proofs.Forall2_len _ _ _ HF). lia.
Qed.

Lemma rt_slide_layout_ne_master : rt_slide_layout <> rt_slide_master. Proof. vm_compute; discriminate. Qed.

Lemma ct_slide_new : In ct_slide new_part_cts. Proof. simpl; tauto. Qed.

Lemma pres_not_class T s pp : Inv T s -> getp s (st_pres s) = Some pp ->
  pt_ct pp <> ct_slide /\ pt_ct pp <> ct_notes_slide /\ pt_ct pp <> ct_slide_master.
Proof.
  intros HI Hpp. destruct (iv_pres T s HI) as (pp0 & Hpp0 & Hc). rewrite Hpp in Hpp0. injection Hpp0 as <-.
  repeat split; intros E; apply Hc; rewrite E; simpl; tauto.
Qed.

Lemma step_add_slide T s l : tables_ok T -> Inv T s -> Inv T (fst (step false T s (AddSlide l))).
Proof.
  intros HT HI. cbn [step]. rewrite fst_fin. eapply MH_true. unfold m_add_slide.
  apply (MH_bind T _ _ s _ (fun _ _ => True) (MH_access T s HT HI)). intros [] s1 HI1 [Hs1 _].
  apply (MH_bind T _ _ s1 _ _ (MH_layout T s1 l HI1)). intros [[m lp] rid0] s2 _ [-> Hlay].
  destruct (layout_facts s1 l m lp rid0 Hlay) as (pp & mrid & mp & lx & Hpp & Hmr & Hm & Hmp & Ecm & Hnth & Hlp & Hlx & Ecl).
  apply (MH_bind T _ _ s1 (fun a s2 => a = s1 /\ s2 = s1)); [apply MH_getS; auto|]. intros a s2 _ [-> ->].
  apply (MH_bind T _ _ s1 (fun a s2 => a = pp /\ s2 = s1)); [apply (MH_part T s1 _ pp); auto|]. intros a s2 _ [-> ->].
  apply (MH_bind T _ _ s1 (fun a s2 => a = lx /\ s2 = s1)); [apply (MH_part T s1 _ lx); auto|]. intros a s2 _ [-> ->].
  pose proof (inv_wfg T s1 HI1) as Hw1.
  assert (Hrm : reachP s1 m) by (eapply master_reach; eauto).
  assert (Hrl : reachP s1 lp) by (eapply rp1; [exact Hrm|exact Hmp|apply related_part_target in Hlp; exact Hlp]).
  set (nm := Ids.slide_name (N.of_nat (length (pt_idl pp)) + 1)%N).
  apply (MH_bind T _ _ s1 (fun a s2 => a = nm /\ s2 = s1)).
  { apply MH_lift; auto. intros a Ea. rewrite (slide_name_conventional T s1 pp HI1 Hs1 Hpp) in Ea.
    injection Ea as <-. split; reflexivity. }
  intros a s2 _ [-> ->].
  assert (Hnmf : ~ In nm (iter_names s1)).
  { eapply Ids_proofs.next_slide_partname_fresh. apply (slide_name_conventional T s1 pp HI1 Hs1 Hpp). }
  destruct (slide_name_facts (N.of_nat (length (pt_idl pp)) + 1)%N) as [Hpn Hdir].
  change (Ids.slide_name (N.of_nat (length (pt_idl pp)) + 1)%N) with nm in Hpn, Hdir.
  set (Y := with_phs (new_part nm ct_slide 0) (pt_phs lx)).
  assert (HgY : forall n, good_part n Y) by (intros n; apply good_with_phs; apply good_new_part; exact Hpn).
  set (sid := length (st_parts s1)).
  apply (MH_bind T _ _ s1 (fun a s2 => a = sid /\ s2 = addp s1 Y)).
  { apply MH_new; [exact HT|exact HI1|apply HgY|reflexivity|split; reflexivity]. }
  intros a s2 HI2 [-> ->]. set (sA := addp s1 Y) in *.
  assert (HlenA : length (st_parts sA) = S sid) by (unfold sA, addp; cbn [st_parts with_parts]; rewrite app_length; simpl; unfold sid; lia).
  assert (HYA : getp sA sid = Some Y) by apply getp_app_new.
  assert (Hsid_np : sid <> st_pres sA) by (cbn; pose proof (getp_lt s1 _ pp Hpp); unfold sid; lia).
  assert (HeA : ext_unreach s1 sA) by (apply (ext_addp T s1 Y HI1)).
  assert (Hnr_sid : ~ reachP sA sid).
  { intros H. apply (ext_reach T s1 sA HI1 HeA) in H. pose proof (reachP_lt s1 Hw1 sid H). unfold sid in *. lia. }
  apply (MH_bind T _ _ sA (fun rid s3 => exists rs, s3 = setp sA sid (with_rels Y rs) /\ rel_facts Y rs rid rt_slide_layout (TInt lp))).
  { apply (MH_relate_int T sA sid Y rt_slide_layout lp []); auto; try (intros; contradiction).
    - cbn. apply ct_slide_ne_master.
    - apply rt_slide_layout_ne_master.
    - rewrite HlenA. pose proof (reachP_lt s1 Hw1 lp Hrl). unfold sid. lia. }
  intros rid1 s3 HI3 (rsY & -> & FY). set (sB := setp sA sid (with_rels Y rsY)) in *.
  assert (HrsY : int_targets rsY = [lp]).
  { destruct FY as ([->|[-> _]] & (r & Hr' & _) & _); [cbn in Hr'; discriminate|]. reflexivity. }
  assert (HeB : ext_unreach s1 sB) by (eapply ext_trans; [exact HI1|exact HeA|apply ext_setp_unreach; exact Hnr_sid]).
  assert (HppB : getp sB (st_pres sB) = Some pp).
  { change (st_pres sB) with (st_pres s1). unfold sB. rewrite getp_setp_other by (intros E; apply Hsid_np; rewrite E; reflexivity).
    unfold sA, addp. rewrite getp_app_old; auto. eapply getp_lt; eauto. }
  (* the relate on the presentation part and the append to the slide id list, as one replacement *)
  pose proof (iv_parts T s1 HI1 _ pp Hpp) as Gpp.
  destruct (get_or_add_cases rt_slide (TInt sid) (pt_rels pp)) as [(rid & r & E & Hin & _ & _ & Hg)|(rid & E & Hfr & _)].
  { exfalso. assert (Hq : In sid (int_targets (pt_rels pp))) by (apply int_targets_In; eauto).
    pose proof (gp_tgts _ _ Gpp sid Hq). unfold sid in *. lia. }
  set (rs := pt_rels pp ++ [mkR rid rt_slide (TInt sid) None]) in *.
  set (PP' := with_idl (with_rels pp rs) (pt_idl (with_rels pp rs) ++ [rid])).
  assert (Hrun : fst ((do rid <- m_relate (st_pres s1) rt_slide (TInt sid) ;; do pp' <- m_part (st_pres s1) ;;
                       m_setp (st_pres s1) (with_idl pp' (pt_idl pp' ++ [rid]))) sB) = setp sB (st_pres s1) PP').
  { unfold bindM. rewrite (m_relate_run sB (st_pres s1) rt_slide (TInt sid) pp rs rid HppB E).
    rewrite (m_part_run _ (st_pres s1) (with_rels pp rs)) by (apply getp_setp_same; eapply getp_lt; exact HppB).
    cbn [fst m_setp bindM getS putS]. unfold m_setp, bindM, getS, putS. cbn. apply setp_setp. }
  unfold MH. split; [|auto]. rewrite Hrun.
  destruct (pres_not_class T s1 pp HI1 Hpp) as (C1 & C2 & C3).
  pose proof (iv_parts T sB HI3 _ pp HppB) as GppB.
  assert (A_good : good_part (length (st_parts sB)) PP').
  { unfold PP'. apply good_set_idl; auto.
    + apply good_add_rel; auto. intros q [= <-]. unfold sB. rewrite length_setp, HlenA. lia.
    + cbn [pt_idl pt_rels with_rels]. intros r Hr. apply in_app_or in Hr as [Hr|[<-|[]]].
      * unfold rs. rewrite map_app. apply in_or_app. left. apply (gp_refs _ _ Gpp (k_id, r)).
        unfold all_refs. apply in_or_app. left. apply in_map. exact Hr.
      * unfold rs. rewrite map_app. apply in_or_app. right. simpl. auto. }
  assert (A_F : Forall2 (fun rid' q => related_part rid' (pt_rels PP') = Ok q) [rid] [sid]).
  { constructor; [|constructor]. unfold PP'. cbn [pt_rels with_idl with_rels]. unfold related_part, rs.
    rewrite find_rel_app_new by auto. reflexivity. }
  assert (A_edges : forall q, In q (int_targets [mkR rid rt_slide (TInt sid) None]) -> reachP sB q \/ In q [sid]).
  { intros q [<-|[]]. right. simpl. auto. }
  assert (A_pN : ~ In (st_pres sB) [sid]).
  { intros [E'|[]]. apply Hsid_np. rewrite E'. reflexivity. }
  assert (HYB : getp sB sid = Some (with_rels Y rsY)) by (unfold sB; apply getp_setp_same; rewrite HlenA; lia).
  assert (A_Ncl : forall n y q, In n [sid] -> getp sB n = Some y -> In q (int_targets (pt_rels y)) -> reachP sB q \/ In q [sid]).
  { intros n y q [<-|[]] Hy Hq. rewrite HYB in Hy. injection Hy as <-.
    cbn [pt_rels with_rels] in Hq. rewrite HrsY in Hq. destruct Hq as [<-|[]]. left. apply (ext_reach_back s1 sB HeB). exact Hrl. }
  assert (A_Nok : forall n y, In n [sid] -> ~ reachP sB n -> getp sB n = Some y ->
            new_ok T sB y /\ (baseURI (pt_name y) = s_slides_dir -> In n [sid]) /\
            (pt_name y = n_notes_master -> type_filter rt_notes_master [mkR rid rt_slide (TInt sid) None] <> []) /\ pt_name y <> n_core).
  { intros n y [<-|[]] _ Hy. rewrite HYB in Hy. injection Hy as <-.
    change (pt_name (with_rels Y rsY)) with nm. change (pt_ct (with_rels Y rsY)) with ct_slide.
    split; [|split; [|split]].
    + constructor.
      * change (pt_name (with_rels Y rsY)) with nm. intros Hin. apply Hnmf. eapply ext_names; eauto.
      * change (pt_ct (with_rels Y rsY)) with ct_slide. apply (tk_bin T HT). apply ct_slide_new.
    + intros _. simpl. auto.
    + intros E'. exfalso. rewrite E' in Hdir. vm_compute in Hdir. discriminate.
    + intros E'. rewrite E' in Hdir. vm_compute in Hdir. discriminate. }
  assert (A_Nd : forall n m0 y z, In n [sid] -> In m0 [sid] -> n <> m0 -> ~ reachP sB n -> ~ reachP sB m0 ->
            getp sB n = Some y -> getp sB m0 = Some z -> pt_name y <> pt_name z).
  { intros n m0 y z [<-|[]] [<-|[]] Hne. contradiction. }
  assert (HnameB : name_of (st_parts sB) sid = nm) by (rewrite (name_of_getp sB sid _ HYB); reflexivity).
  assert (A_tgx : NoDup [sid] /\ forall q, In q [sid] -> ~ reachP sB q /\ baseURI (name_of (st_parts sB) q) = s_slides_dir).
  { split; [repeat constructor; intros []|]. intros q [<-|[]]. split.
    + intros H. apply (ext_reach T s1 sB HI1 HeB) in H. pose proof (reachP_lt s1 Hw1 sid H). unfold sid in *. lia.
    + rewrite HnameB. exact Hdir. }
  assert (A_names : st_slides sB = true -> forall j q, nth_error [sid] j = Some q ->
            name_of (st_parts sB) q = Ids.slide_name (N.of_nat (length (pt_idl pp) + j) + 1)%N).
  { intros _ j q Hj. destruct j as [|j]; [|destruct j; discriminate]. injection Hj as <-.
    rewrite HnameB. unfold nm. f_equal. lia. }
  assert (A_nm : forall p0, st_nm sB = Some p0 -> type_filter rt_notes_master [mkR rid rt_slide (TInt sid) None] = []).
  { intros _ _. vm_compute. reflexivity. }
  exact (inv_setp_pres T sB pp PP' [sid] [mkR rid rt_slide (TInt sid) None] [rid] [sid] HT HI3 HppB eq_refl eq_refl
           A_good eq_refl eq_refl A_F A_edges A_pN A_Ncl A_Nok A_Nd A_tgx A_names A_nm eq_refl).
Qed.

(* ------------------------------------------------------------------------------ *)
(** * Package.core_properties *)

Lemma inv_with_core T s o : Inv T s -> Inv T (with_core s o).
Proof. intros [H1 H2 H3 H4 H5 H6 H7 H8 H9 H10 H11]. constructor; auto. Qed.

Lemma inv_with_nm T s p : Inv T s ->
  (forall pp, getp s (st_pres s) = Some pp -> part_with_reltype rt_notes_master (pt_rels pp) = Ok p) ->
  Inv T (with_nm s (Some p)).
Proof.
  intros [H1 H2 H3 H4 H5 H6 H7 H8 H9 H10 H11] Hp. constructor; auto.
  destruct H11 as (F1 & F2 & F3). split; [exact F1|]. split; [exact F2|].
  intros pp q Hpp [= <-]. apply Hp. exact Hpp.
Qed.

Lemma rt_core_ne_od : str_eqb rt_core rt_office_document = false. Proof. vm_compute. reflexivity. Qed.
Lemma ct_core_new : In ct_core new_part_cts. Proof. simpl; tauto. Qed.

Section PkgAdd.
Variable T : tables.
Variable s : state.
Variables (y : part) (rid : str).
Hypothesis HT : tables_ok T.
Hypothesis HI : Inv T s.
Hypothesis Hy : y = new_part n_core ct_core 0.
Hypothesis Hfr : ~ In rid (map rr_id (st_prels s)).
Hypothesis Hnone : type_filter rt_core (st_prels s) = [].

Let cp := length (st_parts s).
Let sA := addp s y.
Let s' := with_prels sA (st_prels s ++ [mkR rid rt_core (TInt cp) None]).

Lemma n_core_part_name : Opc.part_name n_core.
Proof. apply Opc_proofs.part_nameb_sound. vm_compute. reflexivity. Qed.

Lemma pk_goody : good_part (S (length (st_parts s))) y.
Proof. rewrite Hy. apply good_new_part. apply n_core_part_name. Qed.

Lemma pk_invA : Inv T sA.
Proof. apply inv_append; auto; [apply pk_goody|rewrite Hy; reflexivity]. Qed.

Lemma pk_getp q : getp s' q = getp sA q.
Proof. reflexivity. Qed.

Lemma pk_wfg : wfg s'.
Proof.
  split.
  - intros q Hq. change (st_parts s') with (st_parts sA). change (st_prels s') with (st_prels s ++ [mkR rid rt_core (TInt cp) None]) in Hq.
    rewrite int_targets_app in Hq. apply in_app_or in Hq as [Hq|Hq].
    + apply (iv_ptgts T sA pk_invA). exact Hq.
    + simpl in Hq. destruct Hq as [<-|[]]. unfold sA, addp. cbn. rewrite app_length. simpl. unfold cp. lia.
  - intros a z q Hz Hq. change (st_parts s') with (st_parts sA). exact (gp_tgts _ _ (iv_parts T sA pk_invA a z Hz) q Hq).
Qed.

Lemma pk_reach q : reachP s' q -> reachP sA q \/ In q [cp].
Proof.
  apply (reach_frame sA s' (fun q => In q [cp])).
  - intros r Hr. change (st_prels s') with (st_prels s ++ [mkR rid rt_core (TInt cp) None]) in Hr.
    rewrite int_targets_app in Hr. apply in_app_or in Hr as [Hr|Hr].
    + left. constructor. exact Hr.
    + simpl in Hr. destruct Hr as [<-|[]]. right. simpl. auto.
  - intros a z q0 Hz Hq [Ha|[<-|[]]].
    + left. eapply rp1; eauto.
    + rewrite pk_getp in Hz. unfold sA, cp in Hz. unfold addp in Hz. rewrite getp_app_new in Hz. injection Hz as <-.
      rewrite Hy in Hq. destruct Hq.
Qed.

Lemma pk_old q z z' : reachP sA q -> getp sA q = Some z -> getp s' q = Some z' -> pt_name z' = pt_name z /\ pt_ct z' = pt_ct z.
Proof. intros _ Hz Hz'. rewrite pk_getp, Hz in Hz'. injection Hz' as <-. auto. Qed.

Lemma pk_not_in_core : ~ In n_core (iter_names sA).
Proof.
  intros H. apply (addp_names_in T s y n_core HT HI pk_goody) in H; [|rewrite Hy; reflexivity].
  destruct (iv_fixed T s HI) as (_ & F2 & _). apply (F2 H). exact Hnone.
Qed.

Theorem inv_pkg_core : Inv T (with_core s' (Some cp)).
Proof.
  apply inv_with_core. pose proof pk_invA as HIA.
  assert (HycA : getp sA cp = Some y) by (unfold sA, cp, addp; apply getp_app_new).
  assert (HN : forall n z', In n [cp] -> ~ reachP sA n -> getp s' n = Some z' -> new_ok T sA z').
  { intros n z' [<-|[]] _ Hz'. rewrite pk_getp, HycA in Hz'. injection Hz' as <-. constructor.
    - rewrite Hy. cbn. apply pk_not_in_core.
    - rewrite Hy. cbn. apply (tk_bin T HT). apply ct_core_new. }
  assert (HNd : forall a b ya yb, In a [cp] -> In b [cp] -> a <> b -> ~ reachP sA a -> ~ reachP sA b ->
                  getp s' a = Some ya -> getp s' b = Some yb -> pt_name ya <> pt_name yb).
  { intros a b ya yb [<-|[]] [<-|[]] Hne. contradiction. }
  constructor.
  - intros p x Hx. apply (iv_parts T sA HIA p x Hx).
  - apply (proj1 pk_wfg).
  - change (st_prels s') with (st_prels s ++ [mkR rid rt_core (TInt cp) None]). rewrite map_app. simpl.
    apply Ids_proofs.NoDup_snoc; [apply (iv_pkeys T s HI)|exact Hfr].
  - intros r Hr. change (st_prels s') with (st_prels s ++ [mkR rid rt_core (TInt cp) None]) in Hr.
    apply in_app_or in Hr as [Hr|[<-|[]]]; [apply (iv_pnocache T s HI r Hr)|reflexivity].
  - apply (tr_names T sA s' [cp] HIA pk_wfg pk_reach pk_old HN HNd).
  - destruct (iv_main T s HI) as (r & Hf & Ht). exists r. split; auto.
    change (st_prels s') with (st_prels s ++ [mkR rid rt_core (TInt cp) None]). rewrite filter_app, Hf.
    cbn [filter rr_type]. rewrite rt_core_ne_od. reflexivity.
  - apply (iv_pres T sA HIA).
  - apply (tr_clash T sA s' [cp] HT HIA pk_wfg pk_reach pk_old HN).
  - destruct (iv_slides T sA HIA) as (pp & tg & Hpp & HF & Hnd & Hdir & Hall & Hnm').
    exists pp, tg. split; auto. split; auto. split; auto. split; auto. split; auto.
    apply (tr_dir T sA s' [cp] HIA pk_wfg pk_reach pk_old tg tg); auto; [apply incl_refl|].
    intros n z' [<-|[]] _ Hz' Hd. exfalso. rewrite pk_getp, HycA in Hz'. injection Hz' as <-.
    rewrite Hy in Hd. vm_compute in Hd. discriminate.
  - apply (iv_master T sA HIA).
  - destruct (iv_fixed T sA HIA) as (F1 & F2 & F3). split; [|split].
    + intros pp Hpp H. apply (F1 pp Hpp).
      destruct (tr_name_in T sA s' [cp] HIA pk_wfg pk_reach pk_old _ H) as [|(n & z' & [<-|[]] & _ & Hz' & E)]; auto.
      exfalso. rewrite pk_getp, HycA in Hz'. injection Hz' as <-. rewrite Hy in E. vm_compute in E. discriminate.
    + intros _. change (st_prels s') with (st_prels s ++ [mkR rid rt_core (TInt cp) None]).
      rewrite filter_app. cbn [filter rr_type]. rewrite str_eqb_refl. intros E. apply app_eq_nil in E as [_ E]. discriminate.
    + exact F3.
Qed.
End PkgAdd.

Lemma part_with_reltype_err t rs e : part_with_reltype t rs = Err e -> e <> ValueErr -> type_filter t rs = [].
Proof.
  unfold part_with_reltype, type_filter. destruct (filter _ rs) as [|r [|r' l]]; auto.
  - destruct (rr_tgt r); [discriminate|]. intros [= <-] H. contradiction.
  - intros [= <-] H. contradiction.
Qed.

Lemma step_core T s : tables_ok T -> Inv T s -> Inv T (fst (step false T s AccessCoreProps)).
Proof.
  intros HT HI. cbn [step]. rewrite fst_fin. unfold m_core, bindM, getS.
  destruct (st_core s) as [c|]; [exact HI|].
  destruct (part_with_reltype rt_core (st_prels s)) as [p|e] eqn:Ep.
  - cbn. apply inv_with_core. exact HI.
  - destruct e; try exact HI;
      (pose proof (part_with_reltype_err _ _ _ Ep ltac:(discriminate)) as Hnone;
       rewrite m_new_run; cbn [fst snd]; unfold lift;
       destruct (get_or_add_cases rt_core (TInt (length (st_parts s))) (st_prels s)) as [(rid & r & E & Hin & _ & Ht & _)|(rid & E & Hfr & _)];
       [exfalso; assert (Hf : In r (type_filter rt_core (st_prels s))) by (apply filter_In; split; auto; rewrite Ht; apply str_eqb_refl);
        rewrite Hnone in Hf; destruct Hf
       |change (st_prels (addp s (new_part n_core ct_core 0))) with (st_prels s); rewrite E; cbn [fst snd putS];
        apply (inv_pkg_core T s _ rid HT HI eq_refl Hfr Hnone)]).
Qed.

(* ------------------------------------------------------------------------------ *)
(** * SlideLayouts.remove *)

Lemma pure_layout_of sp : pureM (m_layout_of sp).
Proof.
  unfold m_layout_of. apply pure_bind; [apply pure_part|]. intros x. apply pure_bind; [apply pure_lift|]. intros l.
  apply pure_bind; [apply pure_class|]. intros _. apply pure_ret.
Qed.

Lemma pure_used lp sl : pureM (m_used lp sl).
Proof.
  induction sl as [|rid r IH]; simpl; [apply pure_ret|].
  apply pure_bind; [apply pure_getS|]. intros s0. apply pure_bind; [apply pure_part|]. intros pp.
  apply pure_bind; [apply pure_lift|]. intros sp. apply pure_bind; [apply pure_class|]. intros _.
  apply pure_bind; [apply pure_layout_of|]. intros l. apply pure_bind; [exact IH|]. intros rest. apply pure_ret.
Qed.

Lemma MH_pure {A} T (m : M A) s : pureM m -> Inv T s -> MH T m s (fun _ s1 => s1 = s).
Proof. intros Hp HI. unfold MH. rewrite (Hp s). split; auto. Qed.

Lemma remove_nth_In {A} (l : list A) i x : In x (Ids.remove_nth i l) -> In x l.
Proof. apply Ids_proofs.remove_nth_incl. Qed.

Lemma remove_nth_NoDup {A} (l : list A) : forall i, NoDup l -> NoDup (Ids.remove_nth i l).
Proof.
  induction l as [|a l IH]; intros [|i] H; simpl; auto; inversion H; subst; auto.
  constructor; auto. intros Hin. apply H2. eapply remove_nth_In; eauto.
Qed.

Lemma remove_nth_not_In {A} (l : list A) : forall i x, NoDup l -> nth_error l i = Some x -> ~ In x (Ids.remove_nth i l).
Proof.
  induction l as [|a l IH]; intros [|i] x H Hn; simpl in *; try discriminate; inversion H; subst.
  - injection Hn as <-. exact H2.
  - intros [->|Hin]; [apply H2; eapply nth_error_In; eauto|eapply IH; eauto].
Qed.

Lemma ct_layout_ne_master : ct_slide_layout <> ct_slide_master. Proof. vm_compute; discriminate. Qed.
Lemma ct_master_ne_slide : ct_slide_master <> ct_slide. Proof. vm_compute; discriminate. Qed.
Lemma ct_master_ne_notes : ct_slide_master <> ct_notes_slide. Proof. vm_compute; discriminate. Qed.

(** a master with one entry of its layout id list taken out *)
Lemma good_master_remove n x i : good_part n x -> pt_ct x = ct_slide_master ->
  good_part n (with_idl x (Ids.remove_nth i (pt_idl x))).
Proof.
  intros [H1 H2 H3 H4 H5 H6 H7 H8 H9 H10] Hm. destruct (H10 Hm) as (M1 & M2 & M3).
  assert (Hall : forall kr, In kr (all_refs (with_idl x (Ids.remove_nth i (pt_idl x)))) -> In kr (all_refs x)).
  { intros kr. unfold all_refs. cbn [pt_idl pt_refs pt_slots with_idl]. intros Hin.
    apply in_app_or in Hin as [Hin|Hin]; [|apply in_or_app; right; exact Hin].
    apply in_map_iff in Hin as (r & <- & Hr). apply in_or_app. left. apply in_map. eapply remove_nth_In; eauto. }
  constructor; cbn [pt_name pt_base pt_rels pt_ct pt_idl pt_refs pt_slots with_idl]; auto.
  - intros k r x' Hkr. apply H7. apply Hall. exact Hkr.
  - intros [E|E]; rewrite Hm in E; [exfalso; apply ct_master_ne_slide; exact E|exfalso; apply ct_master_ne_notes; exact E].
  - intros _. split; [apply remove_nth_NoDup; exact M1|]. split.
    + intros kr Hkr Hin. apply (M2 kr Hkr). eapply remove_nth_In; eauto.
    + intros r x' Hr. apply M3. eapply remove_nth_In; eauto.
Qed.

(** a relationship nothing in the XML names goes *)
Lemma good_drop_unreferenced n x rid : good_part n x -> (forall k, ~ In (k, rid) (all_refs x)) ->
  good_part n (with_rels x (filter (fun r => negb (str_eqb (rr_id r) rid)) (pt_rels x))).
Proof.
  intros [H1 H2 H3 H4 H5 H6 H7 H8 H9 H10] Hnone.
  assert (Hne : forall k r, In (k, r) (all_refs x) -> r <> rid) by (intros k r Hin ->; exact (Hnone k Hin)).
  constructor; cbn [pt_name pt_base pt_rels pt_ct pt_idl pt_refs pt_slots with_rels]; auto.
  - intros q Hq. apply H3. apply int_targets_In in Hq as (r & Hr & Et). apply filter_In in Hr as [Hr _].
    apply int_targets_In. eauto.
  - clear - H4. induction (pt_rels x) as [|a rs IH]; simpl; [constructor|]. simpl in H4. inversion H4; subst.
    destruct (negb (str_eqb (rr_id a) rid)); simpl; auto. constructor; auto.
    intros Hin. apply H1. apply in_map_iff in Hin as (r & E & Hr). apply filter_In in Hr as [Hr _].
    rewrite <- E. apply in_map. exact Hr.
  - intros r Hr. apply filter_In in Hr as [Hr _]. auto.
  - intros [k r] Hkr. cbn [snd]. pose proof (H6 _ Hkr) as Hk. cbn [snd] in Hk.
    apply in_map_iff in Hk as (r' & Er & Hr'). apply in_map_iff. exists r'. split; auto. apply filter_In. split; auto.
    apply negb_true_iff. apply Opc_proofs.str_eqb_neq. rewrite Er. eapply Hne; eauto.
  - intros k r x' Hkr Hk Hf. rewrite find_rel_filter in Hf by (eapply Hne; eauto). eapply H7; eauto.
  - intros r Hr. rewrite find_rel_filter; [apply H8; exact Hr|].
    unfold slot_rids in Hr. apply in_map_iff in Hr as ([k0 r0] & Er & Hr). cbn [snd] in Er. subst r0.
    apply (Hne k0). unfold all_refs. apply in_or_app. right. apply in_or_app. right. exact Hr.
  - intros Hm. destruct (H10 Hm) as (M1 & M2 & M3). split; auto. split; auto.
    intros r x' Hr Hf. destruct (Opc_proofs.str_eq_dec r rid) as [->|Hner].
    + exfalso. apply (Hnone k_id). unfold all_refs. apply in_or_app. left. apply in_map. exact Hr.
    + rewrite find_rel_filter in Hf by exact Hner. eapply M3; eauto.
Qed.

Lemma find_rel_filter_same rid rs : find_rel rid (filter (fun a => negb (str_eqb (rr_id a) rid)) rs) = None.
Proof.
  induction rs as [|a rs IH]; simpl; auto. destruct (str_eqb_spec (rr_id a) rid) as [E|E]; simpl; auto.
  destruct (str_eqb_spec (rr_id a) rid); [contradiction|exact IH].
Qed.

Lemma type_filter_drop t rid rs : NoDup (map rr_id rs) -> (forall r, find_rel rid rs = Some r -> rr_type r <> t) ->
  type_filter t (filter (fun a => negb (str_eqb (rr_id a) rid)) rs) = type_filter t rs.
Proof.
  intros Hnd Hty.
  assert (H : forall a, In a rs -> rr_id a = rid -> str_eqb (rr_type a) t = false).
  { intros a Ha Ea. apply Opc_proofs.str_eqb_neq. apply Hty. rewrite <- Ea. apply find_rel_NoDup; auto. }
  clear Hty Hnd. unfold type_filter. induction rs as [|a rs IH]; simpl; auto.
  destruct (str_eqb_spec (rr_id a) rid) as [E|E]; simpl.
  - rewrite (H a (or_introl eq_refl) E). apply IH. intros b Hb. apply H. right; auto.
  - destruct (str_eqb (rr_type a) t); [f_equal|]; apply IH; intros b Hb; apply H; right; auto.
Qed.

Lemma step_remove_layout T s l : tables_ok T -> Inv T s -> Inv T (fst (step false T s (RemoveLayout l))).
Proof.
  intros HT HI. cbn [step]. rewrite fst_fin. eapply MH_true. unfold m_remove_layout.
  apply (MH_bind T _ _ s _ (fun _ _ => True) (MH_layout T s l HI)). intros [[m lp] rid] s0 _ [-> Hlay].
  destruct (layout_facts s l m lp rid Hlay) as (pp & mrid & mp & lx & Hpp & Hmr & Hm & Hmp & Ecm & Hnth & Hlp & Hlx & Ecl).
  destruct (access_inv T s HT HI) as (s1 & E & HI1 & Hs1 & Hp1 & Hmr1 & Hlen1 & Hfwd).
  apply (MH_bind T _ _ s (fun _ s' => s' = s1)). { unfold MH. rewrite E. cbn. split; auto. }
  intros [] s' _ ->.
  apply (MH_bind T _ _ s1 (fun a s2 => a = s1 /\ s2 = s1)); [apply MH_getS; auto|]. intros a s2 _ [-> ->].
  apply (MH_bind T _ _ s1 (fun _ s2 => s2 = s1)); [apply MH_part_any; auto|]. intros pp1 s2 _ ->.
  apply (MH_bind T _ _ s1 _ _ (MH_pure T _ s1 (pure_used lp (pt_idl pp1)) HI1)). intros used s2 _ ->.
  destruct used; [apply MH_fail; auto|].
  destruct (Hfwd m mp Hmp) as (nm1 & Hmp1). set (mp1 := with_name mp nm1) in *.
  destruct (Hfwd lp lx Hlx) as (nl1 & Hlx1). set (lx1 := with_name lx nl1) in *.
  assert (Hmnp : m <> st_pres s1) by (apply (class_not_pres T s1 m mp1 ct_slide_master HI1 Hmp1 Ecm); simpl; tauto).
  assert (Hlm : lp <> m).
  { intros ->. rewrite Hmp1 in Hlx1. assert (Heq : mp1 = lx1) by congruence.
    assert (H : pt_ct mp1 = pt_ct lx1) by (rewrite Heq; reflexivity).
    unfold mp1, lx1 in H. cbn [pt_ct with_name] in H. rewrite Ecm, Ecl in H. apply ct_layout_ne_master. auto. }
  pose proof (iv_parts T s1 HI1 m mp1 Hmp1) as Gm. destruct (gp_master _ _ Gm Ecm) as (M1 & M2 & M3).
  apply (MH_bind T _ _ s1 (fun y s2 => y = mp1 /\ s2 = s1)); [apply (MH_part T s1 m mp1); auto|]. intros y s2 _ [-> ->].
  set (MP2 := with_idl mp1 (remove_nth_str l (pt_idl mp1))).
  assert (HI2 : Inv T (setp s1 m MP2)).
  { apply (inv_setp_gen T s1 m mp1 MP2 []); auto; try (intros; contradiction); try (intros q Hq; left; exact Hq).
    - apply good_master_remove; auto.
    - intros _ rid' lp' Hr Hl. split; [unfold MP2 in Hr; cbn [pt_idl with_idl] in Hr; eapply remove_nth_In; exact Hr|exact Hl]. }
  apply (MH_bind T _ _ s1 (fun _ s2 => s2 = setp s1 m MP2)); [apply MH_setp; auto|]. intros [] s2 _ ->.
  set (s2 := setp s1 m MP2) in *.
  assert (Hlx2 : getp s2 lp = Some lx1) by (unfold s2; rewrite getp_setp_other; auto).
  apply (MH_bind T _ _ s2 (fun y s3 => y = lx1 /\ s3 = s2)); [apply (MH_part T s2 lp lx1); auto|]. intros y s3 _ [-> ->].
  destruct (part_with_reltype rt_slide_master (pt_rels lx1)) as [m'|e] eqn:Epw.
  2:{ apply (MH_bind T _ _ s2 (fun _ _ => False)); [apply MH_lift; auto; discriminate|intros ? ? _ []]. }
  assert (Hm' : m' = m).
  { apply (iv_master T s1 HI1 m mp1 rid lp lx1 m' Hmp1 Ecm); auto. eapply nth_error_In; eauto. }
  subst m'.
  apply (MH_bind T _ _ s2 (fun y s3 => y = m /\ s3 = s2)); [apply MH_lift; auto; intros y [= <-]; auto|]. intros y s3 _ [-> ->].
  apply (MH_bind T _ _ s2 (fun _ s3 => s3 = s2)); [apply MH_class; auto|]. intros [] s3 _ ->.
  assert (Hm2 : getp s2 m = Some MP2) by (unfold s2; apply getp_setp_same; eapply getp_lt; eauto).
  apply (MH_bind T _ _ s2 (fun y s3 => y = MP2 /\ s3 = s2)); [apply (MH_part T s2 m MP2); auto|]. intros y s3 _ [-> ->].
  destruct (drop_rel MP2 rid) as [MP3|e] eqn:Ed.
  2:{ apply (MH_bind T _ _ s2 (fun _ _ => False)); [apply MH_lift; auto; discriminate|intros ? ? _ []]. }
  apply (MH_bind T _ _ s2 (fun y s3 => y = MP3 /\ s3 = s2)); [apply MH_lift; auto; intros y [= <-]; auto|]. intros y s3 _ [-> ->].
  apply MH_setp; auto.
  apply drop_rel_spec in Ed as [[_ ->]|(_ & Hkey & ->)].
  { unfold s2. rewrite setp_setp. exact HI2. }
  pose proof (iv_parts T s2 HI2 m MP2 Hm2) as G2.
  assert (Hnone : forall k, ~ In (k, rid) (all_refs MP2)).
  { intros k Hin. unfold all_refs, MP2 in Hin. cbn [pt_idl pt_refs pt_slots with_idl] in Hin.
    apply in_app_or in Hin as [Hin|Hin].
    - apply in_map_iff in Hin as (r & [= _ ->] & Hr). revert Hr. apply remove_nth_not_In; auto.
    - apply (M2 (k, rid) Hin). cbn [snd]. eapply nth_error_In; eauto. }
  apply (inv_setp_gen T s2 m MP2 _ []); auto; try (intros; contradiction).
  - apply good_drop_unreferenced; auto.
  - intros _ rid' lp' Hr Hl. split; auto. cbn [pt_rels with_rels] in Hl. unfold related_part in *.
    destruct (Opc_proofs.str_eq_dec rid' rid) as [->|Hne]; [rewrite find_rel_filter_same in Hl; discriminate|].
    rewrite find_rel_filter in Hl by exact Hne. exact Hl.
  - cbn [pt_rels with_rels]. apply type_filter_drop; [apply (gp_keys _ _ G2)|].
    intros r Hf. apply (M3 rid r); [eapply nth_error_In; eauto|exact Hf].
  - intros q Hq. left. cbn [pt_rels with_rels] in Hq. apply int_targets_In in Hq as (r & Hr & Et).
    apply filter_In in Hr as [Hr _]. apply int_targets_In. eauto.
Qed.

(* ------------------------------------------------------------------------------ *)
(** * Notes master and notes slides *)

Lemma part_with_reltype_target t rs p : part_with_reltype t rs = Ok p -> In p (int_targets rs).
Proof.
  unfold part_with_reltype. destruct (filter _ rs) as [|r [|r' l]] eqn:E; try discriminate.
  destruct (rr_tgt r) eqn:Et; [|discriminate]. intros [= <-].
  assert (Hin : In r (filter (fun r0 => str_eqb (rr_type r0) t) rs)) by (rewrite E; simpl; auto).
  apply filter_In in Hin as [Hin _]. apply int_targets_In. eauto.
Qed.

Lemma reachP_with_nm s o p : reachP s p -> reachP (with_nm s o) p.
Proof.
  induction 1 as [q Hq|a q x Ha IH Hx Hq]; [apply rp0; exact Hq|apply (rp1 _ a q x); [exact IH|exact Hx|exact Hq]].
Qed.

(** what the creation of the notes master leaves alone *)
Definition nm_post (s : state) (nm : nat) (s1 : state) : Prop :=
  st_pres s1 = st_pres s /\ st_slides s1 = st_slides s /\ length (st_parts s) <= length (st_parts s1) /\
  (forall q, q <> st_pres s -> q < length (st_parts s) -> getp s1 q = getp s q) /\
  (forall sp, listed s sp -> listed s1 sp) /\ reachP s1 nm.

Lemma n_nm_part_name : Opc.part_name n_notes_master.
Proof. apply Opc_proofs.part_nameb_sound. vm_compute. reflexivity. Qed.

Lemma tp_theme_known : In tp_theme known_tps. Proof. simpl; tauto. Qed.
Lemma ct_theme_new : In ct_theme new_part_cts. Proof. simpl; tauto. Qed.
Lemma ct_nm_new : In ct_notes_master new_part_cts. Proof. simpl; tauto. Qed.
Lemma rt_theme_ne_master : rt_theme <> rt_slide_master. Proof. vm_compute; discriminate. Qed.
Lemma ct_nm_ne_master : ct_notes_master <> ct_slide_master. Proof. vm_compute; discriminate. Qed.

Lemma theme_name_dir k : baseURI (Ids.tmpl_apply (fst tp_theme) (snd tp_theme) k) = asc "/ppt/theme".
Proof.
  change (fst tp_theme) with (render ([asc "ppt"; asc "theme"] ++ [asc "theme"])).
  destruct (tmpl_name_facts [asc "ppt"; asc "theme"] (asc "theme") (snd tp_theme) k) as [_ B];
    [repeat constructor|discriminate|vm_compute; discriminate|reflexivity|reflexivity|exact B].
Qed.

Lemma MH_notes_master T s : tables_ok T -> Inv T s -> MH T m_notes_master s (fun nm s1 => nm_post s nm s1).
Proof.
  intros HT HI. pose proof (inv_wfg T s HI) as Hw. unfold m_notes_master.
  destruct (iv_pres T s HI) as (pp & Hpp & Hcls). destruct (iv_fixed T s HI) as (F1 & F2 & F3).
  assert (Hself : forall p, reachP s p -> nm_post s p s).
  { intros p Hp. split; [reflexivity|]. split; [reflexivity|]. split; [lia|]. split; [intros q _ _; reflexivity|]. split; auto. }
  apply (MH_bind T _ _ s (fun a s1 => a = s /\ s1 = s)); [apply MH_getS; auto|]. intros a s1 _ [-> ->].
  destruct (st_nm s) as [p|] eqn:Enm.
  { apply MH_ret; auto. apply Hself. eapply rp1; [apply (pres_reach T s HI)|exact Hpp|].
    eapply part_with_reltype_target. apply (F3 pp p Hpp eq_refl). }
  apply (MH_bind T _ _ s (fun a s1 => a = pp /\ s1 = s)); [apply (MH_part T s _ pp); auto|]. intros a s1 _ [-> ->].
  destruct (part_with_reltype rt_notes_master (pt_rels pp)) as [p|e] eqn:Epw.
  { apply (MH_bind T _ _ s (fun a s1 => a = s /\ s1 = s)); [apply MH_getS; auto|]. intros a s1 _ [-> ->].
    assert (HI' : Inv T (with_nm s (Some p))).
    { apply inv_with_nm; auto. intros pp0 Hpp0. rewrite Hpp in Hpp0. injection Hpp0 as <-. exact Epw. }
    apply (MH_bind T _ _ s (fun _ s1 => s1 = with_nm s (Some p))).
    { unfold MH, putS. cbn. split; auto. }
    intros [] s1 _ ->. apply MH_ret; auto.
    assert (Hr : reachP s p) by (eapply rp1; [apply (pres_reach T s HI)|exact Hpp|eapply part_with_reltype_target; eauto]).
    split; [reflexivity|]. split; [reflexivity|]. split; [cbn; lia|]. split; [intros q _ _; reflexivity|].
    split; [intros sp (pp0 & rid & H1 & H2); exists pp0, rid; auto|].
    apply reachP_with_nm. exact Hr. }
  destruct e; try (apply MH_fail; exact HI);
  (* the creating branch, the same for every other error class *)
  ( assert (Hnone : type_filter rt_notes_master (pt_rels pp) = []) by (apply (part_with_reltype_err _ _ _ Epw); discriminate);
    assert (Hnmf : ~ In n_notes_master (iter_names s)) by (intros H; apply (F1 pp Hpp H); exact Hnone);
    set (NM := new_part n_notes_master ct_notes_master 0);
    set (nm := length (st_parts s));
    apply (MH_bind T _ _ s (fun a s2 => a = nm /\ s2 = addp s NM));
    [ apply MH_new; [exact HT|exact HI|apply good_new_part; apply n_nm_part_name|reflexivity|split; reflexivity] | ];
    intros a s2 HI2 [-> ->]; set (sA := addp s NM) in *;
    apply (MH_bind T _ _ sA _ _ (MH_next_partname T sA tp_theme HI2 tp_theme_known)); intros tnm s3 _ (-> & Hft & kt & ->);
    set (TH := new_part (Ids.tmpl_apply (fst tp_theme) (snd tp_theme) kt) ct_theme 0);
    pose proof (tmpl_leaf T sA tp_theme kt ct_theme 0 HT HI2 tp_theme_known ct_theme_new Hft) as Hlt; fold TH in Hlt;
    set (th := length (st_parts sA));
    apply (MH_bind T _ _ sA (fun a s3 => a = th /\ s3 = addp sA TH));
    [ apply MH_new; [exact HT|exact HI2|apply (lf_good _ _ _ Hlt)|reflexivity|split; reflexivity] | ];
    intros a s3 HI3 [-> ->]; set (sB := addp sA TH) in * ).
  all: assert (HlenA : length (st_parts sA) = S nm) by (unfold sA, addp; cbn [st_parts with_parts]; rewrite app_length; simpl; unfold nm; lia).
  all: assert (HlenB : length (st_parts sB) = S (S nm)) by (unfold sB, addp; cbn [st_parts with_parts]; rewrite app_length, HlenA; simpl; lia).
  all: assert (HeA : ext_unreach s sA) by (apply (ext_addp T s NM HI)).
  all: assert (HeB : ext_unreach s sB) by (eapply ext_trans; [exact HI|exact HeA|apply (ext_addp T sA TH HI2)]).
  all: assert (Hnr_nm : ~ reachP sB nm) by (intros H; apply (ext_reach T s sB HI HeB) in H; pose proof (reachP_lt s Hw nm H); unfold nm in *; lia).
  all: assert (HNMB : getp sB nm = Some NM) by (unfold sB, addp; rewrite getp_app_old by (rewrite HlenA; lia); apply getp_app_new).
  all: assert (Hnm_np : nm <> st_pres sB) by (cbn; pose proof (getp_lt s _ pp Hpp); unfold nm; lia).
  all: apply (MH_bind T _ _ sB (fun rid s4 => exists rs, s4 = setp sB nm (with_rels NM rs) /\ rel_facts NM rs rid rt_theme (TInt th)));
    [ apply (MH_relate_int T sB nm NM rt_theme th []); auto; try (intros; contradiction);
      [ cbn; apply ct_nm_ne_master | apply rt_theme_ne_master | rewrite HlenB; unfold th; rewrite HlenA; lia ] | ].
  all: intros rid1 s4 HI4 (rsn & -> & Fn); set (sC := setp sB nm (with_rels NM rsn)) in *.
  all: assert (Hrsn : int_targets rsn = [th]) by
         (destruct Fn as ([->|[-> _]] & (r & Hr' & _) & _); [cbn in Hr'; discriminate|reflexivity]).
  all: assert (HeC : ext_unreach s sC) by (eapply ext_trans; [exact HI|exact HeB|apply ext_setp_unreach; exact Hnr_nm]).
  all: assert (HeAC : ext_unreach sA sC) by (eapply ext_trans; [exact HI2|apply (ext_addp T sA TH HI2)|apply ext_setp_unreach; exact Hnr_nm]).
  all: assert (HppC : getp sC (st_pres sC) = Some pp) by
         (change (st_pres sC) with (st_pres s); unfold sC; rewrite getp_setp_other by (intros E'; apply Hnm_np; rewrite E'; reflexivity);
          unfold sB, addp; rewrite getp_app_old by (rewrite HlenA; pose proof (getp_lt s _ pp Hpp); unfold nm; lia);
          unfold sA, addp; rewrite getp_app_old; auto; eapply getp_lt; eauto).
  all: assert (HNMC : getp sC nm = Some (with_rels NM rsn)) by (unfold sC; apply getp_setp_same; rewrite HlenB; lia).
  all: assert (HTHC : getp sC th = Some TH) by
         (unfold sC; rewrite getp_setp_other by (unfold th; rewrite HlenA; lia); unfold sB, addp; unfold th; apply getp_app_new).
  all: pose proof (iv_parts T s HI _ pp Hpp) as Gpp.
  all: destruct (pres_not_class T s pp HI Hpp) as (C1 & C2 & C3).
  all: destruct (get_or_add_cases rt_notes_master (TInt nm) (pt_rels pp)) as [(rid & r & E & Hin & _ & Ht & _)|(rid & E & Hfr & _)];
    [ exfalso; assert (Hf : In r (type_filter rt_notes_master (pt_rels pp))) by (apply filter_In; split; auto; rewrite Ht; apply str_eqb_refl);
      rewrite Hnone in Hf; destruct Hf | ].
  all: set (PP' := with_rels pp (pt_rels pp ++ [mkR rid rt_notes_master (TInt nm) None])).
  all: assert (HIP : Inv T (setp sC (st_pres sC) PP')).
  all: try (
    assert (A_good : good_part (length (st_parts sC)) PP') by
      (unfold PP'; apply good_add_rel; auto;
       [apply (iv_parts T sC HI4 _ pp HppC)|intros q [= <-]; unfold sC; rewrite length_setp, HlenB; lia]);
    assert (A_edges : forall q, In q (int_targets [mkR rid rt_notes_master (TInt nm) None]) -> reachP sC q \/ In q [nm; th])
      by (intros q [<-|[]]; right; simpl; auto);
    assert (A_pN : ~ In (st_pres sC) [nm; th]) by
      (intros [E'|[E'|[]]]; [apply Hnm_np; rewrite E'; reflexivity|pose proof (getp_lt s _ pp Hpp) as Hl; change (st_pres sC) with (st_pres s) in E'; unfold th in E'; rewrite HlenA in E'; unfold nm in E'; lia]);
    assert (A_Ncl : forall n y q, In n [nm; th] -> getp sC n = Some y -> In q (int_targets (pt_rels y)) -> reachP sC q \/ In q [nm; th])
      by (intros n y q [<-|[<-|[]]] Hy Hq;
          [rewrite HNMC in Hy; injection Hy as <-; cbn [pt_rels with_rels] in Hq; rewrite Hrsn in Hq; destruct Hq as [<-|[]]; right; simpl; auto
          |rewrite HTHC in Hy; injection Hy as <-; destruct Hq]);
    assert (A_Nok : forall n y, In n [nm; th] -> ~ reachP sC n -> getp sC n = Some y ->
              new_ok T sC y /\ (baseURI (pt_name y) = s_slides_dir -> In n []) /\
              (pt_name y = n_notes_master -> type_filter rt_notes_master [mkR rid rt_notes_master (TInt nm) None] <> []) /\ pt_name y <> n_core)
      by (intros n y [<-|[<-|[]]] _ Hy;
          [ rewrite HNMC in Hy; injection Hy as <-; change (pt_name (with_rels NM rsn)) with n_notes_master; change (pt_ct (with_rels NM rsn)) with ct_notes_master;
            split; [constructor; [change (pt_name (with_rels NM rsn)) with n_notes_master; intros Hin; apply Hnmf; eapply ext_names; eauto
                                  |change (pt_ct (with_rels NM rsn)) with ct_notes_master; apply (tk_bin T HT); apply ct_nm_new]|];
            split; [intros E'; vm_compute in E'; discriminate|]; split; [intros _; vm_compute; discriminate|vm_compute; discriminate]
          | rewrite HTHC in Hy; injection Hy as <-;
            destruct (leaf_new_ok T sA sC TH HI2 HI4 HeAC Hlt) as (Hn1 & Hn2 & Hn3 & Hn4);
            split; [exact Hn1|]; split; [intros E'; contradiction|]; split; [intros E'; contradiction|exact Hn4] ]);
    assert (A_Nd : forall n m0 y z, In n [nm; th] -> In m0 [nm; th] -> n <> m0 -> ~ reachP sC n -> ~ reachP sC m0 ->
              getp sC n = Some y -> getp sC m0 = Some z -> pt_name y <> pt_name z)
      by (assert (Hdiff : n_notes_master <> pt_name TH) by
            (intros E'; pose proof (theme_name_dir kt) as B; change (pt_name TH) with (Ids.tmpl_apply (fst tp_theme) (snd tp_theme) kt) in E';
             rewrite <- E' in B; vm_compute in B; discriminate);
          intros n m0 y z [<-|[<-|[]]] [<-|[<-|[]]] Hne _ _ Hy Hz; try contradiction;
          [rewrite HNMC in Hy; rewrite HTHC in Hz; injection Hy as <-; injection Hz as <-; exact Hdiff
          |rewrite HTHC in Hy; rewrite HNMC in Hz; injection Hy as <-; injection Hz as <-; intros E'; apply Hdiff; symmetry; exact E']);
    assert (A_tgx : NoDup (@nil nat) /\ forall q, In q (@nil nat) -> ~ reachP sC q /\ baseURI (name_of (st_parts sC) q) = s_slides_dir)
      by (split; [constructor|intros q []]);
    assert (A_names : st_slides sC = true -> forall j q, nth_error (@nil nat) j = Some q ->
              name_of (st_parts sC) q = Ids.slide_name (N.of_nat (length (pt_idl pp) + j) + 1)%N)
      by (intros _ [|j] q Hj; discriminate);
    assert (A_nm : forall p0, st_nm sC = Some p0 -> type_filter rt_notes_master [mkR rid rt_notes_master (TInt nm) None] = [])
      by (intros p0 Hp0; change (st_nm sC) with (st_nm s) in Hp0; rewrite Enm in Hp0; discriminate);
    assert (A_idl : pt_idl PP' = pt_idl pp ++ []) by (rewrite app_nil_r; reflexivity);
    exact (inv_setp_pres T sC pp PP' [nm; th] [mkR rid rt_notes_master (TInt nm) None] [] [] HT HI4 HppC eq_refl eq_refl
             A_good eq_refl A_idl (Forall2_nil _) A_edges A_pN A_Ncl A_Nok A_Nd A_tgx A_names A_nm eq_refl) ).
  all: apply (MH_bind T _ _ sC (fun _ s5 => s5 = setp sC (st_pres sC) PP'));
    [ unfold MH; rewrite (m_relate_run sC (st_pres s) rt_notes_master (TInt nm) pp _ rid HppC E); cbn; split; auto | ].
  all: intros rid2 s5 _ ->; set (sD := setp sC (st_pres sC) PP') in *.
  all: apply (MH_bind T _ _ sD (fun a s6 => a = sD /\ s6 = sD)); [apply MH_getS; auto|]; intros a s6 _ [-> ->].
  all: assert (HPD : getp sD (st_pres sD) = Some PP') by (unfold sD; apply getp_setp_same; eapply getp_lt; exact HppC).
  all: assert (Hpw : part_with_reltype rt_notes_master (pt_rels PP') = Ok nm) by
         (unfold part_with_reltype; change (filter (fun r0 => str_eqb (rr_type r0) rt_notes_master) (pt_rels PP'))
            with (type_filter rt_notes_master (pt_rels pp ++ [mkR rid rt_notes_master (TInt nm) None]));
          rewrite type_filter_app, Hnone; reflexivity).
  all: assert (HIE : Inv T (with_nm sD (Some nm))) by
         (apply inv_with_nm; auto; intros pp0 Hpp0; rewrite HPD in Hpp0; injection Hpp0 as <-; exact Hpw).
  all: apply (MH_bind T _ _ sD (fun _ s7 => s7 = with_nm sD (Some nm))); [unfold MH, putS; cbn; split; auto|].
  all: intros [] s7 _ ->; apply MH_ret; auto.
  all: split; [reflexivity|]; split; [reflexivity|]; split;
    [change (st_parts (with_nm sD (Some nm))) with (st_parts sD); unfold sD, sC; rewrite !length_setp, HlenB; unfold nm; lia|].
  all: split;
    [intros q Hq Hql; change (getp (with_nm sD (Some nm)) q) with (getp sD q); unfold sD;
     rewrite getp_setp_other by (intros E'; apply Hq; rewrite <- E'; reflexivity);
     unfold sC; rewrite getp_setp_other by (unfold nm; lia);
     unfold sB, addp; rewrite getp_app_old by (rewrite HlenA; unfold nm; lia); unfold sA, addp; rewrite getp_app_old; auto|].
  all: split;
    [intros sp (pp0 & rid0 & H1 & H2); rewrite Hpp in H1; injection H1 as <-; exists PP', rid0; split; [exact HPD|];
     unfold PP'; cbn [pt_rels with_rels]; apply related_part_app_old; exact H2|].
  all: eapply rp1; [apply (pres_reach T _ HIE)|exact HPD|eapply part_with_reltype_target; exact Hpw].
Qed.

Lemma rel_facts_targets x rs rid t q : rel_facts x rs rid t (TInt q) ->
  forall q', In q' (int_targets rs) -> In q' (int_targets (pt_rels x)) \/ q' = q.
Proof.
  intros ([->|[-> _]] & _) q' Hq'; auto. rewrite int_targets_app in Hq'. apply in_app_or in Hq' as [H|H]; auto.
  simpl in H. destruct H as [<-|[]]. auto.
Qed.

Lemma good_with_notes n x b : good_part n x -> good_part n (with_notes x b).
Proof. intros [H1 H2 H3 H4 H5 H6 H7 H8 H9 H10]. constructor; auto. Qed.

Lemma good_new_notes n name : Opc.part_name name ->
  good_part n (with_slots (new_part name ct_notes_slide 0) [(None, None)]).
Proof.
  intros H. constructor; cbn; auto; try (intros; contradiction).
  - constructor.
  - intros E. exfalso. revert E. vm_compute. discriminate.
Qed.

Lemma tp_notes_known : In tp_notes_slide known_tps. Proof. simpl; tauto. Qed.
Lemma ct_notes_new : In ct_notes_slide new_part_cts. Proof. simpl; tauto. Qed.
Lemma rt_nm_ne_master : rt_notes_master <> rt_slide_master. Proof. vm_compute; discriminate. Qed.
Lemma rt_ns_ne_master : rt_notes_slide <> rt_slide_master. Proof. vm_compute; discriminate. Qed.

Definition notes_post (s : state) (np : nat) (s1 : state) : Prop :=
  st_pres s1 = st_pres s /\ st_slides s1 = st_slides s /\ (forall tp, listed s tp -> listed s1 tp) /\
  exists nx, editable s1 np nx /\ pt_ct nx = ct_notes_slide.

Lemma MH_notes T s sp : tables_ok T -> Inv T s -> slidep s sp -> MH T (m_notes sp) s (fun np s1 => notes_post s np s1).
Proof.
  intros HT HI Hs. pose proof (inv_wfg T s HI) as Hw.
  destruct (slidep_editable s sp Hs) as (x & He & Ec & Hr). pose proof He as (Hx & Hnp & _).
  pose proof (editable_not_master _ _ _ He) as Hnm. pose proof (getp_lt s sp x Hx) as Hsplt.
  unfold m_notes.
  apply (MH_bind T _ _ s (fun y s1 => y = x /\ s1 = s)); [apply (MH_part T s sp x); auto|]. intros y s1 _ [-> ->].
  destruct (part_with_reltype rt_notes_slide (pt_rels x)) as [p|e] eqn:Epw.
  - (* the slide has a notes slide *)
    apply (MH_bind T _ _ s (fun _ s1 => s1 = s /\ exists nx, getp s p = Some nx /\ pt_ct nx = ct_notes_slide)).
    { apply MH_class; auto. intros nx Hnx Ect. split; eauto. }
    intros [] s1 _ (-> & nx & Hnx & Ect).
    assert (Hpnp : p <> st_pres s) by (eapply class_not_pres; eauto; simpl; tauto).
    assert (Hpsp : p <> sp).
    { intros ->. rewrite Hx in Hnx. injection Hnx as <-. rewrite Ec in Ect. revert Ect. vm_compute. discriminate. }
    destruct (pt_notes x).
    + apply (MH_bind T _ _ s (fun _ s1 => s1 = s)); [apply MH_ret; auto|]. intros [] s1 _ ->. apply MH_ret; auto.
      split; [reflexivity|]. split; [reflexivity|]. split; [auto|]. exists nx. split; [split; auto|auto].
    + assert (HI' : Inv T (setp s sp (with_notes x true))).
      { apply (inv_setp T s sp x _ []); auto; try (intros; contradiction). apply good_with_notes. apply (iv_parts T s HI sp x Hx). }
      apply (MH_bind T _ _ s (fun _ s1 => s1 = setp s sp (with_notes x true))); [apply MH_setp; auto|].
      intros [] s1 _ ->. apply MH_ret; auto.
      split; [reflexivity|]. split; [reflexivity|]. split; [intros tp Htp; apply listed_setp; auto|].
      exists nx. split; [|auto]. split; [rewrite getp_setp_other; auto|]. split; auto.
  - destruct (pt_notes x) eqn:Enotes; [apply MH_fail; auto|].
    destruct e; try (apply MH_fail; exact HI);
    ( apply (MH_bind T _ _ s _ _ (MH_notes_master T s HT HI)); intros nm s1 HI1 (P1 & P2 & P3 & P4 & P5 & Hrnm);
      assert (Hx1 : getp s1 sp = Some x) by (rewrite P4; auto);
      assert (Hnp1 : sp <> st_pres s1) by (rewrite P1; exact Hnp);
      apply (MH_bind T _ _ s1 _ _ (MH_next_partname T s1 tp_notes_slide HI1 tp_notes_known)); intros nname s2 _ (-> & Hfn & kn & ->);
      set (NP := with_slots (new_part (Ids.tmpl_apply (fst tp_notes_slide) (snd tp_notes_slide) kn) ct_notes_slide 0) [(None, None)]);
      set (np := length (st_parts s1));
      destruct (tp_name_facts tp_notes_slide kn tp_notes_known) as [Hpn Hdn];
      apply (MH_bind T _ _ s1 (fun a s2 => a = np /\ s2 = addp s1 NP));
      [ apply MH_new; [exact HT|exact HI1|apply good_new_notes; exact Hpn|reflexivity|split; reflexivity] | ];
      intros a s2 HI2 [-> ->]; set (sA := addp s1 NP) in * ).
    all: pose proof (inv_wfg T s1 HI1) as Hw1.
    all: assert (HlenA : length (st_parts sA) = S np) by (unfold sA, addp; cbn [st_parts with_parts]; rewrite app_length; simpl; unfold np; lia).
    all: assert (HeA : ext_unreach s1 sA) by (apply (ext_addp T s1 NP HI1)).
    all: assert (Hnr_np : ~ reachP sA np) by (intros H; apply (ext_reach T s1 sA HI1 HeA) in H; pose proof (reachP_lt s1 Hw1 np H); unfold np in *; lia).
    all: assert (HNPA : getp sA np = Some NP) by apply getp_app_new.
    all: assert (Hnp_np : np <> st_pres sA) by (cbn; destruct (iv_pres T s1 HI1) as (pp1 & Hpp1 & _); pose proof (getp_lt s1 _ pp1 Hpp1); unfold np; lia).
    all: assert (Hnmlt : nm < length (st_parts s1)) by (apply (reachP_lt s1 Hw1); exact Hrnm).
    all: assert (Hsplt1 : sp < length (st_parts s1)) by lia.
    all: apply (MH_bind T _ _ sA (fun rid s3 => exists rs, s3 = setp sA np (with_rels NP rs) /\ rel_facts NP rs rid rt_notes_master (TInt nm)));
      [ apply (MH_relate_int T sA np NP rt_notes_master nm []); auto; try (intros; contradiction);
        [ cbn; apply ct_notes_ne_master | apply rt_nm_ne_master | rewrite HlenA; lia ] | ].
    all: intros rid1 s3 HI3 (rs1 & -> & F1); set (sB := setp sA np (with_rels NP rs1)) in *.
    all: assert (Hnr_npB : ~ reachP sB np) by
           (intros H; assert (HeB : ext_unreach s1 sB) by (eapply ext_trans; [exact HI1|exact HeA|apply ext_setp_unreach; exact Hnr_np]);
            apply (ext_reach T s1 sB HI1 HeB) in H; pose proof (reachP_lt s1 Hw1 np H); unfold np in *; lia).
    all: assert (HNPB : getp sB np = Some (with_rels NP rs1)) by (unfold sB; apply getp_setp_same; rewrite HlenA; lia).
    all: apply (MH_bind T _ _ sB (fun rid s4 => exists rs, s4 = setp sB np (with_rels (with_rels NP rs1) rs) /\
                                                 rel_facts (with_rels NP rs1) rs rid rt_slide (TInt sp)));
      [ apply (MH_relate_int T sB np (with_rels NP rs1) rt_slide sp []); auto; try (intros; contradiction);
        [ cbn; apply ct_notes_ne_master | apply rt_slide_ne_master | unfold sB; rewrite length_setp, HlenA; lia ] | ].
    all: intros rid2 s4 HI4 (rs2 & -> & F2); set (sC := setp sB np (with_rels (with_rels NP rs1) rs2)) in *.
    all: set (NP2 := with_rels (with_rels NP rs1) rs2) in *.
    all: assert (HeC : ext_unreach s1 sC) by
           (eapply ext_trans; [exact HI1| |apply ext_setp_unreach; exact Hnr_npB];
            eapply ext_trans; [exact HI1|exact HeA|apply ext_setp_unreach; exact Hnr_np]).
    all: assert (HNPC : getp sC np = Some NP2) by (unfold sC; apply getp_setp_same; unfold sB; rewrite length_setp, HlenA; lia).
    all: assert (Hold : forall q, q <> np -> q < length (st_parts s1) -> getp sC q = getp s1 q) by
           (intros q Hq Hl; unfold sC; rewrite getp_setp_other by auto; unfold sB; rewrite getp_setp_other by auto;
            unfold sA, addp; apply getp_app_old; exact Hl).
    all: assert (Htg2 : forall q, In q (int_targets (pt_rels NP2)) -> q = nm \/ q = sp) by
           (intros q Hq; unfold NP2 in Hq; cbn [pt_rels with_rels] in Hq;
            destruct (rel_facts_targets _ _ _ _ _ F2 q Hq) as [H|H]; auto; cbn [pt_rels with_rels] in H;
            destruct (rel_facts_targets _ _ _ _ _ F1 q H) as [H'|H']; auto; destruct H').
    all: assert (HxC : getp sC sp = Some x) by (rewrite Hold; auto; unfold np; lia).
    all: apply (MH_bind T _ _ sC (fun _ s5 => s5 = sC)); [apply MH_class; auto|]; intros [] s5 _ ->.
    all: assert (B1 : sp <> st_pres sC) by (change (st_pres sC) with (st_pres s1); exact Hnp1).
    all: assert (B2 : np < length (st_parts sC)) by (unfold sC, sB; rewrite !length_setp, HlenA; lia).
    all: assert (B3 : ~ In sp [np]) by (intros [E'|[]]; unfold np in E'; lia).
    all: assert (B4 : reachP sC np \/ In np [np] \/ ~ reachP sC sp) by (right; left; simpl; auto).
    all: assert (B5 : forall n y q', In n [np] -> getp sC n = Some y -> In q' (int_targets (pt_rels y)) -> reachP sC q' \/ In q' [np]) by
           (intros n y q' [<-|[]] Hy Hq'; rewrite HNPC in Hy; injection Hy as <-;
            destruct (Htg2 q' Hq') as [-> | ->]; left;
            [apply (ext_reach_back s1 sC HeC); exact Hrnm
            |apply (ext_reach_back s1 sC HeC); apply (listed_reach T s1 sp HI1); apply P5; destruct Hs as (_ & _ & _ & _ & Hl); exact Hl]).
    all: assert (B6 : forall n y, In n [np] -> ~ reachP sC n -> getp sC n = Some y ->
              new_ok T sC y /\ baseURI (pt_name y) <> s_slides_dir /\ pt_name y <> n_notes_master /\ pt_name y <> n_core) by
           (intros n y [<-|[]] _ Hy; rewrite HNPC in Hy; injection Hy as <-;
            destruct (other_dirs_plain _ Hdn) as (D1 & D2 & D3);
            split; [constructor; [change (pt_name NP2) with (Ids.tmpl_apply (fst tp_notes_slide) (snd tp_notes_slide) kn); intros Hin; apply Hfn; eapply ext_names; eauto
                                  |change (pt_ct NP2) with ct_notes_slide; apply (tk_bin T HT); apply ct_notes_new]|];
            change (pt_name NP2) with (Ids.tmpl_apply (fst tp_notes_slide) (snd tp_notes_slide) kn);
            split; [exact D1|]; split; [intros E'; apply D2; rewrite E'; reflexivity|intros E'; apply D3; rewrite E'; reflexivity]).
    all: assert (B7 : forall n m0 y z, In n [np] -> In m0 [np] -> n <> m0 -> ~ reachP sC n -> ~ reachP sC m0 ->
              getp sC n = Some y -> getp sC m0 = Some z -> pt_name y <> pt_name z) by
           (intros n m0 y z [<-|[]] [<-|[]] Hne; contradiction).
    all: apply (MH_bind T _ _ sC _ _ (MH_relate_int T sC sp x rt_notes_slide np [np] HT HI4 HxC B1 Hnm rt_ns_ne_master B2 B3 B4 B5 B6 B7)).
    all: intros rid3 s5 HI5 (rs3 & -> & F3); set (sD := setp sC sp (with_rels x rs3)) in *.
    all: assert (HxD : getp sD sp = Some (with_rels x rs3)) by (unfold sD; apply getp_setp_same; unfold sC, sB; rewrite !length_setp, HlenA; lia).
    all: apply (MH_bind T _ _ sD (fun y s6 => y = with_rels x rs3 /\ s6 = sD)); [apply (MH_part T sD sp _ _ HI5 HxD); auto|]; intros y s6 _ [-> ->].
    all: assert (HIE : Inv T (setp sD sp (with_notes (with_rels x rs3) true))) by
           (apply (inv_setp T sD sp (with_rels x rs3) _ []); auto; try (intros; contradiction);
            try (apply good_with_notes; apply (iv_parts T sD HI5 sp _ HxD)); try (change (st_pres sD) with (st_pres s1); exact Hnp1)).
    all: apply (MH_bind T _ _ sD (fun _ s7 => s7 = setp sD sp (with_notes (with_rels x rs3) true))); [apply MH_setp; auto|]; intros [] s7 _ ->.
    all: apply MH_ret; auto.
    all: split; [exact P1|]; split; [exact P2|]; split.
    all: try (intros tp Htp; apply listed_setp; [change (st_pres sD) with (st_pres s1); exact Hnp1|];
              apply listed_setp; [change (st_pres sC) with (st_pres s1); exact Hnp1|];
              destruct (P5 tp Htp) as (pp0 & rid0 & H1 & H2); exists pp0, rid0; split; [|exact H2];
              change (st_pres sC) with (st_pres s1); rewrite Hold; [exact H1|intros E'; apply Hnp_np; rewrite <- E'; reflexivity|eapply getp_lt; exact H1]).
    all: exists NP2; split; [|reflexivity]; split; [|split; [change (st_pres (setp sD sp (with_notes (with_rels x rs3) true))) with (st_pres s1); intros E'; apply Hnp_np; rewrite E'; reflexivity|right; reflexivity]].
    all: rewrite getp_setp_other by (unfold np; lia); unfold sD; rewrite getp_setp_other by (unfold np; lia); exact HNPC.
Qed.

Lemma step_access_notes T s i : tables_ok T -> Inv T s -> Inv T (fst (step false T s (AccessNotes i))).
Proof.
  intros HT HI. cbn [step]. rewrite fst_fin. eapply MH_true.
  apply (MH_bind T _ _ s _ (fun _ _ => True) (MH_slide T s i HT HI)). intros sp s1 HI1 [Hs _].
  eapply MH_weaken; [apply (MH_notes T s1 sp HT HI1 Hs)|auto].
Qed.

Lemma step_set_notes_jump T s i k : tables_ok T -> Inv T s -> Inv T (fst (step false T s (SetNotesJump i k))).
Proof.
  intros HT HI. cbn [step]. rewrite fst_fin. eapply MH_true.
  apply (MH_bind T _ _ s _ (fun _ _ => True) (MH_slide T s i HT HI)). intros sp s1 HI1 [Hs _].
  apply (MH_bind T _ _ s1 _ _ (MH_notes T s1 sp HT HI1 Hs)). intros np s2 HI2 (P1 & P2 & P3 & nx & He & Ect).
  pose proof He as (Hnx & _).
  apply (MH_bind T _ _ s2 _ _ (MH_has_slot T s2 np nx 0 HI2 Hnx)). intros h s3 _ ->.
  destruct h; [|apply MH_ret; auto].
  assert (Hs2 : st_slides s2 = true) by (rewrite P2; apply (proj1 Hs)).
  apply (MH_bind T _ _ s2 _ _ (MH_slide_again T s2 k HT HI2 Hs2)). intros tp s3 _ [-> Htp].
  apply (MH_bind T _ _ s2 _ _ (MH_set_jump T s2 np nx 0 tp HT HI2 He (proj2 (proj2 (proj2 (proj2 Htp)))))).
  intros [] s3 HI3 _. apply MH_ret; auto.
Qed.

Lemma step_clear_notes_jump T s i : tables_ok T -> Inv T s -> Inv T (fst (step false T s (ClearNotesJump i))).
Proof.
  intros HT HI. cbn [step]. rewrite fst_fin. eapply MH_true.
  apply (MH_bind T _ _ s _ (fun _ _ => True) (MH_slide T s i HT HI)). intros sp s1 HI1 [Hs _].
  apply (MH_bind T _ _ s1 _ _ (MH_notes T s1 sp HT HI1 Hs)). intros np s2 HI2 (P1 & P2 & P3 & nx & He & Ect).
  pose proof He as (Hnx & _).
  apply (MH_bind T _ _ s2 _ _ (MH_has_slot T s2 np nx 0 HI2 Hnx)). intros h s3 _ ->.
  destruct h; [|apply MH_ret; auto].
  apply (MH_bind T _ _ s2 _ _ (MH_clear T s2 np nx WClick 0 HT HI2 He)). intros [] s3 HI3 _. apply MH_ret; auto.
Qed.

(* ------------------------------------------------------------------------------ *)
(** * C02_step, C02_reachable *)

Theorem step_inv T s o : tables_ok T -> op_ok T o -> Inv T s -> Inv T (fst (step false T s o)).
Proof.
  intros HT Ho HI. destruct o.
  - apply step_access; auto.
  - apply step_add_slide; auto.
  - apply step_plain; auto.
  - apply step_add_picture; auto.
  - apply step_picture_bad; auto.
  - apply step_insert_picture; auto.
  - destruct Ho as [Hv Hp]. apply step_add_movie; auto.
  - apply step_add_chart; auto.
  - apply step_replace_data; auto.
  - apply step_add_ole; auto.
  - apply step_access_notes; auto.
  - apply step_set_link; auto.
  - apply step_clear_link; auto.
  - apply step_read_link; auto.
  - apply step_set_jump; auto.
  - apply step_clear_jump; auto.
  - apply step_set_notes_jump; auto.
  - apply step_clear_notes_jump; auto.
  - apply step_remove_layout; auto.
  - apply step_core; auto.
  - apply step_save; auto.
Qed.

Theorem run_inv T ops : tables_ok T -> Forall (op_ok T) ops -> forall s, Inv T s -> Inv T (run false T s ops).
Proof.
  intros HT. induction 1 as [|o ops Ho _ IH]; intros s HI; [exact HI|].
  cbn [run fold_left]. apply IH. apply step_inv; auto.
Qed.

(** the outcomes of a history, with the state each operation ran in *)
Fixpoint trace (T : tables) (s : state) (ops : list op) : list (state * outcome) :=
  match ops with
  | [] => []
  | o :: r => let '(s1, out) := step false T s o in (s1, out) :: trace T s1 r
  end.

Lemma fin_not_saved {A} (f : A -> outcome) (m : M A) s s1 ph :
  (forall a ph', f a <> Saved ph') -> fin f m s <> (s1, Saved ph).
Proof.
  intros Hf. unfold fin. destruct (m s) as [s' [a|e]]; intros H.
  - injection H as _ E. exact (Hf a ph E).
  - injection H as _ E. discriminate.
Qed.

Lemma saved_only_save T s o s1 ph : step false T s o = (s1, Saved ph) -> o = Save.
Proof.
  destruct o; cbn [step]; auto; intros H; exfalso; revert H; apply fin_not_saved; intros a ph';
    try (destruct a; discriminate); try discriminate; try (destruct a as [[v|]|]; discriminate).
Qed.

(** every package any save of any history writes is Closed *)
Theorem every_save_closed T ops : tables_ok T -> Forall (op_ok T) ops -> forall s, Inv T s ->
  forall s1 ph, In (s1, Saved ph) (trace T s ops) -> Closed s1 ph.
Proof.
  intros HT. induction 1 as [|o ops Ho _ IH]; intros s HI s1 ph Hin; [destruct Hin|].
  cbn [trace] in Hin. destruct (step false T s o) as [s2 out] eqn:E.
  assert (HI2 : Inv T s2) by (change s2 with (fst (s2, out)); rewrite <- E; apply step_inv; auto).
  destruct Hin as [Hin|Hin]; [|eapply IH; eauto].
  injection Hin as -> ->. pose proof (saved_only_save T s o s1 ph E) as ->.
  cbn [step save_state negb] in E. injection E as <- <-. apply save_closed_aux; auto.
Qed.

(* ------------------------------------------------------------------------------ *)
(** * Re-opening the saved package gives back the graph *)

Section Reopen.
Variable T : tables.
Variable s : state.
Hypothesis HI : Inv T s.
Hypothesis HT : tables_ok T.

Let Hw : wfg s := inv_wfg T s HI.

Lemma reload_out src base rs r :
  (src = Opc.root \/ Opc.part_name src) -> base = baseURI src ->
  (forall r', In r' rs -> rr_ref r' = None) ->
  (forall q, In q (int_targets rs) -> In q (iter_pids s)) ->
  In r rs -> reload_rel (save_phys T s) src (out_rel (st_parts s) base r) = mem_graph r.
Proof.
  intros Hsrc -> Hnc Hcl Hr. unfold reload_rel, out_rel, mem_graph.
  destruct (rr_tgt r) as [q|u] eqn:Et; cbn [Opc.r_mode Opc.r_target Opc.r_id Opc.r_type]; auto.
  rewrite (Hnc r Hr).
  assert (Hq : In q (iter_pids s)) by (apply Hcl; apply int_targets_In; eauto).
  rewrite from_rel_ref_roundtrip; auto; [|apply (iter_part_name T s HI); auto].
  rewrite (find_member_iter T s HI q Hq). rewrite memf_pid. reflexivity.
Qed.

Theorem reopen_graph :
  map pm_pid (ph_members (save_phys T s)) = iter_pids s /\ NoDup (iter_pids s) /\
  map (reload_rel (save_phys T s) Opc.root) (ph_prels (save_phys T s))
    = map mem_graph (Opc.sort_by (fun a b => Opc.rid_leb (rr_id a) (rr_id b)) (st_prels s)) /\
  forall m, In m (ph_members (save_phys T s)) ->
    exists x, getp s (pm_pid m) = Some x /\ pm_name m = pt_name x /\
      ct_resolve (ph_cts (save_phys T s)) (pm_name m) = Ok (pt_ct x) /\
      map (reload_rel (save_phys T s) (pm_name m)) (pm_rels m)
        = map mem_graph (Opc.sort_by (fun a b => Opc.rid_leb (rr_id a) (rr_id b)) (pt_rels x)).
Proof.
  destruct (iter_pids_spec s Hw) as (Hiff & Hnd & Hlt).
  assert (Hmap : forall src base rs, (src = Opc.root \/ Opc.part_name src) -> base = baseURI src ->
            (forall r', In r' rs -> rr_ref r' = None) -> (forall q, In q (int_targets rs) -> In q (iter_pids s)) ->
            map (reload_rel (save_phys T s) src) (out_rels (st_parts s) base rs)
            = map mem_graph (Opc.sort_by (fun a b => Opc.rid_leb (rr_id a) (rr_id b)) rs)).
  { intros src base rs H1 H2 H3 H4. unfold out_rels. rewrite map_map. apply map_ext_in. intros r Hr.
    apply (Permutation_in r (Opc_proofs.sort_by_perm _ rs)) in Hr. apply (reload_out src base rs r); auto. }
  split; [|split; [exact Hnd|split]].
  - rewrite save_members by exact Hw. rewrite map_map. rewrite <- (map_id (iter_pids s)) at 2.
    apply map_ext. intros p. apply memf_pid.
  - unfold save_phys at 2. cbn [ph_prels]. apply Hmap; auto.
    + apply (iv_pnocache T s HI).
    + apply (iter_roots T s HI).
  - intros m Hm. rewrite save_members in Hm by exact Hw. apply in_map_iff in Hm as (p & <- & Hp).
    destruct (iter_good T s HI p Hp) as (x & Hx & G). rewrite memf_pid. exists x. split; auto.
    split; [rewrite memf_name; apply name_of_getp; exact Hx|]. split.
    + pose proof (closed_types T s HI HT) as Hc. unfold c_types in Hc. apply andb_true_iff in Hc as [_ Hc].
      rewrite forallb_forall in Hc. rewrite save_members in Hc by exact Hw.
      specialize (Hc (memf s p) (in_map _ _ _ Hp)). rewrite memf_pid, Hx in Hc.
      destruct (ct_resolve (ph_cts (save_phys T s)) (pm_name (memf s p))) as [ct|]; [|discriminate].
      apply str_eqb_eq in Hc. subst. reflexivity.
    + unfold memf. rewrite Hx. cbn [pm_name pm_rels]. apply Hmap.
      * right. apply (gp_name _ _ G).
      * apply (gp_base _ _ G).
      * apply (gp_nocache _ _ G).
      * intros q Hq. eapply (iter_closed T s HI); eauto.
Qed.
End Reopen.

(* ------------------------------------------------------------------------------ *)
(** * Refused calls *)

(** a call refused for an index out of range, a layout in use or an image format Image.ext
    refuses has had no effect beyond the first evaluation of prs.slides *)
Lemma refused_slide_index s i : st_slides s = true -> snd (m_slide i s) = Err IndexErr -> fst (m_slide i s) = s.
Proof. intros Hs _. apply slide_pure. exact Hs. Qed.

Theorem refused_picture_bad T s i : st_slides s = true -> fst (step false T s (AddPictureBad i)) = s.
Proof.
  intros Hs. cbn [step]. rewrite fst_fin. unfold m_add_picture_bad, bindM.
  pose proof (slide_pure s i Hs) as E. destruct (m_slide i s) as [s1 [a|e]]; cbn in *; auto.
Qed.

Theorem refused_layout_index T s l : snd (m_layout l s) = Err IndexErr -> fst (step false T s (RemoveLayout l)) = s.
Proof.
  intros H. cbn [step]. rewrite fst_fin. unfold m_remove_layout, bindM.
  pose proof (layout_pure s l) as E. destruct (m_layout l s) as [s1 [a|e]]; cbn in *; [discriminate|auto].
Qed.

Theorem refused_add_slide_index T s l : st_slides s = true -> snd (m_layout l s) = Err IndexErr ->
  fst (step false T s (AddSlide l)) = s.
Proof.
  intros Hs H. cbn [step]. rewrite fst_fin. unfold m_add_slide, bindM, m_access_slides. rewrite Hs.
  pose proof (layout_pure s l) as E. destruct (m_layout l s) as [s1 [a|e]]; cbn in *; [discriminate|auto].
Qed.

(* ------------------------------------------------------------------------------ *)
(** * add_slide names the new part freshly in EVERY state (no invariant assumed) *)

Lemma bindM_ok {A B} (m : M A) (f : A -> M B) s b : snd (bindM m f s) = Ok b ->
  exists a, snd (m s) = Ok a /\ bindM m f s = f a (fst (m s)).
Proof. unfold bindM. destruct (m s) as [s1 [a|e]]; cbn; [eauto|discriminate]. Qed.

Definition names_kept (s s' : state) : Prop :=
  length (st_parts s') = length (st_parts s) /\ forall q, name_of (st_parts s') q = name_of (st_parts s) q.

Lemma names_kept_refl s : names_kept s s.
Proof. split; auto. Qed.

Lemma names_kept_trans s1 s2 s3 : names_kept s1 s2 -> names_kept s2 s3 -> names_kept s1 s3.
Proof. intros [L1 N1] [L2 N2]. split; [congruence|]. intros q. rewrite N2. apply N1. Qed.

Lemma names_kept_setp s p x x' : getp s p = Some x -> pt_name x' = pt_name x -> names_kept s (setp s p x').
Proof. intros Hx En. split; [apply length_setp|]. intros q. apply (name_of_setp s p x x' q Hx En). Qed.

Lemma names_kept_relate src t g s : names_kept s (fst (m_relate src t g s)).
Proof.
  unfold m_relate, bindM, m_part, bindM, getS, lift, ret, fail.
  destruct (getp s src) as [x|] eqn:Hx; cbn; [|apply names_kept_refl].
  destruct (get_or_add t g (pt_rels x)) as [[rs rid]|e]; cbn; [|apply names_kept_refl].
  apply (names_kept_setp s src x); auto.
Qed.

(** Whatever the state (listed or unlisted slide parts, names in any order, with gaps, even
    repeated): when add_slide returns, there is exactly one part object more than after the
    evaluation of prs.slides the call begins with; it is called slideK.xml, K at least 1;
    no part reached at that point carries this name; every other part object keeps its name. *)
Theorem add_slide_new_part_fresh T s l :
  snd (step false T s (AddSlide l)) = Done ->
  exists k, (1 <= k)%N /\
    length (st_parts (fst (step false T s (AddSlide l)))) = S (length (st_parts (fst (m_access_slides s)))) /\
    name_of (st_parts (fst (step false T s (AddSlide l)))) (length (st_parts (fst (m_access_slides s)))) = Ids.slide_name k /\
    ~ In (Ids.slide_name k) (iter_names (fst (m_access_slides s))) /\
    forall q, q < length (st_parts (fst (m_access_slides s))) ->
      name_of (st_parts (fst (step false T s (AddSlide l)))) q = name_of (st_parts (fst (m_access_slides s))) q.
Proof.
  cbn [step]. rewrite fst_fin. intros Hd.
  assert (Hok : snd (m_add_slide l s) = Ok tt).
  { unfold fin in Hd. destruct (m_add_slide l s) as [s9 [[]|e]]; cbn in *; [reflexivity|discriminate]. }
  clear Hd. unfold m_add_slide in *.
  destruct (bindM_ok _ _ _ _ Hok) as ([] & _ & E). rewrite E in *. clear E.
  set (s1 := fst (m_access_slides s)) in *.
  destruct (bindM_ok _ _ _ _ Hok) as ([[m lp] rid0] & _ & E). rewrite E in *. clear E.
  rewrite layout_pure in *.
  destruct (bindM_ok _ _ _ _ Hok) as (s1' & Es & E). rewrite E in *. clear E.
  cbn in Es. injection Es as <-. change (fst (getS s1)) with s1 in *.
  destruct (bindM_ok _ _ _ _ Hok) as (pp & Hpp & E). rewrite E in *. clear E.
  assert (Hpp' : getp s1 (st_pres s1) = Some pp).
  { unfold m_part, bindM, getS in Hpp. destruct (getp s1 (st_pres s1)); cbn in Hpp; congruence. }
  rewrite (m_part_run s1 _ pp Hpp') in *. cbn [fst] in *.
  destruct (bindM_ok _ _ _ _ Hok) as (lx & Hlx & E). rewrite E in *. clear E.
  assert (Hlx' : getp s1 lp = Some lx).
  { unfold m_part, bindM, getS in Hlx. destruct (getp s1 lp); cbn in Hlx; congruence. }
  rewrite (m_part_run s1 _ lx Hlx') in *. cbn [fst] in *.
  destruct (bindM_ok _ _ _ _ Hok) as (nm & Hnm & E). rewrite E in *. clear E.
  cbn in Hnm. change (fst (lift (Ids.next_slide_partname (length (pt_idl pp)) (iter_names s1)) s1)) with s1 in *.
  destruct (slide_name_fresh s1 (length (pt_idl pp))) as (k & Hk & Ek & Hf).
  rewrite Ek in Hnm. injection Hnm as <-.
  set (Y := with_phs (new_part (Ids.slide_name k) ct_slide 0) (pt_phs lx)) in *.
  destruct (bindM_ok _ _ _ _ Hok) as (sid & Hsid & E). rewrite E in *. clear E.
  rewrite m_new_run in *. cbn in Hsid. injection Hsid as <-. cbn [fst] in *.
  set (sA := addp s1 Y) in *.
  destruct (bindM_ok _ _ _ _ Hok) as (rid1 & _ & E). rewrite E in *. clear E.
  pose proof (names_kept_relate (length (st_parts s1)) rt_slide_layout (TInt lp) sA) as K1.
  set (sB := fst (m_relate (length (st_parts s1)) rt_slide_layout (TInt lp) sA)) in *.
  destruct (bindM_ok _ _ _ _ Hok) as (rid & _ & E). rewrite E in *. clear E.
  pose proof (names_kept_relate (st_pres s1) rt_slide (TInt (length (st_parts s1))) sB) as K2.
  set (sC := fst (m_relate (st_pres s1) rt_slide (TInt (length (st_parts s1))) sB)) in *.
  destruct (bindM_ok _ _ _ _ Hok) as (pp2 & Hpp2 & E). rewrite E in *. clear E.
  assert (Hpp2' : getp sC (st_pres s1) = Some pp2).
  { unfold m_part, bindM, getS in Hpp2. destruct (getp sC (st_pres s1)); cbn in Hpp2; congruence. }
  rewrite (m_part_run sC _ pp2 Hpp2') in *. cbn [fst] in *.
  rewrite m_setp_run. cbn [fst].
  pose proof (names_kept_setp sC (st_pres s1) pp2 (with_idl pp2 (pt_idl pp2 ++ [rid])) Hpp2' eq_refl) as K3.
  destruct (names_kept_trans _ _ _ (names_kept_trans _ _ _ K1 K2) K3) as [KL KN].
  assert (HlenA : length (st_parts sA) = S (length (st_parts s1))).
  { unfold sA, addp. cbn [st_parts with_parts]. rewrite app_length. simpl. lia. }
  exists k. split; [exact Hk|]. split; [rewrite KL; exact HlenA|]. split; [|split; [exact Hf|]].
  - rewrite KN. rewrite (name_of_getp sA _ Y); [reflexivity|]. apply getp_app_new.
  - intros q Hq. rewrite KN. unfold name_of, sA, addp. cbn [st_parts with_parts]. rewrite nth_error_app1 by exact Hq. reflexivity.
Qed.

(** a state that breaks the clause of the invariant the former code needed (a reached slide
    part the id list does not list, called slide2.xml, beside one listed slide): add_slide
    still names the new part freshly *)
Definition wdeck_unlisted : state :=
  mkS [ w_part (asc "/ppt/presentation.xml") w_ct_pres [rid_ 2] [(k_id, rid_ 1)] 0
          [mkR (rid_ 1) rt_slide_master (TInt 1) None; mkR (rid_ 2) rt_slide (TInt 3) None; mkR (rid_ 3) rt_slide (TInt 4) None];
        w_part (asc "/ppt/slideMasters/slideMaster1.xml") ct_slide_master [rid_ 1] [] 0
          [mkR (rid_ 1) rt_slide_layout (TInt 2) None];
        w_part (asc "/ppt/slideLayouts/slideLayout1.xml") ct_slide_layout [] [] 1
          [mkR (rid_ 1) rt_slide_master (TInt 1) None];
        w_part (asc "/ppt/slides/slide1.xml") ct_slide [] [] 0 [mkR (rid_ 1) rt_slide_layout (TInt 2) None];
        w_part (asc "/ppt/slides/slide2.xml") ct_slide [] [] 0 [mkR (rid_ 1) rt_slide_layout (TInt 2) None] ]
      [mkR (rid_ 1) rt_office_document (TInt 0) None] 0 (Some (rid_ 1)) true None None.

Theorem add_slide_unlisted_witness :
  invb wT wdeck_unlisted = false /\
  snd (step false wT wdeck_unlisted (AddSlide 0)) = Done /\
  mem_str (Ids.slide_name 2) (iter_names wdeck_unlisted) = true /\
  iter_names (fst (step false wT wdeck_unlisted (AddSlide 0))) = iter_names wdeck_unlisted ++ [Ids.slide_name 3] /\
  Opc.nodupb (iter_names (fst (step false wT wdeck_unlisted (AddSlide 0)))) = true /\
  saved_closed false wT (fst (step false wT wdeck_unlisted (AddSlide 0))) = true.
Proof. vm_compute. repeat split; auto. Qed.
