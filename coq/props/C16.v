(** C16: recoverable irregular packages open intact; non-packages are refused cleanly.
    Statements only; every proof is [exact] of a lemma of proofs/Opc_proofs.v.  Same
    model as C01 (model/Opc.v) with the well-formedness hypothesis dropped.

    [open_presentation E s] models pptx.Presentation on what the physical reader hands
    over: [SrcNotFound] (a path that is neither a directory nor a zip file), [SrcNotZip]
    (a stream zipfile cannot read) or [SrcMembers p].  Outcomes: [ONotFound]
    (PackageNotFoundError), [OBadZip] (BadZipFile), [OErr KeyErr | ValueErr | OtherErr]
    (OtherErr: lxml could not parse an item), [OOk (package, main part)]. *)
From V.lib Require Import Prelude.
From V.model Require Import PackUri Opc OpcRun.
From V.gen Require Import GenC01.
From V.proofs Require Import Opc_proofs.
From V.model Require Import OpcCodec.
From V.proofs Require Import OpcCodec_proofs Opc16Codec_proofs.
From Coq Require Import Permutation.

Theorem C16_no_unmodelled : unmodelled = [].
Proof. reflexivity. Qed.
Print Assumptions C16_no_unmodelled.

(** every outcome of opening, and what it says about the input: nothing but the four
    refusals of the property and lxml's parse error can come out *)
Theorem C16_classify : forall blob (E : env blob) (s : source blob),
  match open_presentation E s with
  | ONotFound => s = SrcNotFound
  | OBadZip => s = SrcNotZip
  | OErr e => exists p, s = SrcMembers p /\ load_presentation E p = Err e /\
                        (e = KeyErr \/ e = ValueErr \/ e = OtherErr)
  | OOk km => exists p, s = SrcMembers p /\ load_presentation E p = Ok km
  end.
Proof. exact @open_classify. Qed.
Print Assumptions C16_classify.

(** each refusal has one of the listed causes, stated on the physical package:
    KeyError: no content types item, a reached member without content type, a dangling
    relationship of unknown TargetMode, or no officeDocument relationship (which covers a
    missing package rels item and a missing main part);
    ValueError: several officeDocument relationships, an external one, or a main part whose
    content type is not a presentation type;
    parse error: an undecodable content types item or rels item, or an XML-class part that
    does not parse *)
Theorem C16_refusal_causes : forall blob (E : env blob) (p : phys blob) e,
  load_presentation E p = Err e ->
  (e = KeyErr /\ (cause_no_ct_item p \/ cause_untyped_part E p \/ cause_dangling_other_mode E p \/
                  exists k, load E p = Ok k /\ od_rels E k = [])) \/
  (e = ValueErr /\ exists k, load E p = Ok k /\
       ((exists r1 r2 l, od_rels E k = r1 :: r2 :: l) \/
        (exists r, od_rels E k = [r] /\ l_ext r = true) \/
        (exists r pt, od_rels E k = [r] /\ l_ext r = false /\ find_part k (l_target r) = Some pt /\
                      mem_str (p_ct pt) (prescts E) = false))) \/
  (e = OtherErr /\ (cause_ct_undecodable E p \/ cause_rels_undecodable E p \/ cause_xml_unparseable E p)).
Proof. exact @load_presentation_err. Qed.
Print Assumptions C16_refusal_causes.

(** the loader alone (OpcPackage.open) fails only with KeyError or a parse error *)
Theorem C16_load_errors : forall blob (E : env blob) (p : phys blob) e, load E p = Err e ->
  (e = KeyErr /\ (cause_no_ct_item p \/ cause_untyped_part E p \/ cause_dangling_other_mode E p)) \/
  (e = OtherErr /\ (cause_ct_undecodable E p \/ cause_rels_undecodable E p \/ cause_xml_unparseable E p)).
Proof. exact @load_err. Qed.
Print Assumptions C16_load_errors.

(** a successful opening: exactly one internal officeDocument relationship, resolving to a
    loaded part whose type is a presentation type *)
Theorem C16_opened : forall blob (E : env blob) (p : phys blob) k main,
  load_presentation E p = Ok (k, main) ->
  load E p = Ok k /\ exists r, od_rels E k = [r] /\ l_ext r = false /\
    find_part k (l_target r) = Some main /\ mem_str (p_ct main) (prescts E) = true.
Proof. exact @load_presentation_ok. Qed.
Print Assumptions C16_opened.

(** whatever loads: one part per reached member, and every internal relationship that was
    kept points at a loaded part (dangling ones were dropped) *)
Theorem C16_loaded_closed : forall blob (E : env blob) (p : phys blob) k, load E p = Ok k ->
  map p_name (k_parts k) = part_names E p /\
  (forall r, In r (k_rels k) -> l_ext r = false -> In (l_target r) (part_names E p)) /\
  (forall pt r, In pt (k_parts k) -> In r (p_rels pt) -> l_ext r = false ->
                In (l_target r) (part_names E p)).
Proof. exact @load_ok_shape. Qed.
Print Assumptions C16_loaded_closed.

(** case: the lookup depends on Default extensions and Override part names only through
    their lower-cased form, and on the part name only through its lower-cased form *)
Theorem C16_case_declarations : forall ds os ds' os' x,
  low_pairs ds = low_pairs ds' -> low_pairs os = low_pairs os' ->
  ct_lookup (ds, os) x = ct_lookup (ds', os') x.
Proof. exact ct_lookup_case_decl. Qed.
Print Assumptions C16_case_declarations.

Theorem C16_case_part_name : forall c x y, lower x = lower y -> ct_lookup c x = ct_lookup c y.
Proof. exact ct_lookup_case_name. Qed.
Print Assumptions C16_case_part_name.

(** regularise: take out everything the loader ignores (dangling internal relationships,
    unreferenced members, rels items of absent parts) and give every instantiated part a
    rels item.  When what is left is a well-formed package - that is, when the package's only
    defects are the tolerated irregularities - opening the irregular package gives the same
    package relationships and the same parts (name, type, payload, relationships) as
    opening its regularised form *)
Theorem C16_regularise : forall blob (E : env blob) (p : phys blob) k,
  codec_ok E -> load E p = Ok k -> (forall n, In n (part_names E p) -> part_name n) ->
  wf E (regularise E p) ->
  exists k', load E (regularise E p) = Ok k' /\ k_rels k' = k_rels k /\
             (forall pt, In pt (iter_parts k') <-> In pt (iter_parts k)).
Proof. exact @c16_regularise. Qed.
Print Assumptions C16_regularise.

(** with C01 on the regularised form: an irregular package opens with exactly the parts
    still reachable once the dangling relationships are left out, and the loaded graph is
    closed (every kept internal relationship points at one of those parts) *)
Theorem C16_preserved : forall blob (E : env blob) (p : phys blob) k,
  codec_ok E -> load E p = Ok k -> (forall n, In n (part_names E p) -> part_name n) ->
  wf E (regularise E p) ->
  (forall x, In x (map p_name (iter_parts k)) <-> (reachable E (regularise E p) x /\ x <> root)) /\
  (forall r, In r (k_rels k) -> l_ext r = false -> In (l_target r) (map p_name (iter_parts k))) /\
  (forall pt r, In pt (iter_parts k) -> In r (p_rels pt) -> l_ext r = false ->
                In (l_target r) (map p_name (iter_parts k))).
Proof. exact @c16_preserved. Qed.
Print Assumptions C16_preserved.


(** ---- the saved form of an irregular package ----
    [save] depends only on the package relationships and on the SET of parts iter_parts
    yields, not on the order it yields them in: when member names are unique, two package
    states with the same k_rels and the same parts are saved with the same members and the
    same bytes.  (The content types item sorts its Default and Override entries and an
    extension gets a Default for at most one content type; the payload member and the
    rels item of a part depend on that part alone.) *)
Theorem C16_save_parts_set : forall blob (E : env blob) (k1 k2 : pkg blob),
  env_ok E -> k_rels k1 = k_rels k2 ->
  (forall pt, In pt (iter_parts k1) <-> In pt (iter_parts k2)) ->
  NoDup (map fst (save E k2)) ->
  same_package (save E k1) (save E k2).
Proof. exact @save_parts_set. Qed.
Print Assumptions C16_save_parts_set.

Theorem C16_save_parts_perm : forall blob (E : env blob) (k1 k2 : pkg blob),
  env_ok E -> k_rels k1 = k_rels k2 -> Permutation (iter_parts k1) (iter_parts k2) ->
  NoDup (map fst (save E k2)) ->
  same_package (save E k1) (save E k2).
Proof. exact @save_parts_perm. Qed.
Print Assumptions C16_save_parts_perm.

(** iter_parts yields no two parts of the same name, whatever the package state *)
Theorem C16_iter_parts_once : forall blob (k : pkg blob), NoDup (map p_name (iter_parts k)).
Proof. exact @iter_parts_names_NoDup. Qed.
Print Assumptions C16_iter_parts_once.

(** C16_save (was C16_save_partial, not proved): an irregular package that opens, and whose
    regularised form is well-formed, is saved with the same members and the same bytes as
    its regularised form.  no_default_clash is not needed (it holds of every package,
    no_default_clash_always) *)
Theorem C16_save : forall blob (E : env blob) (p : phys blob) k,
  codec_ok E -> env_ok E -> load E p = Ok k -> (forall n, In n (part_names E p) -> part_name n) ->
  wf E (regularise E p) ->
  exists k', load E (regularise E p) = Ok k' /\ same_package (save E k) (save E k').
Proof. exact @c16_save. Qed.
Print Assumptions C16_save.

(** ---- the codec hypothesis restricted to what a reader of XML can meet ----
    codec_ok (every list) holds of no reader of XML (C01_codec_ok_too_strong).  Vocabulary
    (model/OpcCodec.v, proofs/Opc16Codec_proofs.v): [codec_rt_on P Q E]: dec (enc x) = Some x
    for x in P resp. Q; [kept_rels E p n]: the relationships of source n the loader keeps,
    i.e. what regularise writes into the rels item of n; [reg_writes_ok P E p]: kept_rels of
    the package root and of every instantiated part lies in P; [xml_kept_rels E p]: each of
    those relationships has id, type and target made of XML characters and a mode the writer
    can express; [no_other_mode E p]: no relationship of the root or of an instantiated part
    has a TargetMode other than Internal / External. *)
Theorem C16_regularise_on : forall blob (E : env blob) P Q (p : phys blob) k,
  codec_rt_on P Q E -> reg_writes_ok P E p -> load E p = Ok k ->
  (forall n, In n (part_names E p) -> part_name n) -> wf E (regularise E p) ->
  exists k', load E (regularise E p) = Ok k' /\ k_rels k' = k_rels k /\
             (forall pt, In pt (iter_parts k') <-> In pt (iter_parts k)).
Proof. exact @c16_regularise_on. Qed.
Print Assumptions C16_regularise_on.

Theorem C16_preserved_on : forall blob (E : env blob) P Q (p : phys blob) k,
  codec_rt_on P Q E -> reg_writes_ok P E p -> load E p = Ok k ->
  (forall n, In n (part_names E p) -> part_name n) -> wf E (regularise E p) ->
  (forall x, In x (map p_name (iter_parts k)) <-> (reachable E (regularise E p) x /\ x <> root)) /\
  (forall r, In r (k_rels k) -> l_ext r = false -> In (l_target r) (map p_name (iter_parts k))) /\
  (forall pt r, In pt (iter_parts k) -> In r (p_rels pt) -> l_ext r = false ->
                In (l_target r) (map p_name (iter_parts k))).
Proof. exact @c16_preserved_on. Qed.
Print Assumptions C16_preserved_on.

Theorem C16_save_on : forall blob (E : env blob) P Q (p : phys blob) k,
  codec_rt_on P Q E -> reg_writes_ok P E p -> env_ok E -> load E p = Ok k ->
  (forall n, In n (part_names E p) -> part_name n) -> wf E (regularise E p) ->
  exists k', load E (regularise E p) = Ok k' /\ same_package (save E k) (save E k').
Proof. exact @c16_save_on. Qed.
Print Assumptions C16_save_on.

(** only the relationships half of the codec is used *)
Theorem C16_regularise_rt : forall blob (E : env blob) P (p : phys blob) k,
  (forall l, P l = true -> dec_rels E (enc_rels E l) = Some l) -> reg_writes_ok P E p ->
  load E p = Ok k -> (forall n, In n (part_names E p) -> part_name n) -> wf E (regularise E p) ->
  exists k', load E (regularise E p) = Ok k' /\ k_rels k' = k_rels k /\
             (forall pt, In pt (iter_parts k') <-> In pt (iter_parts k)).
Proof. exact @c16_regularise_rt. Qed.
Print Assumptions C16_regularise_rt.

(** packages whose kept relationships are XML strings, under any env that is exact on XML
    strings (names and content types play no part here: regularise copies the content
    types item and encodes relationship lists only) *)
Theorem C16_xml_kept_writes : forall blob (E : env blob) (p : phys blob),
  xml_kept_rels E p -> reg_writes_ok xml_rels E p.
Proof. exact @reg_writes_ok_xml. Qed.
Print Assumptions C16_xml_kept_writes.

Theorem C16_regularise_xml : forall blob (E : env blob) (p : phys blob) k,
  codec_rt_on xml_rels xml_cts E -> xml_kept_rels E p -> load E p = Ok k ->
  (forall n, In n (part_names E p) -> part_name n) -> wf E (regularise E p) ->
  exists k', load E (regularise E p) = Ok k' /\ k_rels k' = k_rels k /\
             (forall pt, In pt (iter_parts k') <-> In pt (iter_parts k)).
Proof. exact @c16_regularise_xml. Qed.
Print Assumptions C16_regularise_xml.

Theorem C16_preserved_xml : forall blob (E : env blob) (p : phys blob) k,
  codec_rt_on xml_rels xml_cts E -> xml_kept_rels E p -> load E p = Ok k ->
  (forall n, In n (part_names E p) -> part_name n) -> wf E (regularise E p) ->
  (forall x, In x (map p_name (iter_parts k)) <-> (reachable E (regularise E p) x /\ x <> root)) /\
  (forall r, In r (k_rels k) -> l_ext r = false -> In (l_target r) (map p_name (iter_parts k))) /\
  (forall pt r, In pt (iter_parts k) -> In r (p_rels pt) -> l_ext r = false ->
                In (l_target r) (map p_name (iter_parts k))).
Proof. exact @c16_preserved_xml. Qed.
Print Assumptions C16_preserved_xml.

Theorem C16_save_xml : forall blob (E : env blob) (p : phys blob) k,
  codec_rt_on xml_rels xml_cts E -> xml_kept_rels E p -> env_ok E -> load E p = Ok k ->
  (forall n, In n (part_names E p) -> part_name n) -> wf E (regularise E p) ->
  exists k', load E (regularise E p) = Ok k' /\ same_package (save E k) (save E k').
Proof. exact @c16_save_xml. Qed.
Print Assumptions C16_save_xml.

(** the concrete codec: nothing is assumed of lxml.  What the items contain needs no
    hypothesis (the reader only returns XML strings) except that no TargetMode is a third
    word: the writer takes a boolean, so regularise would write such a relationship back
    as Internal *)
Theorem C16_concrete_kept_xml : forall rs dt xc idf pc od (p : phys str),
  let E := cenv rs dt xc idf pc od in no_other_mode E p -> xml_kept_rels E p.
Proof. exact cenv_xml_kept_rels. Qed.
Print Assumptions C16_concrete_kept_xml.

Theorem C16_regularise_concrete : forall rs dt xc idf pc od (p : phys str) k,
  let E := cenv rs dt xc idf pc od in
  no_other_mode E p -> load E p = Ok k ->
  (forall n, In n (part_names E p) -> part_name n) -> wf E (regularise E p) ->
  exists k', load E (regularise E p) = Ok k' /\ k_rels k' = k_rels k /\
             (forall pt, In pt (iter_parts k') <-> In pt (iter_parts k)).
Proof. exact c16_regularise_concrete. Qed.
Print Assumptions C16_regularise_concrete.

Theorem C16_preserved_concrete : forall rs dt xc idf pc od (p : phys str) k,
  let E := cenv rs dt xc idf pc od in
  no_other_mode E p -> load E p = Ok k ->
  (forall n, In n (part_names E p) -> part_name n) -> wf E (regularise E p) ->
  (forall x, In x (map p_name (iter_parts k)) <-> (reachable E (regularise E p) x /\ x <> root)) /\
  (forall r, In r (k_rels k) -> l_ext r = false -> In (l_target r) (map p_name (iter_parts k))) /\
  (forall pt r, In pt (iter_parts k) -> In r (p_rels pt) -> l_ext r = false ->
                In (l_target r) (map p_name (iter_parts k))).
Proof. exact c16_preserved_concrete. Qed.
Print Assumptions C16_preserved_concrete.

Theorem C16_save_concrete : forall rs dt xc idf pc od (p : phys str) k,
  let E := cenv rs dt xc idf pc od in
  no_other_mode E p -> env_ok E -> load E p = Ok k ->
  (forall n, In n (part_names E p) -> part_name n) -> wf E (regularise E p) ->
  exists k', load E (regularise E p) = Ok k' /\ same_package (save E k) (save E k').
Proof. exact c16_save_concrete. Qed.
Print Assumptions C16_save_concrete.

(** ---- non-vacuity: ex_irregular as real XML text (ex_irregular_text), concrete codec
    (tenv): a dangling core-properties relationship and a dangling slide relationship, an
    unreferenced thumbnail, a slide without rels item, a rels item of an absent part ---- *)
Example C16_ex_text_irregular :
  match lookup (rels_item_name root) ex_irregular_text with
  | Some t => match dec_rels_c t with
              | Some [ra; rb] => ra = rel_main /\ resolve (baseURI root) (r_target rb) = n_docProps_core_xml
              | _ => False
              end
  | None => False
  end
  /\ has n_docProps_core_xml ex_irregular_text = false
  /\ has n_docProps_thumbnail_jpeg ex_irregular_text = true
  /\ mem_str n_docProps_thumbnail_jpeg (xml_rels_names tenv ex_irregular_text) = false
  /\ has n_ppt_slides__rels_slide1_xml_rels ex_irregular_text = false
  /\ has n_ppt_slides_NULL ex_irregular_text = false
  /\ has (rels_item_name n_ppt_slides_NULL) ex_irregular_text = true.
Proof. exact ex_irr_text_irregular. Qed.

Example C16_ex_text_loads :
  match load tenv ex_irregular_text with
  | Ok k => map p_name (iter_parts k) = [n_ppt_presentation_xml; n_ppt_slides_slide1_xml]
            /\ map p_name (k_parts k) = [n_ppt_presentation_xml; n_ppt_slides_slide1_xml; n_ppt_media_image1_png]
            /\ map l_id (k_rels k) = [s_rId1]
  | Err _ => False
  end.
Proof. exact ex_irr_text_loads. Qed.

(* the hypotheses of the _concrete theorems (and so of the _xml and _on ones) are met *)
Example C16_ex_text_names : forall n, In n (part_names tenv ex_irregular_text) -> part_name n.
Proof. exact ex_irr_text_names. Qed.
Example C16_ex_text_reg_wf : wf tenv (regularise tenv ex_irregular_text).
Proof. exact ex_irr_text_reg_wf. Qed.
Example C16_ex_text_no_other_mode : no_other_mode tenv ex_irregular_text.
Proof. exact ex_irr_text_no_other_mode. Qed.
Example C16_ex_text_kept_xml : xml_kept_rels tenv ex_irregular_text.
Proof. exact ex_irr_text_kept_xml. Qed.
Example C16_ex_text_reg_writes_ok : reg_writes_ok xml_rels tenv ex_irregular_text.
Proof. exact ex_irr_text_reg_writes_ok. Qed.
Example C16_ex_text_env : codec_rt_on xml_rels xml_cts tenv /\ env_ok tenv.
Proof. split; [exact (proj1 tenv_codec_ok_on)|exact tenv_env_ok]. Qed.

(* the regularised form as text: eight members; thumbnail and the rels item of the absent
   slide gone; the package rels item is the text of the one kept relationship; slide1 owns
   the empty-element rels document *)
Example C16_ex_text_regularised :
  length (regularise tenv ex_irregular_text) = 8%nat
  /\ has n_docProps_thumbnail_jpeg (regularise tenv ex_irregular_text) = false
  /\ has (rels_item_name n_ppt_slides_NULL) (regularise tenv ex_irregular_text) = false
  /\ match lookup (rels_item_name root) (regularise tenv ex_irregular_text) with
     | Some t => t = enc_rels_c [rel_main] /\ dec_rels_c t = Some [rel_main]
     | None => False
     end
  /\ lookup n_ppt_slides__rels_slide1_xml_rels (regularise tenv ex_irregular_text)
     = Some (x_decl ++ x_rels_open ++ [Escape.c_quot] ++ x_rels_ns ++ [Escape.c_quot] ++ x_end).
Proof. exact ex_irr_text_regularised. Qed.

(* both saves, computed: the same five members with the same text *)
Example C16_ex_text_saves :
  match load tenv ex_irregular_text, load tenv (regularise tenv ex_irregular_text) with
  | Ok k, Ok k' =>
      save tenv k = save tenv k'
      /\ map fst (save tenv k) = [ct_uri; rels_item_name root; n_ppt_presentation_xml;
                                  rels_item_name n_ppt_presentation_xml; n_ppt_slides_slide1_xml]
      /\ lookup (rels_item_name root) (save tenv k) = Some (enc_rels_c [rel_main])
  | _, _ => False
  end.
Proof. exact ex_irr_text_saves. Qed.

(* ... and through the theorems *)
Example C16_ex_text_regularise_thm :
  match load tenv ex_irregular_text with
  | Ok k => exists k', load tenv (regularise tenv ex_irregular_text) = Ok k' /\ k_rels k' = k_rels k /\
                       (forall pt, In pt (iter_parts k') <-> In pt (iter_parts k))
  | Err _ => False
  end.
Proof. exact ex_irr_text_regularise_thm. Qed.

Example C16_ex_text_save_thm :
  match load tenv ex_irregular_text with
  | Ok k => exists k', load tenv (regularise tenv ex_irregular_text) = Ok k' /\
                       same_package (save tenv k) (save tenv k')
  | Err _ => False
  end.
Proof. exact ex_irr_text_save_thm. Qed.

(* C16_save on the extracted instance (wenv meets the full codec_ok) *)
Example C16_ex_irregular_save :
  match load wenv ex_irregular with
  | Ok k => exists k', load wenv (regularise wenv ex_irregular) = Ok k' /\
                       same_package (save wenv k) (save wenv k')
  | Err _ => False
  end.
Proof. exact ex_irregular_save_thm. Qed.

(** rename_slide_parts (first access of prs.slides): when the listed relationship ids lead
    to distinct parts, the j-th listed slide part is named /ppt/slides/slide(j+1).xml
    afterwards, whatever it was called before (non-contiguous, out of order) *)
Theorem C16_rename : forall rs rids m, rename_map rs rids 1 = Ok m -> NoDup (map fst m) ->
  forall j rid, nth_error rids j = Some rid ->
    exists r, find (fun r => str_eqb (l_id r) rid) rs = Some r /\ l_ext r = false /\
              renamed m (l_target r) = slide_name (S j).
Proof. exact rename_in_order. Qed.
Print Assumptions C16_rename.

(** it fails only with KeyError (a listed id is not among the relationships, e.g. because
    its dangling relationship was dropped at load) or ValueError (the id is external) *)
Theorem C16_rename_errors : forall rs rids i e, rename_map rs rids i = Err e ->
  (e = KeyErr /\ exists rid, In rid rids /\ find (fun r => str_eqb (l_id r) rid) rs = None) \/
  (e = ValueErr /\ exists rid r, In rid rids /\ find (fun r => str_eqb (l_id r) rid) rs = Some r /\ l_ext r = true).
Proof. exact rename_map_err. Qed.
Print Assumptions C16_rename_errors.

(** ---- non-vacuity ---- *)

(* the deck of C01 opens as a presentation; its main part is /ppt/presentation.xml *)
Example C16_ex_opens :
  match open_presentation wenv (SrcMembers ex_deck) with
  | OOk (k, main) => p_name main = n_ppt_presentation_xml
  | _ => False
  end.
Proof. vm_compute. reflexivity. Qed.

(* the two-part package of C01 has no officeDocument relationship: KeyError *)
Example C16_ex_refused_key : open_presentation wenv (SrcMembers ex_clash) = OErr KeyErr.
Proof. vm_compute. reflexivity. Qed.

Example C16_ex_refused_reader :
  open_presentation wenv (@SrcNotFound wblob) = ONotFound /\ open_presentation wenv (@SrcNotZip wblob) = OBadZip.
Proof. split; reflexivity. Qed.

(* an empty member list: no content types item *)
Example C16_ex_refused_empty : open_presentation wenv (SrcMembers []) = OErr KeyErr /\ cause_no_ct_item (@nil (str * wblob)).
Proof. split; reflexivity. Qed.

(* case: upper-case Override part name and Default extension in ex_deck resolve *)
Example C16_ex_case :
  ct_in wenv ex_deck n_ppt_slides_slide1_xml = Ok ct_slide /\ ct_in wenv ex_deck n_ppt_media_image1_png = Ok ct_png.
Proof. vm_compute. split; reflexivity. Qed.

(* an irregular package (dangling core-properties and slide relationships, the absent slide
   still owning a rels item, a slide without rels item, an unreferenced thumbnail) meets
   the hypotheses of C16_regularise and C16_preserved *)
Example C16_ex_irregular_loads :
  match load wenv ex_irregular with
  | Ok k => map p_name (iter_parts k) = [n_ppt_presentation_xml; n_ppt_slides_slide1_xml]
            /\ map p_name (k_parts k) = [n_ppt_presentation_xml; n_ppt_slides_slide1_xml; n_ppt_media_image1_png]
            /\ length (k_rels k) = 1%nat
  | Err _ => False
  end.
Proof. vm_compute. repeat split. Qed.

Example C16_ex_irregular_names : forall n, In n (part_names wenv ex_irregular) -> part_name n.
Proof. exact ex_irregular_names. Qed.

Example C16_ex_irregular_reg_wf : wf wenv (regularise wenv ex_irregular).
Proof. exact ex_irregular_reg_wf. Qed.

Example C16_ex_regularised_members :
  has n_docProps_thumbnail_jpeg (regularise wenv ex_irregular) = false
  /\ has n_ppt_slides_NULL (regularise wenv ex_irregular) = false
  /\ has n_ppt_slides__rels_slide1_xml_rels (regularise wenv ex_irregular) = true
  /\ length (regularise wenv ex_irregular) = 8%nat.
Proof. vm_compute. repeat split. Qed.

(* renaming on the deck of C01: rId7 of the main part is its one slide *)
Example C16_ex_rename :
  match load_presentation wenv ex_deck with
  | Ok (k, main) =>
      exists m, rename_map (p_rels main) [s_rId7] 1 = Ok m /\ NoDup (map fst m) /\
                renamed m n_ppt_slides_slide1_xml = slide_name 1
  | Err _ => False
  end.
Proof. exact ex_deck_rename. Qed.
