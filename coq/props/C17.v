(** C17 — connector end points, group extents, freeform bounds.
    Statements over model/Geom.v (tied to python-pptx by checks/c17.py). *)
From V.lib Require Import Prelude.
From V.model Require Import Geom.
From V.proofs Require Import Geom_proofs.
From Coq Require Import QArith Qabs.
Open Scope Z_scope.

(* ------------------------------------------------------------------ connector *)

(** add_connector: the connector reads back the two points it was created with, and
    its stored width and height are non-negative. *)
Theorem C17_conn_new : forall bx by_ ex ey,
  let c := add_cxn bx by_ ex ey in
  begin_x c = bx /\ begin_y c = by_ /\ end_x c = ex /\ end_y c = ey /\
  0 <= c_cx c /\ 0 <= c_cy c.
Proof. exact conn_new. Qed.
Print Assumptions C17_conn_new.

(** An assignment that does not raise sets exactly that coordinate: the three other
    readings are unchanged, the stored width is non-negative, the other axis is untouched.
    No hypothesis on the prior state. *)
Theorem C17_conn_set_begin_x : forall c v c',
  set_begin_x c v = (c', None) ->
  begin_x c' = v /\ end_x c' = end_x c /\ begin_y c' = begin_y c /\ end_y c' = end_y c /\
  0 <= c_cx c' /\ c_y c' = c_y c /\ c_cy c' = c_cy c /\ c_fv c' = c_fv c.
Proof. exact set_begin_x_ok. Qed.
Print Assumptions C17_conn_set_begin_x.

Theorem C17_conn_set_end_x : forall c v c',
  set_end_x c v = (c', None) ->
  end_x c' = v /\ begin_x c' = begin_x c /\ begin_y c' = begin_y c /\ end_y c' = end_y c /\
  0 <= c_cx c' /\ c_y c' = c_y c /\ c_cy c' = c_cy c /\ c_fv c' = c_fv c.
Proof. exact set_end_x_ok. Qed.
Print Assumptions C17_conn_set_end_x.

Theorem C17_conn_set_begin_y : forall c v c',
  set_begin_y c v = (c', None) ->
  begin_y c' = v /\ end_y c' = end_y c /\ begin_x c' = begin_x c /\ end_x c' = end_x c /\
  0 <= c_cy c' /\ c_x c' = c_x c /\ c_cx c' = c_cx c /\ c_fh c' = c_fh c.
Proof. exact set_begin_y_ok. Qed.
Print Assumptions C17_conn_set_begin_y.

Theorem C17_conn_set_end_y : forall c v c',
  set_end_y c v = (c', None) ->
  end_y c' = v /\ begin_y c' = begin_y c /\ begin_x c' = begin_x c /\ end_x c' = end_x c /\
  0 <= c_cy c' /\ c_x c' = c_x c /\ c_cx c' = c_cx c /\ c_fh c' = c_fh c.
Proof. exact set_end_y_ok. Qed.
Print Assumptions C17_conn_set_end_y.

(** Every history of assignments none of which raises: the connector reads as the
    abstract segment on which the same assignments were performed, and width and
    height stay non-negative.  Cross-overs in either axis are ordinary steps. *)
Theorem C17_conn_history : forall ops c c',
  0 <= c_cx c /\ 0 <= c_cy c ->
  conn_run_ok c ops = Some c' ->
  abs_conn c' = fold_left seg_step ops (abs_conn c) /\ (0 <= c_cx c' /\ 0 <= c_cy c').
Proof. exact conn_history_ok. Qed.
Print Assumptions C17_conn_history.

(** Total form: when the end points and all assigned values lie within half the
    ST_Coordinate range (13636521158450 EMU, about 15000 km) no assignment raises, so
    the history exactly as the implementation runs it (fold_left) refines the abstract one. *)
Theorem C17_conn_history_total : forall ops c,
  0 <= c_cx c /\ 0 <= c_cy c ->
  seg_bounded (abs_conn c) ->
  Forall (fun op => - BOUND <= cop_val op <= BOUND) ops ->
  conn_run_ok c ops = Some (conn_run c ops) /\
  abs_conn (conn_run c ops) = fold_left seg_step ops (abs_conn c) /\
  (0 <= c_cx (conn_run c ops) /\ 0 <= c_cy (conn_run c ops)).
Proof. exact conn_history_total. Qed.
Print Assumptions C17_conn_history_total.

Example C17_conn_history_nonvacuous :
  conn_run_ok (add_cxn 0 0 10 5) [SetBX 20; SetEY (-3); SetEX 25; SetBY (-9); SetBX 20]
  = Some (mkConn 20 (-9) 5 6 false false).
Proof. exact conn_example. Qed.

(** Refuted: an assignment that raises is not atomic.  The model (and the code, see the
    check's finding conn-set-raises-partial) keeps the attribute writes made before the
    refused one, so an end point that was not assigned moves, or the two end points swap. *)
Theorem C17_conn_set_failure_not_atomic_refuted :
  exists c v c' e, (0 <= c_cx c /\ 0 <= c_cy c) /\
                   set_begin_x c v = (c', Some e) /\ end_x c' <> end_x c.
Proof. exact conn_set_failure_not_atomic. Qed.
Print Assumptions C17_conn_set_failure_not_atomic_refuted.

Theorem C17_conn_set_failure_swaps_refuted :
  exists c v c' e, (0 <= c_cx c /\ 0 <= c_cy c) /\ set_begin_x c v = (c', Some e) /\
                   begin_x c' = end_x c /\ end_x c' = begin_x c /\ begin_x c <> end_x c.
Proof. exact conn_set_failure_swaps. Qed.
Print Assumptions C17_conn_set_failure_swaps_refuted.

(* ------------------------------------------------------------------ groups *)

(** [child_extents] is the bounding box in the usual sense. *)
Theorem C17_group_bbox : forall kids x y cx cy,
  kids <> [] -> child_extents kids = (x, y, cx, cy) ->
  (forall k, In k kids -> x <= sh_x k /\ sh_x k + sh_cx k <= x + cx /\
                          y <= sh_y k /\ sh_y k + sh_cy k <= y + cy) /\
  (exists k, In k kids /\ sh_x k = x) /\ (exists k, In k kids /\ sh_x k + sh_cx k = x + cx) /\
  (exists k, In k kids /\ sh_y k = y) /\ (exists k, In k kids /\ sh_y k + sh_cy k = y + cy).
Proof. exact child_extents_bbox. Qed.
Print Assumptions C17_group_bbox.

(** Adding a member at any path (any depth): whatever the tree looked like before,
    afterwards every group on the path has off, ext, chOff, chExt equal to the bounding
    box of its members. *)
Theorem C17_group_path : forall p new s s',
  add_in p new s = Ok s' -> on_path_okb p s' = true.
Proof. exact add_in_path_ok. Qed.
Print Assumptions C17_group_path.

(** What does not change: off the path every member is the same term, positions of
    members are kept, the new member is the last one of the receiving group. *)
Theorem C17_group_frame : forall p new s s',
  add_in p new s = Ok s' -> frame_ok p new s s'.
Proof. exact add_in_frame. Qed.
Print Assumptions C17_group_frame.

(** Recursive consistency (every group in the tree has the bounding box of its members,
    an empty group has zeros) is preserved by every addition, whatever is added. *)
Theorem C17_group : forall p new s s',
  consistentb s = true -> consistentb new = true ->
  add_in p new s = Ok s' -> consistentb s' = true.
Proof. exact add_in_consistent. Qed.
Print Assumptions C17_group.

(** Histories on a slide, no side condition: after any sequence of additions of any
    kind (a shape with an xfrm, or a new empty group) at any paths, every group on the
    slide, at every depth, is the bounding box of its members. *)
Theorem C17_group_history : forall ops sl sl',
  forallb consistentb sl = true -> slide_run sl ops = Ok sl' ->
  forallb consistentb sl' = true.
Proof. exact slide_history_consistent. Qed.
Print Assumptions C17_group_history.

Theorem C17_group_history_from_empty : forall ops sl',
  slide_run [] ops = Ok sl' -> forallb consistentb sl' = true.
Proof. exact slide_history_from_empty. Qed.
Print Assumptions C17_group_history_from_empty.

Theorem C17_group_slide_step : forall p new sl sl',
  slide_add p new sl = Ok sl' ->
  slide_frame_ok p new sl sl' /\ slide_path_okb p sl' = true.
Proof. exact slide_add_spec. Qed.
Print Assumptions C17_group_slide_step.

Example C17_group_nonvacuous_run :
  slide_run [] nest_ops
  = Ok [Grp (mkG (-100) (-7) 1105 1012 (-100) (-7) 1105 1012)
          [Grp (mkG (-100) (-7) 110 77 (-100) (-7) 110 77)
             [Grp (mkG (-100) (-7) 110 77 (-100) (-7) 110 77)
                [Grp (mkG (-100) 50 10 20 (-100) 50 10 20) [Leaf (-100) 50 10 20];
                 Leaf 7 (-7) 3 3; Grp gxf0 []]];
           Leaf 1000 1000 5 5];
        Leaf 1 2 3 4].
Proof. exact nest_example. Qed.

(** Regression witnesses of two repaired defects (add_group_shape() inside a group and a
    freeform placed into a group used to insert the member without recalculating,
    [add_stale]): on them the old behaviour leaves the group stale, the present
    behaviour gives the bounding box. *)
Example C17_group_regression_empty_group :
  consistentb witness_group = true /\
  (exists s', add_stale [] (Grp gxf0 []) witness_group = Ok s' /\ consistentb s' = false) /\
  add_in [] (Grp gxf0 []) witness_group
  = Ok (Grp (mkG 0 0 150 150 0 0 150 150) [Leaf 100 100 50 50; Grp gxf0 []]) /\
  consistentb (Grp (mkG 0 0 150 150 0 0 150 150) [Leaf 100 100 50 50; Grp gxf0 []]) = true.
Proof. exact regression_empty_group. Qed.

Example C17_group_regression_freeform :
  (exists s', add_stale [] (Leaf 10 10 500 500) witness_group = Ok s' /\ consistentb s' = false) /\
  add_in [] (Leaf 10 10 500 500) witness_group
  = Ok (Grp (mkG 10 10 500 500 10 10 500 500) [Leaf 100 100 50 50; Leaf 10 10 500 500]) /\
  consistentb (Grp (mkG 10 10 500 500 10 10 500 500) [Leaf 100 100 50 50; Leaf 10 10 500 500]) = true.
Proof. exact regression_freeform. Qed.

(* ---- members that are moved or resized afterwards, frames from other producers ---- *)

(** The statement the code really maintains once a frame can be assigned (shape.left /
    top / width / height on a shape or on a GROUP, which writes a:off / a:ext only, or a
    group frame written by another producer with a:off / a:ext different from a:chOff /
    a:chExt).  A group counts in the group that contains it with its OWN a:off / a:ext
    ([sh_x] .. [sh_cy] of [Grp g _] are those of [g]; see C17_group_bbox), never with its
    members or its child frame.  [okq q s] / [slide_okq q sl]: the shape at path [q], if
    it is a group, has off = chOff, ext = chExt = bounding box of its members' own frames.

    One addition at path [p], on ANY tree (no consistency assumed): every group on the
    path from the receiving group up to the root (the prefixes [q] of [p]) satisfies
    that; every other path that satisfied it before still does (paths into the new
    member: as far as the new member does). *)
Theorem C17_group_add_settles_path : forall p new sl sl' q,
  slide_add p new sl = Ok sl' ->
  (is_prefix q p = true \/ (slide_okq q sl = true /\ forall r, okq r new = true)) ->
  slide_okq q sl' = true.
Proof. exact slide_add_okq. Qed.
Print Assumptions C17_group_add_settles_path.

(** An assignment to the member at path [p] (or a foreign frame put on the group at
    [p]): [u] is [assign_node f v] or [reframe_node g], or anything that keeps the
    members.  What does not change: every group walked through keeps its xfrm and all
    its other members (nothing is recalculated), the member at [p] becomes [u] of it. *)
Theorem C17_group_assign_frame : forall p u s s',
  upd_in p u s = Ok s' -> upd_frame p u s s'.
Proof. exact upd_in_frame. Qed.
Print Assumptions C17_group_assign_frame.

Theorem C17_group_assign_at : forall p u s s',
  upd_in p u s = Ok s' ->
  exists t t', sub_at p s = Some t /\ u t = Ok t' /\ sub_at p s' = Some t'.
Proof. exact upd_in_at. Qed.
Print Assumptions C17_group_assign_at.

Theorem C17_group_assign_off_path : forall p u s s' q,
  keeps_kids u -> upd_in p u s = Ok s' -> is_prefix q p = false -> sub_at q s' = sub_at q s.
Proof. exact upd_in_off_path. Qed.
Print Assumptions C17_group_assign_off_path.

Theorem C17_group_assign_above : forall p u s s' q,
  upd_in p u s = Ok s' -> is_prefix q p = true -> q <> p ->
  exists g kids kids', sub_at q s = Some (Grp g kids) /\ sub_at q s' = Some (Grp g kids').
Proof. exact upd_in_above. Qed.
Print Assumptions C17_group_assign_above.

Theorem C17_group_assign_keeps_members : forall f v g,
  keeps_kids (assign_node f v) /\ keeps_kids (reframe_node g).
Proof. exact assign_reframe_keep. Qed.
Print Assumptions C17_group_assign_keeps_members.

(** An assignment can spoil at most the member itself (a group whose own frame was
    assigned) and the group that contains it; every other path, every group further up
    included, is exactly as before. *)
Theorem C17_group_assign_dirties_two : forall p u sl sl' q,
  keeps_kids u -> slide_upd p u sl = Ok sl' -> q <> p -> q <> removelast p ->
  slide_okq q sl' = slide_okq q sl.
Proof. exact slide_upd_okq. Qed.
Print Assumptions C17_group_assign_dirties_two.

(** All histories of additions, assignments (shapes and groups), foreign frames and
    re-opens, from any start state with any set [d] of unclean paths: every group
    outside [dirty_after ops d] has off = chOff, ext = chExt = the bounding box of its
    members' own frames.  [dirty_step]: an assignment at [p] adds [p] and its parent, an
    addition at [p] removes every prefix of [p]. *)
Theorem C17_group_history_assign : forall ops sl sl' d,
  Forall hop_wf ops -> clean_except d sl -> hist_run sl ops = Ok sl' ->
  clean_except (dirty_after ops d) sl'.
Proof. exact hist_clean. Qed.
Print Assumptions C17_group_history_assign.

(** After any such history an addition at [p] settles the whole path of [p]. *)
Theorem C17_group_history_then_add : forall ops sl sl1 p new sl2 q,
  hist_run sl ops = Ok sl1 -> hstep sl1 (HAdd p new) = Ok sl2 ->
  is_prefix q p = true -> slide_okq q sl2 = true.
Proof. exact hist_then_add. Qed.
Print Assumptions C17_group_history_then_add.

(** The earlier theorems are the special case: recursive consistency is every path
    clean; a history of additions dirties nothing; [slide_run] is [hist_run] on
    additions; so C17_group_history follows from C17_group_history_assign. *)
Theorem C17_group_consistent_iff_clean : forall sl,
  forallb consistentb sl = true <-> (forall q, slide_okq q sl = true).
Proof. exact all_consistent_iff. Qed.
Print Assumptions C17_group_consistent_iff_clean.

Theorem C17_group_history_adds_only : forall ops sl sl',
  Forall is_add ops -> Forall hop_wf ops ->
  forallb consistentb sl = true -> hist_run sl ops = Ok sl' -> forallb consistentb sl' = true.
Proof. exact hist_adds_consistent. Qed.
Print Assumptions C17_group_history_adds_only.

Theorem C17_group_history_is_instance : forall ops sl,
  hist_run sl (map hop_of_gop ops) = slide_run sl ops.
Proof. exact hist_run_gops. Qed.
Print Assumptions C17_group_history_is_instance.

Theorem C17_group_history_again : forall ops sl sl',
  forallb consistentb sl = true -> slide_run sl ops = Ok sl' -> forallb consistentb sl' = true.
Proof. exact slide_history_consistent_as_instance. Qed.
Print Assumptions C17_group_history_again.

(** Non-vacuity: a nested group scaled and moved as a whole by another producer, the
    deck re-opened, a text box added to the outer group: the outer group is the box of
    its members with the nested group counted by its own frame; the nested group is
    untouched and is the only dirty path; the slide is not recursively consistent. *)
Example C17_group_scaled_nested_nonvacuous :
  hist_run [] scaled_ops = Ok scaled_result /\ Forall hop_wf scaled_ops /\
  dirty_after scaled_ops [] = [[0%nat; 1%nat]] /\
  slide_okq [0%nat] scaled_result = true /\ slide_okq [0%nat; 1%nat] scaled_result = false /\
  forallb consistentb scaled_result = false.
Proof. exact scaled_example. Qed.

(** Non-vacuity for assignments through the public API (group.left, group.width,
    shape.top), followed by an addition to the outer group, or inside the moved group. *)
Example C17_group_moved_nested_nonvacuous :
  hist_run [] moved_ops
  = Ok [Grp (mkG 10 20 140 130 10 20 140 130)
          [Leaf 100 100 50 50; Grp (mkG 500 20 7 40 10 20 30 40) [Leaf 10 (-5) 30 40]]] /\
  dirty_after moved_ops [] = [[0%nat; 1%nat; 0%nat]; [0%nat; 1%nat]; [0%nat; 1%nat]; [0%nat]; [0%nat; 1%nat]; [0%nat]] /\
  hist_run [] (moved_ops ++ [HAdd [0%nat] (Leaf 0 0 1 1)])
  = Ok [Grp (mkG 0 0 507 150 0 0 507 150)
          [Leaf 100 100 50 50; Grp (mkG 500 20 7 40 10 20 30 40) [Leaf 10 (-5) 30 40]; Leaf 0 0 1 1]] /\
  dirty_after (moved_ops ++ [HAdd [0%nat] (Leaf 0 0 1 1)]) []
  = [[0%nat; 1%nat; 0%nat]; [0%nat; 1%nat]; [0%nat; 1%nat]; [0%nat; 1%nat]] /\
  hist_run [] (moved_ops ++ [HAdd [0%nat; 1%nat] (Leaf 0 0 1 1)])
  = Ok [Grp (mkG 0 (-5) 150 155 0 (-5) 150 155)
          [Leaf 100 100 50 50; Grp (mkG 0 (-5) 40 40 0 (-5) 40 40) [Leaf 10 (-5) 30 40; Leaf 0 0 1 1]]] /\
  dirty_after (moved_ops ++ [HAdd [0%nat; 1%nat] (Leaf 0 0 1 1)]) [] = [[0%nat; 1%nat; 0%nat]].
Proof. exact moved_example. Qed.

(* ------------------------------------------------------------------ freeform *)

(** For every builder (any start, any operations, any int or float scales) and origin:
    the extents are the extreme pen coordinates; position = origin + scaled minimum and
    size = scaled (maximum - minimum), where scaled is the exact product for an int scale
    and within 1/2 + 2^-51 |product| of it for a float scale; sizes are non-negative for
    non-negative scales; the path has w = dx, h = dy, its children are the operations
    shifted by the minimum, and every point lies in [0,w] x [0,h]. *)
Theorem C17_freeform : forall b ox oy f,
  convert b ox oy = Ok f ->
  let P := pen_pts b in
  ((forall p, In p P -> off_x b <= fst p <= hi_x b /\ off_y b <= snd p <= hi_y b) /\
   (exists p, In p P /\ fst p = off_x b) /\ (exists p, In p P /\ fst p = hi_x b) /\
   (exists p, In p P /\ snd p = off_y b) /\ (exists p, In p P /\ snd p = hi_y b)) /\
  scaled_ok (off_x b) (fb_xs b) (f_left f - ox) /\
  scaled_ok (off_y b) (fb_ys b) (f_top f - oy) /\
  scaled_ok (hi_x b - off_x b) (fb_xs b) (f_width f) /\
  scaled_ok (hi_y b - off_y b) (fb_ys b) (f_height f) /\
  (scale_nonneg (fb_xs b) -> 0 <= f_width f) /\
  (scale_nonneg (fb_ys b) -> 0 <= f_height f) /\
  f_w f = hi_x b - off_x b /\ f_h f = hi_y b - off_y b /\
  f_path f = FMove (fb_sx b - off_x b) (fb_sy b - off_y b)
             :: map (shift_op (off_x b) (off_y b)) (fb_ops b) /\
  op_pts (f_path f) = map (fun p => (fst p - off_x b, snd p - off_y b)) P /\
  (forall p, In p (op_pts (f_path f)) -> 0 <= fst p <= f_w f /\ 0 <= snd p <= f_h f).
Proof. exact freeform_main. Qed.
Print Assumptions C17_freeform.

(** The two clauses of [scaled_ok] spelled out. *)
Theorem C17_freeform_int_scale : forall v z, mul_scale v (SInt z) = Ok (v * z).
Proof. exact mul_scale_int. Qed.
Print Assumptions C17_freeform_int_scale.

Theorem C17_freeform_float_scale : forall v m e w,
  mul_scale v (SFlt m e) = Ok w ->
  (Qabs (inject_Z w - inject_Z v * scale_val (SFlt m e))
   <= (1 # 2) + Qabs (inject_Z v * scale_val (SFlt m e)) * (1 # 2 ^ 51))%Q.
Proof. exact mul_scale_float_bound. Qed.
Print Assumptions C17_freeform_float_scale.

(** When neither operand needs more than 53 bits the float path is the exact product
    rounded half-even once. *)
Theorem C17_freeform_float_exact : forall v m e,
  Z.abs v < 2 ^ 53 -> Z.abs (v * m) < 2 ^ 53 -> e <= 971 ->
  mul_scale v (SFlt m e) = Ok (dy_to_int (v * m, e)).
Proof. exact mul_scale_float_exact. Qed.
Print Assumptions C17_freeform_float_exact.

Example C17_freeform_nonvacuous :
  convert fb_example (-1000) 25
  = Ok (mkFs (-1001) (-35) 11 360 112 120
             [FMove 9 17; FLine 17 17; FLine 17 60; FLine 0 60; FClose; FMove 107 120; FLine 17 60;
              FLine 112 0]).
Proof. exact fb_example_converts. Qed.
