#!/usr/bin/env python3
"""bin/seedprompt.py <Cxx-k> ...: create a scratch worktree /tmp/seed/<Cxx-k> of /repo at HEAD and write the
task description for an independent sub-agent into it (_task.txt).  The sub-agent gets the property record and
nothing from /verif.  The digit k selects what the change must need in order to manifest."""
import json, os, subprocess, sys
V = os.path.dirname(os.path.dirname(os.path.abspath(__file__)))
props = {json.loads(l)["id"]: json.loads(l) for l in open(os.path.join(V, "properties.jsonl"))}
FLAV = {
    "1": "a multi-step sequence of operations, a particular prior state of the document, or two cooperating sites that each look fine alone",
    "2": "an unusual but legitimate input or boundary value (of the kind a PowerPoint-authored or third-party file, or an unusual argument, would contain)",
    "3": "a stale cache or lazily computed value, an error path (a call rejected midway, an exception handler that swallows or mistranslates), or an ordering dependence between two calls",
    "5": "a change inside a SHARED helper or base class (pptx/util.py, oxml/xmlchemy.py, oxml/__init__.py, opc/package.py, shapes/base.py, shared.py, oxml/ns.py and the like) that stays correct for almost every caller and goes wrong only through one specific caller or argument combination relevant to this property",
    "6": "a numeric edge: rounding mode, integer vs true division, an off-by-one at a range boundary, a unit conversion, a sign, or an accumulated rounding error that only particular magnitudes expose",
    "7": "a change OUTSIDE the files the property's anchors list, in a helper, base class, constant table or module the anchored code depends on (follow the imports), whose effect on this property shows only for particular inputs",
    "8": "an inconsistency between two or three sites that must agree (a constant, a naming convention, an ordering, a default, a unit) where one site is changed and the others still use the old convention, so that each site alone looks right",
    "9": "an optimisation that changes an ORDER (iteration order of a dict, set or xpath result, the order two things are written or evaluated in, sorted versus insertion order) or replaces a list by a set / a scan by an index, which is invisible on ordinary data and shows on data with duplicates, ties, or a particular arrangement",
    "0": "a change to a DATA file or data table the library ships and reads at run time rather than to its logic (src/pptx/templates/*.xml and default.pptx members, the big literal tables such as the auto-shape specification table, enumeration member tables, content-type tables, XML snippet strings inside writer classes): one entry, attribute, default or namespace declaration altered so that it shows only for the particular object kind, chart type, placeholder type or member that uses it",
    "4": "a document feature that python-pptx itself never writes but real-world files contain (an element, attribute, namespace prefix or part arrangement), or an interaction between two features that are each fine alone",
}
TEMPLATE = '''You are helping to test a verification tool by writing a realistic BUG for the open-source library python-pptx. Work ONLY inside your own scratch git worktree of the library: {wt} (a detached checkout; the package source is {wt}/src/pptx). Do NOT read, list or use anything under /verif or /root, and do not touch /repo. Python: run everything as `cd {wt} && PYTHONPATH={wt}/src PYTHONHASHSEED=0 /venv/bin/python ...`.

Here is a semantic property that python-pptx is supposed to satisfy (this record is all you are given):

{prop}

YOUR JOB: make ONE small, plausible-looking change to the library source under {wt}/src/pptx (the kind of change a maintainer might make as a refactoring, optimisation, tidy-up or well-meant feature tweak) that BREAKS this property, while the library still imports and the existing test suite still passes exactly as before. The baseline is: `cd {wt} && PYTHONPATH={wt}/src /venv/bin/python -m pytest -q -p no:cacheprovider --timeout=900 --continue-on-collection-errors 2>&1 | tail -1` which prints `566 passed, 46 errors` on the unchanged tree (the 46 errors are pre-existing collection errors; the result must stay exactly `566 passed, 46 errors` with your change).

Requirements for the change:
* It must need something SPECIFIC to manifest — {flavour} — not something ordinary use (creating a default presentation, adding a slide and a shape, saving) would expose at once. A change that breaks every call is useless.
* It must be a real violation of the property as written (not merely of an implementation detail), in code the property is about.
* Keep it small (typically 1-15 changed lines, one or two files), and do not touch tests, docs or features.
* Avoid the most obvious site if you can find a subtler one: prefer a change whose individual lines each look reasonable.{avoid}

Deliver, in the directory {wt}/_seed/ (create it):
1. `patch.diff` — output of `git -C {wt} diff -- src` (the change only; must apply cleanly to a clean checkout with `git apply`).
2. `demo.py` — a small self-contained program that exits 0 on the UNCHANGED library and exits non-zero (assertion failure with a clear message) WITH your change, demonstrating the property violation through the public API (it may build packages/XML by hand with zipfile/lxml where the property is about irregular input). It must take the library from PYTHONPATH (do not hard-code paths to src), write scratch files only under tempfile.mkdtemp() and remove them, and run in under 60 s.
3. `meta.json` — {{"property": "{pid}", "summary": "<what the change does, 2-3 sentences>", "needs_to_manifest": "<the specific input / sequence / state needed>", "files_changed": [...], "tests_before": "566 passed, 46 errors", "tests_after": "<what you measured>"}}.

Never use `git stash` (the stash is shared between all worktrees of the repository and other people are working in theirs): to get back to the clean tree use `git -C {wt} diff -- src > /tmp/my.diff; git -C {wt} checkout -- src`, and `git -C {wt} apply` to re-apply. Verify all of it yourself before answering: (a) with the change applied: pytest line is `566 passed, 46 errors` and demo.py fails; (b) `git -C {wt} checkout -- src` then demo.py passes, then re-apply your patch with `git -C {wt} apply _seed/patch.diff` so that the worktree is left WITH the change applied. Final answer: 5-10 lines: what you changed, why it breaks the property, what is needed to manifest, and the measured results of (a) and (b).'''
BENIGN = '''You are helping to test a verification tool for the open-source library python-pptx by writing a HARMLESS REFACTORING of it. Work ONLY inside your own scratch git worktree of the library: {wt} (a detached checkout; the package source is {wt}/src/pptx). Do NOT read, list or use anything under /verif or /root, and do not touch /repo. Python: run everything as `cd {wt} && PYTHONPATH={wt}/src PYTHONHASHSEED=0 /venv/bin/python ...`.

Here is a semantic property that python-pptx satisfies (this record is all you are given):

{prop}

YOUR JOB: make a realistic, behaviour-PRESERVING change to the code this property is about (the files and mechanisms named under "anchors"): the kind of clean-up a maintainer commits routinely. Examples: rename a private helper or local variables, extract or inline a small function, replace a loop by a comprehension or vice versa, reorder independent statements, replace an expression by an equivalent one (e.g. `%` formatting by an f-string producing the same text, `a // b` left alone but `if not x: return` restructured), add type annotations, move a constant to module level, add a defensive `assert` that can never fire, change an error MESSAGE (not the exception class). Touch 2-4 different places in the anchored code, 10-40 changed lines in total, so that the source text differs substantially while the observable behaviour (return values, XML produced, exceptions raised and their classes, files written) is IDENTICAL for every possible input, including unusual ones. Do not change public names or signatures, tests or docs. The pinned test suite must still give `566 passed, 46 errors` (`cd {wt} && PYTHONPATH={wt}/src /venv/bin/python -m pytest -q -p no:cacheprovider --timeout=900 --continue-on-collection-errors 2>&1 | tail -1`).

Deliver, in the directory {wt}/_seed/ (create it):
1. `patch.diff` — output of `git -C {wt} diff -- src` (must apply cleanly to a clean checkout with `git apply`).
2. `demo.py` — a small program exercising the refactored code through the public API on several inputs (ordinary and unusual) and printing a digest of the results; it must print EXACTLY the same output with and without your change (run both and compare) and exit 0.
3. `meta.json` — {{"property": "{pid}", "benign": true, "summary": "<what was refactored, 2-3 sentences>", "why_equivalent": "<one sentence per touched site arguing equivalence for all inputs>", "files_changed": [...], "tests_after": "<what you measured>"}}.

Never use `git stash` (the stash is shared between all worktrees of the repository and other people are working in theirs): to compare with the clean tree use `git -C {wt} apply -R _seed/patch.diff` and `git -C {wt} apply _seed/patch.diff`. Leave the worktree WITH the change applied. Final answer: 5-10 lines describing the refactoring and your measurements.'''
for name in sys.argv[1:]:
    pid, k = name.split("-")
    wt = "/tmp/seed/" + name
    os.makedirs("/tmp/seed", exist_ok=True)
    subprocess.run("git -C /repo worktree add --detach %s HEAD" % wt, shell=True, check=True, stdout=subprocess.DEVNULL, stderr=subprocess.DEVNULL)
    p = props[pid]
    # earlier seeds of the same property: ask for a different site (one line each, no detail of any check)
    prev = []
    for d in sorted(os.listdir(os.path.join(V, "seeded"))):
        if d.startswith(pid + "-") and os.path.exists(os.path.join(V, "seeded", d, "meta.json")):
            m = json.load(open(os.path.join(V, "seeded", d, "meta.json")))
            prev.append("; ".join(m.get("files_changed", [])) + ": " + m.get("summary", "")[:160])
    avoid = ""
    if prev:
        avoid = "\n* Other people already wrote changes at these sites; choose a DIFFERENT mechanism and site:\n" + "\n".join("    - " + x for x in prev)
    if k.startswith("b"):
        txt = BENIGN.format(wt=wt, pid=pid, prop=json.dumps({q: p[q] for q in ("id", "title", "statement", "quantifier", "why_tests_cant", "anchors")}, indent=1))
        open(os.path.join(wt, "_task.txt"), "w").write(txt)
        print(name, "->", wt)
        continue
    txt = TEMPLATE.format(wt=wt, pid=pid, flavour=FLAV[k[-1]] if k[-1] in FLAV else FLAV["1"], avoid=avoid,
                          prop=json.dumps({q: p[q] for q in ("id", "title", "statement", "quantifier", "why_tests_cant", "anchors")}, indent=1))
    open(os.path.join(wt, "_task.txt"), "w").write(txt)
    print(name, "->", wt)
