#!/usr/bin/env python3
"""Regenerates MANIFEST.json from the table below (keeps it valid at all times)."""
import json, os
V = os.path.dirname(os.path.dirname(os.path.abspath(__file__)))
props = [json.loads(l) for l in open(os.path.join(V, "properties.jsonl"))]
import ast
READY = set(json.load(open(os.path.join(V, "claimed.json"))))   # integrator-verified checks only
CLAIMED = {}
for p in props:
    if p["id"] not in READY:
        continue
    f = os.path.join(V, "checks", p["id"].lower() + ".py")
    if not os.path.exists(f):
        continue
    tree = ast.parse(open(f).read())
    for node in tree.body:
        if isinstance(node, ast.Assign) and len(node.targets) == 1 and getattr(node.targets[0], "id", None) == "CLAIM":
            CLAIMED[p["id"]] = ast.literal_eval(node.value)
checks = []
for p in props:
    pid = p["id"]
    if pid in CLAIMED:
        c = CLAIMED[pid]
        checks.append({
            "property_id": pid,
            "quick_cmd": "./bin/check %s --tier quick" % pid,
            "thorough_cmd": "./bin/check %s --tier thorough" % pid,
            "evidence_file": "/verif/evidence/%s.json" % pid,
            "replay_cmd_template": "./bin/check %s --replay {path}" % pid,
            "engine": "coq-proof+correspondence",
            "level_claimed": {"category": "proof", "text": c["text"], "design_ref": "DESIGN.md section " + c["ref"]},
            "level_note": c["note"] + " Kernel: Coq 8.16.1 full .vo build, vm_compute, no axioms (Print Assumptions recorded per theorem in the evidence).",
            "technique": c["tech"],
        })
na = [{"property_id": p["id"], "reason": "applicable to the technique and built (DESIGN.md section 6/%s), but not claimed at this commit: its model is being brought in line with a repair made to python-pptx and the check may not be claimed until it passes on the unchanged tree (DESIGN.md section 15)" % p["id"]}
      for p in props if p["id"] not in CLAIMED]
m = {
 "version": 1,
 "setup_cmd": "./bin/setup",
 "hooks": {"guard": "PPTX_VERIF", "enable": "none needed: no hooks are compiled into /repo; checks import pptx from /repo/src as is",
           "baseline_off_cmd": "/verif/bin/baseline", "source_commits": [], "add_only": True},
 "engines": [{"name": "coq-proof+correspondence", "path": "/verif/bin/check",
              "serves_properties": sorted(CLAIMED), "kind_free_text": "Coq 8.16.1 theorems over Gallina models (coq/), translators regenerating Coq data from /repo (tx/), extracted OCaml model runners and a differential harness (corr/, checks/)"}],
 "checks": checks,
 "not_applicable": na,
 "notes": "Fixes to genuine defects are separate 'fix:' commits in /repo, listed in known_findings.json as fixed entries.",
}
json.dump(m, open(os.path.join(V, "MANIFEST.json"), "w"), indent=1)
print("MANIFEST: %d checks, %d not claimed" % (len(checks), len(na)))
