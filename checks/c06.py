"""C06 -- shape ids, slide ids, relationship ids and part names are unique and stable.

Proof: props/C06.v over model/Ids.v (the allocators as functions of the population
they scan, plus the slide / relationship state machines over operation histories).
Tie: (a) allocator level -- random populations (gaps, ids up to 2^31 and beyond, slide
ids at the upper bound, non-numeric and digit-like non-ASCII @id values, duplicates,
non-canonical relationship ids, odd part names) are injected into the XML / parts of a
real presentation, the real allocator (and a sequence of real add_* calls) is run, and
every result is compared with the extracted model (op ren: prs.slides then
_next_slide_partname, the model being handed the part names iter_parts yields; the oracle
asks of _next_slide_partname a slide part name no reachable part carries, the conventional
one when free: signatures next-slide-partname-taken / -form / -not-conventional / -raises); (b) history level -- random sequences
of add_slide / add_shape / add_textbox / add_picture / add_group_shape (+ nested) /
add_connector / add_table / add_chart / notes_slide / hyperlink set+clear on real
decks, with the ORACLE (uniqueness + stability of all four id spaces, read directly off
the implementation's objects and the saved zip) evaluated after every step.
"""
import copy
import io
import os
import random
import re
import shutil
import tempfile
import unicodedata
import warnings
import zipfile

from corr.harness import coq_build, run_model, exc_name, REPO

TB = [
    "CPython 3.12 str.isdecimal / str.isdigit / int(str) are re-implemented in model/Ids.v (tables decimal_zeros, digit_only_ranges, "
    "uni_space_ranges transcribed from unicodedata 15.0; compared exhaustively over all code points by this check)",
    "sorted, max, dict (insertion-ordered, unique keys), %d formatting, str.find/startswith are transcribed, tied by this correspondence",
    "lxml xpath //@id, //@r:id and ./p:sldId/@id are taken as the population (document order); PackUri.idx of model/PackUri.v is reused for partname.idx",
]
ASSUME = [
    "a slide-like part is abstracted to the list of its @id attribute values (p:cNvPr ids and all others) and the per-proxy turbo caches",
    "a relationship collection is abstracted to (rId, target identity) pairs plus the r:id references in the part XML; only r:id "
    "references are counted by drop_rel, exactly as in XmlPart._rel_ref_count",
    "part-name templates are modelled as (text before %d, text after %d) with no other % in them, as at every call site",
    "add_movie / p:timing rewriting is outside the state machine (next_cTn_id is modelled and tested as an allocator only)",
    "_next_slide_partname is modelled as a function of the number of p:sldId entries and of the part names OpcPackage.iter_parts yields "
    "(read off the real package after prs.slides returned or raised and handed to the model); a part object always has its package",
]

MAXS = 2147483647


def show(s):
    return " ".join(str(ord(c)) for c in s)


def show_strs(l):
    return ",".join(show(s) for s in l)


def sort_field(f):
    return ",".join(sorted(f.split(",")))


def res_of(f, fmt=lambda v: "%d" % v):
    try:
        return "ok:" + fmt(f())
    except Exception as e:  # noqa
        return "err:" + exc_name(e)


# ----------------------------------------------------------------------------- environment
class Env:
    def __init__(self, rng):
        from PIL import Image

        self.tmp = tempfile.mkdtemp(prefix="c06-")
        self.pngs = []
        for i in range(6):
            im = Image.new("RGB", (2 + i % 3, 2), (rng.randrange(256), rng.randrange(256), i * 40))
            b = io.BytesIO()
            im.save(b, "PNG")
            self.pngs.append(b.getvalue())
        self._prs = None
        self._n = 0

    def prs(self):
        """a presentation reused for a while (new slide per case), renewed every 60 cases"""
        from pptx import Presentation

        if self._prs is None or self._n >= 60:
            self._prs = Presentation()
            self._n = 0
        self._n += 1
        return self._prs

    def close(self):
        shutil.rmtree(self.tmp, ignore_errors=True)


def numeric_reading(s):
    """Independent reading of an @id value as a number: every character is a decimal digit
    (any script); anything else is not a number."""
    if not s:
        return None
    v = 0
    for ch in s:
        d = unicodedata.decimal(ch, None)
        if d is None:
            return None
        v = v * 10 + d
    return v


# ----------------------------------------------------------------------------- int / tables
def impl_int(case):
    s = case["s"]
    return ("True" if s.isdigit() else "False") + "|" + ("True" if s.isdecimal() else "False") + "|" + res_of(lambda: int(s))


def python_tables():
    zeros, dig, sp = [], [], []
    for c in range(0x110000):
        ch = chr(c)
        if ch.isdecimal():
            if unicodedata.decimal(ch) == 0:
                zeros.append(c)
        elif ch.isdigit():
            dig.append(c)
        if c >= 127 and ch.isspace():
            sp.append(c)

    def ranges(l):
        out = []
        for c in l:
            if out and out[-1][1] == c - 1:
                out[-1][1] = c
            else:
                out.append([c, c])
        return [x for r in out for x in r]

    # every decimal character must sit in a block zero..zero+9 with value = offset
    ok = all(
        (chr(c).isdecimal() and unicodedata.decimal(chr(c)) == c - z)
        for z in zeros for c in range(z, z + 10)
    ) and sum(1 for c in range(0x110000) if chr(c).isdecimal()) == 10 * len(zeros)
    return "|".join(" ".join(str(x) for x in l) for l in (zeros, ranges(dig), ranges(sp))), ok


def isdecimal_not_int():
    """code points that pass str.isdecimal() (the filter of the //@id scans) but that int() refuses"""
    bad = []
    for c in range(0x110000):
        ch = chr(c)
        if ch.isdecimal():
            try:
                if int(ch) != unicodedata.decimal(ch) or int("1" + ch + "0") != 100 + 10 * unicodedata.decimal(ch):
                    bad.append(c)
            except ValueError:
                bad.append(c)
    return bad


# ----------------------------------------------------------------------------- shapes
KINDS_SLIDE = ["textbox", "shape", "connector", "table", "picture", "textbox", "shape", "chart"]
KINDS_GROUP = ["textbox", "shape", "connector", "picture"]


def add_kind(env, proxy, kind, rng_val):
    from pptx.chart.data import CategoryChartData
    from pptx.enum.chart import XL_CHART_TYPE
    from pptx.enum.shapes import MSO_CONNECTOR, MSO_SHAPE

    if kind == "table" and not hasattr(proxy, "add_table"):
        kind = "textbox"
    if kind == "textbox":
        return proxy.add_textbox(10, 10, 100, 100)
    if kind == "shape":
        return proxy.add_shape(MSO_SHAPE.RECTANGLE, 5, 5, 50, 50)
    if kind == "connector":
        return proxy.add_connector(MSO_CONNECTOR.STRAIGHT, 0, 0, 30, 30)
    if kind == "table":
        return proxy.add_table(2, 2, 0, 0, 100, 100)
    if kind == "picture":
        return proxy.add_picture(io.BytesIO(env.pngs[rng_val % len(env.pngs)]), 0, 0)
    if kind == "chart":
        cd = CategoryChartData()
        cd.categories = ["a", "b"]
        cd.add_series("s", (1, 2))
        return proxy.add_chart(XL_CHART_TYPE.PIE, 0, 0, 100, 100, cd)
    if kind == "freeform":
        fb = proxy.build_freeform(0, 0)
        fb.add_line_segments([(10, 10), (20, 0)])
        return fb.convert_to_shape()
    raise AssertionError(kind)


def id_snapshot(root):
    return [(e, e.get("id")) for e in root.xpath("//*[@id]")]


def shape_oracle(viol, case, before, root, new_elm, what, turbo=False):
    """property statement on one successful addition"""
    after = {id(e): v for e, v in id_snapshot(root)}
    for e, v in before:
        if after.get(id(e)) != v:
            viol.append(("shape-id-rewritten", "%s rewrote an existing @id %r -> %r" % (what, v, after.get(id(e))), case))
            return
    cn = new_elm.xpath(".//p:cNvPr")[0]
    new = cn.get("id")
    if not re.fullmatch(r"[1-9][0-9]*", new or ""):
        viol.append(("shape-id-not-positive", "%s assigned @id %r" % (what, new), case))
        return
    n = int(new)
    for e, v in before:
        if v == new or numeric_reading(v) == n:
            # turbo: some live proxy of this slide has turbo_add_enabled on at this moment
            sig = "turbo-duplicate-shape-id" if turbo else "duplicate-shape-id"
            viol.append((sig, "%s assigned shape id %d which is already used in the part (existing @id %r on <%s>)" % (
                what, n, v, e.tag.split("}")[-1]), case))
            return


def build_population(env, case):
    """a fresh slide whose //@id population is exactly case[sids] (p:cNvPr) + case[oids]"""
    from lxml import etree

    prs = env.prs()
    slide = prs.slides.add_slide(prs.slide_layouts[6])
    shapes = slide.shapes
    objs = [None]
    conns = []
    for k in range(1, len(case["sids"])):
        if k <= case.get("nconn", 0):
            c = add_kind(env, shapes, "connector", 0)
            conns.append(c)
            objs.append(c)
        else:
            objs.append(add_kind(env, shapes, "textbox", 0))
    root = slide._element
    cn = root.xpath("//p:cNvPr")
    assert len(cn) == len(case["sids"])
    for e, s in zip(cn, case["sids"]):
        e.set("id", s)
    if case["oids"]:
        P = "http://schemas.openxmlformats.org/presentationml/2006/main"
        ext_lst = etree.SubElement(root.cSld, "{%s}extLst" % P)
        ext = etree.SubElement(ext_lst, "{%s}ext" % P)
        ext.set("uri", "{C06}")
        for s in case["oids"]:
            o = etree.SubElement(ext, "{urn:c06}o")
            o.set("id", s)
    return prs, slide, objs, conns


def impl_shp(env, case, viol):
    prs, slide, objs, conns = build_population(env, case)
    shapes = slide.shapes
    spTree = shapes._spTree
    root = slide._element
    o1 = res_of(lambda: spTree.max_shape_id)
    o2 = res_of(lambda: shapes._next_shape_id)
    o3 = res_of(lambda: spTree._next_shape_id)
    proxies = [shapes]
    pending_groups = []
    ends = [(c, e) for c in conns for e in ("begin", "end")]
    outs = []
    for op in case["ops"]:
        before = id_snapshot(root)
        turbo = any(p.turbo_add_enabled for p in proxies)
        try:
            if op[0] == "m":
                proxy = proxies[op[1]]
                shp = add_kind(env, proxy, op[2], op[3])
                objs.append(shp)
                outs.append("ok:%d" % shp.shape_id)
                shape_oracle(viol, case, before, root, shp._element, "add_%s" % op[2], turbo)
            elif op[0] == "g":
                proxy = proxies[op[1]]
                if op[2] == "group":
                    shp = proxy.add_group_shape()
                    pending_groups.append(shp)
                else:
                    shp = add_kind(env, proxy, "freeform", 0)
                objs.append(shp)
                outs.append("ok:%d" % shp.shape_id)
                shape_oracle(viol, case, before, root, shp._element, "add_group_shape" if op[2] == "group" else "freeform", turbo)
            elif op[0] == "n":
                if op[1] == "grp" and pending_groups:
                    proxies.append(pending_groups.pop(0).shapes)
                else:
                    # a second Slide proxy for the same slide (as prs.slides[i] creates): own cache
                    from pptx.slide import Slide

                    proxies.append(Slide(slide._element, slide.part).shapes)
                outs.append("ok:0")
            elif op[0] == "t":
                proxies[op[1]].turbo_add_enabled = True
                outs.append("ok:%d" % proxies[op[1]]._cached_max_shape_id)
            elif op[0] == "u":
                proxies[op[1]].turbo_add_enabled = False
                outs.append("ok:0")
            elif op[0] == "c":
                conn, which = ends.pop(0)
                target = objs[op[1]]
                if which == "begin":
                    conn.begin_connect(target, 0)
                else:
                    conn.end_connect(target, 0)
                outs.append("ok:%d" % target.shape_id)
            else:
                outs.append("badop")
        except Exception as e:  # noqa
            outs.append("err:" + exc_name(e))
            if op[0] in ("m", "g"):
                crash_oracle(viol, case, before, e, op)
    final = show_strs(root.xpath("//p:cNvPr/@id"))
    return "|".join([o1, o2, o3, ",".join(outs), sort_field(final)])


def crash_oracle(viol, case, before, e, op):
    """Adding a shape must assign an id on any pre-existing population the property names."""
    vals = [v for _e, v in before]
    nondec = [v for v in vals if v.isdigit() and numeric_reading(v) is None]
    if nondec:
        viol.append(("shape-id-isdigit-not-int", "adding a shape (%s) raises %s: %s -- an existing @id %r passes str.isdigit() but int() rejects it "
                     "(the //@id scans must not let such a value reach int)" % (op[2], type(e).__name__, e, nondec[0]), case))
    else:
        viol.append(("add-shape-raises", "adding a shape (%s) raises %s: %s on @id population %r" % (op[2], type(e).__name__, e, vals[:12]), case))


def model_shp(case):
    ops = []
    for op in case["ops"]:
        if op[0] == "m":
            ops.append("m%d" % op[1])
        elif op[0] == "g":
            ops.append("g")
        elif op[0] == "n":
            ops.append("n")
        elif op[0] in ("t", "u", "c"):
            ops.append("%s%d" % (op[0], op[1]))
    return ["shp", len(case["sids"])] + case["sids"] + [len(case["oids"])] + case["oids"] + [1] + ops


ID_POOL_ODD = ["x7", "", "²", "٣", "१२", "③", "07", " 7", "+7", "7_0", "-3", "1.0", "{A-1}", "７", "2٣", "4²", "⁰", "𝟗"]


def gen_id(rng, odd=0.15):
    r = rng.random()
    if r < odd:
        return rng.choice(ID_POOL_ODD)
    if r < odd + 0.08:
        return str(rng.choice([2147483647, 2147483648, 4294967295, 4294967296, 2 ** 31 - 2, 10 ** 12]))
    if r < odd + 0.16:
        return str(rng.randint(1, 10 ** 6))
    return str(rng.randint(1, 14))


def gen_shp(rng, klass):
    """klass: plain (numeric population, no turbo), odd (non-numeric etc.), turbo"""
    n = rng.randint(1, 7)
    if klass == "plain":
        sids = ["1"] + [gen_id(rng, odd=0.0) for _ in range(n - 1)]
        if rng.random() < 0.5:  # distinct ids, as in a well-formed deck
            seen, out = set(), []
            for s in sids:
                while int(s) in seen:
                    s = str(int(s) + 1)
                seen.add(int(s))
                out.append(s)
            sids = out
        oids = [gen_id(rng, odd=0.3) for _ in range(rng.choice([0, 0, 1, 2]))]
        oids = [o for o in oids if not (o.isdigit() and numeric_reading(o) is None)]
    elif klass == "odd":
        sids = [gen_id(rng, odd=0.3) for _ in range(n)]
        oids = [gen_id(rng, odd=0.5) for _ in range(rng.choice([0, 1, 2, 3]))]
    else:
        sids = ["1"] + [gen_id(rng, odd=0.0) for _ in range(n - 1)]
        oids = []
    nconn = rng.randint(0, min(2, n - 1))
    ops = []
    nprox, groups_pending, nshapes, ends = 1, 0, n, 2 * nconn
    is_slide = [True]
    for _ in range(rng.randint(1, 9)):
        r = rng.random()
        if klass == "turbo" and r < 0.2:
            ops.append(("t" if rng.random() < 0.75 else "u", rng.randrange(nprox)))
        elif r < 0.55:
            h = rng.randrange(nprox)
            kinds = KINDS_SLIDE if is_slide[h] else KINDS_GROUP
            kind = rng.choice(kinds)
            if kind == "chart" and rng.random() < 0.7:
                kind = "shape"
            ops.append(("m", h, kind, rng.randrange(100)))
            nshapes += 1
        elif r < 0.75:
            if rng.random() < 0.75:
                ops.append(("g", rng.randrange(nprox), "group"))
                ops.append(("n", "grp"))
                nprox += 1
                is_slide.append(False)
            else:
                ops.append(("g", rng.randrange(nprox), "freeform"))
            nshapes += 1
        elif r < 0.82 and klass != "turbo":
            ops.append(("n", "slide"))
            nprox += 1
            is_slide.append(True)
        elif ends > 0 and nshapes > 1:
            ops.append(("c", rng.randrange(1, nshapes)))
            ends -= 1
        else:
            ops.append(("m", 0, "textbox", 0))
            nshapes += 1
    return {"op": "shp", "klass": klass, "sids": sids, "oids": oids, "nconn": nconn, "ops": ops}


# ----------------------------------------------------------------------------- cTn ids
def impl_ctn(env, case):
    from lxml import etree

    prs = env.prs()
    slide = prs.slides.add_slide(prs.slide_layouts[6])
    sld = slide._element
    child = sld.get_or_add_childTnLst()
    ctn = sld.xpath("./p:timing/p:tnLst/p:par/p:cTn")[0]
    ids = case["ids"]
    if ids:
        ctn.set("id", ids[0])
    else:
        del ctn.attrib["id"]
    P = "http://schemas.openxmlformats.org/presentationml/2006/main"
    for s in ids[1:]:
        par = etree.SubElement(child, "{%s}par" % P)
        c = etree.SubElement(par, "{%s}cTn" % P)
        c.set("id", s)
    return res_of(lambda: child._next_cTn_id)


# ----------------------------------------------------------------------------- placeholder names
PH_TYPES = ["BODY", "TITLE", "TABLE", "PICTURE", "OBJECT", "DATE", "CENTER_TITLE"]


def impl_phn(env, case, viol):
    from pptx.enum.shapes import PP_PLACEHOLDER

    prs = env.prs()
    slide = prs.slides.add_slide(prs.slide_layouts[6])
    shapes = slide.shapes
    for _ in case["names"][1:]:
        shapes.add_textbox(0, 0, 10, 10)
    cn = slide._element.xpath("//p:cNvPr")
    for e, nm in zip(cn, case["names"]):
        e.set("name", nm)
    ph_type = getattr(PP_PLACEHOLDER, case["ph"])
    orient = "vert" if case["vert"] else "horz"
    try:
        r = shapes._next_ph_name(ph_type, case["id"], orient)
    except Exception as e:  # noqa
        return "err:" + exc_name(e)
    if r in case["names"]:
        viol.append(("ph-name-duplicate", "_next_ph_name returned %r which is already a shape name of the slide" % r, case))
    return show(r)


def ph_base(case):
    from pptx.enum.shapes import PP_PLACEHOLDER
    from pptx.shapes.shapetree import SlideShapes

    b = SlideShapes.ph_basename(None, getattr(PP_PLACEHOLDER, case["ph"]))
    return ("Vertical " + b) if case["vert"] else b


def gen_phn(rng):
    ph = rng.choice(PH_TYPES)
    vert = rng.random() < 0.25
    case = {"op": "phn", "ph": ph, "vert": vert, "id": rng.randint(1, 6), "names": []}
    base = ph_base(case)
    names = [""]
    for _ in range(rng.randint(0, 7)):
        r = rng.random()
        if r < 0.7:
            names.append("%s %d" % (base, rng.randint(0, 7)))
        elif r < 0.8:
            names.append("%s 0%d" % (base, rng.randint(0, 7)))
        elif r < 0.9:
            names.append("%s  %d" % (base.lower(), rng.randint(0, 7)))
        else:
            names.append("TextBox %d" % rng.randint(1, 9))
    case["names"] = names
    return case


# ----------------------------------------------------------------------------- slide ids
def impl_sld(case, viol):
    from pptx import Presentation
    from pptx.oxml.xmlchemy import OxmlElement

    prs = Presentation()
    lst = prs.part._element.get_or_add_sldIdLst()
    for i, s in enumerate(case["ids"]):
        e = OxmlElement("p:sldId")
        e.set("id", s)
        e.set("{http://schemas.openxmlformats.org/officeDocument/2006/relationships}id", "rIdX%d" % i)
        lst.append(e)
    pre = [numeric_reading(s) for s in case["ids"]]
    valid_input = all(v is not None and 256 <= v <= MAXS for v in pre) and len(set(pre)) == len(pre) and \
        all(re.fullmatch(r"[0-9]+", s) for s in case["ids"])
    outs = []
    for k in range(case["n"]):
        before = [e.get("id") for e in lst]
        try:
            new = lst.add_sldId("rIdN%d" % k)
            outs.append("ok:%s" % new.get("id"))
        except Exception as e:  # noqa
            outs.append("err:" + exc_name(e))
            if valid_input:
                viol.append(("slide-id-alloc-raises", "add_sldId raises %s on distinct in-range slide ids %r" % (type(e).__name__, before), case))
            continue
        after = [e.get("id") for e in lst]
        if after[:-1] != before:
            viol.append(("slide-id-rewritten", "add_sldId changed existing ids %r -> %r" % (before, after[:-1]), case))
        nid = after[-1]
        if not re.fullmatch(r"[0-9]+", nid) or not (256 <= int(nid) <= MAXS):
            viol.append(("slide-id-out-of-range", "new slide id %r outside 256..2147483647 (existing %r)" % (nid, before), case))
        elif valid_input and (nid in before or int(nid) in [numeric_reading(b) for b in before]):
            viol.append(("slide-id-duplicate", "new slide id %s already used (existing %r)" % (nid, before), case))
    return ",".join(outs) + "|" + show_strs([e.get("id") for e in lst])


def gen_sld(rng, klass):
    n = rng.randint(0, 6)
    if klass == "valid":
        base = rng.choice([256, 256, 300, MAXS - 3, MAXS - n, 1000])
        pool = set()
        while len(pool) < n:
            r = rng.random()
            if r < 0.5:
                pool.add(min(MAXS, base + rng.randint(0, 8)))
            elif r < 0.7:
                pool.add(rng.choice([MAXS, MAXS - 1, 256, 257, 258]))
            else:
                pool.add(rng.randint(256, MAXS))
        ids = [str(x) for x in pool]
        rng.shuffle(ids)
    else:
        ids = []
        for _ in range(n):
            r = rng.random()
            if r < 0.35:
                ids.append(str(rng.choice([256, 257, 258, 259, MAXS, MAXS - 1])))
            elif r < 0.55:
                ids.append(str(rng.choice([0, 1, 255, MAXS + 1, 4294967295, 2 ** 40, -5])))
            elif r < 0.75:
                ids.append(rng.choice(["x7", "", "²", "٣٠٠", " 300", "+256", "2_56", "0256", "256 ", "１０００", "3e2", "256.0"]))
            else:
                ids.append(str(rng.randint(256, 270)))
    return {"op": "sld", "klass": klass, "ids": ids, "n": rng.randint(1, 5)}


# ----------------------------------------------------------------------------- relationship ids
HL = "http://schemas.openxmlformats.org/officeDocument/2006/relationships/hyperlink"
KEY_ODD = ["rId007", "RID3", "rid2", "rId", "rId1a", "x", "rId٣", "rId 2", "rId+2", "rId02", "rId0", "rId-1", "R1", "rId２"]


def impl_rid(env, case, viol):
    from pptx.opc.oxml import CT_Relationships

    prs = env.prs()
    slide = prs.slides.add_slide(prs.slide_layouts[6])
    part = slide.part
    tb = slide.shapes.add_textbox(0, 0, 100, 100)
    para = tb.text_frame.paragraphs[0]
    rels_elm = CT_Relationships.new()
    for i, k in enumerate(case["xml_ids"]):
        rels_elm.add_rel(k, HL, "http://init/%d" % i, is_external=True)
    part.load_rels_from_xml(rels_elm, {})
    runs = []
    for k in case["refs"]:
        r = para.add_run()
        r.text = "r"
        r._r.get_or_add_rPr().add_hlinkClick(k)
        runs.append(r)
    o1 = res_of(lambda: part.rels._next_rId, show)
    outs = []

    def snap():
        return {k: (rel.reltype, rel.target_ref) for k, rel in part.rels.items()}

    for op in case["ops"]:
        before = snap()
        used = set(slide._element.xpath("//@r:id"))
        dropped = None
        try:
            if op[0] == "s":
                r = para.add_run()
                r.text = "n"
                r.hyperlink.address = "http://h/%s" % op[1]
                rid = r._r.rPr.hlinkClick.rId
                runs.append(r)
                outs.append("ok:" + show(rid))
                if rid not in before:
                    if rid in used:
                        viol.append(("rid-reassigned-in-use", "new relationship got rId %r which is still referenced in the part XML" % rid, case))
                elif before[rid][1] != "http://h/%s" % op[1]:
                    viol.append(("rid-wrong-target", "relate_to returned existing rId %r of another target %r" % (rid, before[rid]), case))
            elif op[0] == "d":
                if op[1] >= len(runs):
                    outs.append("err:Index")
                    continue
                r = runs[op[1]]
                dropped = r._r.rPr.hlinkClick.rId
                r.hyperlink.address = None
                runs.pop(op[1])
                outs.append("ok:" + show(dropped))
        except Exception as e:  # noqa
            outs.append("err:" + exc_name(e))
            dropped = None
        after = snap()
        for k, v in before.items():
            if k == dropped:
                continue
            if after.get(k) != v:
                viol.append(("rid-unstable", "relationship %r changed from %r to %r" % (k, v, after.get(k)), case))
                break
    keys = list(part.rels.keys())
    refs = list(slide._element.xpath("//@r:id"))
    return "|".join([o1, ",".join(outs), show_strs(keys), show_strs(refs)])


def model_rid(case):
    ops = [("s%s" % op[1]) if op[0] == "s" else ("d%d" % op[1]) for op in case["ops"]]
    return ["rid", len(case["xml_ids"])] + case["xml_ids"] + [len(case["refs"])] + case["refs"] + ops


def gen_rid(rng, klass):
    n = rng.randint(0, 8)
    keys = []
    for _ in range(n):
        r = rng.random()
        if klass == "odd" and r < 0.35:
            keys.append(rng.choice(KEY_ODD))
        elif r < 0.9:
            keys.append("rId%d" % rng.randint(1, n + 3))
        else:
            keys.append("rId%d" % rng.randint(1, 400))
    if klass == "canon":
        keys = list(dict.fromkeys(keys))
    uniq = list(dict.fromkeys(keys))
    refs = [rng.choice(uniq) for _ in range(rng.randint(0, 3))] if uniq else []
    if klass == "odd" and rng.random() < 0.15:
        refs.append("rId999")  # dangling reference
    ops = []
    nrefs = len(refs)
    for _ in range(rng.randint(1, 10)):
        if rng.random() < 0.65 or nrefs == 0:
            ops.append(("s", str(rng.randint(0, 4))))
            nrefs += 1
        else:
            ops.append(("d", rng.randrange(nrefs + (1 if rng.random() < 0.05 else 0))))
            nrefs = max(0, nrefs - 1)
    return {"op": "rid", "klass": klass, "xml_ids": keys, "refs": refs, "ops": ops}


# ----------------------------------------------------------------------------- part names
def pkg_with_parts(names):
    from pptx import Presentation
    from pptx.opc.package import Part
    from pptx.opc.packuri import PackURI

    prs = Presentation()
    pkg = prs.part.package

    def add(name):
        p = Part(PackURI(name), "application/x-c06", pkg, b"")
        prs.part.relate_to(p, "http://c06/rel")
        return p

    for n in names:
        add(n)
    return prs, pkg, add


TEMPLATES = [
    ("/ppt/slides/slide", ".xml"), ("/ppt/charts/chart", ".xml"), ("/ppt/media/image", ".png"),
    ("/ppt/notesSlides/notesSlide", ".xml"), ("/ppt/theme/theme", ".xml"), ("/ppt/embeddings/oleObject", ".bin"),
    ("/ppt/42/x", ".xml"), ("/a4", "2.bin"), ("/p", ""), ("/ppt/slideLayouts/slideLayout", ".xml"), ("x", ".xml"),
]


def impl_names(case, viol):
    prs, pkg, add = pkg_with_parts(case["names"])
    outs = []
    for _ in range(case["m"]):
        existing = [str(p.partname) for p in pkg.iter_parts()]
        try:
            if case["op"] == "pn":
                new = pkg.next_partname(case["pre"] + "%d" + case["post"])
            elif case["op"] == "img":
                new = pkg.next_image_partname(case["ext"])
            else:
                new = pkg.next_media_partname(case["ext"])
        except Exception as e:  # noqa
            outs.append("err:" + exc_name(e))
            continue
        outs.append("ok:" + show(new))
        if str(new) in existing:
            viol.append(("partname-duplicate", "%s returned %r which is already a part name of the package" % (case["op"], str(new)), case))
        add(str(new))
    return ",".join(outs)


def model_names(case, all_names):
    if case["op"] == "pn":
        return ["pn", case["pre"], case["post"], case["m"]] + all_names
    return [case["op"], case["ext"], case["m"]] + all_names


def template_names():
    from pptx import Presentation

    return [str(p.partname) for p in Presentation().part.package.iter_parts()]


def gen_names(rng, op):
    names = []
    if op == "pn":
        pre, post = rng.choice(TEMPLATES)
        for _ in range(rng.randint(0, 7)):
            r = rng.random()
            if r < 0.7:
                names.append(pre.lstrip("x") + str(rng.randint(1, 9)) + post if pre != "x" else "/x%d.xml" % rng.randint(1, 4))
            elif r < 0.8:
                names.append(pre + "0" + str(rng.randint(1, 9)) + post if pre.startswith("/") else "/y")
            else:
                p2, q2 = rng.choice(TEMPLATES[:8])
                names.append(p2 + str(rng.randint(1, 5)) + q2)
        names = [n for n in names if n.startswith("/")]
        return {"op": "pn", "pre": pre, "post": post, "m": rng.randint(1, 4), "names": names}
    stem = "/ppt/media/image" if op == "img" else "/ppt/media/media"
    for _ in range(rng.randint(0, 7)):
        r = rng.random()
        ext = rng.choice(["png", "jpg", "mp4", "tar.gz", ""])
        if r < 0.7:
            names.append("%s%d.%s" % (stem, rng.randint(1, 8), ext))
        elif r < 0.8:
            names.append("%s0%d.%s" % (stem, rng.randint(0, 8), ext))
        elif r < 0.88:
            names.append("%sX%d.%s" % (stem, rng.randint(1, 8), ext))
        elif r < 0.93:
            names.append("%s/sub%d.%s" % (stem, rng.randint(1, 8), ext))
        elif r < 0.96 and op == "img":
            names.append("%s.%s" % (stem, ext))
        elif r < 0.97:
            names.append("%sFile.%s" % (stem, ext))
        else:
            names.append("/ppt/media/other%d.bin" % rng.randint(1, 3))
    return {"op": op, "ext": rng.choice(["png", "jpg", "mp4", "jpeg"]), "m": rng.randint(1, 4), "names": names}


# ----------------------------------------------------------------------------- rename
def impl_ren(case, viol):
    """prs.slides (rename_slide_parts) then PresentationPart._next_slide_partname on a package in which the
    presentation part has a slide relationship to one generic part per entry of case["names"] (listed in
    p:sldIdLst: case["listed"]) and a non-slide relationship to one more part per entry of case["extra"]
    (parts that are not slides but may carry a slide part name).  Returns the outcome, the rId of every
    slide relationship and the names of all the other reachable parts (what the model is given)."""
    from pptx import Presentation
    from pptx.opc.constants import RELATIONSHIP_TYPE as RT
    from pptx.opc.package import Part
    from pptx.opc.packuri import PackURI

    prs = Presentation()
    pkg = prs.part.package
    parts, rid_of = [], {}
    for n in case["names"]:
        p = Part(PackURI(n), "application/x-c06", pkg, b"")
        parts.append(p)
        rid_of[len(parts) - 1] = prs.part.relate_to(p, RT.SLIDE)
    extras = []
    for n in case.get("extra", []):
        p = Part(PackURI(n), "application/x-c06", pkg, b"")
        extras.append(p)
        prs.part.relate_to(p, "http://c06/rel")
    rids = [("rId999" if i < 0 else rid_of[i]) for i in case["listed"]]
    lst = prs.part._element.get_or_add_sldIdLst()
    for r in rids:
        lst.add_sldId(r)
    try:
        prs.slides  # lazyproperty: rename_slide_parts over the sldIdLst
        o1 = "ok:" + show_strs([str(p.partname) for p in parts])
    except Exception as e:  # noqa
        o1 = "err:" + exc_name(e)
    mine = set(id(p) for p in parts)
    reach = list(pkg.iter_parts())
    reach_names = [str(p.partname) for p in reach]
    others = [str(p.partname) for p in reach if id(p) not in mine]
    try:
        nxt = str(prs.part._next_slide_partname)
        o2 = "ok:" + show(nxt)
    except Exception as e:  # noqa
        nxt = None
        o2 = "err:" + exc_name(e)
        viol.append(("next-slide-partname-raises", "_next_slide_partname raises %s with the reachable part names %r and %d p:sldId entries"
                     % (exc_name(e), [n for n in reach_names if n.startswith("/ppt/slides/")], len(rids)), case))
    # ORACLE (since repair 086e8ef1, whatever the package looks like and whether or not prs.slides raised): the name
    # add_slide is about to give the new slide part is a slide part name that no reachable part carries, and it is
    # the conventional slide<len(sldIdLst)+1>.xml when that one is free
    if nxt is not None:
        conv = "/ppt/slides/slide%d.xml" % (len(rids) + 1)
        if nxt in reach_names:
            k = reach_names.index(nxt)
            if id(reach[k]) in mine:
                i = [id(p) for p in parts].index(id(reach[k]))
                kind = "a listed slide part" if i in case["listed"] else "a slide part related to the presentation but absent from p:sldIdLst"
            else:
                kind = "a part that is not a slide part"
            viol.append(("next-slide-partname-taken", "_next_slide_partname = %s is already the name of a reachable part (%s): add_slide would create a "
                         "second part of that name" % (nxt, kind), case))
        m = re.fullmatch(r"/ppt/slides/slide([1-9][0-9]*)\.xml", nxt)
        if not m:
            viol.append(("next-slide-partname-form", "_next_slide_partname = %r is not /ppt/slides/slide<K>.xml with K >= 1" % nxt, case))
        if conv not in reach_names and nxt != conv:
            viol.append(("next-slide-partname-not-conventional", "_next_slide_partname = %s although %s is free (%d p:sldId entries)"
                         % (nxt, conv, len(rids)), case))
    if o1.startswith("ok:"):
        after = [str(p.partname) for p in parts]
        listed = case["listed"]
        if len(set(listed)) == len(listed):
            want = ["/ppt/slides/slide%d.xml" % (k + 1) for k in range(len(listed))]
            # a p:sldId whose relationship does not exist names no part: shown as such (the unchanged code raises there)
            got = [after[i] if 0 <= i < len(after) else "<no part: dangling r:id>" for i in listed]
            if got != want:
                viol.append(("rename-order", "after prs.slides the listed slide parts are named %r, expected %r" % (got, want), case))
            if len(set(case["names"])) == len(case["names"]):
                if len(set(after)) != len(after):
                    dup = sorted(n for n in set(after) if after.count(n) > 1)
                    # the known class (the rename half, the only one left since 086e8ef1): one of the two parts is a
                    # slide part related to the presentation but missing from p:sldIdLst; any other duplicate keeps
                    # its own signature
                    unl = [i for i, n in enumerate(after) if n == dup[0] and i not in listed]
                    if not unl:
                        viol.append(("partname-duplicate-rename", "after prs.slides two LISTED slide parts are both named %s" % dup[0], case))
                    else:
                        viol.append(("unlisted-slide-partname-collision",
                                     "after prs.slides (rename_slide_parts) two reachable parts are both named %s: a slide part related to the "
                                     "presentation but absent from p:sldIdLst keeps its name while a listed slide is renamed onto it" % dup[0], case))
                hit = sorted(set(others) & set(got))
                if hit:
                    viol.append(("partname-duplicate-rename-other", "after prs.slides a listed slide part and a reachable part that is not a slide "
                                 "part are both named %s" % hit[0], case))
    return o1 + "|" + o2, rid_of, others


def gen_ren(rng, klass):
    n = rng.randint(0, 6)
    names = []
    used = set()
    for _ in range(n):
        while True:
            r = rng.random()
            if r < 0.75:
                nm = "/ppt/slides/slide%d.xml" % rng.randint(1, 9)
            elif r < 0.85:
                nm = "/ppt/slides/slide0%d.xml" % rng.randint(1, 9)
            else:
                nm = "/ppt/notesSlides/notesSlide%d.xml" % rng.randint(1, 9)
            if nm not in used or (klass == "odd" and rng.random() < 0.1):
                break
        used.add(nm)
        names.append(nm)
    idxs = list(range(n))
    rng.shuffle(idxs)
    if klass == "valid":
        # every slide-like part is listed: unlisted parts are never under /ppt/slides
        listed = [i for i in idxs if names[i].startswith("/ppt/slides/")]
    else:
        listed = idxs[: rng.randint(0, n)]
        if listed and rng.random() < 0.1:
            listed.append(rng.choice(listed))
        if rng.random() < 0.05:
            listed.insert(rng.randint(0, len(listed)), -1)
    case = {"op": "ren", "klass": klass, "names": names, "listed": listed}
    if klass != "valid" and rng.random() < 0.35:
        # reachable parts that are not slide parts; those with a slide part name sit at or above the conventional next
        # name (below it the first access of prs.slides would rename a listed slide onto them: the rename half)
        extra = []
        for _ in range(rng.randint(1, 3)):
            r = rng.random()
            if r < 0.7:
                nm = "/ppt/slides/slide%d.xml" % (len(listed) + 1 + rng.choice([0, 0, 0, 1, 2]))
            elif r < 0.8:
                nm = "/ppt/slides/slide0%d.xml" % rng.randint(1, 9)
            elif r < 0.9:
                nm = "/ppt/slides/slideshow%d.xml" % rng.randint(1, 3)
            else:
                nm = "/ppt/charts/chart%d.xml" % rng.randint(1, 3)
            if nm not in used and nm not in extra:
                extra.append(nm)
        case["extra"] = extra
    return case


def directed_ren():
    """The situations the repair 086e8ef1 is about, by hand: the conventional next name carried by an unlisted
    slide part, by a listed one (only when prs.slides raised before renaming it), by a part that is not a slide;
    the gap left by removing a slide other than the last; every name up to the search bound taken."""
    S = "/ppt/slides/slide%d.xml"
    out = []

    def add(names, listed, extra=None, klass="directed"):
        c = {"op": "ren", "klass": klass, "names": names, "listed": listed}
        if extra is not None:
            c["extra"] = extra
        out.append(c)

    add([S % 1, S % 2], [0])                                  # taken by an unlisted slide part
    add([S % 1, S % 3], [0])                                  # unlisted, but not in the way
    add([S % 1, S % 2, S % 3], [0, 2])                        # slide 2 of 3 unlisted: listed ones become 1, 2
    add([S % 3, S % 9], [-1, 0])                              # prs.slides raises at once: a LISTED part keeps slide3
    add([S % 2, S % 5], [0, -1, 1])                           # raises half way: slide1 renamed, slide5 not, candidate slide4
    add([S % 4, S % 7], [0, -1, 1])                           # raises half way, candidate slide4 free
    add([S % 1], [0], [S % 2])                                # taken by a part that is not a slide
    add([S % 1, S % 2], [0, 1], [S % 3, S % 4])               # search goes down from 5
    add([S % 1, S % 2], [0, 1], [S % 3, S % 5])               # search finds 4 between two taken names
    add([], [], [S % 1])                                      # no slide at all, slide1 taken by another part
    add([], [], [S % 1, S % 2, S % 3])
    add([S % 1], [0], ["/ppt/slides/slideshow2.xml", "/ppt/slides/slide02.xml"])   # same prefix, not the candidate
    add([S % 1], [0], [S % 2, "/ppt/slides/slideshow2.xml", "/ppt/slides/slide02.xml", "/ppt/slides/slide.xml"])
    add([S % 1, S % 2, S % 3, S % 4], [3, 0])                 # two unlisted, candidate slide3 taken by one of them
    for n in range(0, 5):
        # the usual delete-a-slide recipe seen from here: n+1 slide parts, one of them unlisted
        for gone in range(n + 1):
            add([S % (k + 1) for k in range(n + 1)], [k for k in range(n + 1) if k != gone])
    return out


# ----------------------------------------------------------------------------- histories
def run_history(env, hseed, nops, viol, stats):
    """A random sequence of public-API additions on a real deck; the oracle is evaluated
    after every step.  Self-contained given hseed (replayable)."""
    from pptx import Presentation
    from pptx.opc.constants import RELATIONSHIP_TYPE as RT  # noqa

    rng = random.Random(hseed)
    rec = {"op": "history", "hseed": hseed, "nops": nops}
    start = rng.choice(["default", "default", "corpus", "saved"])
    prs = None
    if start == "corpus":
        files = corpus_files()
        if files:
            f = rng.choice(files)
            try:
                prs = Presentation(f)
                rec["deck"] = os.path.relpath(f, REPO)
            except Exception:  # noqa
                prs = None
    if prs is None:
        prs = Presentation()
        if start == "saved":
            for _ in range(rng.randint(1, 3)):
                prs.slides.add_slide(prs.slide_layouts[rng.randrange(len(prs.slide_layouts))])
            b = io.BytesIO()
            prs.save(b)
            b.seek(0)
            prs = Presentation(b)
    # perturb pre-existing ids (gaps, big values, slide id at the upper bound) -- all schema-valid
    slides = list(prs.slides)
    lst = prs.slides._sldIdLst
    if len(lst) and rng.random() < 0.4:
        cur = {int(e.get("id")) for e in lst}
        for cand in (MAXS, MAXS - 1, 300):
            if cand not in cur and rng.random() < 0.6:
                rng.choice(list(lst)).set("id", str(cand))
                cur = {int(e.get("id")) for e in lst}
    for s in slides:
        if rng.random() < 0.4:
            cn = s._element.xpath("//p:cNvPr")
            cur = {numeric_reading(e.get("id")) for e in cn}
            for e in cn[1:]:
                if rng.random() < 0.4:
                    v = rng.choice([2147483647, 2147483600, 100, 77, 12])
                    if v not in cur and not s._element.xpath("//@id[.='%d']" % v):
                        # keep references (a:stCxn etc.) consistent: only retarget ids nobody refers to
                        old = e.get("id")
                        if len(s._element.xpath("//@id[.='%s']" % old)) + len(s._element.xpath("//@spid[.='%s']" % old)) == 1:
                            e.set("id", str(v))
                            cur.add(v)
    state = {"shape_ids": {}, "slide_ids": {}, "rels": {}, "groups": [], "runs": [], "conns": []}
    snapshot_check(prs, state, viol, rec, "initial", allow_drop=set())
    kinds = ["add_slide", "shape", "shape", "textbox", "picture", "group", "nested", "connector", "table", "chart",
             "notes", "hl_set", "hl_clear", "connect", "freeform", "reaccess"]
    log = []
    for step in range(nops):
        k = rng.choice(kinds)
        slides = list(prs.slides)
        allow_drop = set()
        try:
            if k == "add_slide" or not slides:
                k = "add_slide"
                prs.slides.add_slide(prs.slide_layouts[rng.randrange(len(prs.slide_layouts))])
            else:
                sl = rng.choice(slides)
                if k in ("shape", "textbox", "picture", "connector", "table", "chart", "freeform"):
                    if k == "chart" and rng.random() < 0.6:
                        k = "shape"
                    shp = add_kind(env, sl.shapes, k, rng.randrange(100))
                    if k == "connector":
                        state["conns"].append((sl, shp))
                    if k == "textbox":
                        state["runs"].append([sl, shp, None])
                elif k == "group":
                    g = sl.shapes.add_group_shape()
                    state["groups"].append((sl, g))
                elif k == "nested":
                    if state["groups"]:
                        _sl, g = rng.choice(state["groups"])
                        kk = rng.choice(["textbox", "shape", "picture", "connector", "group"])
                        if kk == "group":
                            state["groups"].append((_sl, g.shapes.add_group_shape()))
                        else:
                            add_kind(env, g.shapes, kk, rng.randrange(100))
                    else:
                        k = "nested(skip)"
                elif k == "notes":
                    sl.notes_slide.notes_text_frame.text = "n%d" % step
                elif k == "hl_set":
                    cands = [r for r in state["runs"]]
                    if cands:
                        ent = rng.choice(cands)
                        tf = ent[1].text_frame
                        run = tf.paragraphs[0].add_run()
                        run.text = "x"
                        run.hyperlink.address = "http://h/%d" % rng.randint(0, 3)
                        ent[2] = run
                    else:
                        k = "hl_set(skip)"
                elif k == "hl_clear":
                    cands = [r for r in state["runs"] if r[2] is not None]
                    if cands:
                        ent = rng.choice(cands)
                        rid = ent[2]._r.rPr.hlinkClick.rId
                        allow_drop.add((id(ent[0].part), rid))
                        ent[2].hyperlink.address = None
                        ent[2] = None
                    else:
                        k = "hl_clear(skip)"
                elif k == "connect":
                    if state["conns"]:
                        csl, c = rng.choice(state["conns"])
                        targets = [s for s in csl.shapes if s.shape_id != c.shape_id and hasattr(s, "left") and s.left is not None]
                        if targets:
                            (c.begin_connect if rng.random() < 0.5 else c.end_connect)(rng.choice(targets), 0)
                    else:
                        k = "connect(skip)"
                elif k == "reaccess":
                    # a fresh Slide proxy for the same slide (prs.slides[i]) and additions through it
                    i = rng.randrange(len(slides))
                    add_kind(env, prs.slides[i].shapes, "textbox", 0)
        except Exception as e:  # noqa
            log.append(k + "!" + type(e).__name__)
            rec["log"] = log
            # charged to C06 only when the exception comes out of one of the allocators
            names, tb = set(), e.__traceback__
            while tb is not None:
                names.add(tb.tb_frame.f_code.co_name)
                tb = tb.tb_next
            if names & ALLOC_FUNCS:
                viol.append(("history-alloc-raises", "history step %d (%s) raised %s inside %s: %s" % (
                    step, k, type(e).__name__, sorted(names & ALLOC_FUNCS), e), dict(rec)))
            else:
                stats["raised:" + type(e).__name__] = stats.get("raised:" + type(e).__name__, 0) + 1
            break
        log.append(k)
        stats[k.split("(")[0]] = stats.get(k.split("(")[0], 0) + 1
        rec["log"] = log
        snapshot_check(prs, state, viol, rec, "after step %d (%s)" % (step, k), allow_drop)
    # saved package: member names unique; ids survive re-opening
    b = io.BytesIO()
    with warnings.catch_warnings(record=True) as w:
        warnings.simplefilter("always")
        prs.save(b)
    names = zipfile.ZipFile(b).namelist()
    if len(set(names)) != len(names) or any("Duplicate name" in str(x.message) for x in w):
        dup = sorted(n for n in set(names) if names.count(n) > 1)
        viol.append(("zip-duplicate-member", "saved package has duplicate member names %r" % dup[:3], dict(rec)))
    b.seek(0)
    prs2 = Presentation(b)
    ids1 = [(s.slide_id, [sh for sh in s._element.xpath("//p:cNvPr/@id")]) for s in prs.slides]
    ids2 = [(s.slide_id, [sh for sh in s._element.xpath("//p:cNvPr/@id")]) for s in prs2.slides]
    if ids1 != ids2:
        viol.append(("ids-change-on-reopen", "slide/shape ids differ after save and re-open", dict(rec)))
    return len(log)


ALLOC_FUNCS = {"_next_shape_id", "max_shape_id", "_next_id", "add_sldId", "_next_rId", "next_partname", "next_image_partname",
               "next_media_partname", "rename_slide_parts", "_next_slide_partname", "_next_cTn_id", "_next_ph_name", "drop_rel",
               "add_grpSp", "add_freeform_sp"}
_CORPUS = None


def corpus_files():
    global _CORPUS
    if _CORPUS is None:
        out = []
        for d in ("tests/test_files", "features/steps/test_files"):
            p = os.path.join(REPO, d)
            if os.path.isdir(p):
                out += sorted(os.path.join(p, f) for f in os.listdir(p) if f.endswith(".pptx"))
        _CORPUS = out
    return _CORPUS


def snapshot_check(prs, state, viol, rec, when, allow_drop):
    """ORACLE: the statement of C06 read directly off the implementation's objects."""
    pkg = prs.part.package
    parts = list(pkg.iter_parts())
    rec = dict(rec)
    rec["when"] = when
    # 1. part names unique
    names = [str(p.partname) for p in parts]
    if len(set(names)) != len(names):
        dup = sorted(n for n in set(names) if names.count(n) > 1)
        viol.append(("partname-duplicate-history", "%s: two parts named %s" % (when, dup[0]), rec))
    # 2. slide parts named slide1..n in presentation order
    slides = list(prs.slides)
    got = [str(s.part.partname) for s in slides]
    # names are (re)assigned when the collection is first accessed and by add_slide
    want = ["/ppt/slides/slide%d.xml" % (i + 1) for i in range(len(slides))]
    if got != want:
        viol.append(("slide-partname-order", "%s: slide part names %r, expected %r" % (when, got, want), rec))
    # 3. slide ids unique, in range, stable
    sids = [s.slide_id for s in slides]
    bad_ids = len(set(sids)) != len(sids) or any(not (256 <= i <= MAXS) for i in sids)
    if when == "initial":
        state["input_slide_ids_invalid"] = bad_ids      # a deck that already breaks the rule is not charged to the library
    elif bad_ids and not state.get("input_slide_ids_invalid"):
        viol.append(("slide-id-history", "%s: slide ids %r not unique / not in 256..2147483647" % (when, sids), rec))
    for s in slides:
        key = id(s.part)
        if key in state["slide_ids"] and state["slide_ids"][key] != s.slide_id:
            viol.append(("slide-id-changed", "%s: slide id changed %r -> %r" % (when, state["slide_ids"][key], s.slide_id), rec))
        state["slide_ids"][key] = s.slide_id
        if prs.slides.get(s.slide_id) is None or prs.slides.get(s.slide_id).part is not s.part:
            viol.append(("slide-id-lookup", "%s: slides.get(%d) does not designate the same slide" % (when, s.slide_id), rec))
    # 4. shape ids per slide-like part: unique, positive; earlier elements keep theirs
    for p in parts:
        el = getattr(p, "_element", None)
        if el is None or not hasattr(el, "xpath"):
            continue
        tag = el.tag.split("}")[-1]
        if tag in ("sld", "notes", "sldLayout", "sldMaster", "notesMaster"):
            cn = el.xpath("//p:cNvPr")
            seen = {}
            for e in cn:
                v = e.get("id")
                prev = state["shape_ids"].get(id(e))
                if prev is not None and prev[1] != v:
                    viol.append(("shape-id-changed", "%s: shape id changed %r -> %r in %s" % (when, prev[1], v, p.partname), rec))
                is_new = prev is None and when != "initial"
                state["shape_ids"][id(e)] = (e, v)
                n = numeric_reading(v)
                if is_new and (n is None or n < 1 or not re.fullmatch(r"[0-9]+", v)):
                    viol.append(("shape-id-not-positive", "%s: new shape id %r in %s" % (when, v, p.partname), rec))
                if n is not None:
                    seen.setdefault(n, []).append(is_new)
            for n, flags in seen.items():
                if len(flags) > 1 and any(flags):
                    viol.append(("duplicate-shape-id", "%s: shape id %d assigned twice in %s" % (when, n, p.partname), rec))
        # 5. relationships: existing rIds keep their target; every reference resolves
        rels = {k: (r.reltype, r.target_ref if r.is_external else id(r.target_part)) for k, r in p.rels.items()}
        prev = state["rels"].get(id(p))
        if prev is not None:
            for k, v in prev[1].items():
                if (id(p), k) in allow_drop:
                    continue
                if rels.get(k) != v:
                    viol.append(("rid-unstable", "%s: relationship %s of %s changed or vanished" % (when, k, p.partname), rec))
                    break
        state["rels"][id(p)] = (p, rels)
        if el is not None and hasattr(el, "xpath"):
            for a in ("id", "embed", "link"):
                for v in el.xpath("//@r:%s" % a):
                    if v and v not in rels:
                        if when == "initial":
                            state.setdefault("dangling0", set()).add((id(p), v))
                            continue
                        if (id(p), v) in state.get("dangling0", ()):
                            continue
                        viol.append(("rid-dangling", "%s: %s references r:%s=%r which is not a relationship of the part" % (when, p.partname, a, v), rec))
                        break


# ----------------------------------------------------------------------------- driver
def gen_int(rng):
    alpha = list("0123456789") * 3 + [" ", "\t", "\n", "+", "-", "_", "x", ".", "²", "٣", "①", "７", "\u00a0", "\u2003", "\u0085",
                                      "߂", "𝟘", "੩", "\x1c", "๓", "〇", "Ⅷ", "½", "૭", "\x0b", "\x7f", "e", "٠", "\u3000", "\u2028"]
    r = rng.random()
    if r < 0.002:
        # the 4300-digit limit of int(): leading zeros count as digits, the value stays small
        n = rng.choice([4299, 4300, 4301, 4302])
        tail = "".join(rng.choice("0123456789\u0663") for _ in range(12))
        s = rng.choice("0\u0660") * (n - 12) + tail
        if rng.random() < 0.3:
            s = s[:10] + "_" + s[10:]
        if rng.random() < 0.3:
            s = " +" + s + " "
        return {"op": "int", "s": s}
    return {"op": "int", "s": "".join(rng.choice(alpha) for _ in range(rng.randint(0, 7)))}


def to_model(case, tnames):
    op = case["op"]
    if op == "int":
        return ["int", case["s"]]
    if op == "shp":
        return model_shp(case)
    if op == "ctn":
        return ["ctn"] + case["ids"]
    if op == "sld":
        return ["sld", case["n"]] + case["ids"]
    if op == "rid":
        return model_rid(case)
    if op in ("pn", "img", "med"):
        return model_names(case, tnames + case["names"])
    if op == "phn":
        return ["phn", ph_base(case), case["id"] - 1] + case["names"]
    raise AssertionError(op)


def run_impl(env, case, viol):
    op = case["op"]
    if op == "int":
        return impl_int(case)
    if op == "shp":
        return impl_shp(env, case, viol)
    if op == "ctn":
        return impl_ctn(env, case)
    if op == "sld":
        return impl_sld(case, viol)
    if op == "rid":
        return impl_rid(env, case, viol)
    if op in ("pn", "img", "med"):
        return impl_names(case, viol)
    if op == "phn":
        return impl_phn(env, case, viol)
    raise AssertionError(op)


def canon_model(case, line):
    if case["op"] == "shp":
        f = line.split("|")
        if len(f) == 5:
            f[4] = sort_field(f[4])
        return "|".join(f)
    return line


def ren_model_case(case, rid_of, others):
    """others: the names of the reachable parts other than the targets of the slide relationships (the template's
    parts and case["extra"]), read off the package: the model is handed what iter_parts yields."""
    prels = []
    for i in range(len(case["names"])):
        prels += [rid_of[i], i]
    rids = [("rId999" if i < 0 else rid_of[i]) for i in case["listed"]]
    return ["ren", len(others)] + others + [len(case["names"])] + case["names"] + [len(prels)] + prels + rids


def nontrivial(case):
    op = case["op"]
    if op == "int":
        return any(not ("0" <= c <= "9") for c in case["s"]) and len(case["s"]) > 0
    if op == "shp":
        vals = [numeric_reading(s) for s in case["sids"] + case["oids"]]
        nums = sorted(v for v in vals if v is not None)
        gap = nums != list(range(1, len(nums) + 1))
        return len(case["ops"]) >= 2 and (gap or None in vals)
    if op == "sld":
        return len(case["ids"]) >= 1
    if op == "rid":
        return len(case["xml_ids"]) >= 1 and len(case["ops"]) >= 2
    if op in ("pn", "img", "med"):
        return len(case["names"]) >= 1
    if op == "ren":
        return len(case["listed"]) >= 1 or len(case.get("extra", [])) >= 1
    if op == "ctn":
        return len(case["ids"]) >= 1
    if op == "phn":
        return len(case["names"]) >= 2
    return True


def gen_cases(tier, rng):
    q = tier == "quick"
    cases = []
    # the witnesses of C06_turbo_refuted, C06_shape_nondecimal_crash and
    # C06_rename_unlisted_refuted come first so that they are the recorded inputs
    cases.append({"op": "shp", "klass": "turbo", "sids": ["1"], "oids": [], "nconn": 0,
                  "ops": [("t", 0), ("g", 0, "group"), ("n", "grp"), ("m", 0, "shape", 0)]})
    cases.append({"op": "shp", "klass": "odd", "sids": ["1", "²"], "oids": [], "nconn": 0, "ops": [("m", 0, "textbox", 0)]})
    cases.append({"op": "ren", "klass": "odd", "names": ["/ppt/slides/slide2.xml", "/ppt/slides/slide1.xml"], "listed": [0]})
    cases += directed_ren()
    for _ in range(60000 if q else 400000):
        cases.append(gen_int(rng))
    for s in ID_POOL_ODD + ["٢", "rId", "0", "00", "-0", "+0", " ", "_1", "1_", "1__0", " 1 "]:
        cases.append({"op": "int", "s": s})
    for klass, n in (("plain", 2600 if q else 16000), ("odd", 900 if q else 5000), ("turbo", 500 if q else 3000)):
        for _ in range(n):
            cases.append(gen_shp(rng, klass))
    for _ in range(1000 if q else 6000):
        ids = [rng.choice(["1", "2", "3", "7", "x", "", "²", "٣", " 4", "4294967296", "-2", "1_0"]) for _ in range(rng.randint(0, 5))]
        cases.append({"op": "ctn", "ids": ids})
    for _ in range(800 if q else 5000):
        cases.append(gen_phn(rng))
    for klass, n in (("valid", 1500 if q else 9000), ("odd", 1000 if q else 6000)):
        for _ in range(n):
            cases.append(gen_sld(rng, klass))
    cases.append({"op": "sld", "klass": "odd", "ids": ["256", "2147483648"], "n": 1})        # C06_slide_id_oob_stop
    cases.append({"op": "sld", "klass": "odd", "ids": ["256", "256", "257", str(MAXS)], "n": 1})  # C06_slide_id_dup_refuted
    cases.append({"op": "sld", "klass": "valid", "ids": [str(MAXS)], "n": 3})
    for klass, n in (("canon", 1800 if q else 11000), ("odd", 1000 if q else 6000)):
        for _ in range(n):
            cases.append(gen_rid(rng, klass))
    for op, n in (("pn", 1200 if q else 7000), ("img", 700 if q else 4000), ("med", 700 if q else 4000)):
        for _ in range(n):
            cases.append(gen_names(rng, op))
    for klass, n in (("valid", 700 if q else 4000), ("odd", 500 if q else 3000)):
        for _ in range(n):
            cases.append(gen_ren(rng, klass))
    return cases


def run(ck, tier, rng):
    ck.build = coq_build("C06")
    env = Env(rng)
    viol = []
    try:
        cases = gen_cases(tier, rng)
        tnames = template_names()
        impl_out, model_in = [], []
        for c in cases:
            if c["op"] == "ren":
                o, rid_of, others = impl_ren(c, viol)
                impl_out.append(o)
                model_in.append(ren_model_case(c, rid_of, others))
            else:
                impl_out.append(run_impl(env, c, viol))
                model_in.append(to_model(c, tnames))
            ck.count(c, nontrivial(c), c["op"] + (":" + c["klass"] if "klass" in c else ""))
        # tables: exhaustive over all code points
        tab_impl, tab_ok = python_tables()
        if not tab_ok:
            ck.notes.append("decimal characters are not all in aligned blocks of ten in this Python's unicodedata")
        bad = isdecimal_not_int()
        if bad:
            viol.append(("isdecimal-int-mismatch", "code points %r pass str.isdecimal() but int() refuses them: an @id made of one makes "
                         "the //@id scan raise" % [hex(c) for c in bad[:8]], {"op": "shp", "klass": "odd", "sids": ["1", chr(bad[0])],
                                                                             "oids": [], "nconn": 0, "ops": [("m", 0, "textbox", 0)]}))
        ck.dist["isdecimal-code-points-int-accepts"] = sum(1 for c in range(0x110000) if chr(c).isdecimal()) - len(bad)
        cases.append({"op": "tab"})
        impl_out.append(tab_impl)
        model_in.append(["tab"])
        ck.count("tab-0x110000-code-points", True, "tab")
        # history level
        nh, nops = (150, 24) if tier == "quick" else (1500, 30)
        hstats = {}
        hsteps = 0
        for _ in range(nh):
            hseed = rng.getrandbits(48)
            hsteps += run_history(env, hseed, nops, viol, hstats)
            ck.count(("history", hseed), True, "history")
        for k, v in hstats.items():
            ck.dist["history-step:" + k] = v
        for c in cases[:2] + [c for c in cases if c["op"] == "shp"][:3] + [c for c in cases if c["op"] == "sld"][:2] + \
                [c for c in cases if c["op"] == "rid"][:2] + [c for c in cases if c["op"] == "ren"][:1]:
            ck.sample(c, limit=12)
        for sig, what, rec in viol:
            ck.violation(sig, what, {"entry_point": entry_point(rec), "input": rec}, concrete=True)
        concrete = len(ck.violations)
        diffs = 0
        first = None
        if ck.build.ok:
            model_out = run_model("C06", model_in)
            for c, mo, io_ in zip(cases, model_out, impl_out):
                mo = canon_model(c, mo)
                if mo != io_:
                    diffs += 1
                    if first is None:
                        first = (c, mo, io_)
                    if diffs <= 5:
                        ck.notes.append("diff %r model=%s impl=%s" % (c, mo[:300], io_[:300]))
            if diffs and concrete == 0:
                ck.violation("correspondence", "model/Ids.v and python-pptx disagree on %d cases, e.g. %r: model=%s impl=%s; the oracle found no "
                             "input on which the property itself fails" % (diffs, first[0], first[1][:300], first[2][:300]),
                             {"theorem_or_correspondence": "correspondence Ids.v ~ python-pptx allocators (theorems C06_* are about the model only)",
                              "input": first[0], "model_outcome": first[1], "impl_outcome": first[2]}, concrete=False)
        ck.broken_build(oracle_found_concrete=len(ck.violations) > 0)
        return ck.finish(
            rule="allocator level: random @id / p:sldId / Relationship Id / part-name populations (gaps, duplicates, 2^31 and beyond, upper-bound slide "
                 "ids, non-numeric and non-ASCII digit-like values, non-canonical rIds) injected into real parts, followed by sequences of real add_* / "
                 "add_sldId / relate_to+drop_rel / next_*partname calls, each compared with the model; int/isdigit on random strings and the three "
                 "character tables over all 0x110000 code points; history level: %d random public-API histories of %d steps on default, re-opened and "
                 "corpus decks with perturbed ids, oracle after every step and on the saved zip.  non-trivial = population has a gap or a non-numeric "
                 "value and >= 2 operations (shapes), non-empty population (slide ids, names, rename), >= 1 key and >= 2 operations (relationships), "
                 "string with a non-ASCII-digit character (int), every history" % (nh, nops),
            trusted_base=TB, assumptions=ASSUME,
            extra={"correspondence_diffs": diffs, "exhaustive": False, "history_steps": hsteps},
        )
    finally:
        env.close()


def entry_point(rec):
    op = rec.get("op")
    return {
        "shp": "SlideShapes/GroupShapes.add_* (_BaseShapes._next_shape_id, CT_GroupShape._next_shape_id, max_shape_id)",
        "sld": "CT_SlideIdList.add_sldId/_next_id",
        "rid": "Part.relate_to / XmlPart.drop_rel (_Relationships._next_rId)",
        "pn": "OpcPackage.next_partname", "img": "Package.next_image_partname", "med": "Package.next_media_partname",
        "ren": "Presentation.slides (PresentationPart.rename_slide_parts, _next_slide_partname)",
        "phn": "_BaseShapes._next_ph_name",
        "history": "public API history",
    }.get(op, str(op))


def replay(rec):
    case = rec.get("input")
    if not isinstance(case, dict) or "op" not in case:
        print("no input stored in this record:", rec.get("what") or rec.get("theorem_or_correspondence"))
        return 1
    if case["op"] == "tab":
        mo = run_model("C06", [["tab"]])[0]
        io_ = python_tables()[0]
        print("impl ", io_[:200])
        print("model", mo[:200])
        return 0 if io_ == mo else 1
    env = Env(random.Random(0))
    viol = []
    try:
        if case.get("op") == "history":
            run_history(env, case["hseed"], case["nops"], viol, {})
            for sig, what, _r in viol:
                print("oracle:", sig, "--", what)
            return 1 if viol else 0
        for k in ("ops",):
            if k in case:
                case[k] = [tuple(o) for o in case[k]]
        if case["op"] == "ren":
            io_, rid_of, others = impl_ren(case, viol)
            mi = ren_model_case(case, rid_of, others)
        else:
            io_ = run_impl(env, case, viol)
            mi = to_model(case, template_names())
        mo = canon_model(case, run_model("C06", [mi])[0])
        print("case ", case)
        print("impl ", io_)
        print("model", mo)
        for sig, what, _r in viol:
            print("oracle:", sig, "--", what)
        return 0 if (io_ == mo and not viol) else 1
    finally:
        env.close()


CLAIM = {
    "tech": "Coq proof over a Gallina model of every id / part-name allocator as a function of the population it scans, and of the slide and "
            "relationship collections as state machines over operation histories (fold over op lists) + extracted-model correspondence on real "
            "parts with injected populations + independent oracle on public-API histories and the saved zip",
    "text": "37 theorems closed under the global context: next_rId / next_partname / image / media / placeholder-name results are fresh for every "
            "population (pigeonhole over the injective decimal rendering; the 'impossible' raises are unreachable); max+1 and first-gap shape ids are "
            "positive and fresh for any multiset of @id strings (str.isdecimal filter and int() modelled on code points, tables compared over all "
            "0x110000 code points); distinct shape ids stay distinct and no existing id is rewritten under any turbo-free history; slide ids stay in "
            "256..2147483647, fresh, existing ones untouched, with the exact StopIteration condition; rename_slide_parts gives slide1..n in order with "
            "the exact collision condition; _next_slide_partname (as repaired by 086e8ef1) never raises and, for every number of p:sldId entries and "
            "every list of reachable part names, answers a slide part name no reachable part carries, the conventional slide<n+1>.xml whenever that "
            "is free, else next_partname's largest free candidate. Two refuted statements carry their witnesses (turbo cache vs first-gap allocator; "
            "first access of prs.slides with a slide part missing from p:sldIdLst) and are re-found on the real code. ~75k (quick) / ~490k (thorough) allocator cases and 150 / 1500 API histories, 0 diffs.",
    "note": "slide-like parts are abstracted to their @id value lists and per-proxy turbo caches, relationship collections to (rId, target) pairs plus "
            "r:id references; add_movie timing rewriting is outside the state machine; numeric identity of an id is what str.isdecimal + int read "
            "(values such as ' 7' or '+7' are ignored by the scan exactly as in the code); int() refuses more than 4300 digits and the theorems say so.",
    "ref": "6/C06",
}
