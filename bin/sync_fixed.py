#!/usr/bin/env python3
"""Keeps known_findings.json's `fixed:` entries in step with the `fix:` commits of /repo.
(Run by hand after making a fix commit; never run by a check.)"""
import json, subprocess, os
V = os.path.dirname(os.path.dirname(os.path.abspath(__file__)))
PROP = [  # (keyword in commit subject, property, signature of the finding it repaired)
 ("c:area3DChart", "C10", "decl:CT_Area3DChart/c:grouping"), ("CT_BubbleChart", "C10", "decl:CT_BubbleChart/c:dLbls; decl:CT_BubbleChart/c:ser"),
 ("p:bgPr", "C10", "decl:CT_BackgroundProperties/<fill>"), ("c:dLbls child", "C10", "decl:CT_DLbls/c:dLbl"),
 ("a:spLocks", "C10", "decl:CT_NonVisualDrawingShapeProps/a:spLocks"), ("c:plotArea", "C10", "decl:CT_PlotArea/c:catAx; decl:CT_PlotArea/c:valAx"),
 ("p:presentation child", "C10", "decl:CT_Presentation/p:sldMasterIdLst; p:sldIdLst; p:sldSz"), ("a:pPr inserted", "C10", "decl:CT_TextParagraph/a:pPr"),
 ("charts, OLE objects and movies", "C10", "decl:site:add_movie; _add_chart_graphicFrame; add_ole_object"),
 ("integral attribute values", "C11", "w:<int type>:bool"), ("rejected row height", "C14", "frame-size-after-rejected-resize"),
 ("non-finite floats", "C11", "w:XsdDouble:float; w:ST_AxisUnit:float"), ("huge angle", "C11", "rej:ST_Angle:OverflowError"),
 ("ST_PositiveFixedAngle", "C11", "w:ST_PositiveFixedAngle:float"), ("ST_HexColorRGB", "C11", "w:ST_HexColorRGB:str"),
 ("dates before year 1000", "C18", "date-year-lt-1000"), ("time-zone-aware", "C18", "date-tzaware"), ("revision accepted True", "C18", "revision-bool"),
 ("W3CDTF reader", "C18", "w3cdtf-minutes-granularity; w3cdtf-fraction-offset-ignored; w3cdtf-fraction-unreadable"),
 ("GAELIC_SCOTLAND", "C20", "bij:MSO_LANGUAGE_ID.GAELIC_SCOTLAND"), ("foldedCorner", "C20", "preset:FOLDED_CORNER"), ("upDownArrow", "C20", "preset:UP_DOWN_ARROW"),
 ("empty group inside a group", "C17", "group-stale-after-add-group-shape"), ("freeform added to a group", "C17", "group-stale-after-freeform"),
 ("datetime category labels", "C08", "datetime-time-of-day; datetime-1900-01-01"), ("categories reference used chr", "C08", "category-depth-over-26"),
 ("missing numeric category label", "C08", "numeric-category-none"), ("str.isdigit", "C06", "shape-id-isdigit-not-int"),
 ("slide-image placeholder", "C13", "add_slide-raises-Key:sldImg"), ("header or slide-image placeholder", "C13", "geometry-raises-Key:hdr"),
 ("empty category label read back", "C07", "empty-category-label-reads-None"),
 ("reading Shape.text", "C12", "accessor:Shape.text"), ("reading _Cell.text", "C12", "accessor:_Cell.text"), ("reading DataLabels.show_", "C12", "accessor:DataLabels.show_*"),
 ("very large rotations", "C11", "rt:ST_Angle"),
 ("relationship targets were cached", "C02", "stale-target-after-rename (also C12 deck:renamed-slides-relationships)"),
 ("file name containing a double quote", "C05", "sink:new_pic/desc"), ("insert_picture spliced", "C05", "sink:new_ph_pic/name,desc"),
 ("add_movie spliced", "C05", "sink:new_video_pic/shape_name"), ("graphic-frame name was spliced", "C05", "sink:new_graphicFrame/name"),
 ("add_ole_object spliced", "C05", "sink:new_ole_object_graphicFrame/progId,name"), ("chart number formats were spliced", "C05", "sink:xmlwriter/number_format (8 sites); C07 number-format-quote-breaks-date-axis"),
 ("came back as blanks", "C05", "attr-ws-normalised:* (9 attribute sinks)"), ("came back as a line feed", "C05", "text-cr-normalised:* (9 text sinks); C07 cr-in-string-becomes-lf"),
 ("ColorFormat.theme_color", "C03", "color.theme_color|required-attr|a:schemeClr/@val"), ("rejected Font.name", "C03", "font.name|required-attr|a:latin/@typeface"),
 ("line_spacing / space_before / space_after", "C03", "paragraph.*|required-attr|a:spcPct/@val, a:spcPts/@val"), ("data-label position", "C03", "dlabels.position / point_label.position|required-attr|c:dLblPos/@val"),
 ("Marker.style", "C03", "marker.style|required-attr|c:symbol/@val"), ("Legend.horz_offset", "C03", "legend.horz_offset|required-attr|c:x/@val"),
 ("begin_connect / end_connect", "C03", "connect|required-attr|a:stCxn/@idx, a:endCxn/@idx"), ("rejected number_format assignment", "C03", "dlabels/ticklabels.number_format|required-attr|c:numFmt/@formatCode"),
 ("number_format_is_linked created", "C03", "*.number_format_is_linked|required-attr|c:numFmt/@formatCode"), ("non-str to TextFrame.text", "C03", "*.text|missing-child|p:txBody, a:txBody, c:rich"),
 ("non-str hyperlink address", "C03", "hyperlink.address|package-broken"),
 ("sharing an extension with different default-table", "C01", "default-clash"), ("directory-form package treated a directory", "C16", "dir-form-target-names-directory"),
 ("inf to a shape adjustment", "C09", "wrong-exception:Adjustment.effective_value:OverflowError"), ("vary_by_categories raised", "C09", "wrong-exception:_BasePlot.vary_by_categories:AttributeError"),
 ("has_data_labels raised", "C09", "wrong-exception:_BasePlot.has_data_labels:AttributeError"), ("refused click_action.target_slide", "C09", "wrong-exception / reject-breaks-getter:ActionSetting.target_slide"),
 ("brightness accepted NaN", "C09", "ood-accepted:ColorFormat.brightness"), ("a:lumMod / a:lumOff", "C09", "reject-breaks-getter:_Color.brightness"),
 ("MSO_AUTO_SIZE.MIXED", "C09", "ood-accepted:TextFrame.auto_size"), ("refused Marker.size", "C09", "reject-breaks-getter:Marker.size"),
 ("refused slide_width / slide_height", "C09", "reject-breaks-getter:Presentation.slide_width / slide_height"), ("refused left / top / width / height", "C09", "reject-breaks-sibling:BaseShape / _InheritsDimensions left top width height"),
 ("zeroed the other three", "C09", "frame:_InheritsDimensions.left->_InheritsDimensions.top; top->left; width->height; height->width"),
 ("without p:sldSz", "C09", "accept-breaks-getter:Presentation.slide_width; accept-breaks-getter:Presentation.slide_height"),
 ("beyond the range of a double", "C11", "rej:XsdDouble / ST_AxisUnit / ST_Angle:int-overflow (to_xml(10**400) raised OverflowError)"),
 ("took the part name of an existing slide", "C13", "save-reopen:duplicate-slide-partname (also the add_slide half of C06 unlisted-slide-partname-collision)"),
 ("EMF images", "C15", "emf-stored-as-wmf"), ("TIFF without resolution", "C15", "tiff-without-resolution-sized-at-1dpi"),
]
k = json.load(open(os.path.join(V, "known_findings.json")))
k = [e for e in k if not e["status"].startswith("fixed:")]
log = subprocess.check_output(["git", "-C", "/repo", "log", "--format=%h %s"]).decode().strip().split("\n")
n = 0
for line in reversed(log):
    h, msg = line.split(" ", 1)
    if not msg.startswith("fix:"):
        continue
    hit = [p for p in PROP if p[0] in msg]
    prop, sig = (hit[0][1], hit[0][2]) if hit else ("?", "")
    if not hit:
        print("UNMAPPED fix commit:", line)
    k.append({"property": prop, "status": "fixed: " + h, "signature": sig, "what": msg,
              "line": "fixed: property=%s %s %s" % (prop, h, msg[5:])})
    n += 1
json.dump(k, open(os.path.join(V, "known_findings.json"), "w"), indent=1)
print("%d fixed entries, %d known entries" % (n, sum(1 for e in k if e["status"] == "known")))
