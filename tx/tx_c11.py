"""T3 for C11: regenerate coq/gen/GenC11.v from /repo's current tree.

* every simple-type class of pptx.oxml.simpletypes: shallow Gallina for its effective
  to_xml / from_xml (tx/pyshallow.py, through the MRO), a claimed descriptor found by
  probing the live class, and a lemma that the claim holds FOR ALL python values (proved by
  Coq, not by the probe);
* every attribute declaration of every registered element class (recovered from the
  property closures) x every XSD type of its tags that declares the attribute: the lexical
  space of the attribute's schema type (lexspec) from the XSD facets.
"""
import inspect
import json
import os
import sys

sys.path.insert(0, os.path.dirname(os.path.abspath(__file__)))
from xsdlib import REPO, XS, Schemas, write_if_changed  # noqa: E402
from pyshallow import Translator, Unmodelled, coq_str  # noqa: E402

sys.path.insert(0, REPO + "/src")
VERIF = os.path.dirname(os.path.dirname(os.path.abspath(__file__)))

BASE_RANGE = {"int": (-2**31, 2**31 - 1), "long": (-2**63, 2**63 - 1), "unsignedInt": (0, 2**32 - 1),
              "unsignedByte": (0, 255), "unsignedShort": (0, 65535), "byte": (-128, 127),
              "short": (-32768, 32767), "unsignedLong": (0, 2**64 - 1), "integer": None,
              "nonNegativeInteger": None, "positiveInteger": None}
STRINGY = {"string", "token", "NCName", "anyURI", "ID", "normalizedString", "NMTOKEN", "Name", "language", "dateTime"}
PCT = {r"-?[0-9]+(\.[0-9]+)?%": True, r"[0-9]+(\.[0-9]+)?%": False}
UM = {r"-?[0-9]+(\.[0-9]+)?(mm|cm|in|pt|pc|pi)": True, r"[0-9]+(\.[0-9]+)?(mm|cm|in|pt|pc|pi)": False}


# ----------------------------------------------------------------- schema side
def attrs_of(sch, q, seen=None):
    e, nsmap, pfx, _f = sch.ctypes[q]
    out = {}

    def walk(n, nsmap, pfx):
        for c in n:
            if not isinstance(c.tag, str):
                continue
            if c.tag == XS + "attribute":
                if c.get("ref"):
                    rq = sch.qn(c.get("ref"), nsmap, pfx)
                    ty = None
                    if rq in sch.gattrs:
                        ge, gn, gp, _ = sch.gattrs[rq]
                        ty = sch.qn(ge.get("type"), gn, gp) if ge.get("type") else None
                    out["%s:%s" % rq] = (ty, c.get("use", "optional"), c.get("default"))
                else:
                    st = c.find(XS + "simpleType")
                    ty = sch.qn(c.get("type"), nsmap, pfx) if c.get("type") else (("inline", st, nsmap, pfx) if st is not None else None)
                    out[c.get("name")] = (ty, c.get("use", "optional"), c.get("default"))
            elif c.tag == XS + "attributeGroup" and c.get("ref"):
                g, gn, gp, _ = sch.agroups[sch.qn(c.get("ref"), nsmap, pfx)]
                walk(g, gn, gp)
            elif c.tag in (XS + "complexContent", XS + "simpleContent"):
                ext = [x for x in c if isinstance(x.tag, str) and x.tag != XS + "annotation"][0]
                base = sch.qn(ext.get("base"), nsmap, pfx)
                if base in sch.ctypes:
                    out.update(attrs_of(sch, base))
                walk(ext, nsmap, pfx)

    walk(e, nsmap, pfx)
    return out


def lex_to_coq(t):
    k = t[0]
    if k == "int":
        return "(LInt (%d) (%d))" % (t[1], t[2])
    if k == "enum":
        return "(LEnum [%s])" % "; ".join(coq_str(x) for x in t[1])
    if k == "union":
        return "(LUnion [%s])" % "; ".join(lex_to_coq(x) for x in t[1])
    if k == "hex":
        return "(LHexBin %d)" % t[1]
    if k == "pct":
        return "(LPercent %s)" % ("true" if t[1] else "false")
    if k == "um":
        return "(LUnivMeasure %s)" % ("true" if t[1] else "false")
    return {"string": "LString", "bool": "LBool", "double": "LDouble", "unknown": "LUnknown"}[k]


def unknown_texts(lx):
    """texts of the ("unknown", text) members of a lexical space, depth first."""
    if lx[0] == "unknown":
        return [lx[1]]
    if lx[0] == "union":
        return [t for m in lx[1] for t in unknown_texts(m)]
    return []


def lexspec(sch, q, unm):
    """XSD simple type -> lexical space as a python structure (see lex_to_coq)."""
    if q is None:
        return ("string",)            # attribute without a type = anySimpleType
    if q[0] == "inline":
        _k, st, nsmap, pfx = q
        return lex_of_elem(sch, st, nsmap, pfx, unm)
    if q[0] == "xsd":
        b = q[1]
        if b in BASE_RANGE:
            r = BASE_RANGE[b]
            return ("int", r[0], r[1]) if r else ("unknown", "unbounded integer " + b)
        if b in STRINGY:
            return ("string",)
        if b == "boolean":
            return ("bool",)
        if b in ("double", "float"):
            return ("double",)
        if b == "hexBinary":
            return ("unknown", "hexBinary without length")
        unm.append("xsd builtin %s" % b)
        return ("unknown", b)
    if q not in sch.stypes:
        unm.append("simple type %s:%s not loaded" % q)
        return ("unknown", "%s:%s" % q)
    e, nsmap, pfx, _f = sch.stypes[q]
    return lex_of_elem(sch, e, nsmap, pfx, unm)


def lex_of_elem(sch, e, nsmap, pfx, unm):
    u = e.find(XS + "union")
    if u is not None:
        members = [lexspec(sch, sch.qn(m, nsmap, pfx), unm) for m in (u.get("memberTypes") or "").split()]
        members += [lex_of_elem(sch, st, nsmap, pfx, unm) for st in u.findall(XS + "simpleType")]
        return ("union", members)
    r = e.find(XS + "restriction")
    if r is None:
        unm.append("simple type without restriction/union")
        return ("unknown", "no restriction")
    base = sch.qn(r.get("base"), nsmap, pfx)
    facets = {}
    enums = []
    for c in r:
        if not isinstance(c.tag, str):
            continue
        k = c.tag.replace(XS, "")
        if k == "enumeration":
            enums.append(c.get("value"))
        elif k != "annotation":
            facets.setdefault(k, c.get("value"))
    b = lexspec(sch, base, unm)
    if enums:
        return ("enum", enums)
    if b[0] == "int":
        lo, hi = b[1], b[2]
        if "minInclusive" in facets:
            lo = max(lo, int(facets["minInclusive"]))
        if "maxInclusive" in facets:
            hi = min(hi, int(facets["maxInclusive"]))
        if "minExclusive" in facets:
            lo = max(lo, int(facets["minExclusive"]) + 1)
        if "maxExclusive" in facets:
            hi = min(hi, int(facets["maxExclusive"]) - 1)
        return ("int", lo, hi)
    if "pattern" in facets:
        p = facets["pattern"]
        if p in PCT:
            return ("pct", PCT[p])
        if p in UM:
            return ("um", UM[p])
        return ("unknown", "pattern " + p)     # a pattern we do not model: not judged, listed in the evidence
    if base == ("xsd", "hexBinary") and "length" in facets:
        return ("hex", int(facets["length"]))
    return b


# ----------------------------------------------------------------- python side
def registered_classes():
    import pptx  # noqa
    import pptx.oxml  # noqa
    import pptx.opc.oxml  # noqa
    from pptx.oxml import element_class_lookup
    from pptx.oxml.ns import _nsmap

    regs = {}
    for p, uri in _nsmap.items():
        ns = element_class_lookup.get_namespace(uri)
        try:
            items = list(ns.items())
        except Exception:
            items = []
        for local, cls in items:
            local = local.decode() if isinstance(local, bytes) else local
            regs["%s:%s" % (p, local)] = cls
    return regs


def attr_decls(cls):
    from pptx.oxml.xmlchemy import BaseAttribute

    res = {}
    for klass in cls.__mro__:
        for name, val in vars(klass).items():
            if isinstance(val, property) and val.fget is not None and val.fget.__closure__:
                for cell in val.fget.__closure__:
                    try:
                        c = cell.cell_contents
                    except ValueError:
                        continue
                    if isinstance(c, BaseAttribute):
                        res.setdefault(name, (c._attr_name, c._simple_type, type(c).__name__, getattr(c, "_default", None)))
    return res


def child_decl_tags(cls):
    """tags of the children a class declares (any cardinality)."""
    from pptx.oxml.xmlchemy import _BaseChildElement

    out = set()
    for klass in cls.__mro__:
        for _name, val in vars(klass).items():
            fns = []
            if isinstance(val, property) and val.fget is not None:
                fns.append(val.fget)
            elif callable(val):
                fns.append(val)
            for fn in fns:
                for cell in (getattr(fn, "__closure__", None) or ()):
                    try:
                        c = cell.cell_contents
                    except ValueError:
                        continue
                    if isinstance(c, _BaseChildElement) and isinstance(getattr(c, "_nsptagname", None), str):
                        out.add(c._nsptagname)
    return out


def restricted_tag_types(sch, by_class):
    """tag -> XSD types it has under parents whose python class declares it as a child."""
    res = {}

    def elt_types(cm, tag, acc):
        if cm[0] == "elt":
            if cm[1] == tag and cm[2]:
                acc.add(cm[2])
        elif cm[0] == "rep":
            elt_types(cm[3], tag, acc)
        elif cm[0] in ("seq", "alt"):
            for c in cm[1]:
                elt_types(c, tag, acc)

    for cls, tags in by_class.items():
        kids = child_decl_tags(cls)
        if not kids:
            continue
        for ptag in tags:
            for pty in sch.tag_types.get(ptag, ()):
                if pty not in sch.ctypes:
                    continue
                cm = sch.ctype_cm(pty)
                for k in kids:
                    acc = set()
                    elt_types(cm, k, acc)
                    if acc:
                        res.setdefault(k, set()).update(acc)
    return res


def wire_val(v):
    """python value -> the runner's wire form (see coq/lib/PyValWire.v); None for anything else."""
    import math
    if v is None:
        return "n"
    if isinstance(v, bool):
        return "b:1" if v else "b:0"
    if isinstance(v, int) and type(v).__module__ in ("builtins", "pptx.util"):
        return "i:%d" % v
    if isinstance(v, float) and math.isfinite(v):
        n, d = v.as_integer_ratio()
        e = -(d.bit_length() - 1)
        while n and n % 2 == 0:
            n //= 2
            e += 1
        return "f:%d %d" % (n, e if n else 0)
    if isinstance(v, str):
        return "s:" + v
    return None


def probe_desc(st):
    """Claimed canonical behaviour of a simple-type class, found by probing; Coq proves it."""
    def tx(v):
        try:
            return ("ok", st.to_xml(v))
        except TypeError:
            return ("err", "Type")
        except ValueError:
            return ("err", "Value")
        except Exception as e:  # noqa
            return ("err", type(e).__name__)

    big = 2**70
    if tx(True) == ("ok", "1") and tx(False) == ("ok", "0") and tx("x")[1] == "Type" and tx(2)[1] == "Type":
        return "DBool"
    if tx("q")[1] == "Type" and tx(1.5)[1] == "Type" and tx(None)[1] == "Type":
        acc = [k for k in (0, 1, -1, 2, 100, 255, 256, 1000, 65535, 914400, 2**31 - 1, -2**31, 2**63 - 1, big, -big)
               if tx(k)[0] == "ok"]
        if acc and all(tx(k) == ("ok", str(k)) for k in acc):
            lo_ok, hi_ok = tx(-big)[0] == "ok", tx(big)[0] == "ok"
            if lo_ok and hi_ok:
                return "DIntAnyB" if tx(True) == ("ok", "1") else "DIntAny"
            seed = acc[0]

            def bisect(good, bad):
                while abs(good - bad) > 1:
                    mid = (good + bad) // 2
                    if tx(mid)[0] == "ok":
                        good = mid
                    else:
                        bad = mid
                return good
            lo = bisect(seed, -big * 4)
            hi = bisect(seed, big * 4)
            b = tx(True) if lo <= 1 <= hi else None
            kind = "DIntRangeB" if (b is not None and b == ("ok", "1")) else "DIntRange"
            return "(%s (%d) (%d))" % (kind, lo, hi)
        return "DCustom"
    if tx(5)[1] == "Type" and tx(None)[1] == "Type":
        mem = getattr(st, "_members", None)
        if mem is not None and all(tx(m) == ("ok", m) for m in mem) and tx("\u0001zz")[1] == "Value":
            return "(DStrEnum [%s])" % "; ".join(coq_str(m) for m in mem)
        if tx("x y") == ("ok", "x y") and tx("") == ("ok", ""):
            return "DStrAny"
        # string constants of the effective validate (e.g. ST_TargetMode)
        import ast
        import textwrap
        try:
            src = textwrap.dedent(inspect.getsource(st.validate.__func__))
            consts = [n.value for n in ast.walk(ast.parse(src)) if isinstance(n, ast.Constant) and isinstance(n.value, str)]
        except Exception:  # noqa
            consts = []
        # fixed-length strings over a constant alphabet, written upper-cased (ST_HexColorRGB)
        for alpha in consts:
            if len(alpha) >= 10 and tx(alpha[:6]) == ("ok", alpha[:6].upper()) and tx(alpha[:5])[1] == "Value" \
                    and tx(alpha[:7])[1] == "Value" and tx("zzzzz!")[1] == "Value":
                return "(DCharsetUpper 6 %s)" % coq_str(alpha)
        acc = [c for c in dict.fromkeys(consts) if tx(c) == ("ok", c)]
        if acc and tx("\u0001zz")[1] == "Value" and tx("")[1] == "Value":
            return "(DStrEnum [%s])" % "; ".join(coq_str(m) for m in acc)
        return "DCustom"
    return "DCustom"


def probe_rdesc(st):
    def fx(s):
        try:
            return ("ok", st.from_xml(s))
        except Exception as e:  # noqa
            return ("err", type(e).__name__)
    r12 = fx("12")
    if r12 == ("ok", 12) and isinstance(r12[1], int) and fx("x")[0] == "err" and fx("12%")[0] == "err" \
            and fx("-3") == ("ok", -3) and fx("1.0")[0] == "err" and fx("12pt")[0] == "err" and fx("1in")[0] == "err":
        return "RInt"
    if fx("x y") == ("ok", "x y"):
        return "RStr"
    if fx("true") == ("ok", True) and fx("0") == ("ok", False) and fx("x")[0] == "err":
        return "RBool"
    return "RCustom"


def main():
    import pptx.oxml.simpletypes as stmod
    from pptx.enum.base import BaseXmlEnum

    unm = []
    sch = Schemas()
    tr = Translator(vars(stmod))
    classes = [c for _n, c in sorted(vars(stmod).items())
               if inspect.isclass(c) and issubclass(c, stmod.BaseSimpleType) and c.__module__ == stmod.__name__]
    st_info = {}
    abstract = []
    for c in classes:
        try:
            tr.method(c, "to_xml")
            w_ok = True
        except Unmodelled as e:
            w_ok = False
            werr = str(e)
        try:
            tr.method(c, "from_xml")
            r_ok = True
        except Unmodelled as e:
            r_ok = False
            rerr = str(e)
        if not w_ok and not r_ok:
            abstract.append(c.__name__)
            continue
        st_info[c] = {"w": w_ok, "r": r_ok, "werr": None if w_ok else werr, "rerr": None if r_ok else rerr}
    # attribute declarations
    regs = registered_classes()
    by_class = {}
    for tag, cls in sorted(regs.items()):
        by_class.setdefault(cls, []).append(tag)
    rows = []
    notjudged = []
    restricted = restricted_tag_types(sch, by_class)
    for cls, tags in sorted(by_class.items(), key=lambda kv: kv[0].__name__):
        for pname, (aname, st, kind, default) in sorted(attr_decls(cls).items()):
            cands = []
            for pool in (lambda tag: restricted.get(tag) or sch.tag_types.get(tag, ()), lambda tag: sch.tag_types.get(tag, ())):
                for tag in tags:
                    for ty in sorted(pool(tag)):
                        if ty in sch.ctypes:
                            at = attrs_of(sch, ty)
                            if aname in at:
                                cands.append((tag, ty, at[aname]))
                if cands:
                    break
            if not cands:
                notjudged.append({"cls": cls.__name__, "attr": aname, "st": st.__name__, "why": "attribute not declared by any candidate XSD type of %s" % tags})
                continue
            lexes, types = [], []
            for tag, ty, (aty, use, dflt) in cands:
                lx = lexspec(sch, aty, unm)
                if lx not in lexes:
                    lexes.append(lx)
                if "%s:%s" % ty not in types:
                    types.append("%s:%s" % ty)
            # a tag with several XSD types: a value must be valid for SOME candidate type
            lx = lexes[0] if len(lexes) == 1 else ("union", lexes)
            rows.append({"cls": cls.__name__, "tag": cands[0][0], "type": " | ".join(types), "attr": aname, "prop": pname,
                         "default": wire_val(default),
                         "st": st.__name__, "kind": kind, "use": cands[0][2][1], "lex": lx, "lex_coq": lex_to_coq(lx),
                         "is_enum": inspect.isclass(st) and issubclass(st, BaseXmlEnum)})
    # used simple types must be translatable
    used = {r["st"] for r in rows}
    for c, info in st_info.items():
        if c.__name__ in used:
            if not info["w"]:
                unm.append("to_xml of %s: %s" % (c.__name__, info["werr"]))
            if not info["r"]:
                unm.append("from_xml of %s: %s" % (c.__name__, info["rerr"]))
    for a in abstract:
        if a in used:
            unm.append("abstract simple type %s is used by an attribute" % a)
    # emit
    L = ["(* GENERATED by tx/tx_c11.py from /repo -- do not edit *)",
         "From V.lib Require Import Prelude PyFloat PyVal.",
         "From V.model Require Import SimpleTypeLib.",
         "From V.proofs Require Import SimpleTypeLib_tactics.", ""]
    for _name, text in tr.defs:
        L.append(text)
        L.append("")
    all_defs = " ".join(n for n, _ in tr.defs)
    desc_names = " ".join("desc_%s rdesc_%s" % (c.__name__, c.__name__) for c in st_info)
    meta_st = {}
    DEFS = []
    PENDING_LTAC = len(L)
    L.append("")
    enums = {}
    for c, info in sorted(st_info.items(), key=lambda kv: kv[0].__name__):
        n = c.__name__
        d = probe_desc(c) if info["w"] else "DCustom"
        rd = probe_rdesc(c) if info["r"] else "RCustom"
        meta_st[n] = {"desc": d, "rdesc": rd, "w": info["w"], "r": info["r"]}
        DEFS.append("Definition desc_%s : desc := %s." % (n, d))
        DEFS.append("Definition rdesc_%s : rdesc := %s." % (n, rd))
        if d != "DCustom":
            L.append("Lemma desc_%s_ok : forall v, %s__to_xml v = desc_to_xml desc_%s v." % (n, n, n))
            L.append("Proof. desc_solve unfold_gen. Qed.")
        if rd != "RCustom":
            L.append("Lemma rdesc_%s_ok : forall s, %s__from_xml (PStr s) = rdesc_from_xml rdesc_%s (PStr s)." % (n, n, n))
            L.append("Proof. rdesc_solve unfold_gen. Qed.")
        L.append("")
    L[PENDING_LTAC] = "\n".join(DEFS) + "\nLtac unfold_gen := cbv beta iota delta [%s %s]." % (all_defs, desc_names)
    # enumerations used as attribute types
    for r in rows:
        if r["is_enum"] and r["st"] not in enums:
            import importlib
            st = None
            for modname in ("shapes", "text", "dml", "chart", "lang", "action"):
                m = importlib.import_module("pptx.enum." + modname)
                if hasattr(m, r["st"]):
                    st = getattr(m, r["st"])
            toks = [m.xml_value for m in st if getattr(m, "xml_value", None)]
            toks = list(dict.fromkeys(toks))
            enums[r["st"]] = toks
            L.append("Definition enum_%s : list str := [%s]." % (r["st"], "; ".join(coq_str(t) for t in toks)))
    L.append("")
    L.append("Open Scope N_scope.")
    out_rows = []
    wproofs, rproofs = [], []
    for i, r in enumerate(rows):
        r["id"] = i
        if r["is_enum"]:
            d, rd = "(DEnumTokens enum_%s)" % r["st"], "(REnumTokens enum_%s)" % r["st"]
            fw, fr = "(enum_tokens_to_xml enum_%s)" % r["st"], "(enum_tokens_to_xml enum_%s)" % r["st"]
            wproofs.append("(fun v => eq_refl)")
            rproofs.append("(fun s => eq_refl)")
            r["desc"], r["rdesc"] = "DEnumTokens", "REnumTokens"
        else:
            d, rd = "desc_%s" % r["st"], "rdesc_%s" % r["st"]
            fw, fr = "%s__to_xml" % r["st"], "%s__from_xml" % r["st"]
            r["desc"], r["rdesc"] = meta_st[r["st"]]["desc"], meta_st[r["st"]]["rdesc"]
            wproofs.append("desc_%s_ok" % r["st"] if r["desc"] != "DCustom" else None)
            rproofs.append("rdesc_%s_ok" % r["st"] if r["rdesc"] != "RCustom" else None)
        out_rows.append("  {| ar_id := %d; ar_desc := %s; ar_rdesc := %s; ar_lex := %s; ar_to_xml := %s; ar_from_xml := %s |}" % (
            i, d, rd, r["lex_coq"], fw, fr))
    L.append("Definition rows : list attr_row := [\n%s\n]." % ";\n".join(out_rows))
    L.append("Close Scope N_scope.")
    # every row whose descriptor is not custom really behaves as its descriptor (for all values)
    L.append("#[local] Hint Resolve %s : c11w." % " ".join(sorted({w for w in wproofs if w and w.startswith("desc_")})))
    L.append("#[local] Hint Resolve %s : c11r." % " ".join(sorted({w for w in rproofs if w and w.startswith("rdesc_")})))
    L.append("Lemma rows_write_desc : Forall (fun r => is_custom_w (ar_desc r) = false -> forall v, ar_to_xml r v = desc_to_xml (ar_desc r) v) rows.")
    L.append("Proof. unfold rows. repeat (constructor; [ cbv beta; cbn [ar_to_xml ar_desc]; intros H; first [ vm_compute in H; discriminate H | clear H; solve [ auto with c11w ] | clear H; intros; reflexivity ] | ]). constructor. Qed.")
    L.append("Lemma rows_read_desc : Forall (fun r => is_custom_r (ar_rdesc r) = false -> forall s, ar_from_xml r (PStr s) = rdesc_from_xml (ar_rdesc r) (PStr s)) rows.")
    L.append("Proof. unfold rows. repeat (constructor; [ cbv beta; cbn [ar_from_xml ar_rdesc]; intros H; first [ vm_compute in H; discriminate H | clear H; solve [ auto with c11r ] | clear H; intros; reflexivity ] | ]). constructor. Qed.")
    L.append("Open Scope N_scope.")
    # known findings
    kf_path = os.path.join(VERIF, "known_findings.json")
    known_w, known_r = set(), set()
    if os.path.exists(kf_path):
        for e in json.load(open(kf_path)):
            if e.get("property") == "C11" and e.get("status") == "known":
                s = e.get("signature", "")
                if s.startswith("attr-write:"):
                    known_w.add(e.get("row", ""))
                if s.startswith("attr-read:"):
                    known_r.add(e.get("row", ""))
    for r in rows:
        r["sig"] = "%s/@%s:%s" % (r["cls"], r["attr"], r["st"])
    L.append("Definition known_write : list N := [%s]." % "; ".join(str(r["id"]) for r in rows if r["sig"] in known_w))
    L.append("Definition known_read : list N := [%s]." % "; ".join(str(r["id"]) for r in rows if r["sig"] in known_r))
    # the facets behind every LUnknown member of a row's lexical space, in traversal order (the text
    # of the pattern facet, or why the type could not be expressed): proofs/C11_class_instance.v
    # looks each text up in its table of transcribed patterns; a text it does not know stays unjudged
    L.append("Definition row_unknowns : list (N * list str) := [%s]." % "; ".join(
        "(%d, [%s])" % (r["id"], "; ".join(coq_str(t) for t in unknown_texts(r["lex"])))
        for r in rows if unknown_texts(r["lex"])))
    L.append("Close Scope N_scope.")
    L.append("Definition n_unmodelled : nat := %d%%nat." % len(unm))
    disp_w = "fun v => Err OtherErr"
    disp_r = "fun v => Err OtherErr"
    for c, info in sorted(st_info.items(), key=lambda kv: kv[0].__name__, reverse=True):
        n = c.__name__
        if info["w"]:
            disp_w = "if str_eqb name %s then %s__to_xml else %s" % (coq_str(n), n, disp_w)
        if info["r"]:
            disp_r = "if str_eqb name %s then %s__from_xml else %s" % (coq_str(n), n, disp_r)
    L.append("Definition dispatch_to_xml (name : str) : pyval -> res pyval := %s." % disp_w)
    L.append("Definition dispatch_from_xml (name : str) : pyval -> res pyval := %s." % disp_r)
    # the simple-type class behind every non-enumeration row, and the proof that the row's writer / reader IS that
    # class's to_xml / from_xml (proofs/C11_rows_custom.v lifts class-level theorems to rows through this)
    L.append("Definition row_classes : list str := [%s]." % "; ".join(
        ("[]" if r["is_enum"] else coq_str(r["st"])) for r in rows))
    L.append("Definition row_is (r : attr_row) (c : str) : Prop := c = [] \\/ ((forall v, ar_to_xml r v = dispatch_to_xml c v) /\\ (forall v, ar_from_xml r v = dispatch_from_xml c v)).")
    L.append("Lemma rows_classes_ok : Forall2 row_is rows row_classes.")
    L.append("Proof. unfold rows, row_classes. repeat (constructor; [ first [ left; reflexivity | right; split; intros v; reflexivity ] | ]). constructor. Qed.")
    write_if_changed(os.path.join(VERIF, "coq", "gen", "GenC11.v"), "\n".join(L) + "\n")
    json.dump({"rows": rows, "simple_types": meta_st, "enums": enums, "unmodelled": unm, "abstract": abstract,
               "notjudged": notjudged, "n_defs": len(tr.defs)},
              open(os.path.join(VERIF, "coq", "gen", "c11_meta.json"), "w"), indent=1, default=str)
    print("tx_c11: %d simple types (%d abstract), %d gallina defs, %d attribute rows, %d enums, %d not judged, %d unmodelled" % (
        len(st_info), len(abstract), len(tr.defs), len(rows), len(enums), len(notjudged), len(unm)))


if __name__ == "__main__":
    main()
