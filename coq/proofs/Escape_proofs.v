(** Lemmas for property C05 over model/Escape.v. *)
From V.lib Require Import Prelude.
From V.model Require Import Escape.
Open Scope N_scope.

(** ---- escape as a single pass ---- *)
Lemma replace1_app k rep a b : replace1 k rep (a ++ b) = replace1 k rep a ++ replace1 k rep b.
Proof.
  induction a as [|c a IH]; simpl; auto.
  destruct (c =? k); rewrite IH; simpl; auto. rewrite app_assoc. reflexivity.
Qed.

Definition one_amp (c : N) : str := if c =? c_amp then e_amp else [c].

Lemma esc_one c : replace1 c_lt e_lt (replace1 c_gt e_gt (one_amp c)) = esc_char c.
Proof.
  unfold one_amp, esc_char.
  destruct (c =? c_amp) eqn:Ea; [reflexivity|].
  cbn [replace1].
  destruct (c =? c_gt) eqn:Eg.
  - apply N.eqb_eq in Eg; subst c. reflexivity.
  - cbn [replace1]. destruct (c =? c_lt) eqn:El; [rewrite app_nil_r|]; reflexivity.
Qed.

Lemma sax_escape_cons c s : sax_escape (c :: s) = esc_char c ++ sax_escape s.
Proof.
  unfold sax_escape.
  change (replace1 c_amp e_amp (c :: s)) with
    (if c =? c_amp then e_amp ++ replace1 c_amp e_amp s else c :: replace1 c_amp e_amp s).
  assert (H : (if c =? c_amp then e_amp ++ replace1 c_amp e_amp s else c :: replace1 c_amp e_amp s)
              = one_amp c ++ replace1 c_amp e_amp s).
  { unfold one_amp; destruct (c =? c_amp); reflexivity. }
  rewrite H, !replace1_app, esc_one. reflexivity.
Qed.

Lemma sax_escape_flat s : sax_escape s = flat_map esc_char s.
Proof.
  induction s as [|c s IH]; [reflexivity|]. rewrite sax_escape_cons, IH. reflexivity.
Qed.

Lemma esc_q_one c : replace1 c_quot e_quot (esc_char c) = esc_char_q c.
Proof.
  unfold esc_char_q, esc_char.
  destruct (c =? c_quot) eqn:Eq.
  - apply N.eqb_eq in Eq; subst c. reflexivity.
  - destruct (c =? c_amp); [reflexivity|]. destruct (c =? c_lt); [reflexivity|].
    destruct (c =? c_gt); [reflexivity|]. cbn [replace1]. rewrite Eq. reflexivity.
Qed.

Lemma sax_escape_q_flat s : sax_escape_q s = flat_map esc_char_q s.
Proof.
  unfold sax_escape_q. rewrite sax_escape_flat.
  induction s as [|c s IH]; [reflexivity|].
  cbn [flat_map]. rewrite replace1_app, IH, esc_q_one. reflexivity.
Qed.

(** ---- the lexer on escaped text ---- *)
Lemma fold_e_amp cx rb cr acc :
  fold_left (step cx) e_amp (Run (MNorm rb cr) acc) = Run (MNorm 0 false) (c_amp :: acc).
Proof. destruct cx; reflexivity. Qed.
Lemma fold_e_lt cx rb cr acc :
  fold_left (step cx) e_lt (Run (MNorm rb cr) acc) = Run (MNorm 0 false) (c_lt :: acc).
Proof. destruct cx; reflexivity. Qed.
Lemma fold_e_gt cx rb cr acc :
  fold_left (step cx) e_gt (Run (MNorm rb cr) acc) = Run (MNorm 0 false) (c_gt :: acc).
Proof. destruct cx; reflexivity. Qed.
Lemma fold_e_quot cx rb cr acc :
  fold_left (step cx) e_quot (Run (MNorm rb cr) acc) = Run (MNorm 0 false) (c_quot :: acc).
Proof. destruct cx; reflexivity. Qed.

Lemma rev_cons_app {A} (x : A) l acc : rev (x :: l) ++ acc = rev l ++ x :: acc.
Proof. simpl. rewrite <- app_assoc. reflexivity. Qed.

(** The invariant: from character data, escaped text leads back to character data with
    exactly the normalised original appended.  [q] says whether the double quote is
    escaped too; in an attribute it has to be. *)
Definition escf (q : bool) (c : N) : str := if q then esc_char_q c else esc_char c.

Lemma norm_go_keep cx cr c s : (c =? c_cr) = false -> (c =? c_lf) = false -> (c =? c_tab) = false ->
  norm_go cx cr (c :: s) = c :: norm_go cx false s.
Proof.
  intros E1 E2 E3. cbn [norm_go]. rewrite E1, E2. cbn [andb]. unfold attr_ws. rewrite E2, E3.
  destruct cx; reflexivity.
Qed.

Lemma fold_escaped cx (q : bool) : (cx = AttrDq -> q = true) ->
  forall s rb cr acc, xml_str s = true ->
  exists rb' cr', fold_left (step cx) (flat_map (escf q) s) (Run (MNorm rb cr) acc)
                  = Run (MNorm rb' cr') (rev (norm_go cx cr s) ++ acc).
Proof.
  intros Hq. induction s as [|c s IH]; intros rb cr acc Hx.
  - exists rb, cr. reflexivity.
  - cbn [xml_str forallb] in Hx. apply andb_true_iff in Hx as [Hc Hs]. fold (xml_str s) in Hs.
    cbn [flat_map]. rewrite fold_left_app.
    destruct (c =? c_amp) eqn:Ea.
    { apply N.eqb_eq in Ea; subst c.
      replace (escf q c_amp) with e_amp by (destruct q; reflexivity).
      rewrite fold_e_amp. destruct (IH 0%nat false (c_amp :: acc) Hs) as [rb' [cr' E]].
      exists rb', cr'. rewrite E, norm_go_keep by reflexivity. rewrite rev_cons_app. reflexivity. }
    destruct (c =? c_lt) eqn:El.
    { apply N.eqb_eq in El; subst c.
      replace (escf q c_lt) with e_lt by (destruct q; reflexivity).
      rewrite fold_e_lt. destruct (IH 0%nat false (c_lt :: acc) Hs) as [rb' [cr' E]].
      exists rb', cr'. rewrite E, norm_go_keep by reflexivity. rewrite rev_cons_app. reflexivity. }
    destruct (c =? c_gt) eqn:Eg.
    { apply N.eqb_eq in Eg; subst c.
      replace (escf q c_gt) with e_gt by (destruct q; reflexivity).
      rewrite fold_e_gt. destruct (IH 0%nat false (c_gt :: acc) Hs) as [rb' [cr' E]].
      exists rb', cr'. rewrite E, norm_go_keep by reflexivity. rewrite rev_cons_app. reflexivity. }
    destruct ((c =? c_quot) && q) eqn:Eqq.
    { apply andb_true_iff in Eqq as [Eq Hqt]. apply N.eqb_eq in Eq; subst c q.
      change (escf true c_quot) with e_quot.
      rewrite fold_e_quot. destruct (IH 0%nat false (c_quot :: acc) Hs) as [rb' [cr' E]].
      exists rb', cr'. rewrite E, norm_go_keep by reflexivity. rewrite rev_cons_app. reflexivity. }
    assert (Ef : escf q c = [c]).
    { unfold escf, esc_char_q, esc_char. rewrite Ea, El, Eg.
      destruct q; [|reflexivity]. rewrite andb_true_r in Eqq. rewrite Eqq. reflexivity. }
    rewrite Ef. cbn [fold_left step]. rewrite Hc, Ea, El. cbn [negb]. cbn [norm_go].
    destruct (c =? c_cr) eqn:Ecr.
    { destruct (IH 0%nat true (eol cx :: acc) Hs) as [rb' [cr' E]].
      exists rb', cr'. rewrite E, rev_cons_app. reflexivity. }
    destruct ((c =? c_lf) && cr) eqn:Elf.
    { destruct (IH 0%nat false acc Hs) as [rb' [cr' E]]. exists rb', cr'. rewrite E. reflexivity. }
    destruct cx.
    + rewrite (Hq eq_refl), andb_true_r in Eqq. rewrite Eqq.
      destruct (IH 0%nat false (attr_ws c :: acc) Hs) as [rb' [cr' E]].
      exists rb', cr'. rewrite E, rev_cons_app. reflexivity.
    + rewrite Eg. cbn [andb].
      destruct (IH (bump c rb) false (c :: acc) Hs) as [rb' [cr' E]].
      exists rb', cr'. rewrite E, rev_cons_app. reflexivity.
Qed.

(** the same invariant for a value written without escaping that has no metacharacter *)
Lemma fold_plain cx : forall s rb cr acc, xml_str s = true -> plain s = true ->
  exists rb' cr', fold_left (step cx) s (Run (MNorm rb cr) acc)
                  = Run (MNorm rb' cr') (rev (norm_go cx cr s) ++ acc).
Proof.
  induction s as [|c s IH]; intros rb cr acc Hx Hp.
  - exists rb, cr. reflexivity.
  - cbn [xml_str forallb] in Hx. apply andb_true_iff in Hx as [Hc Hs]. fold (xml_str s) in Hs.
    cbn [plain forallb] in Hp. apply andb_true_iff in Hp as [Hm Hp]. fold (plain s) in Hp.
    apply negb_true_iff in Hm. unfold is_meta in Hm.
    apply orb_false_iff in Hm as [Hm Eq]. apply orb_false_iff in Hm as [Hm Eg].
    apply orb_false_iff in Hm as [Ea El].
    cbn [fold_left step]. rewrite Hc, Ea, El. cbn [negb]. cbn [norm_go].
    destruct (c =? c_cr) eqn:Ecr.
    { destruct (IH 0%nat true (eol cx :: acc) Hs Hp) as [rb' [cr' E]].
      exists rb', cr'. rewrite E, rev_cons_app. reflexivity. }
    destruct ((c =? c_lf) && cr) eqn:Elf.
    { destruct (IH 0%nat false acc Hs Hp) as [rb' [cr' E]]. exists rb', cr'. rewrite E. reflexivity. }
    destruct cx.
    + rewrite Eq. destruct (IH 0%nat false (attr_ws c :: acc) Hs Hp) as [rb' [cr' E]].
      exists rb', cr'. rewrite E, rev_cons_app. reflexivity.
    + rewrite Eg. cbn [andb].
      destruct (IH (bump c rb) false (c :: acc) Hs Hp) as [rb' [cr' E]].
      exists rb', cr'. rewrite E, rev_cons_app. reflexivity.
Qed.

Lemma close_quote rb cr acc : step AttrDq (Run (MNorm rb cr) acc) c_quot = Closed acc.
Proof. reflexivity. Qed.

Lemma lex_attr_of_fold payload rb cr acc :
  fold_left (step AttrDq) payload start = Run (MNorm rb cr) acc ->
  lex_attr (c_quot :: payload ++ [c_quot]) = OneValue (rev acc).
Proof.
  intros H. unfold lex_attr. rewrite N.eqb_refl, fold_left_app, H.
  cbn [fold_left]. rewrite close_quote. reflexivity.
Qed.

Lemma lex_text_of_fold payload rb cr acc :
  fold_left (step Text) payload start = Run (MNorm rb cr) acc ->
  lex_text payload = OneText (rev acc).
Proof. intros H. unfold lex_text. rewrite H. reflexivity. Qed.

(** ---- the main theorems ---- *)
Theorem text_safe_norm s : xml_str s = true -> lex_text (sax_escape s) = OneText (norm Text s).
Proof.
  intros Hx. rewrite sax_escape_flat.
  destruct (fold_escaped Text false (fun H => match H with end) s 0%nat false [] Hx) as [rb [cr E]].
  change (escf false) with esc_char in E.
  rewrite (lex_text_of_fold _ _ _ _ E), rev_app_distr, rev_involutive. reflexivity.
Qed.

Theorem attr_safe_norm s : xml_str s = true ->
  lex_attr (c_quot :: sax_escape_q s ++ [c_quot]) = OneValue (norm AttrDq s).
Proof.
  intros Hx. rewrite sax_escape_q_flat.
  destruct (fold_escaped AttrDq true (fun _ => eq_refl) s 0%nat false [] Hx) as [rb [cr E]].
  change (escf true) with esc_char_q in E.
  rewrite (lex_attr_of_fold _ _ _ _ E), rev_app_distr, rev_involutive. reflexivity.
Qed.

(** text escaped with the quot entity as well is equally safe in element text *)
Theorem text_safe_q_norm s : xml_str s = true -> lex_text (sax_escape_q s) = OneText (norm Text s).
Proof.
  intros Hx. rewrite sax_escape_q_flat.
  destruct (fold_escaped Text true (fun _ => eq_refl) s 0%nat false [] Hx) as [rb [cr E]].
  change (escf true) with esc_char_q in E.
  rewrite (lex_text_of_fold _ _ _ _ E), rev_app_distr, rev_involutive. reflexivity.
Qed.

Theorem plain_safe_norm cx s : xml_str s = true -> plain s = true ->
  lex_slot cx s = Got (norm cx s).
Proof.
  intros Hx Hp. destruct (fold_plain cx s 0%nat false [] Hx Hp) as [rb [cr E]].
  unfold lex_slot. destruct cx.
  - rewrite (lex_attr_of_fold _ _ _ _ E), rev_app_distr, rev_involutive. reflexivity.
  - rewrite (lex_text_of_fold _ _ _ _ E), rev_app_distr, rev_involutive. reflexivity.
Qed.

(** ---- strings the parser normalisation leaves alone ---- *)
Lemma norm_text_id s : no_cr s = true -> norm Text s = s.
Proof.
  unfold norm. induction s as [|c s IH]; intros H; [reflexivity|].
  cbn [no_cr forallb] in H. apply andb_true_iff in H as [Hc Hs]. apply negb_true_iff in Hc.
  cbn [norm_go]. rewrite Hc, andb_false_r. f_equal. apply IH, Hs.
Qed.

Lemma norm_attr_id s : no_ws_ctl s = true -> norm AttrDq s = s.
Proof.
  unfold norm. induction s as [|c s IH]; intros H; [reflexivity|].
  cbn [no_ws_ctl forallb] in H. apply andb_true_iff in H as [Hc Hs]. apply negb_true_iff in Hc.
  apply orb_false_iff in Hc as [Hc Ecr]. apply orb_false_iff in Hc as [Et El].
  cbn [norm_go]. rewrite Ecr, andb_false_r. unfold attr_ws. rewrite Et, El. cbn [orb].
  f_equal. apply IH, Hs.
Qed.

Theorem text_safe s : xml_str s = true -> no_cr s = true -> lex_text (sax_escape s) = OneText s.
Proof. intros Hx Hn. rewrite text_safe_norm, norm_text_id; auto. Qed.

Theorem attr_safe s : xml_str s = true -> no_ws_ctl s = true ->
  lex_attr (c_quot :: sax_escape_q s ++ [c_quot]) = OneValue s.
Proof. intros Hx Hn. rewrite attr_safe_norm, norm_attr_id; auto. Qed.

(** what the normalisation does otherwise: nothing is lost except that a line end is one
    character and, in an attribute, white space is a blank *)
Lemma norm_length cx s : (length (norm cx s) <= length s)%nat.
Proof.
  unfold norm. generalize false. induction s as [|c s IH]; intros b; cbn [norm_go length]; [lia|].
  destruct (c =? c_cr); [specialize (IH true); cbn [length]; lia|].
  destruct ((c =? c_lf) && b); [specialize (IH false); lia|].
  specialize (IH false); cbn [length]; lia.
Qed.

(** ---- refutations ---- *)
Theorem attr_sax_refuted : exists s, xml_str s = true /\ no_ws_ctl s = true /\
  lex_attr (c_quot :: sax_escape s ++ [c_quot]) <> OneValue s.
Proof. exists [c_quot]. repeat split; try reflexivity. vm_compute. discriminate. Qed.

Theorem none_refuted :
  (forall cx, lex_slot cx [c_amp] = Broken) /\ (forall cx, lex_slot cx [c_lt] = Broken)
  /\ lex_slot AttrDq [c_quot] = Broken.
Proof. repeat split; try (intros cx; destruct cx); reflexivity. Qed.

(** a value that closes the attribute early and goes on is not a value any more *)
Definition inj_payload : str := [97; 34; 32; 98; 61; 34; 99].   (* a, quote, blank, b, equals, quote, c *)
Lemma attr_injection_broken : lex_slot AttrDq inj_payload = Broken.
Proof. reflexivity. Qed.

(** ---- the CDATA-end sequence ---- *)
Definition cdata_end : str := [c_rbr; c_rbr; c_gt].

Lemma fold_dead cx l : fold_left (step cx) l Dead = Dead.
Proof. induction l; simpl; auto. Qed.

(** in character data the sequence is an error, whatever stands before and after *)
Theorem cdata_end_rejected a b rb cr acc :
  fold_left (step Text) a start = Run (MNorm rb cr) acc ->
  lex_text (a ++ cdata_end ++ b) = BrokenText.
Proof.
  intros Ha. unfold lex_text. rewrite !fold_left_app, Ha.
  assert (E : fold_left (step Text) cdata_end (Run (MNorm rb cr) acc) = Dead).
  { unfold cdata_end. cbn [fold_left].
    assert (E1 : step Text (Run (MNorm rb cr) acc) c_rbr = Run (MNorm (Nat.min 2 (S rb)) false) (c_rbr :: acc)).
    { destruct cr; reflexivity. }
    rewrite E1.
    assert (E2 : step Text (Run (MNorm (Nat.min 2 (S rb)) false) (c_rbr :: acc)) c_rbr
                 = Run (MNorm (Nat.min 2 (S (Nat.min 2 (S rb)))) false) (c_rbr :: c_rbr :: acc)) by reflexivity.
    rewrite E2.
    assert (E3 : (2 <=? Nat.min 2 (S (Nat.min 2 (S rb))))%nat = true) by (apply Nat.leb_le; lia).
    cbn [step]. change (negb (is_xml_char c_gt)) with false. cbv iota.
    change (c_gt =? c_amp) with false. change (c_gt =? c_lt) with false.
    change (c_gt =? c_cr) with false. change (c_gt =? c_lf) with false. cbn [andb].
    rewrite N.eqb_refl, E3. reflexivity. }
  rewrite E, fold_dead. reflexivity.
Qed.

(** a CDATA section in element content is consumed: the text read back is not the text written *)
Example cdata_section_consumed :
  lex_text [97; 60; 33; 91; 67; 68; 65; 84; 65; 91; 120; 93; 93; 62; 98] = OneText [97; 120; 98].
Proof. reflexivity. Qed.

Lemma in_esc_char_gt c : In c_gt (esc_char c) -> False.
Proof.
  unfold esc_char. destruct (c =? c_amp); [simpl; intuition discriminate|].
  destruct (c =? c_lt); [simpl; intuition discriminate|].
  destruct (c =? c_gt) eqn:Eg; [simpl; intuition discriminate|].
  simpl. intros [H|[]]. subst c. discriminate Eg.
Qed.

Theorem no_gt_after_escape s : ~ In c_gt (sax_escape s).
Proof.
  rewrite sax_escape_flat. intros H. apply in_flat_map in H as [c [_ Hc]]. exact (in_esc_char_gt c Hc).
Qed.

Theorem no_cdata_end_after_escape s a b : sax_escape s <> a ++ cdata_end ++ b.
Proof.
  intros E. apply (no_gt_after_escape s). rewrite E. apply in_or_app. right.
  apply in_or_app. left. simpl. auto.
Qed.

(** ---- escape with white-space references ---- *)
Lemma replace1_flat_map k rep (g : N -> str) s :
  replace1 k rep (flat_map g s) = flat_map (fun c => replace1 k rep (g c)) s.
Proof. induction s as [|c s IH]; [reflexivity|]. cbn [flat_map]. rewrite replace1_app, IH. reflexivity. Qed.

Lemma rep_if_flat_map b k rep (g : N -> str) s :
  rep_if b k rep (flat_map g s) = flat_map (fun c => rep_if b k rep (g c)) s.
Proof. destruct b; cbn [rep_if]; [apply replace1_flat_map|reflexivity]. Qed.

Lemma replace1_one k rep c : (c =? k) = false -> replace1 k rep [c] = [c].
Proof. intros H. cbn [replace1]. rewrite H. reflexivity. Qed.

Lemma esc_g_one q t l r c :
  rep_if r c_cr e_cr (rep_if l c_lf e_lf (rep_if t c_tab e_tab (rep_if q c_quot e_quot (esc_char c))))
  = esc_char_g q t l r c.
Proof.
  unfold esc_char_g.
  destruct (c =? c_amp) eqn:Ea. { apply N.eqb_eq in Ea; subst c. destruct q, t, l, r; reflexivity. }
  destruct (c =? c_lt) eqn:Elt. { apply N.eqb_eq in Elt; subst c. destruct q, t, l, r; reflexivity. }
  destruct (c =? c_gt) eqn:Egt. { apply N.eqb_eq in Egt; subst c. destruct q, t, l, r; reflexivity. }
  destruct (c =? c_quot) eqn:Eq. { apply N.eqb_eq in Eq; subst c. destruct q, t, l, r; reflexivity. }
  destruct (c =? c_tab) eqn:Et. { apply N.eqb_eq in Et; subst c. destruct q, t, l, r; reflexivity. }
  destruct (c =? c_lf) eqn:Elf. { apply N.eqb_eq in Elf; subst c. destruct q, t, l, r; reflexivity. }
  destruct (c =? c_cr) eqn:Ecr. { apply N.eqb_eq in Ecr; subst c. destruct q, t, l, r; reflexivity. }
  cbn [andb]. unfold esc_char. rewrite Ea, Elt, Egt.
  destruct q, t, l, r; cbn [rep_if]; rewrite ?replace1_one; auto.
Qed.

Lemma sax_escape_g_flat q t l r s : sax_escape_g q t l r s = flat_map (esc_char_g q t l r) s.
Proof.
  unfold sax_escape_g. rewrite sax_escape_flat, !rep_if_flat_map.
  apply flat_map_ext. intros c. apply esc_g_one.
Qed.

Lemma fold_e_tab cx rb cr acc :
  fold_left (step cx) e_tab (Run (MNorm rb cr) acc) = Run (MNorm 0 false) (c_tab :: acc).
Proof. destruct cx; reflexivity. Qed.
Lemma fold_e_lf cx rb cr acc :
  fold_left (step cx) e_lf (Run (MNorm rb cr) acc) = Run (MNorm 0 false) (c_lf :: acc).
Proof. destruct cx; reflexivity. Qed.
Lemma fold_e_cr cx rb cr acc :
  fold_left (step cx) e_cr (Run (MNorm rb cr) acc) = Run (MNorm 0 false) (c_cr :: acc).
Proof. destruct cx; reflexivity. Qed.

(** with the dictionary the context needs, every character comes back as itself *)
Lemma fold_exact cx q t l r : exact_ok cx q t l r = true ->
  forall s rb acc, xml_str s = true ->
  exists rb', fold_left (step cx) (flat_map (esc_char_g q t l r) s) (Run (MNorm rb false) acc)
              = Run (MNorm rb' false) (rev s ++ acc).
Proof.
  intros Hok. induction s as [|c s IH]; intros rb acc Hx.
  - exists rb. reflexivity.
  - cbn [xml_str forallb] in Hx. apply andb_true_iff in Hx as [Hc Hs]. fold (xml_str s) in Hs.
    cbn [flat_map]. rewrite fold_left_app.
    assert (Hone : exists rb1, fold_left (step cx) (esc_char_g q t l r c) (Run (MNorm rb false) acc)
                               = Run (MNorm rb1 false) (c :: acc)).
    { destruct (c =? c_amp) eqn:Ea.
      { apply N.eqb_eq in Ea; subst c. change (esc_char_g q t l r c_amp) with e_amp.
        rewrite fold_e_amp. eexists; reflexivity. }
      destruct (c =? c_lt) eqn:Elt.
      { apply N.eqb_eq in Elt; subst c. change (esc_char_g q t l r c_lt) with e_lt.
        rewrite fold_e_lt. eexists; reflexivity. }
      destruct (c =? c_gt) eqn:Egt.
      { apply N.eqb_eq in Egt; subst c. change (esc_char_g q t l r c_gt) with e_gt.
        rewrite fold_e_gt. eexists; reflexivity. }
      destruct (c =? c_quot) eqn:Eq.
      { apply N.eqb_eq in Eq; subst c. change (esc_char_g q t l r c_quot) with (if q then e_quot else [c_quot]).
        destruct q; [rewrite fold_e_quot; eexists; reflexivity|].
        destruct cx; [discriminate Hok|]. eexists; reflexivity. }
      destruct (c =? c_tab) eqn:Et.
      { apply N.eqb_eq in Et; subst c. change (esc_char_g q t l r c_tab) with (if t then e_tab else [c_tab]).
        destruct t; [rewrite fold_e_tab; eexists; reflexivity|].
        destruct cx; [exfalso; destruct q, l, r; discriminate Hok|]. eexists; reflexivity. }
      destruct (c =? c_lf) eqn:Elf.
      { apply N.eqb_eq in Elf; subst c. change (esc_char_g q t l r c_lf) with (if l then e_lf else [c_lf]).
        destruct l; [rewrite fold_e_lf; eexists; reflexivity|].
        destruct cx; [exfalso; destruct q, t, r; discriminate Hok|]. eexists; reflexivity. }
      destruct (c =? c_cr) eqn:Ecr.
      { apply N.eqb_eq in Ecr; subst c. change (esc_char_g q t l r c_cr) with (if r then e_cr else [c_cr]).
        destruct r; [rewrite fold_e_cr; eexists; reflexivity|].
        exfalso. destruct cx; [destruct q, t, l; discriminate Hok|discriminate Hok]. }
      assert (Ef : esc_char_g q t l r c = [c]).
      { unfold esc_char_g, esc_char. rewrite Eq, Et, Elf, Ecr, Ea, Elt, Egt. reflexivity. }
      rewrite Ef. cbn [fold_left step]. rewrite Hc, Ea, Elt, Ecr, Elf. cbn [negb andb].
      destruct cx.
      - rewrite Eq. unfold attr_ws. rewrite Et, Elf. cbn [orb]. eexists; reflexivity.
      - rewrite Egt. cbn [andb]. eexists; reflexivity. }
    destruct Hone as [rb1 E1]. rewrite E1.
    destruct (IH rb1 (c :: acc) Hs) as [rb' E]. exists rb'. rewrite E, rev_cons_app. reflexivity.
Qed.

Theorem slot_exact cx q t l r s : exact_ok cx q t l r = true -> xml_str s = true ->
  lex_slot cx (sax_escape_g q t l r s) = Got s.
Proof.
  intros Hok Hx. rewrite sax_escape_g_flat.
  destruct (fold_exact cx q t l r Hok s 0%nat [] Hx) as [rb E].
  unfold lex_slot. destruct cx.
  - rewrite (lex_attr_of_fold _ _ _ _ E), app_nil_r, rev_involutive. reflexivity.
  - rewrite (lex_text_of_fold _ _ _ _ E), app_nil_r, rev_involutive. reflexivity.
Qed.

(** the attribute theorem without any guard *)
Theorem attr_safe_w s : xml_str s = true ->
  lex_attr (c_quot :: sax_escape_qw s ++ [c_quot]) = OneValue s.
Proof.
  intros Hx. pose proof (slot_exact AttrDq true true true true s eq_refl Hx) as H.
  unfold lex_slot, sax_escape_qw in *.
  destruct (lex_attr (c_quot :: sax_escape_g true true true true s ++ [c_quot])); inversion H; reflexivity.
Qed.

(** element text: escaping the carriage return as well gives back every string *)
Theorem text_safe_r s q t l : xml_str s = true -> lex_text (sax_escape_g q t l true s) = OneText s.
Proof.
  intros Hx. pose proof (slot_exact Text q t l true s eq_refl Hx) as H.
  unfold lex_slot in H. destruct (lex_text (sax_escape_g q t l true s)); inversion H; reflexivity.
Qed.

(** what the shorter dictionaries do: the older functions are instances *)
Lemma sax_escape_g_none s : sax_escape_g false false false false s = sax_escape s.
Proof. reflexivity. Qed.
Lemma sax_escape_g_q s : sax_escape_g true false false false s = sax_escape_q s.
Proof. reflexivity. Qed.

(** ---- the decision table ---- *)
Theorem sink_ok_sound cx e : sink_ok cx e = true ->
  forall s, xml_str s = true -> (e = NotText -> plain s = true /\ no_ws_ctl s = true) ->
  lex_slot cx (apply_esc e s) = Got s.
Proof.
  intros Hok s Hx Hp. destruct e as [|q t l r|]; cbn [apply_esc].
  - discriminate Hok.
  - apply slot_exact; auto.
  - destruct (Hp eq_refl) as [Hpl Hw]. rewrite plain_safe_norm; auto. f_equal.
    destruct cx; [apply norm_attr_id; auto|].
    apply norm_text_id. unfold no_ws_ctl in Hw. unfold no_cr. rewrite forallb_forall in *.
    intros c Hc. specialize (Hw c Hc). apply negb_true_iff in Hw. apply orb_false_iff in Hw as [_ Hw].
    rewrite Hw. reflexivity.
Qed.

Theorem sink_ok_complete cx e : sink_ok cx e = false ->
  xml_str (witness cx e) = true /\
  lex_slot cx (apply_esc e (witness cx e)) <> Got (witness cx e).
Proof.
  destruct cx, e as [|q t l r|]; try destruct q, t, l, r; intros H; try discriminate H;
    (split; [reflexivity|vm_compute; discriminate]).
Qed.

(** markup safety alone (strings without TAB, LF, CR): the quote in attributes is what matters *)
Theorem markup_ok_sound cx e : markup_ok cx e = true ->
  forall s, xml_str s = true -> (e = NotText -> plain s = true) ->
  lex_slot cx (apply_esc e s) <> Broken.
Proof.
  intros Hok s Hx Hp. destruct e as [|q t l r|]; cbn [apply_esc].
  - discriminate Hok.
  - (* unescaped white space is normalised, never an error: go through the general fold *)
    assert (G : forall s rb cr acc, xml_str s = true -> (cx = AttrDq -> q = true) ->
      exists rb' cr' v, fold_left (step cx) (flat_map (esc_char_g q t l r) s) (Run (MNorm rb cr) acc)
                        = Run (MNorm rb' cr') v).
    { clear s Hx Hp. induction s as [|c s IH]; intros rb cr acc Hx Hq.
      - exists rb, cr, acc. reflexivity.
      - cbn [xml_str forallb] in Hx. apply andb_true_iff in Hx as [Hc Hs]. fold (xml_str s) in Hs.
        cbn [flat_map]. rewrite fold_left_app.
        assert (Hone : exists rb1 cr1 v1, fold_left (step cx) (esc_char_g q t l r c) (Run (MNorm rb cr) acc)
                                          = Run (MNorm rb1 cr1) v1).
        { destruct (c =? c_amp) eqn:Ea.
          { apply N.eqb_eq in Ea; subst c. change (esc_char_g q t l r c_amp) with e_amp.
            rewrite fold_e_amp. do 3 eexists; reflexivity. }
          destruct (c =? c_lt) eqn:Elt.
          { apply N.eqb_eq in Elt; subst c. change (esc_char_g q t l r c_lt) with e_lt.
            rewrite fold_e_lt. do 3 eexists; reflexivity. }
          destruct (c =? c_gt) eqn:Egt.
          { apply N.eqb_eq in Egt; subst c. change (esc_char_g q t l r c_gt) with e_gt.
            rewrite fold_e_gt. do 3 eexists; reflexivity. }
          destruct (c =? c_quot) eqn:Eq.
          { apply N.eqb_eq in Eq; subst c. change (esc_char_g q t l r c_quot) with (if q then e_quot else [c_quot]).
            destruct q; [rewrite fold_e_quot; do 3 eexists; reflexivity|].
            destruct cx; [discriminate (Hq eq_refl)|]. destruct cr; do 3 eexists; reflexivity. }
          destruct (c =? c_tab) eqn:Et.
          { apply N.eqb_eq in Et; subst c. change (esc_char_g q t l r c_tab) with (if t then e_tab else [c_tab]).
            destruct t; [rewrite fold_e_tab; do 3 eexists; reflexivity|].
            destruct cx, cr; do 3 eexists; reflexivity. }
          destruct (c =? c_lf) eqn:Elf.
          { apply N.eqb_eq in Elf; subst c. change (esc_char_g q t l r c_lf) with (if l then e_lf else [c_lf]).
            destruct l; [rewrite fold_e_lf; do 3 eexists; reflexivity|].
            destruct cx, cr; do 3 eexists; reflexivity. }
          destruct (c =? c_cr) eqn:Ecr.
          { apply N.eqb_eq in Ecr; subst c. change (esc_char_g q t l r c_cr) with (if r then e_cr else [c_cr]).
            destruct r; [rewrite fold_e_cr; do 3 eexists; reflexivity|].
            destruct cx, cr; do 3 eexists; reflexivity. }
          assert (Ef : esc_char_g q t l r c = [c]).
          { unfold esc_char_g, esc_char. rewrite Eq, Et, Elf, Ecr, Ea, Elt, Egt. reflexivity. }
          rewrite Ef. cbn [fold_left step]. rewrite Hc, Ea, Elt, Ecr, Elf. cbn [negb andb].
          destruct cx.
          - rewrite Eq. do 3 eexists; reflexivity.
          - rewrite Egt. cbn [andb]. do 3 eexists; reflexivity. }
        destruct Hone as [rb1 [cr1 [v1 E1]]]. rewrite E1. apply IH; auto. }
    rewrite sax_escape_g_flat.
    assert (Hq : cx = AttrDq -> q = true) by (intros ->; exact Hok).
    destruct (G s 0%nat false [] Hx Hq) as [rb [cr [v E]]].
    unfold lex_slot. destruct cx.
    + rewrite (lex_attr_of_fold _ _ _ _ E). discriminate.
    + rewrite (lex_text_of_fold _ _ _ _ E). discriminate.
  - rewrite plain_safe_norm; auto. discriminate.
Qed.

Lemma slot_result_eqb_eq a b : slot_result_eqb a b = true <-> a = b.
Proof.
  destruct a as [x|], b as [y|]; simpl; split; intros H; try discriminate; auto.
  - apply str_eqb_eq in H. congruence.
  - inversion H. apply str_eqb_refl.
Qed.

(** non-vacuity of the guards *)
Example guards_inhabited :
  let s := [97; c_amp; c_lt; c_gt; c_quot; c_apos; c_rbr; c_rbr; c_gt; 233; 128512] in
  xml_str s = true /\ no_ws_ctl s = true /\ no_cr s = true
  /\ lex_text (sax_escape s) = OneText s
  /\ lex_attr (c_quot :: sax_escape_q s ++ [c_quot]) = OneValue s.
Proof. vm_compute. repeat split. Qed.

Example norm_example :
  norm AttrDq [97; c_cr; c_lf; 98; c_tab; 99; c_cr; 100] = [97; c_sp; 98; c_sp; 99; c_sp; 100]
  /\ norm Text [97; c_cr; c_lf; 98; c_tab; 99; c_cr; 100] = [97; c_lf; 98; c_tab; 99; c_lf; 100].
Proof. vm_compute. split; reflexivity. Qed.
Close Scope N_scope.
