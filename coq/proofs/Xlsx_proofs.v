(** Lemmas for C08 over model/Xlsx.v. *)
From V.lib Require Import Prelude.
From V.model Require Import Xlsx.
From Coq Require Import ZifyBool.
Open Scope N_scope.

Lemma stub_true : True. Proof. exact I. Qed.
