(** Lemmas for property C05 over model/Escape.v. *)
From V.lib Require Import Prelude.
From V.model Require Import Escape.
Open Scope N_scope.

(** ---- escape as a single pass ---- *)
Lemma replace1_app k rep a b : replace1 k rep (a ++ b) = replace1 k rep a ++ replace1 k rep b.
Proof.
  induction a as [|c a IH]; simpl; auto.
  destruct (c =? k); rewrite IH; simpl; auto. rewrite app_assoc. reflexivity.
Qed.

Definition one_amp (c : N) : str := if c =? c_amp then e_amp else [c].

Lemma esc_one c : replace1 c_lt e_lt (replace1 c_gt e_gt (one_amp c)) = esc_char c.
Proof.
  unfold one_amp, esc_char.
  destruct (c =? c_amp) eqn:Ea; [reflexivity|].
  cbn [replace1].
  destruct (c =? c_gt) eqn:Eg.
  - apply N.eqb_eq in Eg; subst c. reflexivity.
  - cbn [replace1]. destruct (c =? c_lt) eqn:El; [rewrite app_nil_r|]; reflexivity.
Qed.

Lemma sax_escape_cons c s : sax_escape (c :: s) = esc_char c ++ sax_escape s.
Proof.
  unfold sax_escape.
  change (replace1 c_amp e_amp (c :: s)) with
    (if c =? c_amp then e_amp ++ replace1 c_amp e_amp s else c :: replace1 c_amp e_amp s).
  assert (H : (if c =? c_amp then e_amp ++ replace1 c_amp e_amp s else c :: replace1 c_amp e_amp s)
              = one_amp c ++ replace1 c_amp e_amp s).
  { unfold one_amp; destruct (c =? c_amp); reflexivity. }
  rewrite H, !replace1_app, esc_one. reflexivity.
Qed.

Lemma sax_escape_flat s : sax_escape s = flat_map esc_char s.
Proof.
  induction s as [|c s IH]; [reflexivity|]. rewrite sax_escape_cons, IH. reflexivity.
Qed.

Lemma esc_q_one c : replace1 c_quot e_quot (esc_char c) = esc_char_q c.
Proof.
  unfold esc_char_q, esc_char.
  destruct (c =? c_quot) eqn:Eq.
  - apply N.eqb_eq in Eq; subst c. reflexivity.
  - destruct (c =? c_amp); [reflexivity|]. destruct (c =? c_lt); [reflexivity|].
    destruct (c =? c_gt); [reflexivity|]. cbn [replace1]. rewrite Eq. reflexivity.
Qed.

Lemma sax_escape_q_flat s : sax_escape_q s = flat_map esc_char_q s.
Proof.
  unfold sax_escape_q. rewrite sax_escape_flat.
  induction s as [|c s IH]; [reflexivity|].
  cbn [flat_map]. rewrite replace1_app, IH, esc_q_one. reflexivity.
Qed.

(** ---- the lexer on escaped text ---- *)
Lemma fold_e_amp cx rb cr acc :
  fold_left (step cx) e_amp (Run (MNorm rb cr) acc) = Run (MNorm 0 false) (c_amp :: acc).
Proof. destruct cx; reflexivity. Qed.
Lemma fold_e_lt cx rb cr acc :
  fold_left (step cx) e_lt (Run (MNorm rb cr) acc) = Run (MNorm 0 false) (c_lt :: acc).
Proof. destruct cx; reflexivity. Qed.
Lemma fold_e_gt cx rb cr acc :
  fold_left (step cx) e_gt (Run (MNorm rb cr) acc) = Run (MNorm 0 false) (c_gt :: acc).
Proof. destruct cx; reflexivity. Qed.
Lemma fold_e_quot cx rb cr acc :
  fold_left (step cx) e_quot (Run (MNorm rb cr) acc) = Run (MNorm 0 false) (c_quot :: acc).
Proof. destruct cx; reflexivity. Qed.

Lemma rev_cons_app {A} (x : A) l acc : rev (x :: l) ++ acc = rev l ++ x :: acc.
Proof. simpl. rewrite <- app_assoc. reflexivity. Qed.

(** The invariant: from character data, escaped text leads back to character data with
    exactly the normalised original appended.  [q] says whether the double quote is
    escaped too; in an attribute it has to be. *)
Definition escf (q : bool) (c : N) : str := if q then esc_char_q c else esc_char c.

Lemma norm_go_keep cx cr c s : (c =? c_cr) = false -> (c =? c_lf) = false -> (c =? c_tab) = false ->
  norm_go cx cr (c :: s) = c :: norm_go cx false s.
Proof.
  intros E1 E2 E3. cbn [norm_go]. rewrite E1, E2. cbn [andb]. unfold attr_ws. rewrite E2, E3.
  destruct cx; reflexivity.
Qed.

Lemma fold_escaped cx (q : bool) : (cx = AttrDq -> q = true) ->
  forall s rb cr acc, xml_str s = true ->
  exists rb' cr', fold_left (step cx) (flat_map (escf q) s) (Run (MNorm rb cr) acc)
                  = Run (MNorm rb' cr') (rev (norm_go cx cr s) ++ acc).
Proof.
  intros Hq. induction s as [|c s IH]; intros rb cr acc Hx.
  - exists rb, cr. reflexivity.
  - cbn [xml_str forallb] in Hx. apply andb_true_iff in Hx as [Hc Hs]. fold (xml_str s) in Hs.
    cbn [flat_map]. rewrite fold_left_app.
    destruct (c =? c_amp) eqn:Ea.
    { apply N.eqb_eq in Ea; subst c.
      replace (escf q c_amp) with e_amp by (destruct q; reflexivity).
      rewrite fold_e_amp. destruct (IH 0%nat false (c_amp :: acc) Hs) as [rb' [cr' E]].
      exists rb', cr'. rewrite E, norm_go_keep by reflexivity. rewrite rev_cons_app. reflexivity. }
    destruct (c =? c_lt) eqn:El.
    { apply N.eqb_eq in El; subst c.
      replace (escf q c_lt) with e_lt by (destruct q; reflexivity).
      rewrite fold_e_lt. destruct (IH 0%nat false (c_lt :: acc) Hs) as [rb' [cr' E]].
      exists rb', cr'. rewrite E, norm_go_keep by reflexivity. rewrite rev_cons_app. reflexivity. }
    destruct (c =? c_gt) eqn:Eg.
    { apply N.eqb_eq in Eg; subst c.
      replace (escf q c_gt) with e_gt by (destruct q; reflexivity).
      rewrite fold_e_gt. destruct (IH 0%nat false (c_gt :: acc) Hs) as [rb' [cr' E]].
      exists rb', cr'. rewrite E, norm_go_keep by reflexivity. rewrite rev_cons_app. reflexivity. }
    destruct ((c =? c_quot) && q) eqn:Eqq.
    { apply andb_true_iff in Eqq as [Eq Hqt]. apply N.eqb_eq in Eq; subst c q.
      change (escf true c_quot) with e_quot.
      rewrite fold_e_quot. destruct (IH 0%nat false (c_quot :: acc) Hs) as [rb' [cr' E]].
      exists rb', cr'. rewrite E, norm_go_keep by reflexivity. rewrite rev_cons_app. reflexivity. }
    assert (Ef : escf q c = [c]).
    { unfold escf, esc_char_q, esc_char. rewrite Ea, El, Eg.
      destruct q; [|reflexivity]. rewrite andb_true_r in Eqq. rewrite Eqq. reflexivity. }
    rewrite Ef. cbn [fold_left step]. rewrite Hc, Ea, El. cbn [negb]. cbn [norm_go].
    destruct (c =? c_cr) eqn:Ecr.
    { destruct (IH 0%nat true (eol cx :: acc) Hs) as [rb' [cr' E]].
      exists rb', cr'. rewrite E, rev_cons_app. reflexivity. }
    destruct ((c =? c_lf) && cr) eqn:Elf.
    { destruct (IH 0%nat false acc Hs) as [rb' [cr' E]]. exists rb', cr'. rewrite E. reflexivity. }
    destruct cx.
    + rewrite (Hq eq_refl), andb_true_r in Eqq. rewrite Eqq.
      destruct (IH 0%nat false (attr_ws c :: acc) Hs) as [rb' [cr' E]].
      exists rb', cr'. rewrite E, rev_cons_app. reflexivity.
    + rewrite Eg. cbn [andb].
      destruct (IH (bump c rb) false (c :: acc) Hs) as [rb' [cr' E]].
      exists rb', cr'. rewrite E, rev_cons_app. reflexivity.
Qed.

(** the same invariant for a value written without escaping that has no metacharacter *)
Lemma fold_plain cx : forall s rb cr acc, xml_str s = true -> plain s = true ->
  exists rb' cr', fold_left (step cx) s (Run (MNorm rb cr) acc)
                  = Run (MNorm rb' cr') (rev (norm_go cx cr s) ++ acc).
Proof.
  induction s as [|c s IH]; intros rb cr acc Hx Hp.
  - exists rb, cr. reflexivity.
  - cbn [xml_str forallb] in Hx. apply andb_true_iff in Hx as [Hc Hs]. fold (xml_str s) in Hs.
    cbn [plain forallb] in Hp. apply andb_true_iff in Hp as [Hm Hp]. fold (plain s) in Hp.
    apply negb_true_iff in Hm. unfold is_meta in Hm.
    apply orb_false_iff in Hm as [Hm Eq]. apply orb_false_iff in Hm as [Hm Eg].
    apply orb_false_iff in Hm as [Ea El].
    cbn [fold_left step]. rewrite Hc, Ea, El. cbn [negb]. cbn [norm_go].
    destruct (c =? c_cr) eqn:Ecr.
    { destruct (IH 0%nat true (eol cx :: acc) Hs Hp) as [rb' [cr' E]].
      exists rb', cr'. rewrite E, rev_cons_app. reflexivity. }
    destruct ((c =? c_lf) && cr) eqn:Elf.
    { destruct (IH 0%nat false acc Hs Hp) as [rb' [cr' E]]. exists rb', cr'. rewrite E. reflexivity. }
    destruct cx.
    + rewrite Eq. destruct (IH 0%nat false (attr_ws c :: acc) Hs Hp) as [rb' [cr' E]].
      exists rb', cr'. rewrite E, rev_cons_app. reflexivity.
    + rewrite Eg. cbn [andb].
      destruct (IH (bump c rb) false (c :: acc) Hs Hp) as [rb' [cr' E]].
      exists rb', cr'. rewrite E, rev_cons_app. reflexivity.
Qed.

Lemma close_quote rb cr acc : step AttrDq (Run (MNorm rb cr) acc) c_quot = Closed acc.
Proof. reflexivity. Qed.

Lemma lex_attr_of_fold payload rb cr acc :
  fold_left (step AttrDq) payload start = Run (MNorm rb cr) acc ->
  lex_attr (c_quot :: payload ++ [c_quot]) = OneValue (rev acc).
Proof.
  intros H. unfold lex_attr. rewrite N.eqb_refl, fold_left_app, H.
  cbn [fold_left]. rewrite close_quote. reflexivity.
Qed.

Lemma lex_text_of_fold payload rb cr acc :
  fold_left (step Text) payload start = Run (MNorm rb cr) acc ->
  lex_text payload = OneText (rev acc).
Proof. intros H. unfold lex_text. rewrite H. reflexivity. Qed.

(** ---- the main theorems ---- *)
Theorem text_safe_norm s : xml_str s = true -> lex_text (sax_escape s) = OneText (norm Text s).
Proof.
  intros Hx. rewrite sax_escape_flat.
  destruct (fold_escaped Text false (fun H => match H with end) s 0%nat false [] Hx) as [rb [cr E]].
  change (escf false) with esc_char in E.
  rewrite (lex_text_of_fold _ _ _ _ E), rev_app_distr, rev_involutive. reflexivity.
Qed.

Theorem attr_safe_norm s : xml_str s = true ->
  lex_attr (c_quot :: sax_escape_q s ++ [c_quot]) = OneValue (norm AttrDq s).
Proof.
  intros Hx. rewrite sax_escape_q_flat.
  destruct (fold_escaped AttrDq true (fun _ => eq_refl) s 0%nat false [] Hx) as [rb [cr E]].
  change (escf true) with esc_char_q in E.
  rewrite (lex_attr_of_fold _ _ _ _ E), rev_app_distr, rev_involutive. reflexivity.
Qed.

(** text escaped with the quot entity as well is equally safe in element text *)
Theorem text_safe_q_norm s : xml_str s = true -> lex_text (sax_escape_q s) = OneText (norm Text s).
Proof.
  intros Hx. rewrite sax_escape_q_flat.
  destruct (fold_escaped Text true (fun _ => eq_refl) s 0%nat false [] Hx) as [rb [cr E]].
  change (escf true) with esc_char_q in E.
  rewrite (lex_text_of_fold _ _ _ _ E), rev_app_distr, rev_involutive. reflexivity.
Qed.

Theorem plain_safe_norm cx s : xml_str s = true -> plain s = true ->
  lex_slot cx s = Got (norm cx s).
Proof.
  intros Hx Hp. destruct (fold_plain cx s 0%nat false [] Hx Hp) as [rb [cr E]].
  unfold lex_slot. destruct cx.
  - rewrite (lex_attr_of_fold _ _ _ _ E), rev_app_distr, rev_involutive. reflexivity.
  - rewrite (lex_text_of_fold _ _ _ _ E), rev_app_distr, rev_involutive. reflexivity.
Qed.

(** ---- strings the parser normalisation leaves alone ---- *)
Lemma norm_text_id s : no_cr s = true -> norm Text s = s.
Proof.
  unfold norm. induction s as [|c s IH]; intros H; [reflexivity|].
  cbn [no_cr forallb] in H. apply andb_true_iff in H as [Hc Hs]. apply negb_true_iff in Hc.
  cbn [norm_go]. rewrite Hc, andb_false_r. f_equal. apply IH, Hs.
Qed.

Lemma norm_attr_id s : no_ws_ctl s = true -> norm AttrDq s = s.
Proof.
  unfold norm. induction s as [|c s IH]; intros H; [reflexivity|].
  cbn [no_ws_ctl forallb] in H. apply andb_true_iff in H as [Hc Hs]. apply negb_true_iff in Hc.
  apply orb_false_iff in Hc as [Hc Ecr]. apply orb_false_iff in Hc as [Et El].
  cbn [norm_go]. rewrite Ecr, andb_false_r. unfold attr_ws. rewrite Et, El. cbn [orb].
  f_equal. apply IH, Hs.
Qed.

Theorem text_safe s : xml_str s = true -> no_cr s = true -> lex_text (sax_escape s) = OneText s.
Proof. intros Hx Hn. rewrite text_safe_norm, norm_text_id; auto. Qed.

Theorem attr_safe s : xml_str s = true -> no_ws_ctl s = true ->
  lex_attr (c_quot :: sax_escape_q s ++ [c_quot]) = OneValue s.
Proof. intros Hx Hn. rewrite attr_safe_norm, norm_attr_id; auto. Qed.

(** what the normalisation does otherwise: nothing is lost except that a line end is one
    character and, in an attribute, white space is a blank *)
Lemma norm_length cx s : (length (norm cx s) <= length s)%nat.
Proof.
  unfold norm. generalize false. induction s as [|c s IH]; intros b; cbn [norm_go length]; [lia|].
  destruct (c =? c_cr); [specialize (IH true); cbn [length]; lia|].
  destruct ((c =? c_lf) && b); [specialize (IH false); lia|].
  specialize (IH false); cbn [length]; lia.
Qed.

(** ---- refutations ---- *)
Theorem attr_sax_refuted : exists s, xml_str s = true /\ no_ws_ctl s = true /\
  lex_attr (c_quot :: sax_escape s ++ [c_quot]) <> OneValue s.
Proof. exists [c_quot]. repeat split; try reflexivity. vm_compute. discriminate. Qed.

Theorem none_refuted :
  (forall cx, lex_slot cx [c_amp] = Broken) /\ (forall cx, lex_slot cx [c_lt] = Broken)
  /\ lex_slot AttrDq [c_quot] = Broken.
Proof. repeat split; try (intros cx; destruct cx); reflexivity. Qed.

(** a value that closes the attribute early and goes on is not a value any more *)
Definition inj_payload : str := [97; 34; 32; 98; 61; 34; 99].   (* a, quote, blank, b, equals, quote, c *)
Lemma attr_injection_broken : lex_slot AttrDq inj_payload = Broken.
Proof. reflexivity. Qed.

(** ---- the CDATA-end sequence ---- *)
Definition cdata_end : str := [c_rbr; c_rbr; c_gt].

Lemma fold_dead cx l : fold_left (step cx) l Dead = Dead.
Proof. induction l; simpl; auto. Qed.

(** in character data the sequence is an error, whatever stands before and after *)
Theorem cdata_end_rejected a b rb cr acc :
  fold_left (step Text) a start = Run (MNorm rb cr) acc ->
  lex_text (a ++ cdata_end ++ b) = BrokenText.
Proof.
  intros Ha. unfold lex_text. rewrite !fold_left_app, Ha.
  assert (E : fold_left (step Text) cdata_end (Run (MNorm rb cr) acc) = Dead).
  { unfold cdata_end. cbn [fold_left].
    assert (E1 : step Text (Run (MNorm rb cr) acc) c_rbr = Run (MNorm (Nat.min 2 (S rb)) false) (c_rbr :: acc)).
    { destruct cr; reflexivity. }
    rewrite E1.
    assert (E2 : step Text (Run (MNorm (Nat.min 2 (S rb)) false) (c_rbr :: acc)) c_rbr
                 = Run (MNorm (Nat.min 2 (S (Nat.min 2 (S rb)))) false) (c_rbr :: c_rbr :: acc)) by reflexivity.
    rewrite E2.
    assert (E3 : (2 <=? Nat.min 2 (S (Nat.min 2 (S rb))))%nat = true) by (apply Nat.leb_le; lia).
    cbn [step]. change (negb (is_xml_char c_gt)) with false. cbv iota.
    change (c_gt =? c_amp) with false. change (c_gt =? c_lt) with false.
    change (c_gt =? c_cr) with false. change (c_gt =? c_lf) with false. cbn [andb].
    rewrite N.eqb_refl, E3. reflexivity. }
  rewrite E, fold_dead. reflexivity.
Qed.

(** a CDATA section in element content is consumed: the text read back is not the text written *)
Example cdata_section_consumed :
  lex_text [97; 60; 33; 91; 67; 68; 65; 84; 65; 91; 120; 93; 93; 62; 98] = OneText [97; 120; 98].
Proof. reflexivity. Qed.

Lemma in_esc_char_gt c : In c_gt (esc_char c) -> False.
Proof.
  unfold esc_char. destruct (c =? c_amp); [simpl; intuition discriminate|].
  destruct (c =? c_lt); [simpl; intuition discriminate|].
  destruct (c =? c_gt) eqn:Eg; [simpl; intuition discriminate|].
  simpl. intros [H|[]]. subst c. discriminate Eg.
Qed.

Theorem no_gt_after_escape s : ~ In c_gt (sax_escape s).
Proof.
  rewrite sax_escape_flat. intros H. apply in_flat_map in H as [c [_ Hc]]. exact (in_esc_char_gt c Hc).
Qed.

Theorem no_cdata_end_after_escape s a b : sax_escape s <> a ++ cdata_end ++ b.
Proof.
  intros E. apply (no_gt_after_escape s). rewrite E. apply in_or_app. right.
  apply in_or_app. left. simpl. auto.
Qed.

(** ---- the decision table ---- *)
Theorem sink_ok_sound cx e : sink_ok cx e = true ->
  forall s, xml_str s = true -> (e = NotText -> plain s = true) ->
  lex_slot cx (apply_esc e s) = Got (norm cx s).
Proof.
  intros Hok s Hx Hp. destruct e; cbn [apply_esc].
  - destruct cx; discriminate Hok.
  - destruct cx; [discriminate Hok|]. unfold lex_slot. rewrite text_safe_norm; auto.
  - destruct cx; unfold lex_slot.
    + rewrite attr_safe_norm; auto.
    + rewrite text_safe_q_norm; auto.
  - apply plain_safe_norm; auto.
Qed.

Theorem sink_ok_complete cx e : sink_ok cx e = false ->
  xml_str (witness cx e) = true /\ no_ws_ctl (witness cx e) = true /\
  lex_slot cx (apply_esc e (witness cx e)) <> Got (norm cx (witness cx e)).
Proof.
  destruct cx, e; intros H; try discriminate H; repeat split; try reflexivity; vm_compute; discriminate.
Qed.

Lemma slot_result_eqb_eq a b : slot_result_eqb a b = true <-> a = b.
Proof.
  destruct a as [x|], b as [y|]; simpl; split; intros H; try discriminate; auto.
  - apply str_eqb_eq in H. congruence.
  - inversion H. apply str_eqb_refl.
Qed.

(** non-vacuity of the guards *)
Example guards_inhabited :
  let s := [97; c_amp; c_lt; c_gt; c_quot; c_apos; c_rbr; c_rbr; c_gt; 233; 128512] in
  xml_str s = true /\ no_ws_ctl s = true /\ no_cr s = true
  /\ lex_text (sax_escape s) = OneText s
  /\ lex_attr (c_quot :: sax_escape_q s ++ [c_quot]) = OneValue s.
Proof. vm_compute. repeat split. Qed.

Example norm_example :
  norm AttrDq [97; c_cr; c_lf; 98; c_tab; 99; c_cr; 100] = [97; c_sp; 98; c_sp; 99; c_sp; 100]
  /\ norm Text [97; c_cr; c_lf; 98; c_tab; 99; c_cr; 100] = [97; c_lf; 98; c_tab; 99; c_lf; 100].
Proof. vm_compute. split; reflexivity. Qed.
Close Scope N_scope.
