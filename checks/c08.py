"""C08 — the chart's cached values and its embedded workbook agree cell for cell.

Proof: props/C08.v over model/Xlsx.v (column references, the three workbook writers of
pptx.chart.xlsx through XlsxWriter's worksheet.write, the references and caches of
pptx.chart.xmlwriter, new chart / replace_data as a state machine).
Tie: correspondence of the extracted model with python-pptx: (a) model sheet vs the
real .xlsx read by a minimal reader below, cell for cell, (b) model references and caches
vs every c:f / c:ptCount / c:pt of the chart XML, (c) the model's own evaluation of the
property vs the oracle's verdict.
Oracle: the property statement evaluated directly on the implementation's output: every
c:f is parsed (independent A1 parser), must be a well-formed range of Sheet1 with as many
rows as c:ptCount says, every c:pt idx lies inside and its text equals the cell it is
indexed to (numbers through float(text) as exact rationals), cells without a cached point
are empty; also after replace_data histories and after save / re-open of the package."""
import datetime
import io
import json
import re
import shutil
import tempfile
import warnings
import zipfile
from fractions import Fraction

from lxml import etree

from corr.harness import coq_build, run_model, dec, exc_name

TB = [
    "XlsxWriter 3.2.9 worksheet.write/write_column dispatch (None, empty string, =formula, {=array}, url prefixes, 32767 truncation, row/column limits, datetime conversion) is transcribed in model/Xlsx.v (xl_cell, store) and tied by this correspondence, not verified against XlsxWriter",
    "XlsxWriter writes a number as the text '%.16G' % value: outside the model (numbers are exact payloads there); the check applies this formatting to the model's sheet numbers before comparing them with the real sheet, and the oracle compares cache text and cell through float(text) exactly",
    "date.toordinal (proleptic Gregorian ordinal) computed by CPython for the model's date inputs",
    "minimal .xlsx reader in checks/c08.py (zipfile + lxml: workbook.xml -> Sheet1 -> sheet xml, sharedStrings with _xHHHH_ unescaping, inline strings, formulas)",
    "series identity (is) in data_point_offset/series_index modelled by position: a series object is appended once (add_series always creates a new object)",
]
ASSUME = [
    "theorems C08_cat_chart / C08_xy / C08_bubble assume the stated domain (cat_domain / xy_domain): strings that XlsxWriter stores verbatim (not starting with = or {=, no url prefix XlsxWriter converts, at most 32767 characters), no empty series, date labels only on a chart in the 1900 date system, rows < 1048576; outside it the model itself refutes agreement (C08_outside_domain_refuted, C08_long_string_refuted, C08_empty_series_range) and the check reports the corresponding input classes under the signatures string-as-formula, string-as-url, string-over-32767, empty-series-range, date1904-replace, number-over-16-digits",
    "a number needing 17 significant digits is stored rounded to 16 by XlsxWriter; the model does not compute on numbers, so this class is decided by the oracle only",
    "replace_data histories keep the chart kind and at least one series (replace_data on a chart without any c:ser raises in _add_cloned_sers: C07's subject); corpus charts without a series are skipped",
]

C_NS = "http://schemas.openxmlformats.org/drawingml/2006/chart"
M_NS = "http://schemas.openxmlformats.org/spreadsheetml/2006/main"
R_NS = "http://schemas.openxmlformats.org/officeDocument/2006/relationships"
PR_NS = "http://schemas.openxmlformats.org/package/2006/relationships"


def C(tag):
    return "{%s}%s" % (C_NS, tag)


def M(tag):
    return "{%s}%s" % (M_NS, tag)


# ------------------------------------------------------------------ case <-> objects
# label / value JSON forms:  None | ["s", str] | ["n", number] | ["d", y, m, d] | ["t", y, m, d, H, M, S, us]
# cat node: [label, [children]]     series: [name_or_None, [values]]     xy series: [name, [[x, y, size]...]]


def py_of(v):
    if v is None:
        return None
    k = v[0]
    if k == "s":
        return v[1]
    if k == "n":
        return v[1]
    if k == "d":
        return datetime.date(v[1], v[2], v[3])
    if k == "t":
        return datetime.datetime(*v[1:8])
    raise ValueError(v)


def num_tokens(x):
    n, d = float(x).as_integer_ratio()
    return ["N", str(n), str(d)]


def val_tokens(v):
    if v is None:
        return ["0"]
    return num_tokens(v)


def label_tokens(v):
    if v is None:
        return ["0"]
    k = v[0]
    if k == "s":
        return ["S", v[1]]
    if k == "n":
        return num_tokens(v[1])
    if k == "d":
        return ["D", str(datetime.date(v[1], v[2], v[3]).toordinal())]
    if k == "t":
        us = ((v[4] * 60 + v[5]) * 60 + v[6]) * 1000000 + v[7]
        return ["T", str(datetime.date(v[1], v[2], v[3]).toordinal()), str(us)]
    raise ValueError(v)


def name_tokens(n):
    return ["0"] if n is None else ["S", n]


def cat_tokens(node, out):
    out.extend(label_tokens(node[0]))
    out.append(str(len(node[1])))
    for ch in node[1]:
        cat_tokens(ch, out)


def data_tokens(data):
    out = []
    if data["kind"] == "cat":
        out += ["cat", str(len(data["cats"]))]
        for c in data["cats"]:
            cat_tokens(c, out)
        out.append(str(len(data["series"])))
        for name, vals in data["series"]:
            out += name_tokens(name)
            out.append(str(len(vals)))
            for v in vals:
                out += val_tokens(v)
    else:
        out += ["bub" if data["kind"] == "bub" else "xy", str(len(data["series"]))]
        for name, pts in data["series"]:
            out += name_tokens(name)
            out.append(str(len(pts)))
            for p in pts:
                for v in p:
                    out += val_tokens(v)
    return out


def series_formats(data):
    """a number format per series (None = inherit): presentation only, no cell or cached VALUE depends on it, so the
    model does not see it; derived from the data itself so that the main random stream is left as it was.  Two in five
    data sets get formats, chosen from few so that equal formats recur at non-adjacent series."""
    import hashlib
    import random as _r

    n = len(data["series"])
    g = _r.Random(int(hashlib.sha1(json.dumps([data["kind"], [s[0] for s in data["series"]]], sort_keys=True, default=str).encode()).hexdigest()[:12], 16))
    if n < 2 or g.random() >= 0.4:
        return [None] * n
    return [g.choice([None, "0.0", "#,##0", "0.00%"]) for _ in range(n)]


def build(data):
    from pptx.chart.data import BubbleChartData, CategoryChartData, XyChartData

    if data["kind"] == "cat":
        cd = CategoryChartData()

        def add(parent, node, top):
            c = cd.add_category(py_of(node[0])) if top else parent.add_sub_category(py_of(node[0]))
            for ch in node[1]:
                add(c, ch, False)

        for n in data["cats"]:
            add(None, n, True)
        for (name, vals), f in zip(data["series"], series_formats(data)):
            cd.add_series(name, list(vals), number_format=f)
        return cd
    if data["kind"] == "xy":
        cd = XyChartData()
        for (name, pts), f in zip(data["series"], series_formats(data)):
            s = cd.add_series(name, number_format=f)
            for x, y, _z in pts:
                s.add_data_point(x, y)
        return cd
    cd = BubbleChartData()
    for (name, pts), f in zip(data["series"], series_formats(data)):
        s = cd.add_series(name, number_format=f)
        for x, y, z in pts:
            s.add_data_point(x, y, z)
    return cd


# ---- one chart-data OBJECT extended in place between uses (mutation = JSON list)
#   ["add_series", name, values_or_points] | ["add_category", node] | ["add_points", series index, values_or_points]
#   ["set_categories", [labels]] | ["number_format", text]
def apply_mut_data(data, m):
    """the data snapshot after the mutation (pure)"""
    import copy

    d = copy.deepcopy(data)
    if m[0] == "add_series":
        d["series"].append([m[1], list(m[2])])
    elif m[0] == "add_category":
        d["cats"].append(m[1])
    elif m[0] == "add_points":
        d["series"][m[1]][1].extend(m[2])
    elif m[0] == "set_categories":
        d["cats"] = [[l, []] for l in m[1]]
    elif m[0] == "number_format":
        pass
    else:
        raise ValueError(m)
    return d


def apply_mut_obj(cd, kind, m):
    """the same mutation on the live chart-data object (python-pptx public API)"""
    if m[0] == "add_series":
        if kind == "cat":
            cd.add_series(m[1], list(m[2]))
        else:
            s = cd.add_series(m[1])
            for x, y, z in m[2]:
                s.add_data_point(x, y, z) if kind == "bub" else s.add_data_point(x, y)
    elif m[0] == "add_category":
        def add(parent, node, top):
            c = cd.add_category(py_of(node[0])) if top else parent.add_sub_category(py_of(node[0]))
            for ch in node[1]:
                add(c, ch, False)
        add(None, m[1], True)
    elif m[0] == "add_points":
        s = cd[m[1]]
        for p_ in m[2]:
            if kind == "cat":
                s.add_data_point(p_)
            elif kind == "bub":
                s.add_data_point(p_[0], p_[1], p_[2])
            else:
                s.add_data_point(p_[0], p_[1])
    elif m[0] == "set_categories":
        cd.categories = [py_of(l) for l in m[1]]
    elif m[0] == "number_format":
        if kind == "cat":
            cd.categories.number_format = m[1]
        else:
            cd._number_format = m[1]
    else:
        raise ValueError(m)


def gen_mut(rng, data):
    kind = data["kind"]
    r = rng.random()
    if kind == "cat":
        depth = _depth(data["cats"])
        if r < 0.3:
            return ["add_series", safe_string(rng) + "+", [safe_value(rng) for _ in range(rng.randint(1, 5))]]
        if r < 0.55 and depth >= 1:
            first = data["cats"][0][0]
            if depth == 1 and first is not None and first[0] in "dt":
                return ["add_category", gen_dates(rng, 1, True)[0]]
            if depth == 1 and first is not None and first[0] == "n":
                return ["add_category", [["n", safe_number(rng)], []]]
            return ["add_category", gen_tree(rng, depth, 2)[0]]
        if r < 0.8 and data["series"]:
            return ["add_points", rng.randrange(len(data["series"])), [safe_value(rng) for _ in range(rng.randint(1, 3))]]
        if r < 0.9:
            return ["set_categories", [["s", safe_string(rng)] for _ in range(rng.randint(1, 6))]]
        return ["number_format", rng.choice(["0.0", "#,##0", "General", "yyyy-mm-dd"])]
    def pts(n):
        return [[safe_value(rng, 0.1), safe_value(rng, 0.1), safe_value(rng, 0.1) if kind == "bub" else None] for _ in range(n)]
    if r < 0.45 or not data["series"]:
        return ["add_series", safe_string(rng) + "+", pts(rng.randint(1, 4))]
    if r < 0.9:
        return ["add_points", rng.randrange(len(data["series"])), pts(rng.randint(1, 3))]
    return ["number_format", rng.choice(["0.0", "#,##0", "General"])]


def is_pie(data, salt=0):
    """the pie writer emits c:ser for the first series only (a new chart; replace_data rewrites all)"""
    from pptx.enum.chart import XL_CHART_TYPE as T

    return chart_type_for(data, salt) in (T.PIE, T.PIE_EXPLODED)


_ALL_CAT = []


def all_category_types():
    """every chart type the library writes from category chart data (each has its own XML template), in enum order"""
    if not _ALL_CAT:
        from pptx.chart.data import CategoryChartData
        from pptx.chart.xmlwriter import ChartXmlWriter
        from pptx.enum.chart import XL_CHART_TYPE as T
        cd = CategoryChartData()
        cd.categories = ["a"]
        cd.add_series("s", (1,))
        for t in T:
            if "XY" in t.name or "BUBBLE" in t.name:
                continue
            try:
                ChartXmlWriter(t, cd).xml
            except Exception:  # noqa  (types without a writer)
                continue
            _ALL_CAT.append(t)
    return _ALL_CAT


def chart_type_for(data, salt=0):
    from pptx.enum.chart import XL_CHART_TYPE as T

    if data["kind"] == "cat" and salt >= 1000:
        return all_category_types()[(salt - 1000) % len(all_category_types())]
    if data["kind"] == "cat":
        ts = [T.BAR_CLUSTERED, T.LINE, T.PIE, T.AREA, T.DOUGHNUT, T.RADAR, T.COLUMN_STACKED, T.LINE_MARKERS]
        if not data["series"]:
            ts = [T.BAR_CLUSTERED, T.LINE, T.AREA]  # the pie writer indexes series 0
    elif data["kind"] == "xy":
        ts = [T.XY_SCATTER, T.XY_SCATTER_LINES, T.XY_SCATTER_SMOOTH_NO_MARKERS]
    else:
        ts = [T.BUBBLE, T.BUBBLE_THREE_D_EFFECT]
    return ts[salt % len(ts)]


# ------------------------------------------------------------------ reading the implementation's output
_XESC = re.compile(r"_x([0-9A-Fa-f]{4})_")


def _unesc(s):
    return _XESC.sub(lambda m: chr(int(m.group(1), 16)), s)


def col_number(letters):
    """Independent reading of a column reference: bijective base 26."""
    n = 0
    for ch in letters:
        if not ("A" <= ch <= "Z"):
            raise ValueError("not a column letter: %r" % ch)
        n = n * 26 + (ord(ch) - ord("A") + 1)
    return n


def read_xlsx(blob):
    """-> {(row, col): cell} (0-based), cell = ('S', str) | ('N', Fraction) | ('F', str) | ('X', text)."""
    z = zipfile.ZipFile(io.BytesIO(blob))
    wb = etree.fromstring(z.read("xl/workbook.xml"))
    rid = None
    for sh in wb.iter(M("sheet")):
        if sh.get("name") == "Sheet1":
            rid = sh.get("{%s}id" % R_NS)
    if rid is None:
        raise AssertionError("workbook has no sheet named Sheet1")
    rels = etree.fromstring(z.read("xl/_rels/workbook.xml.rels"))
    target = None
    for r in rels:
        if r.get("Id") == rid:
            target = r.get("Target")
    path = target[1:] if target.startswith("/") else "xl/" + target
    shared = []
    if "xl/sharedStrings.xml" in z.namelist():
        sst = etree.fromstring(z.read("xl/sharedStrings.xml"))
        for si in sst.iter(M("si")):
            shared.append(_unesc("".join(t.text or "" for t in si.iter(M("t")))))
    ws = etree.fromstring(z.read(path))
    cells = {}
    for c in ws.iter(M("c")):
        m = re.fullmatch(r"([A-Z]+)([0-9]+)", c.get("r"))
        key = (int(m.group(2)) - 1, col_number(m.group(1)) - 1)
        t = c.get("t")
        f = c.find(M("f"))
        v = c.find(M("v"))
        if f is not None:
            cells[key] = ("F", f.text or "")
        elif t == "s":
            cells[key] = ("S", shared[int(v.text)])
        elif t == "inlineStr":
            cells[key] = ("S", _unesc("".join(x.text or "" for x in c.iter(M("t")))))
        elif t == "str":
            cells[key] = ("S", v.text or "")
        elif v is not None and (t is None or t == "n"):
            cells[key] = ("N", Fraction(*float(v.text).as_integer_ratio()))
        elif v is not None:
            cells[key] = ("X", v.text)
        # a c element without v is a formatted blank: empty
    return cells


def _cache(el):
    """el: c:strCache / c:numCache / c:lvl parent -> (ptCount or None, [(idx, text)])"""
    pc = el.find(C("ptCount"))
    pts = [(int(p.get("idx")), p.findtext(C("v")) or "") for p in el.findall(C("pt"))]
    return (int(pc.get("val")) if pc is not None else None), pts


def _ref(el):
    """el: numRef / strRef / multiLvlStrRef -> dict(ref, kind, count, levels)"""
    tag = etree.QName(el).localname
    f = el.findtext(C("f"))
    if tag == "multiLvlStrRef":
        ca = el.find(C("multiLvlStrCache"))
        pc = ca.find(C("ptCount"))
        levels = [[(int(p.get("idx")), p.findtext(C("v")) or "") for p in lvl.findall(C("pt"))]
                  for lvl in ca.findall(C("lvl"))]
        return {"ref": f, "kind": "m", "count": int(pc.get("val")), "levels": levels}
    ca = el.find(C("numCache")) if tag == "numRef" else el.find(C("strCache"))
    cnt, pts = _cache(ca)
    return {"ref": f, "kind": "n" if tag == "numRef" else "s", "count": cnt, "levels": [pts]}


def read_chart_xml(root):
    """-> list of series: dict(tx=ref, cat=ref|None, val|xVal|yVal|bubbleSize=ref)"""
    out = []
    for ser in root.iter(C("ser")):
        d = {}
        for tag in ("tx", "cat", "val", "xVal", "yVal", "bubbleSize"):
            el = ser.find(C(tag))
            if el is not None and len(el):
                d[tag] = _ref(el[0])
        out.append(d)
    return out


def impl_one(data, date1904=False, salt=0):
    """XML and workbook of one chart data object, as ChartPart.new produces them
    (date1904 only matters on the replace_data path, which goes through a chart)."""
    from pptx.chart.xmlwriter import ChartXmlWriter

    res = {}
    try:
        cd = build(data)
    except Exception as e:  # noqa
        return {"xml": "err:" + exc_name(e), "sheet": "err:" + exc_name(e)}
    try:
        xml = ChartXmlWriter(chart_type_for(data, salt), cd).xml
        res["xml"] = read_chart_xml(etree.fromstring(xml.encode("utf-8")))
    except Exception as e:  # noqa
        res["xml"] = "err:" + exc_name(e)
    try:
        with warnings.catch_warnings():
            warnings.simplefilter("ignore")
            res["sheet"] = read_xlsx(cd.xlsx_blob)
    except Exception as e:  # noqa
        res["sheet"] = "err:" + exc_name(e)
    return res


def impl_hist(case):
    """New chart on a slide, then the history; state observed after every operation."""
    from pptx import Presentation
    from pptx.util import Inches

    states = []
    data0 = case["data"]
    muts = case.get("muts")           # reuse: ONE chart-data object, mutated in place between uses
    if muts is not None and case.get("mode") == "blob":
        return impl_reuse_blob(case), None
    prs = Presentation()
    slide = prs.slides.add_slide(prs.slide_layouts[6])
    live = None
    # other charts already in the package (each with its own embedded workbook): the chart under test is added after them
    npre = int(case.get("pre", 0))
    if npre:
        from pptx.chart.data import CategoryChartData
        from pptx.enum.chart import XL_CHART_TYPE
        other = prs.slides.add_slide(prs.slide_layouts[6])
        for j in range(npre):
            ocd = CategoryChartData()
            ocd.categories = ["pre%d-c%d" % (j, t) for t in range(2 + j)]
            ocd.add_series("pre%d-s" % j, [j * 10 + t for t in range(2 + j)])
            with warnings.catch_warnings():
                warnings.simplefilter("ignore")
                (other if j % 2 else slide).shapes.add_chart(XL_CHART_TYPE.BAR_CLUSTERED, 0, 0, Inches(2), Inches(2), ocd)
    try:
        with warnings.catch_warnings():
            warnings.simplefilter("ignore")
            live = build(data0)
            gf = slide.shapes.add_chart(chart_type_for(data0, case.get("salt", 0)), 0, 0, Inches(4), Inches(3), live)
    except Exception as e:  # noqa
        return ["err:" + exc_name(e)], None
    chart = gf.chart

    def observe():
        part = chart.part
        xl = [r.target_part for r in part.rels.values() if not r.is_external and r.target_part.partname.endswith(".xlsx")]
        return {"parts": len(xl), "date1904": bool(chart._chartSpace.date_1904),
                "xml": read_chart_xml(chart._chartSpace),
                "sheet": read_xlsx(part.chart_workbook.xlsx_part.blob)}

    states.append(observe())
    for oi, o in enumerate(case["ops"]):
        try:
            if o[0] == "d1904":
                cs = chart._chartSpace
                cs.get_or_add_date1904().val = bool(o[1])
            elif muts is not None:
                for m in muts[oi]:
                    apply_mut_obj(live, data0["kind"], m)
                with warnings.catch_warnings():
                    warnings.simplefilter("ignore")
                    chart.replace_data(live)
            else:
                with warnings.catch_warnings():
                    warnings.simplefilter("ignore")
                    chart.replace_data(build(o[1]))
        except Exception as e:  # noqa
            states.append("err:" + exc_name(e))
            break
        states.append(observe())
    reopened = None
    if case.get("reopen") and not isinstance(states[-1], str):
        from pptx import Presentation as P2

        buf = io.BytesIO()
        prs.save(buf)
        buf.seek(0)
        prs2 = P2(buf)
        # the chart under test is the last chart added to the first slide
        ch2 = [sh for sh in prs2.slides[0].shapes if sh.has_chart][-1].chart
        reopened = {"xml": read_chart_xml(ch2._chartSpace),
                    "sheet": read_xlsx(ch2.part.chart_workbook.xlsx_part.blob)}
        # every other chart of the package must still sit on ITS OWN workbook: cached name and values against the cells
        for sl in prs2.slides:
            for sh in sl.shapes:
                if sh.has_chart and sh.chart is not ch2:
                    oxml, osheet = read_chart_xml(sh.chart._chartSpace), read_xlsx(sh.chart.part.chart_workbook.xlsx_part.blob)
                    bad = oracle_state(oxml, osheet)
                    if bad:
                        reopened.setdefault("other_charts_bad", []).append(str(bad[0])[:200])
    return states, reopened


_CORPUS = None


def corpus_charts():
    """(file, slide index, shape index, kind, date1904) of every chart of the decks under /repo."""
    global _CORPUS
    if _CORPUS is not None:
        return _CORPUS
    import glob
    import os
    from pptx import Presentation
    from pptx.enum.chart import XL_CHART_TYPE as T

    xy = (T.XY_SCATTER, T.XY_SCATTER_LINES, T.XY_SCATTER_LINES_NO_MARKERS, T.XY_SCATTER_SMOOTH, T.XY_SCATTER_SMOOTH_NO_MARKERS)
    bub = (T.BUBBLE, T.BUBBLE_THREE_D_EFFECT)
    out = []
    repo = os.environ.get("VERIF_REPO", "/repo")
    for f in sorted(glob.glob(os.path.join(repo, "**", "*.pptx"), recursive=True)):
        try:
            prs = Presentation(f)
        except Exception:  # noqa
            continue
        for si, sl in enumerate(prs.slides):
            for hi, sh in enumerate(sl.shapes):
                if getattr(sh, "has_chart", False) and sh.has_chart:
                    try:
                        ct = sh.chart.chart_type
                    except Exception:  # noqa
                        continue
                    if len(sh.chart._chartSpace.plotArea.sers) == 0:
                        continue  # replace_data cannot clone a series there (AttributeError in _add_cloned_sers: C07's subject)
                    kind = "xy" if ct in xy else "bub" if ct in bub else "cat"
                    out.append((os.path.relpath(f, repo), si, hi, kind, bool(sh.chart._chartSpace.date_1904)))
    _CORPUS = out
    return out


def combo_chart(case):
    """A combination chart as PowerPoint writes it and python-pptx never does: a clustered bar chart made through
    the API from case['data0'], whose last case['combo'] series are then moved (lxml) into a c:lineChart that follows
    the c:barChart in the same c:plotArea and shares its axes."""
    import copy
    from lxml import etree
    from pptx import Presentation
    from pptx.enum.chart import XL_CHART_TYPE
    from pptx.util import Inches

    prs = Presentation()
    slide = prs.slides.add_slide(prs.slide_layouts[6])
    with warnings.catch_warnings():
        warnings.simplefilter("ignore")
        chart = slide.shapes.add_chart(XL_CHART_TYPE.COLUMN_CLUSTERED, 0, 0, Inches(4), Inches(3), build(case["data0"])).chart
    bar = chart._chartSpace.plotArea.find(C("barChart"))
    sers = bar.findall(C("ser"))
    line = etree.Element(C("lineChart"))
    etree.SubElement(line, C("grouping")).set("val", "standard")
    etree.SubElement(line, C("varyColors")).set("val", "0")
    for sr in sers[len(sers) - case["combo"]:]:
        bar.remove(sr)
        for tag in ("invertIfNegative",):
            for el in sr.findall(C(tag)):
                sr.remove(el)
        line.append(sr)
    etree.SubElement(line, C("marker")).set("val", "1")
    for ax in bar.findall(C("axId")):
        line.append(copy.deepcopy(ax))
    bar.addnext(line)
    case["_chart_keepalive"] = prs
    return chart


def impl_corpus(case):
    """replace_data on a chart of a PowerPoint-authored deck; state observed afterwards."""
    import os
    from pptx import Presentation

    repo = os.environ.get("VERIF_REPO", "/repo")
    if case.get("combo"):
        chart = combo_chart(case)
    else:
        prs = Presentation(os.path.join(repo, case["file"]))
        chart = prs.slides[case["slide"]].shapes[case["shape"]].chart
    try:
        with warnings.catch_warnings():
            warnings.simplefilter("ignore")
            chart.replace_data(build(case["data"]))
    except Exception as e:  # noqa
        return "err:" + exc_name(e)
    part = chart.part
    xl = [r.target_part for r in part.rels.values() if not r.is_external and r.target_part.partname.endswith(".xlsx")]
    return {"parts": len(xl), "xml": read_chart_xml(chart._chartSpace), "sheet": read_xlsx(part.chart_workbook.xlsx_part.blob)}


def _ser_key(d):
    pr = parse_ref(d["tx"]["ref"]) if "tx" in d else None
    return pr or (0, 0, 0, 0)


def impl_reuse_blob(case):
    """No chart: xml_bytes / xlsx_blob asked several times of ONE chart-data object that is
    extended in between (what ChartPart.new and replace_data ask of it)."""
    data0 = case["data"]
    kind = data0["kind"]
    ct = chart_type_for(data0, 0 if kind == "cat" else case.get("salt", 0))   # not a pie: every series in the XML
    states = []
    try:
        live = build(data0)
    except Exception as e:  # noqa
        return ["err:" + exc_name(e)]

    def observe():
        with warnings.catch_warnings():
            warnings.simplefilter("ignore")
            x1 = live.xml_bytes(ct)
            b1 = live._workbook_writer.xlsx_blob
            b2 = live.xlsx_blob          # asked twice, as add_chart then replace_data would
            x2 = live.xml_bytes(ct)
        st = {"parts": 1, "date1904": False, "xml": read_chart_xml(etree.fromstring(x1)), "sheet": read_xlsx(b1)}
        st["repeat_same"] = (read_xlsx(b2) == st["sheet"]) and x1 == x2
        return st

    try:
        states.append(observe())
        for ms in case["muts"]:
            for m in ms:
                apply_mut_obj(live, kind, m)
            states.append(observe())
    except Exception as e:  # noqa
        states.append("err:" + exc_name(e))
    return states


# ------------------------------------------------------------------ the oracle (independent of the model)
_REF = re.compile(r"Sheet1!\$([^$]*)\$([0-9]+)(?::\$([^$]*)\$([0-9]+))?")


def parse_ref(text):
    m = _REF.fullmatch(text or "")
    if not m:
        return None
    try:
        c1 = col_number(m.group(1))
        c2 = col_number(m.group(3)) if m.group(3) is not None else c1
    except ValueError:
        return None
    if c1 < 1 or c2 < 1:
        return None
    r1 = int(m.group(2))
    r2 = int(m.group(4)) if m.group(4) is not None else r1
    return (c1, r1, c2, r2)


def text_eq_cell(text, cell):
    """Does the cached text equal what the cell holds?  text None = no cached point."""
    if cell is None:
        return text is None or text == ""
    if text is None:
        return False
    if cell[0] == "S":
        return text == cell[1]
    if cell[0] == "N":
        try:
            f = float(text)
        except ValueError:
            return False
        if f != f or f in (float("inf"), float("-inf")):
            return False
        return Fraction(*f.as_integer_ratio()) == cell[1]
    return False  # formula or other cell: it does not hold the cached value


def oracle_ref(sheet, ref, where, fails, single_col=True, name=False):
    """One c:f with its cache(s).  Appends (kind, detail) to fails."""
    rg = parse_ref(ref["ref"])
    if rg is None:
        fails.append(("bad-ref", "%s: c:f %r is not a Sheet1 A1 reference" % (where, ref["ref"]), ref["ref"], None, None))
        return
    c1, r1, c2, r2 = rg
    if r1 > r2 or c1 > c2:
        fails.append(("reversed-range", "%s: c:f %r has its first row/column after its last (ptCount %s)" % (where, ref["ref"], ref["count"]), ref["ref"], None, None))
        return
    if r2 - r1 + 1 != ref["count"]:
        fails.append(("size", "%s: c:f %r has %d rows, c:ptCount says %s" % (where, ref["ref"], r2 - r1 + 1, ref["count"]), ref["ref"], None, None))
        return
    if c2 - c1 + 1 != len(ref["levels"]):
        fails.append(("size", "%s: c:f %r has %d columns for %d cached levels" % (where, ref["ref"], c2 - c1 + 1, len(ref["levels"])), ref["ref"], None, None))
        return
    for li, pts in enumerate(ref["levels"]):
        col = c2 - li  # leaf level first = right-most column
        seen = {}
        for idx, text in pts:
            if not (0 <= idx < ref["count"]):
                fails.append(("idx", "%s: c:pt idx %d outside ptCount %d" % (where, idx, ref["count"]), ref["ref"], None, text))
                continue
            if idx in seen:
                fails.append(("idx", "%s: c:pt idx %d twice" % (where, idx), ref["ref"], None, text))
            seen[idx] = text
        for k in range(ref["count"]):
            cell = sheet.get((r1 - 1 + k, col - 1))
            text = seen.get(k)
            if not text_eq_cell(text, cell):
                fails.append(("cell", "%s: c:f %r point %d (level %d) cached %r but cell %s%d holds %r" % (
                    where, ref["ref"], k, li, text, _letters(col), r1 + k, cell), ref["ref"], cell, text))


def _letters(n):
    s = ""
    while n:
        n, r = divmod(n - 1, 26)
        s = chr(65 + r) + s
    return s


def oracle_state(xml, sheet):
    fails = []
    for i, ser in enumerate(xml):
        for tag in ("tx", "cat", "val", "xVal", "yVal", "bubbleSize"):
            if tag in ser:
                oracle_ref(sheet, ser[tag], "series %d %s" % (i, tag), fails)
    return fails


# classification of an oracle failure into a stable input class
def _all_strings(data):
    out = []
    if data["kind"] == "cat":
        def walk(n):
            if n[0] is not None and n[0][0] == "s":
                out.append(n[0][1])
            for ch in n[1]:
                walk(ch)
        for c in data["cats"]:
            walk(c)
    for s in data["series"]:
        if s[0] is not None:
            out.append(s[0])
    return out


def _all_labels(data):
    out = []
    if data["kind"] == "cat":
        def walk(n):
            out.append(n[0])
            for ch in n[1]:
                walk(ch)
        for c in data["cats"]:
            walk(c)
    return out


URL_PREFIX = re.compile(r"(ftp|http)s?://|mailto:|(in|ex)ternal:|file://")


def str_class(s):
    if s.startswith("="):
        return "string-as-formula"
    if s.startswith("{=") and s.endswith("}"):
        return "string-as-formula"
    if URL_PREFIX.match(s):
        return "string-as-url"
    if len(s) > 32767:
        return "string-over-32767"
    return None


def classify(fail, data, date1904):
    """Stable class name of one oracle failure.  The six classes recorded against
    python-pptx are recognised by a precise predicate on the failing cell and cached
    text; everything else keeps a generic name, so that any other disagreement between
    cache and sheet stays a violation of its own."""
    kind, what, ref, cell, text = fail
    tag = what.split(":", 1)[0].split(" ")[-1]   # tx | cat | val | xVal | yVal | bubbleSize
    if kind == "reversed-range":
        # empty series: ptCount 0 and the range is exactly one row upside down ($B$2:$B$1)
        m = _REF.fullmatch(ref or "")
        if (m and m.group(3) is not None and tag in ("val", "xVal", "yVal", "bubbleSize")
                and m.group(1) == m.group(3) and int(m.group(2)) == int(m.group(4)) + 1
                and "(ptCount 0)" in what and any(len(s[1]) == 0 for s in data["series"])):
            return "empty-series-range"
        return "reversed-range"
    if kind == "bad-ref":
        if data["kind"] == "cat" and tag == "cat" and _depth(data["cats"]) > 26:
            return "category-depth-over-26"
        return "bad-ref"
    if kind == "cell":
        labels = _all_labels(data)
        if text is not None and tag in ("tx", "cat"):
            sc = str_class(text)
            if sc == "string-as-formula" and cell is not None and cell[0] == "F":
                return sc
            if sc == "string-as-url" and (cell is None or (cell[0] == "S" and cell[1] != text and text.endswith(cell[1]))):
                # XlsxWriter strips mailto: / internal: / external: / file:// or drops an over-long url
                return sc
            if sc == "string-over-32767" and cell is not None and cell[0] == "S" and cell[1] == text[:32767]:
                return sc
            if text == "None" and cell is None and tag == "cat" and any(l is None for l in labels):
                return "numeric-category-none"
        if cell is not None and cell[0] == "N" and text is not None:
            try:
                f = float(text)
            except ValueError:
                f = None
            if f is not None and f == f and abs(f) != float("inf"):
                fr = Fraction(*f.as_integer_ratio())
                if tag == "cat" and any(l is not None and l[0] == "t" and l[1:4] == [1900, 1, 1] for l in labels) and fr == 1 and 0 <= cell[1] < 1:
                    return "datetime-1900-01-01"
                if tag == "cat" and any(l is not None and l[0] == "t" and l[4:8] != [0, 0, 0, 0] for l in labels) and 0 < cell[1] - fr < 1:
                    return "datetime-time-of-day"
                if tag == "cat" and date1904 and any(l is not None and l[0] in "dt" for l in labels) and cell[1] - fr in (1461, 1462):
                    # the chart caches the 1904 serial, the workbook is always written in the 1900 system
                    return "date1904-replace"
                if tag in ("val", "xVal", "yVal", "bubbleSize") and float("%.16G" % f) != f \
                        and Fraction(*float("%.16G" % f).as_integer_ratio()) == cell[1]:
                    return "number-over-16-digits"
        return "cache-cell-mismatch"
    return kind


def _depth(cats):
    d = 0
    while cats:
        d += 1
        cats = cats[0][1]
    return d


# ------------------------------------------------------------------ model output -> canonical
def _mcval(t):
    t = t.strip()
    if t == "O":
        return ("O",)
    if t[0] == "S":
        return ("s", dec(t[1:]))
    if t[0] == "N":
        _n, a, b = t.split(" ")
        return ("n", Fraction(int(a), int(b)))
    raise ValueError(t)


def _mpts(t):
    if t == "":
        return []
    out = []
    for p in t.split(":"):
        i, v = p.split("=", 1)
        out.append((int(i), _mcval(v)))
    return out


def _mcache(t):
    cnt, _, rest = t.partition(":")
    return int(cnt), _mpts(rest)


def _mcell(t):
    if t == "E":
        return None
    if t == "O":
        return ("O",)
    if t[0] == "S":
        return ("S", dec(t[1:]))
    if t[0] == "F":
        return ("F", dec(t[1:]))
    if t[0] == "N":
        _n, a, b = t.split(" ")
        return ("N", Fraction(int(a), int(b)))
    raise ValueError(t)


def model_xml(t):
    if t in ("c", "x"):
        return []
    parts = t.split(";")
    kind, sers = parts[0], parts[1:]
    out = []
    for s in sers:
        f = s.split(",")
        d = {"tx": {"ref": dec(f[0]), "kind": "s", "count": 1, "levels": [[(0, ("s", dec(f[1])))]], "rng": f[6]}}
        if kind == "c":
            cc = f[3].split("/")
            d["cat"] = {"ref": dec(f[2]), "kind": cc[0], "count": int(cc[1]), "levels": [_mpts(x) for x in cc[2:]], "rng": f[7]}
            cnt, pts = _mcache(f[5])
            d["val"] = {"ref": dec(f[4]), "kind": "n", "count": cnt, "levels": [pts], "rng": f[8]}
        else:
            cnt, pts = _mcache(f[3])
            d["xVal"] = {"ref": dec(f[2]), "kind": "n", "count": cnt, "levels": [pts], "rng": f[7]}
            cnt, pts = _mcache(f[5])
            d["yVal"] = {"ref": dec(f[4]), "kind": "n", "count": cnt, "levels": [pts], "rng": f[8]}
            if len(f) > 9:
                cnt, pts = _mcache(f[10])
                d["bubbleSize"] = {"ref": dec(f[9]), "kind": "n", "count": cnt, "levels": [pts], "rng": f[11]}
        out.append(d)
    return out


def model_sheet(t):
    cells = {}
    if t == "":
        return cells
    for c in t.split(";"):
        r, col, v = c.split(",", 2)
        cell = _mcell(v)
        key = (int(r), int(col))
        if cell is None:
            cells.pop(key, None)
        else:
            cells[key] = cell
    return cells


def diff_xml(mx, ix):
    """model xml (typed cache values) vs implementation xml (texts)."""
    if isinstance(mx, str) or isinstance(ix, str):
        return None if mx == ix else "xml outcome model=%s impl=%s" % (_short(mx), _short(ix))
    if len(mx) != len(ix):
        return "series count model=%d impl=%d" % (len(mx), len(ix))
    for i, (m, x) in enumerate(zip(mx, ix)):
        if set(m) != set(x):
            return "series %d elements model=%s impl=%s" % (i, sorted(m), sorted(x))
        for tag in m:
            a, b = m[tag], x[tag]
            if a["ref"] != b["ref"]:
                return "series %d %s c:f model=%r impl=%r" % (i, tag, a["ref"], b["ref"])
            # the structured reference of the model against an independent parse of the text
            pr = parse_ref(b["ref"])
            if pr is not None and " ".join(str(v) for v in pr) != a["rng"]:
                return "series %d %s structured ref model=%s parsed=%s" % (i, tag, a["rng"], pr)
            if a["kind"] != b["kind"] or a["count"] != b["count"] or len(a["levels"]) != len(b["levels"]):
                return "series %d %s cache shape model=%s/%s/%d impl=%s/%s/%d" % (
                    i, tag, a["kind"], a["count"], len(a["levels"]), b["kind"], b["count"], len(b["levels"]))
            for la, lb in zip(a["levels"], b["levels"]):
                if [p[0] for p in la] != [p[0] for p in lb]:
                    return "series %d %s pt idx model=%s impl=%s" % (i, tag, [p[0] for p in la][:8], [p[0] for p in lb][:8])
                for (ia, va), (ib, tb) in zip(la, lb):
                    if va[0] == "O":
                        continue
                    if va[0] == "s":
                        if va[1] != tb:
                            return "series %d %s pt %d model=%r impl=%r" % (i, tag, ia, va[1], tb)
                    else:
                        try:
                            f = Fraction(*float(tb).as_integer_ratio())
                        except (ValueError, OverflowError):
                            return "series %d %s pt %d model number %s impl text %r" % (i, tag, ia, va[1], tb)
                        if f != va[1]:
                            return "series %d %s pt %d model=%s impl=%r" % (i, tag, ia, va[1], tb)
    return None


def diff_sheet(ms, isheet, approx_keys=()):
    if isinstance(ms, str) or isinstance(isheet, str):
        return None if ms == isheet else "sheet outcome model=%s impl=%s" % (_short(ms), _short(isheet))
    for k in sorted(set(ms) | set(isheet)):
        a, b = ms.get(k), isheet.get(k)
        if a is not None and a[0] == "O":
            continue
        if a == b:
            continue
        if a and b and a[0] == "N" and b[0] == "N" and k not in approx_keys:
            # XlsxWriter stores a number as the text '%.16G' (see TB): apply it to the model's exact value
            try:
                if Fraction(*float("%.16G" % float(a[1])).as_integer_ratio()) == b[1]:
                    continue
            except (OverflowError, ValueError):
                pass
        if k in approx_keys and a and b and a[0] == "N" and b[0] == "N" and abs(a[1] - b[1]) < Fraction(1, 10 ** 9):
            continue  # datetime with a time of day: float arithmetic in XlsxWriter (see ASSUME)
        return "cell %s%d model=%r impl=%r" % (_letters(k[1] + 1), k[0] + 1, a, b)
    return None


def _short(x):
    s = x if isinstance(x, str) else "ok"
    return s[:60]


# ------------------------------------------------------------------ generators
SAFE_WORDS = ["Q1", "East", "été", "a b", " lead", "trail ", "&<>\"'", "\U0001F600x", "日本", "_x0041_", "a\nb", "1.5", "TRUE",
              "x=y", "a:b", "@x", "+1", "-1", "'q", "#N/A", "Série 1", "http", "mail to:x", "{=}x", "Sheet1!A1", "$A$1", "None", "0"]
ODD_STRINGS = ["=1+1", "=SUM(A1:A2)", "=", "{=SUM(1)}", "mailto:a@b.c", "internal:Sheet1!A1", "external:c:\\f.xlsx", "file://xyz",
               "http://example.com/a", "https://example.com/?q=1", "ftp://h/p", "ftps://h/p"]


def safe_number(rng):
    r = rng.random()
    if r < 0.35:
        return rng.randint(-1000, 100000)
    if r < 0.6:
        return rng.randint(-4000, 4000) / 8.0
    if r < 0.85:
        return round(rng.uniform(-1000, 1000), rng.randint(0, 4))
    if r < 0.9:
        return rng.choice([0, 0.0, -0.0, 1e-7, 1e22, 2.5e-300, 1e15, 123456789012345, -1])
    return rng.randint(0, 10 ** 9) * 1000


def safe_value(rng, p_none=0.15):
    return None if rng.random() < p_none else safe_number(rng)


def safe_string(rng):
    r = rng.random()
    if r < 0.6:
        return rng.choice(SAFE_WORDS)
    if r < 0.9:
        return "".join(rng.choice("abcXYZ 019-_.é") for _ in range(rng.randint(1, 8)))
    return rng.choice(SAFE_WORDS) + str(rng.randint(0, 99))


def gen_tree(rng, depth, width, ragged=True):
    """uniform-depth forest with ragged branching; string labels"""
    def node(d):
        kids = []
        if d > 1:
            kids = [node(d - 1) for _ in range(rng.randint(1, width) if ragged else width)]
        lab = None if rng.random() < 0.04 else ["s", safe_string(rng)]
        return [lab, kids]
    return [node(depth) for _ in range(rng.randint(1, width))]


def gen_series(rng, n, maxlen, same_len=None, p_empty=0.0):
    out = []
    for i in range(n):
        if same_len is not None and rng.random() < 0.7:
            ln = same_len
        else:
            ln = rng.randint(1, maxlen) if maxlen >= 1 else 0
        if rng.random() < p_empty:
            ln = 0
        name = None if rng.random() < 0.05 else ("" if rng.random() < 0.03 else safe_string(rng) + str(i))
        out.append([name, [safe_value(rng) for _ in range(ln)]])
    return out


DATE_POOL = [(1900, 1, 1), (1900, 1, 2), (1900, 2, 27), (1900, 2, 28), (1900, 3, 1), (1900, 3, 2), (1899, 12, 31), (1899, 12, 30),
             (1850, 6, 1), (1903, 12, 31), (1904, 1, 1), (1904, 1, 2), (1904, 2, 29), (1970, 1, 1), (2000, 2, 29), (2024, 12, 31),
             (2038, 1, 19), (9999, 12, 31), (1, 1, 1), (1600, 2, 29)]


def gen_dates(rng, n, with_datetime):
    out = []
    for _ in range(n):
        if rng.random() < 0.5:
            y, m, d = rng.choice(DATE_POOL)
        else:
            y, m, d = rng.randint(1890, 2100), rng.randint(1, 12), rng.randint(1, 28)
        if with_datetime and rng.random() < 0.5 and (y, m, d) != (1900, 1, 1):
            out.append([["t", y, m, d, 0, 0, 0, 0], []])
        else:
            out.append([["d", y, m, d], []])
    return out


def gen_cat(rng, nser=None, depth=None, maxlen=6, p_empty=0.0, width=3):
    depth = depth or rng.choice([1, 1, 1, 2, 2, 3, 4])
    r = rng.random()
    if depth == 1 and r < 0.25:
        cats = gen_dates(rng, rng.randint(1, 8), True)
    elif depth == 1 and r < 0.45:
        cats = [[["n", safe_number(rng)], []] for _ in range(rng.randint(1, 8))]
    else:
        cats = gen_tree(rng, depth, width)
    leafs = _leafs(cats)
    nser = rng.randint(0, 5) if nser is None else nser
    return {"kind": "cat", "cats": cats, "series": gen_series(rng, nser, maxlen, same_len=leafs, p_empty=p_empty)}


def _leafs(cats):
    return sum(_leafs(c[1]) if c[1] else 1 for c in cats)


def gen_xy(rng, kind, nser=None, maxlen=8, p_empty=0.0):
    nser = rng.randint(0, 6) if nser is None else nser
    series = []
    for i in range(nser):
        ln = 0 if rng.random() < p_empty else rng.randint(1, maxlen)
        name = None if rng.random() < 0.05 else safe_string(rng) + str(i)
        pts = [[safe_value(rng, 0.1), safe_value(rng, 0.1), safe_value(rng, 0.1) if kind == "bub" else None] for _ in range(ln)]
        series.append([name, pts])
    return {"kind": kind, "series": series}


def gen_cases(tier, rng):
    quick = tier == "quick"
    cases = []
    # A. _column_reference over its whole domain and around it
    for n in list(range(1, 16385)) + [0, -1, -26, 16385, 16386, 17576, 18278, 18279, 10 ** 6, 2 ** 40]:
        cases.append({"op": "col", "n": n})
    # B. series counts across the A..Z / AA..ZZ / AAA boundaries, category depth 1..4
    counts = [24, 25, 26, 27, 52, 53, 700, 703] if quick else [1, 2, 23, 24, 25, 26, 27, 28, 51, 52, 53, 54, 78, 676, 677, 700, 701, 702, 703, 704, 1400]
    for n in counts:
        for depth in ([1, 3] if quick else [1, 2, 3, 4]):
            d = gen_cat(rng, nser=n, depth=depth, maxlen=3 if n > 100 else 5)
            cases.append({"op": "one", "data": d, "klass": "cat-boundary", "agree": n <= 60})
    # C. random category charts: ragged trees, dates, numbers, None, unequal lengths (no empty series)
    for i in range(1500 if quick else 12000):
        cases.append({"op": "one", "data": gen_cat(rng), "klass": "cat-random", "agree": True})
    # D. XY / bubble with unequal lengths
    for i in range(1100 if quick else 9000):
        kind = "xy" if i % 2 == 0 else "bub"
        cases.append({"op": "one", "data": gen_xy(rng, kind), "klass": kind + "-random", "agree": True})
    for n in ([40, 120] if quick else [40, 120, 400, 1000]):
        for kind in ("xy", "bub"):
            cases.append({"op": "one", "data": gen_xy(rng, kind, nser=n, maxlen=4), "klass": kind + "-many", "agree": n <= 120})
    # E. histories through a real presentation: new chart then replace_data with differently shaped data
    for i in range(300 if quick else 2400):
        kind = ["cat", "cat", "xy", "bub"][i % 4]
        mk = (lambda: gen_cat(rng, nser=rng.randint(1, 5))) if kind == "cat" else (lambda: gen_xy(rng, kind, nser=rng.randint(1, 5)))
        ops = [["rep", mk()] for _ in range(rng.randint(1, 3))]
        cases.append({"op": "hist", "data": mk(), "ops": ops, "salt": i, "reopen": i % 5 == 0, "pre": (i // 5) % 5 if i % 5 == 0 else 0,
                      "klass": "hist-" + kind})
    # E1. ONE chart-data object used, extended in place (series, categories, points, number format), used again:
    #     through a chart (add_chart then replace_data with the same object) and without one (xml_bytes / xlsx_blob twice)
    for i in range(120 if quick else 1200):
        kind = ["cat", "xy", "cat", "bub"][i % 4]
        d0 = gen_cat(rng, nser=rng.randint(1, 3)) if kind == "cat" else gen_xy(rng, kind, nser=rng.randint(1, 3))
        snaps, muts, cur = [], [], d0
        for _ in range(rng.randint(1, 3)):
            ms = []
            for _m in range(rng.randint(1, 2)):
                m = gen_mut(rng, cur)
                cur = apply_mut_data(cur, m)
                ms.append(m)
            muts.append(ms)
            snaps.append(cur)
        cases.append({"op": "hist", "data": d0, "ops": [["rep", sn] for sn in snaps], "muts": muts,
                      "mode": "blob" if i % 3 == 2 else "chart", "salt": i, "reopen": i % 6 == 0,
                      "klass": "reuse-%s-%s" % ("blob" if i % 3 == 2 else "chart", kind)})
    # E2. replace_data on the charts of the PowerPoint-authored decks under /repo
    cc = corpus_charts()
    for i, (f, si, hi, kind, d19) in enumerate(cc if not quick else cc[::3]):
        d = gen_cat(rng, nser=rng.randint(1, 5)) if kind == "cat" else gen_xy(rng, kind, nser=rng.randint(1, 5))
        cases.append({"op": "corpus", "file": f, "slide": si, "shape": hi, "data": d, "date1904": d19, "klass": "corpus-" + kind})
    # E3. combination charts (two plots sharing the axes): every multi-plot chart of the corpus and generated
    # bar + line charts, with fewer series than the last plot holds, fewer than the first, and more than before
    multi = []
    for (f, si, hi, kind, d19) in cc:
        try:
            from pptx import Presentation
            import os
            ch = Presentation(os.path.join(os.environ.get("VERIF_REPO", "/repo"), f)).slides[si].shapes[hi].chart
            sizes = [len(list(p.series)) for p in ch.plots]
        except Exception:  # noqa
            continue
        if len(sizes) > 1:
            multi.append((f, si, hi, kind, d19, sizes))
    for (f, si, hi, kind, d19, sizes) in multi:
        for n in sorted({1, max(1, sizes[0] - 1), max(1, sum(sizes) - 1), sum(sizes) + 2}):
            d = gen_cat(rng, nser=n) if kind == "cat" else gen_xy(rng, kind, nser=n)
            cases.append({"op": "corpus", "file": f, "slide": si, "shape": hi, "data": d, "date1904": d19, "klass": "combo-corpus"})
    for i in range(6 if quick else 60):
        n0 = rng.randint(3, 6)
        d0 = gen_cat(rng, nser=n0, depth=1)
        m = rng.randint(1, n0 - 1)
        for n in sorted({1, max(1, n0 - m - 1), n0 - 1, n0 + 1}):
            cases.append({"op": "corpus", "combo": m, "data0": d0, "file": "<generated bar+line>", "slide": 0, "shape": 0,
                          "data": gen_cat(rng, nser=n, depth=1), "date1904": False, "klass": "combo-generated"})
    # F. edge classes of the property's domain (each is reported under its own signature when it fails)
    for i in range(12 if quick else 120):   # empty series (add_series default values=())
        d = gen_cat(rng, nser=rng.randint(1, 4), p_empty=0.5) if i % 3 == 0 else gen_xy(rng, ["xy", "bub"][i % 2], nser=rng.randint(1, 4), p_empty=0.5)
        cases.append({"op": "one", "data": d, "klass": "edge-empty-series", "agree": True})
    for i in range(12 if quick else 100):   # full-precision floats and big ints
        d = gen_cat(rng, nser=2, depth=1)
        for s in d["series"]:
            s[1] = [rng.choice([rng.random(), rng.uniform(-1e6, 1e6), 0.1 + 0.2, 10 ** 17 + 1, 2 ** 63, 1 / 3]) for _ in s[1]] or [0.1 + 0.2]
        cases.append({"op": "one", "data": d, "klass": "edge-number-17-digits", "agree": False})
    for i, s in enumerate(ODD_STRINGS):     # strings XlsxWriter does not store verbatim
        d = {"kind": "cat", "cats": [[["s", "a"], []], [["s", s], []]] if i % 2 == 0 else [[["s", "a"], []]],
             "series": [["n" if i % 2 == 0 else s, [1, 2] if i % 2 == 0 else [1]]]}
        cases.append({"op": "one", "data": d, "klass": "edge-odd-string", "agree": not URL_PREFIX.match(s)})
    cases.append({"op": "one", "data": {"kind": "xy", "series": [["=A1", [[1, 2, None]]]]}, "klass": "edge-odd-string", "agree": True})
    cases.append({"op": "one", "data": {"kind": "cat", "cats": [[["s", "x" * 32768], []]], "series": [["y" * 40000, [1]]]}, "klass": "edge-long-string", "agree": True})
    cases.append({"op": "one", "data": {"kind": "cat", "cats": [[["s", "x" * 32767], []]], "series": [["y", [1]]]}, "klass": "edge-long-string", "agree": True})
    for t in [(2020, 1, 2, 12, 0, 0, 0), (1900, 1, 1, 0, 0, 0, 0), (1900, 1, 1, 6, 0, 0, 0), (1900, 3, 1, 23, 59, 59, 999999), (1900, 2, 28, 18, 0, 0, 0), (1999, 12, 31, 0, 0, 0, 1)]:
        d = {"kind": "cat", "cats": [[["t"] + list(t), []], [["d", 2021, 5, 6], []]], "series": [["s", [1, 2]]]}
        cases.append({"op": "one", "data": d, "klass": "edge-datetime", "agree": True})
    for i in range(4 if quick else 20):     # chart whose XML says date1904, then replace_data with dates
        d = {"kind": "cat", "cats": gen_dates(rng, 3, False), "series": [["s", [1, 2, 3]]]}
        cases.append({"op": "hist", "data": d, "ops": [["d1904", 1], ["rep", d]] + ([["d1904", 0], ["rep", d]] if i % 2 else []),
                      "salt": i, "reopen": False, "klass": "edge-date1904"})
    # every category chart type has its own XML template: created with date categories, then replace_data with dates
    for i in range(len(all_category_types())):
        d = {"kind": "cat", "cats": gen_dates(rng, 3, False), "series": [["s", [1, 2, 3]]]}
        d2 = {"kind": "cat", "cats": gen_dates(rng, 4, False), "series": [["s", [4, 3, 2, 1]]]}
        cases.append({"op": "hist", "data": d, "ops": [["rep", d2]], "salt": 1000 + i, "reopen": False, "klass": "dates-by-chart-type"})
    deep = None
    for i in range(27):
        deep = [["s", "L%d" % i], [deep] if deep else []]
    cases.append({"op": "one", "data": {"kind": "cat", "cats": [deep], "series": [["s", [1]]]}, "klass": "edge-depth-27", "agree": True})
    deep26 = deep[1][0]
    cases.append({"op": "one", "data": {"kind": "cat", "cats": [deep26], "series": [["s", [1]]]}, "klass": "edge-depth-26", "agree": True})
    # G. malformed stream: non-uniform depth, no categories, mixed label types, None among numbers
    for i in range(40 if quick else 400):
        r = rng.random()
        if r < 0.35:
            cats = gen_tree(rng, rng.randint(2, 3), 3)
            # cut one branch short
            victim = rng.choice(cats)
            if victim[1]:
                rng.choice(victim[1])[1][:] = [] if rng.random() < 0.5 else [[["s", "deep"], [[["s", "deeper"], []]]]]
            if rng.random() < 0.5:
                cats.append([["s", "flat"], []])
            d = {"kind": "cat", "cats": cats, "series": gen_series(rng, rng.randint(0, 3), 4)}
        elif r < 0.5:
            d = {"kind": "cat", "cats": [], "series": gen_series(rng, rng.randint(0, 3), 4)}
        elif r < 0.75:
            # plain words only: text in a numeric cache is written unescaped (C05's subject, not C08's)
            labs = [["n", safe_number(rng)]] + [rng.choice([None, ["s", rng.choice(["Q1", "East", "a b", "x=y", "1.5"])], ["n", safe_number(rng)]]) for _ in range(rng.randint(1, 4))]
            d = {"kind": "cat", "cats": [[l, []] for l in labs], "series": gen_series(rng, 1, 3)}
        else:
            labs = [["s", safe_string(rng)]] + [rng.choice([None, ["s", ""], ["n", safe_number(rng)]]) for _ in range(rng.randint(1, 4))]
            d = {"kind": "cat", "cats": [[l, []] for l in labs], "series": gen_series(rng, 2, 3)}
        cases.append({"op": "one", "data": d, "klass": "malformed", "agree": True})
    cases.append({"op": "one", "data": {"kind": "cat", "cats": [[["s", "file://x"], []]], "series": [["s", [1]]]}, "klass": "malformed", "agree": False})
    return cases


def case_fields(case):
    if case["op"] == "col":
        return ["col", str(case["n"])]
    if case["op"] in ("one", "corpus"):
        return ["one", "1" if case.get("agree", True) else "0", "1" if case.get("date1904") else "0"] + data_tokens(case["data"])
    f = ["hist"] + data_tokens(case["data"])
    for o in case["ops"]:
        if o[0] == "d1904":
            f += ["d1904", "1" if o[1] else "0"]
        else:
            f += ["rep"] + data_tokens(o[1])
    return f


def nontrivial(case):
    if case["op"] == "col":
        return 1 <= case["n"] <= 16384
    datas = [case["data"]] + [o[1] for o in case.get("ops", []) if o[0] == "rep"]
    d = datas[-1]
    npts = sum(len(s[1]) for s in d["series"])
    return len(d["series"]) >= 2 and npts >= 2 or (d["kind"] == "cat" and _depth(d["cats"]) >= 2 and npts >= 1)


# ------------------------------------------------------------------ running a case on both sides
def impl_col(n):
    from pptx.chart.xlsx import CategoryWorkbookWriter

    try:
        return "ok:" + " ".join(str(ord(c)) for c in CategoryWorkbookWriter._column_reference(n))
    except Exception as e:  # noqa
        return "err:" + exc_name(e)


def has_url_like(data):
    return any(URL_PREFIX.match(s) for s in _all_strings(data))


def check_state(ck, case, label, data, date1904, mstate, istate, stats, first_only=False):
    """Oracle on the implementation state + diff against the model state.
    mstate: dict(xml, sheet, agree) with parsed model output or error strings."""
    fails = []
    concrete = False
    ix, ish = istate["xml"], istate["sheet"]
    if not isinstance(ix, str) and not isinstance(ish, str):
        fails = oracle_state(ix, ish)
        sigs = {}
        for f in fails:
            sigs.setdefault(classify(f, data, date1904), f)
        for sig, f in sorted(sigs.items()):
            concrete = True
            stats["oracle_failures"][sig] = stats["oracle_failures"].get(sig, 0) + 1
            ck.violation(sig, "cached point and workbook disagree (%s): %s" % (sig, f[1][:400]),
                         {"entry_point": "ChartXmlWriter.xml + chart_data.xlsx_blob" if case["op"] == "one" else "shapes.add_chart / Chart.replace_data",
                          "input": case, "at": label, "ref": f[2], "cell": repr(f[3]), "cached_text": f[4]})
    elif not isinstance(ix, str) and isinstance(ish, str) and ish != "err:Value":
        # the chart XML exists but no workbook can be written for this data
        sig = "workbook-write-crash"
        if ish == "err:Index" and any(re.fullmatch(r"file://.?", x) for x in _all_strings(data)):
            sig = "string-as-url"   # XlsxWriter's url parser indexes past a one-character file:// path
        concrete = True
        stats["oracle_failures"][sig] = stats["oracle_failures"].get(sig, 0) + 1
        ck.violation(sig, "chart XML is produced but writing the workbook raises %s" % ish,
                     {"entry_point": "chart_data.xlsx_blob", "input": case, "at": label, "impl_outcome": ish})
    if mstate is None:
        return concrete, None
    mx = mstate["xml"]
    if first_only and not isinstance(mx, str):
        mx = mx[:1]
    approx = set()  # no cell is compared approximately (datetime labels are written as dates)
    d = diff_xml(mx, ix) or diff_sheet(mstate["sheet"], ish, approx)
    if d is None and mstate.get("agree") in ("True", "False") and not isinstance(ix, str) and not isinstance(ish, str):
        # a new pie chart carries only series 0 in its XML: the model's verdict covers all series
        partial = first_only and len(data["series"]) > 1
        if not has_url_like(data) and not partial and (mstate["agree"] == "True") != (not fails):
            d = "model evaluates the property to %s, oracle found %d failures" % (mstate["agree"], len(fails))
    return concrete, d


def parse_model_one(line):
    x, s, a = line.split("#")
    return {"xml": model_xml(x[3:]) if x.startswith("ok:") else x,
            "sheet": model_sheet(s[3:]) if s.startswith("ok:") else s, "agree": a}


def parse_model_hist(line):
    out = []
    for blk in line.split("|"):
        if blk.startswith("err:"):
            out.append(blk)
            continue
        parts, d19, x, s, a = blk[3:].split("#")
        out.append({"parts": int(parts), "date1904": d19 == "True", "xml": model_xml(x), "sheet": model_sheet(s), "agree": a})
    return out


def date_flags(case):
    """date1904 flag in force when each state of a history was written"""
    flags, cur, written = [False], False, False
    for o in case["ops"]:
        if o[0] == "d1904":
            cur = bool(o[1])
            flags.append(written)
        else:
            written = cur
            flags.append(written)
    return flags


def model_exe(tmp):
    """The extracted runner concatenates whole outputs with the non-tail-recursive list
    append of the Coq standard library: give it a large stack for charts with hundreds of series."""
    import os
    from corr.harness import COQ

    exe = os.path.join(COQ, "extract", "run_c08")
    wrapper = os.path.join(tmp, "run_c08_bigstack")
    with open(wrapper, "w") as f:
        f.write("#!/bin/sh\nulimit -s unlimited 2>/dev/null || ulimit -s 4000000 2>/dev/null || ulimit -s 1000000 2>/dev/null\nexec %s\n" % exe)
    os.chmod(wrapper, 0o755)
    return wrapper


def run(ck, tier, rng):
    ck.build = coq_build("C08")
    tmp = tempfile.mkdtemp(prefix="c08-")
    try:
        return _run(ck, tier, rng, tmp)
    finally:
        shutil.rmtree(tmp, ignore_errors=True)


def _run(ck, tier, rng, tmp=None):
    cases = gen_cases(tier, rng)
    model_out = [None] * len(cases)
    if ck.build.ok:
        model_out = run_model("C08", [case_fields(c) for c in cases], exe=model_exe(tmp) if tmp else None)
    stats = {"oracle_failures": {}, "diffs": 0, "attributed_diffs": 0}
    first_diff = None
    shown = {}
    for case, mo in zip(cases, model_out):
        klass = case.get("klass", case["op"])
        ck.count(case_fields(case), nontrivial(case), klass)
        if shown.get(klass, 0) < 1 and case["op"] != "col":
            shown[klass] = 1
            ck.sample(_sample(case), limit=24)
        concrete, d = False, None
        if case["op"] == "col":
            io_ = impl_col(case["n"])
            n = case["n"]
            # oracle: the letters read back (independent reading) give n; raises exactly outside 1..16384
            if 1 <= n <= 16384:
                ok = io_.startswith("ok:") and dec(io_[3:]) != "" and all("A" <= ch <= "Z" for ch in dec(io_[3:])) and col_number(dec(io_[3:])) == n
            else:
                ok = io_ == "err:Value"
            if not ok:
                concrete = True
                ck.violation("column-reference", "_column_reference(%d) -> %s" % (n, io_),
                             {"entry_point": "CategoryWorkbookWriter._column_reference", "input": case, "impl_outcome": io_})
            if mo is not None and mo.split("|")[0] != io_:
                d = "_column_reference(%d) model=%s impl=%s" % (n, mo, io_)
        elif case["op"] == "one":
            ist = impl_one(case["data"], salt=len(case["data"]["series"]))
            mst = parse_model_one(mo) if mo is not None else None
            concrete, d = check_state(ck, case, "new", case["data"], False, mst, ist, stats,
                                      first_only=is_pie(case["data"], len(case["data"]["series"])))
        elif case["op"] == "corpus":
            ist = impl_corpus(case)
            mst = parse_model_one(mo) if mo is not None else None
            if isinstance(ist, str):
                if mst is not None and not (isinstance(mst["xml"], str) or isinstance(mst["sheet"], str)):
                    d = "replace_data on %s slide %d raised %s, model ok" % (case["file"], case["slide"], ist)
            else:
                # series matched by their name cell (document order of multi-plot charts is not series order)
                ist["xml"] = sorted(ist["xml"], key=_ser_key)
                if mst is not None and not isinstance(mst["xml"], str):
                    mst["xml"] = sorted(mst["xml"], key=_ser_key)
                concrete, d = check_state(ck, case, "after replace_data", case["data"], bool(case.get("date1904")), mst, ist, stats)
                if ist["parts"] != 1:
                    concrete = True
                    ck.violation("workbook-part-count", "chart part relates to %d embedded workbooks after replace_data" % ist["parts"],
                                 {"entry_point": "Chart.replace_data", "input": case})
        else:
            states, reopened = impl_hist(case)
            msts = parse_model_hist(mo) if mo is not None else None
            datas = [case["data"]]
            for o in case["ops"]:
                datas.append(o[1] if o[0] == "rep" else datas[-1])
            flags = date_flags(case)
            for i, ist in enumerate(states):
                if isinstance(ist, str):
                    if msts is not None and (i >= len(msts) or msts[i] != ist):
                        d = d or "history step %d model=%s impl=%s" % (i, _short(msts[i]) if i < len(msts) else "-", ist)
                    break
                mst = msts[i] if msts is not None and i < len(msts) and not isinstance(msts[i], str) else None
                if msts is not None and mst is None:
                    d = d or "history step %d model=%s impl=ok" % (i, msts[i] if i < len(msts) else "-")
                c1, d1 = check_state(ck, case, "step %d" % i, datas[i], flags[i], mst, ist, stats,
                                     first_only=(i == 0 and case.get("mode") != "blob" and is_pie(case["data"], case.get("salt", 0))))
                if ist.get("repeat_same") is False:
                    c1 = True
                    ck.violation("repeated-blob-differs", "xml_bytes / xlsx_blob asked twice of the same unchanged chart data gave different results (step %d)" % i,
                                 {"entry_point": "chart_data.xml_bytes / chart_data.xlsx_blob", "input": case})
                concrete = concrete or c1
                d = d or d1
                if mst is not None and (mst["parts"] != ist["parts"] or mst["date1904"] != ist["date1904"]):
                    d = d or "history step %d parts/date1904 model=%s/%s impl=%s/%s" % (i, mst["parts"], mst["date1904"], ist["parts"], ist["date1904"])
                if ist["parts"] != 1:
                    concrete = True
                    ck.violation("workbook-part-count", "chart part relates to %d embedded workbooks after step %d" % (ist["parts"], i),
                                 {"entry_point": "Chart.replace_data", "input": case})
            if msts is not None and len(msts) != len(states):
                d = d or "history length model=%d impl=%d" % (len(msts), len(states))
            if reopened is not None:
                # saved and re-opened package: same XML caches and same workbook as in memory
                last = states[-1]
                if reopened["xml"] != last["xml"] or reopened["sheet"] != last["sheet"]:
                    concrete = True
                    ck.violation("reopen-differs", "chart XML or embedded workbook differ after save and re-open",
                                 {"entry_point": "Presentation.save / Presentation", "input": case})
                if reopened.get("other_charts_bad"):
                    concrete = True
                    ck.violation("other-chart-workbook", "after save and re-open another chart of the same package no longer agrees with its own "
                                 "embedded workbook: %s" % reopened["other_charts_bad"][0],
                                 {"entry_point": "add_chart x n, Presentation.save / Presentation", "input": case})
                stats["reopened"] = stats.get("reopened", 0) + 1
                stats["reopened_with_other_charts"] = stats.get("reopened_with_other_charts", 0) + (1 if case.get("pre") else 0)
        if d is not None:
            if concrete:
                stats["attributed_diffs"] += 1
                if stats["attributed_diffs"] <= 3:
                    ck.notes.append("diff attributed to the oracle failure of the same case (%s): %s" % (klass, d[:200]))
            else:
                stats["diffs"] += 1
                if first_diff is None:
                    first_diff = (case, d)
                if stats["diffs"] <= 5:
                    ck.notes.append("diff %s: %s" % (klass, d[:300]))
    if first_diff is not None:
        case, d = first_diff
        ck.violation("correspondence", "model/Xlsx.v and pptx.chart.xlsx/xmlwriter disagree on %d cases without an oracle failure, e.g. class %s: %s" % (
            stats["diffs"], case.get("klass", case["op"]), d[:500]),
            {"theorem_or_correspondence": "correspondence Xlsx.v ~ chart/xlsx.py + chart/xmlwriter.py + XlsxWriter (theorems C08_* are about the model only)",
             "input": case, "diff": d}, concrete=False)
    ck.broken_build(oracle_found_concrete=any(v["concrete"] for v in ck.violations))
    return ck.finish(
        rule="_column_reference on every n in 1..16384 and 10 values outside; category chart data with series counts crossing Z/AA, ZZ/AAA (24..27, 52, 53, 700, 703%s) x category depth 1..4 (ragged branching, string/number/date labels, None labels and values, unequal series lengths); XY and bubble data with 0..6 (and 40..%d) series of unequal lengths; new chart + 1..3 replace_data with differently shaped data through a real presentation (every 5th saved and re-opened); one chart-data object reused and extended in place (add_series, add_category, more points, categories reassigned, number format) between add_chart / replace_data calls and between repeated xml_bytes / xlsx_blob calls; replace_data on the charts of the decks under /repo (%s); edge classes (empty series, 17-digit numbers, formula/url-like/over-long strings, datetime labels, date1904 charts, depth 26/27) and a malformed stream (non-uniform depth, no categories, mixed label types). non-trivial = n in 1..16384 for column references; otherwise the (last) data has >= 2 series and >= 2 points, or >= 2 category levels and a point" % (
            "" if tier == "quick" else ", 1400", 120 if tier == "quick" else 1000, "every 3rd of the %d with at least one series" % len(corpus_charts()) if tier == "quick" else "all %d with at least one series" % len(corpus_charts())),
        trusted_base=TB, assumptions=ASSUME,
        extra={"correspondence_diffs": stats["diffs"], "diffs_attributed_to_oracle_failures": stats["attributed_diffs"],
               "oracle_failures_by_signature": stats["oracle_failures"], "reopened_packages": stats.get("reopened", 0), "exhaustive": False},
    )


def _sample(case):
    s = repr(case)
    return s if len(s) < 600 else s[:600] + "..."


def replay(rec):
    case = rec["input"]
    tmp = tempfile.mkdtemp(prefix="c08-")
    try:
        mo = run_model("C08", [case_fields(case)], exe=model_exe(tmp))[0]
    finally:
        shutil.rmtree(tmp, ignore_errors=True)
    print("case ", _sample(case))
    if case["op"] == "col":
        io_ = impl_col(case["n"])
        print("impl ", io_)
        print("model", mo)
        return 0 if mo.split("|")[0] == io_ else 1
    if case["op"] == "corpus":
        ist = impl_corpus(case)
        m = parse_model_one(mo)
        if not isinstance(ist, str):
            ist["xml"] = sorted(ist["xml"], key=_ser_key)
            if not isinstance(m["xml"], str):
                m["xml"] = sorted(m["xml"], key=_ser_key)
        states, msts, datas, flags = [ist], [m], [case["data"]], [bool(case.get("date1904"))]
    elif case["op"] == "one":
        states, msts, datas, flags = [impl_one(case["data"])], [parse_model_one(mo)], [case["data"]], [False]
    else:
        states, _re = impl_hist(case)
        msts = parse_model_hist(mo)
        datas = [case["data"]]
        for o in case["ops"]:
            datas.append(o[1] if o[0] == "rep" else datas[-1])
        flags = date_flags(case)
    rc = 0
    for i, ist in enumerate(states):
        if isinstance(ist, str):
            print("step %d impl %s model %s" % (i, ist, _short(msts[i]) if i < len(msts) else "-"))
            continue
        ix, ish = ist["xml"], ist["sheet"]
        if isinstance(ix, str) or isinstance(ish, str):
            print("step %d impl xml=%s sheet=%s" % (i, _short(ix), _short(ish)))
            fails = []
        else:
            fails = oracle_state(ix, ish)
        for f in fails[:10]:
            print("step %d oracle [%s] %s" % (i, classify(f, datas[i], flags[i]), f[1]))
            rc = 1
        if i < len(msts) and not isinstance(msts[i], str):
            d = diff_xml(msts[i]["xml"][:len(ix)] if not isinstance(ix, str) and case["op"] == "one" else msts[i]["xml"], ix) or diff_sheet(msts[i]["sheet"], ish)
            print("step %d model agree=%s diff=%s" % (i, msts[i]["agree"], d))
            if d:
                rc = 1
    return rc


CLAIM = {
    "tech": "Coq proof over a Gallina model of the three workbook writers (through XlsxWriter's write dispatch), the reference functions and the XML caches, for all chart data, all column positions, all category depths, all series lengths and all replace_data histories + extracted-model correspondence against the real .xlsx and chart XML + independent oracle (A1 parser, cell-for-cell comparison) incl. replace_data on generated and PowerPoint-authored charts and save/re-open",
    "text": "18 theorems closed under the global context: the column reference is inverted by reading the letters back for every n >= 1 and raises exactly outside 1..16384; the series and categories references raise exactly beyond column 16384 (series column = 1 + depth + index) and their texts are the renderings of the structured references; every value, name and category-level cell is where the reference points (level i in column c2 - i, row idx + 2, idx distinct and below the leaf count = range height = ptCount, as many levels as columns); XY/bubble tables of different series never overlap for arbitrary lengths; for all data in the stated domain every cached point equals the cell it is indexed to and rows without a point are empty; after any history of replace_data the XML and the sheet are those of the data written last and there is one workbook part. Tied to chart/xlsx.py, chart/data.py, chart/xmlwriter.py, parts/chart.py by ~19k (quick) / ~40k (thorough) cases run on python-pptx and on the extracted model: model sheet vs real sheet cell for cell, model references and caches vs every c:f / c:ptCount / c:pt, model verdict vs oracle verdict.",
    "note": "outside the domain the model itself refutes agreement and python-pptx does disagree (recorded input classes: string-as-formula, string-as-url, string-over-32767, number-over-16-digits, empty-series-range, date1904-replace); XlsxWriter's number formatting ('%.16G') and url parsing are outside the model; more than 16384 series and more than 1048576 rows are covered by the guard theorems only; series identity is modelled by position.",
    "ref": "6/C08",
}
