(** C18 -- the codec of model/CorePropsCodec.v is exact on every state lxml can hold:
    reading what was written gives the state back, blank-only texts included. *)
From V.lib Require Import Prelude Calendar.
From V.model Require Import Escape CoreProps CorePropsCodec.
From V.proofs Require Import Prelude_proofs Escape_proofs Calendar_proofs CoreProps_proofs.
Require Import Lia ZifyBool.

(** ---- cutting ---- *)

Lemma cut_at_app c a b : nfree c a = true -> cut_at c (a ++ c :: b) = Some (a, b).
Proof.
  induction a as [|x a IH]; intros H.
  - cbn [app cut_at]. rewrite N.eqb_refl. reflexivity.
  - cbn [nfree forallb] in H. apply andb_true_iff in H as [Hx Ha]. apply negb_true_iff in Hx.
    cbn [app cut_at]. rewrite Hx, (IH Ha). reflexivity.
Qed.

Lemma nfree_app c a b : nfree c (a ++ b) = nfree c a && nfree c b.
Proof. apply forallb_app. Qed.

(** escaped text holds no raw less-than sign *)
Lemma nfree_lt_escape s : nfree c_lt (text_escape s) = true.
Proof.
  pose proof (escaped_cr_no_raw false false false s) as H. unfold text_escape, nfree.
  unfold no_cr_lt in H. rewrite forallb_forall in *. intros c Hc. specialize (H c Hc).
  apply andb_true_iff in H as [_ H]. exact H.
Qed.

(** ---- the literal pieces ---- *)

Lemma nfree_lt_name p : nfree c_lt (tag_qname p) = true.
Proof. destruct p; reflexivity. Qed.
Lemma nfree_lt_attrs x : nfree c_lt (attrs_of x) = true.
Proof. destruct x; reflexivity. Qed.
Lemma nfree_lt_root r : nfree c_lt (root_head r) = true.
Proof. destruct r; reflexivity. Qed.
Lemma nfree_gt_head p x sc : nfree c_gt (head_of p x sc) = true.
Proof. destruct p, x, sc; reflexivity. Qed.

Lemma head_lookup_of p x sc : head_lookup (head_of p x sc) = Some (p, x, sc).
Proof. destruct p, x, sc; vm_compute; reflexivity. Qed.

Lemma root_lookup_open r : root_lookup (root_head r ++ [c_gt]) = Some (r, false).
Proof. destruct r; vm_compute; reflexivity. Qed.
Lemma root_lookup_empty r : root_lookup (root_head r ++ [k_slash; c_gt]) = Some (r, true).
Proof. destruct r; vm_compute; reflexivity. Qed.

(** ---- element text ---- *)

Lemma text_val_escape s : xml_str s = true -> text_val (text_escape s) = Some s.
Proof. intros H. unfold text_val, text_escape. rewrite (text_safe_r s false false false H). reflexivity. Qed.

(** What the parser does to an element whose text is made of blanks only (space, TAB, LF, CR;
    the CR travels as a character reference): it keeps the text, character for character.
    libxml2 drops a blank chunk only in front of a child element or a raw CR; in front of the
    end tag of an element that holds nothing else the chunk is delivered (text_of on a pending
    chunk).  This is the instance of text_val_escape on blanks, stated for the record. *)
Lemma blank_xml s : forallb is_blank s = true -> xml_str s = true.
Proof.
  unfold xml_str. rewrite !forallb_forall. intros H c Hc. specialize (H c Hc).
  unfold is_blank, is_xml_char, c_sp, c_tab, c_lf, c_cr in *. lia.
Qed.

Theorem blank_text_kept s : forallb is_blank s = true -> text_val (text_escape s) = Some s.
Proof. intros H. apply text_val_escape, blank_xml, H. Qed.

(** the only text whose written form is not read back as a text node: the empty one, which
    every reader (and the model state) identifies with an absent text *)
Lemma empty_text_forms : text_escape [] = [] /\ text_val [] = Some [].
Proof. split; reflexivity. Qed.

(** ---- the pieces of a written document ---- *)

Definition child_pieces (cm : child * bool) (more : list str) : list str :=
  let c := fst cm in
  let name := ctag_name (c_tag c) in
  if no_text_node cm then (name ++ attrs_of (c_xsi c) ++ [k_slash; c_gt]) :: more
  else (name ++ attrs_of (c_xsi c) ++ c_gt :: text_escape (c_text c)) :: (k_slash :: name ++ [c_gt]) :: more.

Definition pieces (w : list (child * bool)) : list str := fold_right child_pieces [k_root_close_piece] w.

Definition known (cm : child * bool) : bool :=
  match c_tag (fst cm) with TProp _ => true | TOther _ => false end.

Lemma nfree_lt_close : nfree c_lt k_root_close_piece = true.
Proof. reflexivity. Qed.

Lemma split_child cm k more : known cm = true ->
  (forall pre, nfree c_lt pre = true -> split_on c_lt (pre ++ k) = pre :: more) ->
  forall pre, nfree c_lt pre = true ->
  split_on c_lt (pre ++ enc_child cm k) = pre :: child_pieces cm more.
Proof.
  intros Kc Hk pre Hp. unfold enc_child, child_pieces. unfold known in Kc.
  destruct (c_tag (fst cm)) as [p|n] eqn:Et; [|discriminate Kc]. cbn [ctag_name].
  destruct (no_text_node cm).
  - rewrite split_on_app by exact Hp. f_equal.
    replace (tag_qname p ++ attrs_of (c_xsi (fst cm)) ++ k_slash :: c_gt :: k)
      with ((tag_qname p ++ attrs_of (c_xsi (fst cm)) ++ [k_slash; c_gt]) ++ k)
      by (rewrite <- !app_assoc; reflexivity).
    apply Hk. rewrite !nfree_app, nfree_lt_name, nfree_lt_attrs. reflexivity.
  - rewrite split_on_app by exact Hp. f_equal.
    replace (tag_qname p ++ attrs_of (c_xsi (fst cm)) ++ c_gt :: text_escape (c_text (fst cm)) ++
             c_lt :: k_slash :: tag_qname p ++ c_gt :: k)
      with ((tag_qname p ++ attrs_of (c_xsi (fst cm)) ++ c_gt :: text_escape (c_text (fst cm))) ++
            c_lt :: ((k_slash :: tag_qname p ++ [c_gt]) ++ k)).
    2:{ rewrite <- !app_assoc. cbn [app]. rewrite <- !app_assoc. reflexivity. }
    rewrite split_on_app.
    2:{ rewrite !nfree_app, nfree_lt_name, nfree_lt_attrs. cbn [nfree forallb]. fold (nfree c_lt (text_escape (c_text (fst cm)))).
        rewrite nfree_lt_escape. reflexivity. }
    f_equal. apply Hk.
    cbn [nfree forallb]. fold (nfree c_lt (tag_qname p ++ [c_gt])). rewrite nfree_app, nfree_lt_name. reflexivity.
Qed.

Lemma split_children w : forallb known w = true -> forall pre, nfree c_lt pre = true ->
  split_on c_lt (pre ++ fold_right enc_child (c_lt :: k_root_close_piece) w) = pre :: pieces w.
Proof.
  induction w as [|cm w IH]; intros K pre Hp.
  - cbn [fold_right pieces]. rewrite split_on_app by exact Hp.
    rewrite split_on_free by exact nfree_lt_close. reflexivity.
  - cbn [forallb] in K. apply andb_true_iff in K as [Kc Kw].
    cbn [fold_right pieces]. fold (pieces w).
    apply split_child; [exact Kc|apply IH, Kw|exact Hp].
Qed.

Lemma pieces_cons w : exists x y, pieces w = x :: y.
Proof.
  destruct w as [|cm w]; [eexists; eexists; reflexivity|].
  cbn [pieces fold_right]. unfold child_pieces. destruct (no_text_node cm); eexists; eexists; reflexivity.
Qed.

Definition wire_m (cm : child * bool) : bool := wire_child (fst cm).

Lemma child_eta c p : c_tag c = TProp p -> mkChild (TProp p) (c_text c) (c_xsi c) = c.
Proof. destruct c; cbn. intros ->. reflexivity. Qed.

Lemma dec_children_step op cl rest' :
  dec_children (op :: cl :: rest') =
  match cut_at c_gt op with
  | None => None
  | Some (h, body) =>
      match head_lookup h with
      | None => None
      | Some (p, x, true) =>
          if is_nil body then cons_opt (mkChild (TProp p) [] x) (dec_children (cl :: rest')) else None
      | Some (p, x, false) =>
          if str_eqb cl (k_slash :: tag_qname p ++ [c_gt]) then
            match text_val body with
            | Some v => cons_opt (mkChild (TProp p) v x) (dec_children rest')
            | None => None
            end
          else None
      end
  end.
Proof. reflexivity. Qed.

Lemma dec_pieces w : forallb wire_m w = true -> dec_children (pieces w) = Some (map fst w).
Proof.
  induction w as [|cm w IH]; intros H.
  - vm_compute. reflexivity.
  - cbn [forallb] in H. apply andb_true_iff in H as [Hc Hw]. specialize (IH Hw).
    unfold wire_m, wire_child in Hc. apply andb_true_iff in Hc as [Hk Hx].
    destruct (c_tag (fst cm)) as [p|n] eqn:Et; [|discriminate Hk].
    cbn [pieces fold_right map]. fold (pieces w). unfold child_pieces. rewrite Et. cbn [ctag_name].
    destruct (pieces_cons w) as [x [y Ew]].
    destruct (no_text_node cm) eqn:En.
    + unfold no_text_node in En. apply andb_true_iff in En as [_ En].
      destruct (c_text (fst cm)) as [|t0 ts] eqn:Etx; [|discriminate En].
      rewrite Ew, dec_children_step, <- Ew.
      replace (tag_qname p ++ attrs_of (c_xsi (fst cm)) ++ [k_slash; c_gt])
        with (head_of p (c_xsi (fst cm)) true ++ c_gt :: [])
        by (unfold head_of; rewrite <- !app_assoc; reflexivity).
      rewrite cut_at_app by apply nfree_gt_head. rewrite head_lookup_of. cbn [is_nil].
      rewrite IH. cbn [cons_opt]. f_equal. f_equal.
      rewrite <- Etx. apply child_eta, Et.
    + rewrite dec_children_step.
      replace (tag_qname p ++ attrs_of (c_xsi (fst cm)) ++ c_gt :: text_escape (c_text (fst cm)))
        with (head_of p (c_xsi (fst cm)) false ++ c_gt :: text_escape (c_text (fst cm)))
        by (unfold head_of; rewrite <- !app_assoc; rewrite app_nil_l; reflexivity).
      rewrite cut_at_app by apply nfree_gt_head. rewrite head_lookup_of.
      rewrite str_eqb_refl. rewrite (text_val_escape _ Hx).
      rewrite IH. cbn [cons_opt]. f_equal. f_equal. apply child_eta, Et.
Qed.

Lemma wire_known w : forallb wire_m w = true -> forallb known w = true.
Proof.
  rewrite !forallb_forall. intros H cm Hc. specialize (H cm Hc).
  unfold wire_m, wire_child in H. apply andb_true_iff in H as [H _]. exact H.
Qed.

(** ---- the codec theorem ---- *)

(** Reading what was written gives back the root kind and the state, whatever the text-node
    marks: no bound on the number of children or on the length of the texts. *)
Theorem dec_enc_m r w : forallb wire_m w = true -> dec_core_r (enc_core_m r w) = Some (r, map fst w).
Proof.
  intros H. unfold dec_core_r, enc_core_m.
  change (c_lt :: k_decl_piece ++ c_lt :: root_head r ++ match w with [] => [k_slash; c_gt] | _ :: _ => c_gt :: fold_right enc_child (c_lt :: k_root_close_piece) w end)
    with ([] ++ c_lt :: k_decl_piece ++ c_lt :: root_head r ++ match w with [] => [k_slash; c_gt] | _ :: _ => c_gt :: fold_right enc_child (c_lt :: k_root_close_piece) w end).
  rewrite split_on_app by reflexivity.
  rewrite split_on_app by reflexivity.
  destruct w as [|cm w].
  - rewrite split_on_free by (rewrite nfree_app, nfree_lt_root; reflexivity).
    cbn [is_nil andb]. rewrite str_eqb_refl, root_lookup_empty. reflexivity.
  - replace (root_head r ++ c_gt :: fold_right enc_child (c_lt :: k_root_close_piece) (cm :: w))
      with ((root_head r ++ [c_gt]) ++ fold_right enc_child (c_lt :: k_root_close_piece) (cm :: w))
      by (rewrite <- app_assoc; reflexivity).
    rewrite split_children; [|apply wire_known, H|rewrite nfree_app, nfree_lt_root; reflexivity].
    cbn [is_nil andb]. rewrite str_eqb_refl, root_lookup_open.
    rewrite (dec_pieces _ H). reflexivity.
Qed.

Lemma forallb_map' {A B} (f : B -> bool) (g : A -> B) l : forallb f (map g l) = forallb (fun x => f (g x)) l.
Proof. induction l as [|x l IH]; [reflexivity|]. cbn [map forallb]. rewrite IH. reflexivity. Qed.

Lemma wire_assigned st : forallb wire_m (assigned st) = wire_ok st.
Proof. unfold assigned, wire_ok. rewrite forallb_map'. reflexivity. Qed.
Lemma wire_parsed st : forallb wire_m (parsed st) = wire_ok st.
Proof. unfold parsed, wire_ok. rewrite forallb_map'. reflexivity. Qed.
Lemma fst_assigned st : map fst (assigned st) = st.
Proof. unfold assigned. rewrite map_map. apply map_id. Qed.
Lemma fst_parsed st : map fst (parsed st) = st.
Proof. unfold parsed. rewrite map_map. apply map_id. Qed.

Theorem dec_enc_core_r r st : wire_ok st = true -> dec_core_r (enc_core_r r st) = Some (r, st).
Proof.
  intros H. unfold enc_core_r. rewrite dec_enc_m by (rewrite wire_assigned; exact H).
  rewrite fst_assigned. reflexivity.
Qed.

(** save and re-open is the identity on every state of declared children whose texts are XML
    characters: blank-only, leading and trailing blanks, CR, TAB, LF, markup characters and
    characters beyond the BMP included *)
Theorem dec_enc_core st : wire_ok st = true -> dec_core (enc_core st) = Some st.
Proof. intros H. unfold dec_core, enc_core. rewrite (dec_enc_core_r _ _ H). reflexivity. Qed.

Theorem reopen_id st : wire_ok st = true -> reopen st = Some st.
Proof. exact (dec_enc_core st). Qed.

(** the second save (the tree now holds no text node where the text is empty) reads the same *)
Theorem dec_enc_parsed r st : wire_ok st = true -> dec_core_r (enc_core_m r (parsed st)) = Some (r, st).
Proof.
  intros H. rewrite dec_enc_m by (rewrite wire_parsed; exact H). rewrite fst_parsed. reflexivity.
Qed.

(** two states with the same document are the same state *)
Theorem enc_core_inj st1 st2 : wire_ok st1 = true -> wire_ok st2 = true ->
  enc_core st1 = enc_core st2 -> st1 = st2.
Proof.
  intros H1 H2 E. pose proof (dec_enc_core st1 H1) as D1. rewrite E, (dec_enc_core st2 H2) in D1.
  inversion D1. reflexivity.
Qed.

(** a child outside the declared 15 is refused (the place-holder name has no declared prefix) *)
Example dec_other_refused : dec_core (enc_core [mkChild (TOther 0) [97]%N false]) = None.
Proof. vm_compute. reflexivity. Qed.

(** ---- the API keeps states writable ---- *)

Lemma xml_ok_is c : xml_ok c = is_xml_char c.
Proof. reflexivity. Qed.

Lemma xml_str_ok s : xml_str s = forallb xml_ok s.
Proof. reflexivity. Qed.

Lemma digit_xml c : is_digit c = true -> is_xml_char c = true.
Proof. unfold is_digit, is_xml_char. lia. Qed.

Lemma digits_xml s : forallb is_digit s = true -> xml_str s = true.
Proof.
  unfold xml_str. rewrite !forallb_forall. intros H c Hc. apply digit_xml, H, Hc.
Qed.

Lemma xml_str_app a b : xml_str (a ++ b) = xml_str a && xml_str b.
Proof. apply forallb_app. Qed.

Lemma xml_cons c s : xml_str (c :: s) = is_xml_char c && xml_str s.
Proof. reflexivity. Qed.

Lemma fmt_dt_xml t : valid_datetime t = true -> (1 <= dt_year t <= 9999)%Z -> xml_str (fmt_dt t) = true.
Proof.
  intros V Y. destruct (valid_dt_bounds t V) as [B1 [B2 [B3 [B4 B5]]]].
  pose proof (digits_xml _ (pad4_digits (dt_year t) ltac:(lia))) as H1.
  pose proof (digits_xml _ (pad2_digits (dt_month t) ltac:(lia))) as H2.
  pose proof (digits_xml _ (pad2_digits (dt_day t) ltac:(lia))) as H3.
  pose proof (digits_xml _ (pad2_digits (dt_hour t) ltac:(lia))) as H4.
  pose proof (digits_xml _ (pad2_digits (dt_minute t) ltac:(lia))) as H5.
  pose proof (digits_xml _ (pad2_digits (dt_second t) ltac:(lia))) as H6.
  unfold fmt_dt. revert H1 H2 H3 H4 H5 H6.
  generalize (pad4 (dt_year t)) (pad2 (dt_month t)) (pad2 (dt_day t)) (pad2 (dt_hour t))
             (pad2 (dt_minute t)) (pad2 (dt_second t)).
  intros a b c d e f H1 H2 H3 H4 H5 H6.
  repeat (rewrite xml_str_app || rewrite xml_cons).
  rewrite H1, H2, H3, H4, H5, H6. reflexivity.
Qed.

Lemma wire_upd p f st : wire_ok st = true ->
  (forall c, c_tag c = TProp p -> wire_child c = true \/ c = new_child p -> wire_child (f c) = true) ->
  wire_ok (upd p f st) = true.
Proof.
  intros H G. induction st as [|c st IH]; cbn [upd].
  - cbn [wire_ok forallb]. rewrite G; [reflexivity|reflexivity|right; reflexivity].
  - cbn [wire_ok forallb] in H. apply andb_true_iff in H as [H1 H2].
    destruct (has_tag p c) eqn:Hp; cbn [wire_ok forallb].
    + rewrite G; [|apply has_tag_true; exact Hp|left; exact H1]. exact H2.
    + rewrite H1. apply IH, H2.
Qed.

Lemma wire_child_mk p s b : xml_str s = true -> wire_child (mkChild (TProp p) s b) = true.
Proof. intros H. unfold wire_child. cbn. exact H. Qed.

(** every assignment of any value, accepted or refused, keeps the state writable *)
Lemma wire_step p v st : wire_ok st = true -> (forall d, v = VDt d -> valid_pydt d = true) ->
  wire_ok (fst (set_prop p v st)) = true.
Proof.
  intros W G. unfold set_prop, set_text, set_datetime, set_revision.
  destruct (kind_of p) eqn:K.
  - destruct (py_str v); [|exact W]. destruct (255 <? length a)%nat; [exact W|].
    destruct (forallb xml_ok a) eqn:X; cbn [fst]; apply wire_upd; auto;
      intros c Hc _; unfold set_c_text; rewrite Hc; apply wire_child_mk; [exact X|reflexivity].
  - destruct v; try exact W. pose proof (G d eq_refl) as Vd.
    rewrite to_utc_naive_spec by auto.
    destruct (in_py_range (utc_wall d)) eqn:R; [|exact W]. cbn [fst].
    apply wire_upd; auto. intros c Hc _. rewrite Hc. apply wire_child_mk.
    apply fmt_dt_xml; [apply utc_wall_valid; auto|apply in_py_range_iff; auto].
  - assert (p = Revision) by (destruct p; try discriminate; reflexivity). subst p.
    destruct v; try exact W.
    destruct (z <? 1)%Z; [exact W|].
    unfold py_str_int.
    destruct (max_str_digits <? N.of_nat (length (dec_of_N (Z.abs_N z))))%N; cbn [fst]; apply wire_upd; auto.
    + intros c Hc [Hw|Hn]; unfold same_child; [exact Hw|subst c; reflexivity].
    + intros c Hc _. unfold set_c_text. rewrite Hc. apply wire_child_mk.
      destruct (dec_of_N_spec (Z.abs_N z)) as [D _].
      destruct (z <? 0)%Z; [rewrite xml_cons, (digits_xml _ D); reflexivity|exact (digits_xml _ D)].
Qed.

Lemma wire_run ops : forall st, wire_ok st = true -> Forall date_guard ops -> wire_ok (run ops st) = true.
Proof.
  induction ops as [|o ops IH]; intros st W F; [exact W|].
  inversion F as [|? ? Ho Fr]; subst. cbn [run fold_left]. apply IH; auto.
  apply wire_step; auto.
Qed.

Lemma wire_default now : valid_pydt now = true -> wire_ok (default_part now) = true.
Proof.
  intros V. unfold default_part.
  repeat (apply wire_step; [|intros d E; try discriminate E; inversion E; subst; exact V]).
  reflexivity.
Qed.

(** ---- what the reader returns is writable again ---- *)

Definition acc_ok (st : lst) : Prop :=
  match st with Run _ acc | Closed acc => xml_str acc = true | Dead => True end.

Lemma xml_cons' x acc : is_xml_char x = true -> xml_str acc = true -> xml_str (x :: acc) = true.
Proof. intros Hx Ha. rewrite xml_cons, Hx, Ha. reflexivity. Qed.

Lemma xml_tl acc : xml_str acc = true -> xml_str (tl acc) = true.
Proof.
  destruct acc as [|x acc]; auto. rewrite xml_cons. cbn [tl]. intros H.
  apply andb_true_iff in H. tauto.
Qed.

Lemma decode_ref_xml nm d : decode_ref nm = Some d -> is_xml_char d = true.
Proof.
  unfold decode_ref. destruct nm as [|h t]; [discriminate|]. destruct (h =? c_hash)%N.
  - destruct t as [|h2 t2]; [discriminate|]. destruct (h2 =? c_x)%N.
    + destruct t2 as [|a b]; [discriminate|]. destruct (hex_value (a :: b) 0) as [v|]; [|discriminate].
      unfold char_ref. destruct (is_xml_char v) eqn:Ev; intros H; inversion H; subst; exact Ev.
    + destruct (forallb is_digit (h2 :: t2)); [|discriminate].
      unfold char_ref. destruct (is_xml_char (dec_value (h2 :: t2))) eqn:Ev; intros H; inversion H; subst; exact Ev.
  - destruct (str_eqb (h :: t) n_amp); [intros H; inversion H; reflexivity|].
    destruct (str_eqb (h :: t) n_lt); [intros H; inversion H; reflexivity|].
    destruct (str_eqb (h :: t) n_gt); [intros H; inversion H; reflexivity|].
    destruct (str_eqb (h :: t) n_quot); [intros H; inversion H; reflexivity|].
    destruct (str_eqb (h :: t) n_apos); [intros H; inversion H; reflexivity|]. discriminate.
Qed.

Lemma step_text_ok st c : acc_ok st -> acc_ok (Escape.step Text st c).
Proof.
  destruct st as [m acc|acc|]; [|intros _; exact I|intros _; exact I].
  cbn [acc_ok]. intros H. unfold Escape.step. destruct m as [rb cr|nm|k|rb cr].
  - destruct (negb (is_xml_char c)) eqn:Ex; [exact I|]. apply negb_false_iff in Ex.
    destruct (c =? c_amp)%N; [exact H|]. destruct (c =? c_lt)%N; [exact H|].
    destruct (c =? c_cr)%N; [apply xml_cons'; [reflexivity|exact H]|].
    destruct ((c =? c_lf)%N && cr); [exact H|].
    destruct ((c =? c_gt)%N && (2 <=? rb)%nat); [exact I|].
    apply xml_cons'; auto.
  - destruct (c =? c_semi)%N; [|exact H].
    destruct (decode_ref (rev nm)) as [d|] eqn:Ed; [|exact I].
    apply xml_cons'; [eapply decode_ref_xml; eauto|exact H].
  - destruct (c =? nth k cdata_open 0)%N; [|exact I]. destruct (S k =? 8)%nat; exact H.
  - destruct (negb (is_xml_char c)) eqn:Ex; [exact I|]. apply negb_false_iff in Ex.
    destruct (c =? c_cr)%N; [apply xml_cons'; [reflexivity|exact H]|].
    destruct ((c =? c_lf)%N && cr); [exact H|].
    destruct ((c =? c_gt)%N && (2 <=? rb)%nat); [apply xml_tl, xml_tl; exact H|].
    apply xml_cons'; auto.
Qed.

Definition pres_ok (r : pend_res) : Prop :=
  match r with PStay _ q | PKeep q => xml_str q = true end.

Lemma blank_char_xml c : is_blank c = true -> is_xml_char c = true.
Proof. unfold is_blank, is_xml_char, c_sp, c_tab, c_lf, c_cr. lia. Qed.

Lemma fast_next_ok pend c : xml_str pend = true -> pres_ok (fast_next pend c).
Proof.
  intros H. unfold fast_next.
  destruct ((c =? c_sp)%N || (c =? c_tab)%N || (c =? c_lf)%N) eqn:E.
  - cbn [pres_ok]. apply xml_cons'; [|exact H]. apply blank_char_xml. unfold is_blank. rewrite E. reflexivity.
  - destruct (c =? c_cr)%N; [reflexivity|]. destruct (c =? c_lt)%N; [reflexivity|exact H].
Qed.

Lemma slow_next_ok n cr pend c : xml_str pend = true -> pres_ok (slow_next n cr pend c).
Proof.
  intros H. unfold slow_next.
  destruct ((c =? c_lf)%N && cr); [exact H|].
  destruct (n =? buf_size)%nat.
  - destruct (c =? c_cr)%N; [reflexivity|]. destruct (c =? c_lt)%N; [reflexivity|exact H].
  - destruct (is_blank c) eqn:B.
    + cbn [pres_ok]. apply xml_cons'; [|exact H]. destruct (c =? c_cr)%N; [reflexivity|apply blank_char_xml, B].
    + destruct (c =? c_lt)%N; [reflexivity|exact H].
Qed.

Lemma pend_next_ok p pend c : xml_str pend = true -> pres_ok (pend_next p pend c).
Proof.
  intros H. destruct p as [| | |n cr]; cbn [pend_next].
  - apply fast_next_ok, H.
  - destruct (c =? c_lf)%N; [exact H|apply slow_next_ok, H].
  - destruct (is_fast c); [apply fast_next_ok, H|apply slow_next_ok, H].
  - apply slow_next_ok, H.
Qed.

Definition tst_ok (t : tst) : Prop :=
  match t with TPend _ pend => xml_str pend = true | TLive st => acc_ok st end.

Lemma tstep_ok t c : tst_ok t -> tst_ok (tstep t c).
Proof.
  destruct t as [p pend|st]; cbn [tst_ok tstep]; intros H.
  - pose proof (pend_next_ok p pend c H) as Hn. destruct (pend_next p pend c) as [p' q|q]; cbn [pres_ok] in Hn.
    + exact Hn.
    + cbn [tst_ok]. apply step_text_ok. exact Hn.
  - apply step_text_ok, H.
Qed.

Lemma tfold_ok l : forall t, tst_ok t -> tst_ok (fold_left tstep l t).
Proof. induction l as [|c l IH]; intros t H; [exact H|]. cbn [fold_left]. apply IH, tstep_ok, H. Qed.

(** the text the parser delivers is made of XML characters *)
Lemma text_val_xml body v : text_val body = Some v -> xml_str v = true.
Proof.
  unfold text_val, lex_text. pose proof (tfold_ok body tstart eq_refl) as H.
  destruct (fold_left tstep body tstart) as [p pend|st]; cbn [text_of tst_ok] in *.
  - intros E. inversion E; subst. unfold xml_str in *. rewrite forallb_rev. exact H.
  - destruct st as [m acc|acc|]; try discriminate. destruct m; try discriminate.
    intros E. inversion E; subst. cbn [acc_ok] in H. unfold xml_str in *. rewrite forallb_rev. exact H.
Qed.

Lemma dec_children_wire n : forall ps st, (length ps <= n)%nat -> dec_children ps = Some st -> wire_ok st = true.
Proof.
  induction n as [|n IH]; intros ps st L.
  - destruct ps; [discriminate|cbn [length] in L; lia].
  - destruct ps as [|op rest]; [discriminate|]. destruct rest as [|cl rest'].
    + cbn [dec_children]. destruct (str_eqb op k_root_close_piece); [|discriminate].
      intros E. inversion E; subst. reflexivity.
    + rewrite dec_children_step. cbn [length] in L.
      destruct (cut_at c_gt op) as [[h body]|]; [|discriminate].
      destruct (head_lookup h) as [[[p x] sc]|]; [|discriminate]. destruct sc.
      * destruct (is_nil body); [|discriminate].
        destruct (dec_children (cl :: rest')) as [st'|] eqn:E'; [|discriminate].
        cbn [cons_opt]. intros E. inversion E; subst.
        cbn [wire_ok forallb]. fold (wire_ok st'). rewrite (IH (cl :: rest') st'); [reflexivity|cbn [length]; lia|exact E'].
      * destruct (str_eqb cl (k_slash :: tag_qname p ++ [c_gt])); [|discriminate].
        destruct (text_val body) as [v|] eqn:Ev; [|discriminate].
        destruct (dec_children rest') as [st'|] eqn:E'; [|discriminate].
        cbn [cons_opt]. intros E. inversion E; subst.
        cbn [wire_ok forallb]. fold (wire_ok st'). rewrite (IH rest' st'); [|lia|exact E'].
        unfold wire_child. cbn [c_tag c_text andb]. rewrite (text_val_xml _ _ Ev). reflexivity.
Qed.

(** whatever the reader accepts is a state of declared children with XML-character texts ... *)
Theorem dec_core_wire s st : dec_core s = Some st -> wire_ok st = true.
Proof.
  unfold dec_core, dec_core_r. destruct (split_on c_lt s) as [|p0 [|p1 [|p2 rest]]]; try discriminate.
  destruct (is_nil p0 && str_eqb p1 k_decl_piece); [|discriminate].
  destruct (root_lookup p2) as [[r sc]|]; [|discriminate]. destruct sc.
  - destruct rest; [|discriminate]. intros E. inversion E; subst. reflexivity.
  - destruct (dec_children rest) as [st'|] eqn:E'; [|discriminate].
    intros E. inversion E; subst. eapply dec_children_wire; [apply le_n|exact E'].
Qed.

(** ... so after loading ANY document of the shape, save and re-open returns the state loaded *)
Theorem loaded_reopen s st : dec_core s = Some st -> reopen st = Some st.
Proof. intros H. apply reopen_id. eapply dec_core_wire, H. Qed.

(** ---- property level: assign, save, re-open, read ---- *)

(** every string of at most 255 XML characters survives save and re-open, blank-only strings
    included: no side condition comes from the blank-text treatment *)
Theorem text_reopen p s st : kind_of p = KText -> (length s <= 255)%nat -> forallb xml_ok s = true ->
  wire_ok st = true ->
  let st1 := fst (set_prop p (VStr s) st) in
  snd (set_prop p (VStr s) st) = Ok tt /\
  reopen st1 = Some st1 /\
  (forall st2, reopen st1 = Some st2 -> get_prop st2 p = Ok (OStr s)).
Proof.
  intros K L X W st1. destruct (text_roundtrip p s st K L X) as [R1 R2].
  assert (W1 : wire_ok st1 = true) by (apply wire_step; [exact W|intros d E; discriminate E]).
  split; [exact R1|]. split; [apply reopen_id, W1|].
  intros st2 E. rewrite (reopen_id _ W1) in E. inversion E; subst st2. exact R2.
Qed.

(** a datetime (naive or aware, years 1..9999 after conversion) reads back equal after
    re-open, and created / modified still carry xsi:type *)
Definition has_xsi (st : cpstate) (p : prop) : Prop :=
  exists c, find_child st p = Some c /\ c_xsi c = true.

Lemma xsi_after_set p d st : kind_of p = KDate -> valid_pydt d = true -> in_py_range (utc_wall d) = true ->
  needs_xsi p = true -> has_xsi (fst (set_prop p (VDt d) st)) p.
Proof.
  intros K V R N. unfold set_prop. rewrite K. unfold set_datetime.
  rewrite to_utc_naive_spec, R by auto. cbn [fst]. unfold has_xsi.
  rewrite find_upd_same by apply tag_pres_dt. eexists; split; [reflexivity|].
  cbn [c_xsi]. rewrite N. apply orb_true_r.
Qed.

Theorem date_reopen p d st : kind_of p = KDate -> valid_pydt d = true ->
  in_py_range (utc_wall d) = true -> wire_ok st = true ->
  let st1 := fst (set_prop p (VDt d) st) in
  snd (set_prop p (VDt d) st) = Ok tt /\
  reopen st1 = Some st1 /\
  (forall st2, reopen st1 = Some st2 ->
     get_prop st2 p = Ok (ODt (Some (utc_wall d))) /\
     (needs_xsi p = true -> has_xsi st2 p) /\
     (valid_cp st = true -> valid_cp st2 = true)).
Proof.
  intros K V R W st1. destruct (date_roundtrip p d st K V R) as [R1 R2].
  assert (G : forall d0, VDt d = VDt d0 -> valid_pydt d0 = true) by (intros d0 E; inversion E; subst; exact V).
  assert (W1 : wire_ok st1 = true) by (apply wire_step; auto).
  split; [exact R1|]. split; [apply reopen_id, W1|].
  intros st2 E. rewrite (reopen_id _ W1) in E. inversion E; subst st2.
  split; [exact R2|]. split; [intros N; apply xsi_after_set; auto|].
  intros Vs. apply valid_step; auto.
Qed.

(** positive integers survive as revision *)
Theorem revision_reopen z st : (1 <= z)%Z -> (dec_len z <= 4300)%N -> wire_ok st = true ->
  let st1 := fst (set_prop Revision (VInt z) st) in
  snd (set_prop Revision (VInt z) st) = Ok tt /\
  reopen st1 = Some st1 /\
  (forall st2, reopen st1 = Some st2 -> get_prop st2 Revision = Ok (OInt z)).
Proof.
  intros Z1 L W st1. destruct (revision_roundtrip z st Z1 L) as [R1 R2].
  assert (W1 : wire_ok st1 = true) by (apply wire_step; [exact W|intros d E; discriminate E]).
  split; [exact R1|]. split; [apply reopen_id, W1|].
  intros st2 E. rewrite (reopen_id _ W1) in E. inversion E; subst st2. exact R2.
Qed.

(** after any history of assignments (any values, accepted or refused) from a writable state,
    save and re-open gives back the very state: every reading, every child, every xsi:type,
    and validity are those before the save; any number of cycles *)
Fixpoint cycles (n : nat) (st : cpstate) : option cpstate :=
  match n with
  | O => Some st
  | S k => match reopen st with Some st' => cycles k st' | None => None end
  end.

Lemma cycles_id n st : wire_ok st = true -> cycles n st = Some st.
Proof. intros W. induction n as [|n IH]; [reflexivity|]. cbn [cycles]. rewrite (reopen_id _ W). exact IH. Qed.

Theorem history_reopen ops st n : wire_ok st = true -> Forall date_guard ops ->
  cycles n (run ops st) = Some (run ops st).
Proof. intros W F. apply cycles_id, wire_run; auto. Qed.

(** the part CorePropertiesPart.default builds, written with its own root, reads back as built *)
Theorem default_reopen now : valid_pydt now = true ->
  dec_core_r (enc_core_r RDefault (default_part now)) = Some (RDefault, default_part now).
Proof. intros V. apply dec_enc_core_r, wire_default, V. Qed.

(** ---- non-vacuity and concrete documents ---- *)

(** the blank-only title of the question: written, read, and read as assigned *)
Example blank_title :
  let st := fst (set_prop Title (VStr [32]%N) []) in
  wire_ok st = true /\ reopen st = Some st /\ get_prop st Title = Ok (OStr [32]%N).
Proof. vm_compute. repeat split. Qed.

Example blank_forms :
  let st := [mkChild (TProp Title) [32; 9; 10; 13; 32]%N false; mkChild (TProp Subject) [13; 10]%N false;
             mkChild (TProp Author) [] false; mkChild (TProp Created) [32; 60; 38; 62; 34; 39; 128512; 32]%N true] in
  wire_ok st = true /\ reopen st = Some st /\
  dec_core (enc_core_m RTemplate (parsed st)) = Some st.
Proof. vm_compute. repeat split. Qed.

Example text_reopen_nonvacuous :
  kind_of Title = KText /\ (length [32; 10; 32]%N <= 255)%nat /\ forallb xml_ok [32; 10; 32]%N = true /\
  wire_ok [mkChild (TProp Created) [9]%N true] = true.
Proof. vm_compute. repeat split; lia. Qed.

Example date_reopen_nonvacuous :
  let d := mkPydt (mkDT 4 2 29 23 59 59) 999999 (Some 3600%Z) in
  kind_of Modified = KDate /\ valid_pydt d = true /\ in_py_range (utc_wall d) = true /\ needs_xsi Modified = true.
Proof. vm_compute. repeat split. Qed.

(** the bytes of a small document, to be read by eye: title a, created with xsi:type *)
Example enc_core_sample :
  enc_core [mkChild (TProp Title) [97]%N false] =
  c_lt :: k_decl_piece ++ c_lt :: root_head RTemplate ++
  [62; 60; 100; 99; 58; 116; 105; 116; 108; 101; 62; 97; 60; 47; 100; 99; 58; 116; 105; 116; 108; 101; 62;
   60; 47; 99; 112; 58; 99; 111; 114; 101; 80; 114; 111; 112; 101; 114; 116; 105; 101; 115; 62]%N.
Proof. vm_compute. reflexivity. Qed.
