(** C18 -- placeholder while the proofs are being written. *)
From V.lib Require Import Prelude Calendar.
From V.model Require Import CoreProps.
From V.proofs Require Import Calendar_proofs.

Theorem C18_calendar_inverse : forall dt, valid_date dt = true -> civil_of_ordinal (ordinal dt) = dt.
Proof. exact civil_ordinal. Qed.
Print Assumptions C18_calendar_inverse.
