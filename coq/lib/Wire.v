(** Wire format helpers for the extracted model runners: every runner is a function
    [list str -> str]; numbers travel as decimal text.  Definitions only. *)
From V.lib Require Import Prelude.

Definition c_minus : N := 45%N.
Definition c_bar : N := 124%N.

Definition show_N (n : N) : str := dec_of_N n.
Definition show_Z (z : Z) : str :=
  match z with
  | Z0 => [48%N]
  | Zpos p => dec_of_N (Npos p)
  | Zneg p => c_minus :: dec_of_N (Npos p)
  end.
Definition show_nat (n : nat) : str := show_N (N.of_nat n).

(** Parse an optional minus sign followed by ASCII digits; anything else is [None]. *)
Definition parse_N (s : str) : option N :=
  match s with
  | [] => None
  | _ => if forallb is_digit s then Some (dec_value s) else None
  end.
Definition parse_Z (s : str) : option Z :=
  match s with
  | c :: r => if N.eqb c c_minus
              then match parse_N r with Some n => Some (- Z.of_N n)%Z | None => None end
              else match parse_N s with Some n => Some (Z.of_N n) | None => None end
  | [] => None
  end.
Definition parse_nat (s : str) : option nat :=
  match parse_N s with Some n => Some (N.to_nat n) | None => None end.

(* ASCII literals used in outputs *)
Definition w_ok : str := [111; 107; 58]%N.            (* ok: *)
Definition w_err : str := [101; 114; 114; 58]%N.      (* err: *)
Definition w_none : str := [78; 111; 110; 101]%N.     (* None *)
Definition w_true : str := [84; 114; 117; 101]%N.
Definition w_false : str := [70; 97; 108; 115; 101]%N.
Definition w_badcase : str := [98; 97; 100; 99; 97; 115; 101]%N. (* badcase *)

Definition show_err (e : pyerr) : str :=
  match e with
  | TypeErr => [84; 121; 112; 101]%N            (* Type *)
  | ValueErr => [86; 97; 108; 117; 101]%N       (* Value *)
  | KeyErr => [75; 101; 121]%N                  (* Key *)
  | IndexErr => [73; 110; 100; 101; 120]%N      (* Index *)
  | OverflowErr => [79; 118; 101; 114; 102; 108; 111; 119]%N
  | StopIter => [83; 116; 111; 112]%N
  | OtherErr => [79; 116; 104; 101; 114]%N
  end.

Definition show_res {A} (f : A -> str) (r : res A) : str :=
  match r with Ok a => w_ok ++ f a | Err e => w_err ++ show_err e end.
Definition show_opt {A} (f : A -> str) (o : option A) : str :=
  match o with Some a => f a | None => w_none end.
Definition show_bool (b : bool) : str := if b then w_true else w_false.

(** Fields are joined with a vertical bar; field contents never contain one because
    string payloads are shown as space-separated code points. *)
Definition show_str (s : str) : str :=
  join_with [32%N] (map show_N s).
Definition fields (l : list str) : str := join_with [c_bar] l.
