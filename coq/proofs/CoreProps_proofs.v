(** Lemmas about model/CoreProps.v (C18). *)
From V.lib Require Import Prelude Calendar.
From V.model Require Import CoreProps.
From V.proofs Require Import Prelude_proofs Calendar_proofs.
From Coq Require Import ZifyBool.

Ltac Zify.zify_post_hook ::= Z.to_euclidean_division_equations.

(** ---- properties ---- *)

Lemma prop_eqb_eq p q : prop_eqb p q = true <-> p = q.
Proof. split; [|intros ->; destruct q; reflexivity]. destruct p, q; cbv; congruence. Qed.

Lemma prop_eqb_refl p : prop_eqb p p = true.
Proof. apply prop_eqb_eq; reflexivity. Qed.

Lemma prop_eqb_neq p q : p <> q -> prop_eqb p q = false.
Proof. intros H. destruct (prop_eqb p q) eqn:E; auto. apply prop_eqb_eq in E. contradiction. Qed.

(** ---- decimal text ---- *)

Definition dval (s : str) (acc : Z) : Z :=
  fold_left (fun a c => (10 * a + Z.of_N (c - 48))%Z) s acc.

Lemma dval_app s t acc : dval (s ++ t) acc = dval t (dval s acc).
Proof. unfold dval. apply fold_left_app. Qed.

Lemma dval_shift s acc : dval s acc = (acc * 10 ^ Z.of_nat (length s) + dval s 0)%Z.
Proof.
  revert acc. induction s as [|c s IH]; intros acc.
  - cbn [dval fold_left length]. change (Z.of_nat 0) with 0%Z. lia.
  - cbn [dval fold_left length]. fold (dval s (10 * acc + Z.of_N (c - 48))%Z).
    fold (dval s (10 * 0 + Z.of_N (c - 48))%Z).
    rewrite IH. rewrite (IH (10 * 0 + Z.of_N (c - 48))%Z).
    rewrite Nat2Z.inj_succ, Z.pow_succ_r by lia. lia.
Qed.

Lemma udigit_ascii c : is_digit c = true -> udigit_val c = Some (Z.of_N (c - 48)).
Proof. intros H. unfold udigit_val. rewrite H. reflexivity. Qed.

Lemma digits_us_ascii s prev acc cnt :
  forallb is_digit s = true -> (s <> [] \/ prev = true) ->
  digits_us s prev acc cnt = Some (dval s acc, (cnt + N.of_nat (length s))%N).
Proof.
  revert prev acc cnt. induction s as [|c s IH]; intros prev acc cnt Hd Hne.
  - destruct Hne as [Hne | ->]; [congruence|]. cbn. f_equal. f_equal. lia.
  - cbn [forallb] in Hd. apply andb_true_iff in Hd as [Hc Hs].
    cbn [digits_us]. rewrite (udigit_ascii c Hc).
    rewrite IH by auto. cbn [dval fold_left length]. f_equal. f_equal. lia.
Qed.

Lemma is_digit_not_space c : is_digit c = true -> int_space c = false.
Proof. unfold is_digit, int_space. lia. Qed.

Lemma drop_while_hd {A} (f : A -> bool) c s : f c = false -> drop_while f (c :: s) = c :: s.
Proof. intros H. cbn. rewrite H. reflexivity. Qed.

Lemma strip_digits s : forallb is_digit s = true -> strip_int_space s = s.
Proof.
  intros H. unfold strip_int_space.
  assert (D : forall t, forallb is_digit t = true -> drop_while int_space t = t).
  { intros [|c t] Ht; auto. cbn [forallb] in Ht. apply andb_true_iff in Ht as [Hc _].
    apply drop_while_hd. apply is_digit_not_space; auto. }
  rewrite (D s H). rewrite D by (rewrite forallb_rev; auto). apply rev_involutive.
Qed.

Lemma split_sign_digits s : forallb is_digit s = true -> split_sign s = (false, s).
Proof.
  destruct s as [|c t]; auto. cbn [forallb]. intros H. apply andb_true_iff in H as [Hc _].
  unfold split_sign. unfold is_digit in Hc.
  destruct (N.eqb_spec c 43); [lia|]. destruct (N.eqb_spec c 45); [lia|]. reflexivity.
Qed.

(** int() on a non-empty run of at most 4300 ASCII digits. *)
Lemma py_int_digits s :
  forallb is_digit s = true -> s <> [] -> (N.of_nat (length s) <= 4300)%N ->
  py_int s = Some (dval s 0).
Proof.
  intros Hd Hne Hl. unfold py_int. rewrite (strip_digits s Hd), (split_sign_digits s Hd).
  rewrite digits_us_ascii by auto. unfold max_str_digits.
  destruct (N.ltb_spec 4300 (0 + N.of_nat (length s))); [exfalso; lia|reflexivity].
Qed.

(** ---- dec_of_N ---- *)

Lemma digit_sub r : Z.of_N (48 + r - 48) = Z.of_N r.
Proof. lia. Qed.

Lemma ddf_spec fuel : forall n acc, (n < 2 ^ N.of_nat fuel)%N -> (0 < fuel)%nat ->
  forallb is_digit acc = true ->
  forallb is_digit (dec_digits_fuel fuel n acc) = true /\
  dec_digits_fuel fuel n acc <> [] /\
  dval (dec_digits_fuel fuel n acc) 0 = (Z.of_N n * 10 ^ Z.of_nat (length acc) + dval acc 0)%Z.
Proof.
  induction fuel as [|f IH]; intros n acc Hn Hf Ha; [lia|].
  cbn [dec_digits_fuel].
  assert (Hdig : is_digit (48 + n mod 10) = true).
  { unfold is_digit. assert (Hr : (n mod 10 < 10)%N) by (apply N.mod_upper_bound; discriminate).
    revert Hr. generalize (n mod 10)%N. intros r Hr. lia. }
  destruct (N.ltb_spec n 10) as [Hlt|Hge].
  - split; [cbn [forallb]; rewrite Hdig, Ha; reflexivity|]. split; [discriminate|].
    change (dval ((48 + n mod 10)%N :: acc) 0) with (dval acc (10 * 0 + Z.of_N (48 + n mod 10 - 48))%Z).
    rewrite dval_shift, digit_sub. rewrite N.mod_small by lia. lia.
  - assert (Hf' : (0 < f)%nat).
    { destruct f; [|lia]. change (2 ^ N.of_nat 1)%N with 2%N in Hn. lia. }
    assert (Hn' : (n / 10 < 2 ^ N.of_nat f)%N).
    { rewrite Nat2N.inj_succ, N.pow_succ_r' in Hn.
      apply N.div_lt_upper_bound; lia. }
    specialize (IH (n / 10)%N ((48 + n mod 10)%N :: acc) Hn' Hf').
    destruct IH as [I1 [I2 I3]]; [cbn [forallb]; rewrite Hdig, Ha; reflexivity|].
    split; auto. split; auto. rewrite I3.
    change (dval ((48 + n mod 10)%N :: acc) 0) with (dval acc (10 * 0 + Z.of_N (48 + n mod 10 - 48))%Z).
    rewrite (dval_shift acc). cbn [length]. rewrite Nat2Z.inj_succ, Z.pow_succ_r by lia.
    assert (E : n = (10 * (n / 10) + n mod 10)%N) by (apply N.div_mod; discriminate).
    assert (E' : Z.of_N n = (10 * Z.of_N (n / 10) + Z.of_N (n mod 10))%Z).
    { rewrite E at 1. rewrite N2Z.inj_add, N2Z.inj_mul. reflexivity. }
    rewrite digit_sub. rewrite E'. ring.
Qed.

Lemma dec_of_N_spec n :
  forallb is_digit (dec_of_N n) = true /\ dec_of_N n <> [] /\ dval (dec_of_N n) 0 = Z.of_N n.
Proof.
  unfold dec_of_N.
  destruct (ddf_spec (S (N.to_nat (N.size n))) n []) as [A [B C]]; auto; try lia.
  - rewrite Nat2N.inj_succ, N2Nat.id, N.pow_succ_r'.
    pose proof (N.size_gt n). lia.
  - split; auto. split; auto. rewrite C. cbn [length dval fold_left]. change (Z.of_nat 0) with 0%Z. lia.
Qed.

(** ---- spec-level text forms (used in the theorem statements) ---- *)

(** YYYY-MM-DDThh:mm:ss with a four-digit zero-padded year. *)
Definition w3c_full (t : datetime) : str :=
  pad4 (dt_year t) ++ c_dash :: pad2 (dt_month t) ++ c_dash :: pad2 (dt_day t) ++
  c_T :: pad2 (dt_hour t) ++ c_colon :: pad2 (dt_minute t) ++ c_colon :: pad2 (dt_second t).
Definition w3c_date (y m d : Z) : str := pad4 y ++ c_dash :: pad2 m ++ c_dash :: pad2 d.
Definition w3c_ym (y m : Z) : str := pad4 y ++ c_dash :: pad2 m.
(** Zone designator: sign, hh, colon, mm. *)
Definition off_str (neg : bool) (hh mm : Z) : str :=
  (if neg then c_dash else c_plus) :: pad2 hh ++ c_colon :: pad2 mm.
(** Seconds east of UTC denoted by the designator. *)
Definition off_seconds (neg : bool) (hh mm : Z) : Z :=
  ((if neg then -1 else 1) * (hh * 3600 + mm * 60))%Z.

(** ---- digit characters ---- *)

Lemma digit_char_is_digit v : (0 <= v <= 9)%Z -> is_digit (digit_char v) = true.
Proof. unfold is_digit, digit_char. lia. Qed.

Lemma digit_char_val v : (0 <= v <= 9)%Z -> udigit_val (digit_char v) = Some v.
Proof.
  intros H. rewrite udigit_ascii by (apply digit_char_is_digit; auto).
  unfold digit_char. f_equal. lia.
Qed.

Lemma digit_char_udigit v : (0 <= v <= 9)%Z -> is_udigit (digit_char v) = true.
Proof. intros H. unfold is_udigit. rewrite digit_char_val; auto. Qed.

Lemma pad2_digits v : (0 <= v <= 99)%Z -> forallb is_digit (pad2 v) = true.
Proof.
  intros H. unfold pad2. cbn [forallb].
  rewrite !digit_char_is_digit by lia. reflexivity.
Qed.

Lemma pad4_digits v : (0 <= v <= 9999)%Z -> forallb is_digit (pad4 v) = true.
Proof.
  intros H. unfold pad4. cbn [forallb].
  rewrite !digit_char_is_digit by lia. reflexivity.
Qed.

Lemma dval_digit_char v acc : (0 <= v <= 9)%Z ->
  (10 * acc + Z.of_N (digit_char v - 48))%Z = (10 * acc + v)%Z.
Proof. intros H. unfold digit_char. lia. Qed.

Lemma py_int_pad2 v : (0 <= v <= 99)%Z -> py_int (pad2 v) = Some v.
Proof.
  intros H. rewrite py_int_digits; [|apply pad2_digits; auto|discriminate|cbn; lia].
  f_equal. unfold pad2, dval. cbn [fold_left]. rewrite !dval_digit_char by lia. lia.
Qed.

Lemma py_int_pad4 v : (0 <= v <= 9999)%Z -> py_int (pad4 v) = Some v.
Proof.
  intros H. rewrite py_int_digits; [|apply pad4_digits; auto|discriminate|cbn; lia].
  f_equal. unfold pad4, dval. cbn [fold_left]. rewrite !dval_digit_char by lia. lia.
Qed.

(** glibc %Y for four-digit years. *)
Lemma ddf_lt f n acc : (n < 10)%N -> dec_digits_fuel (S f) n acc = (48 + n mod 10)%N :: acc.
Proof. intros H. cbn [dec_digits_fuel]. destruct (N.ltb_spec n 10); [reflexivity|lia]. Qed.

Lemma ddf_ge f n acc : (10 <= n)%N ->
  dec_digits_fuel (S f) n acc = dec_digits_fuel f (n / 10)%N ((48 + n mod 10)%N :: acc).
Proof. intros H. cbn [dec_digits_fuel]. destruct (N.ltb_spec n 10); [lia|reflexivity]. Qed.

Lemma show_year_pad4 y : (1000 <= y <= 9999)%Z -> show_year y = pad4 y.
Proof.
  intros H. unfold show_year, dec_of_N.
  set (n := Z.to_N y). assert (Hn : (1000 <= n <= 9999)%N) by lia.
  assert (Hs : (10 <= N.size n)%N).
  { destruct (N.le_gt_cases (N.size n) 9) as [L|L]; [|lia].
    pose proof (N.size_gt n) as G.
    pose proof (N.pow_le_mono_r 2 (N.size n) 9 ltac:(discriminate) L) as P.
    change (2 ^ 9)%N with 512%N in P. lia. }
  destruct (N.to_nat (N.size n)) as [|[|[|k]]] eqn:E; try lia.
  assert (Q1 : (100 <= n / 10 <= 999)%N) by lia.
  assert (Q2 : (10 <= n / 10 / 10 <= 99)%N) by lia.
  assert (Q3 : (1 <= n / 10 / 10 / 10 <= 9)%N) by lia.
  rewrite ddf_ge by lia. rewrite ddf_ge by lia. rewrite ddf_ge by lia. rewrite ddf_lt by lia.
  unfold pad4, digit_char. subst n.
  repeat (f_equal; try lia).
Qed.

(** ---- the strptime matcher ---- *)

Fixpoint first_alt (al : list (list cc)) (s : str) : option (str * str) :=
  match al with
  | [] => None
  | a :: al' => match match_alt a s with Some x => Some x | None => first_alt al' s end
  end.

Lemma try_alts_first k al s cap r0 caps r :
  first_alt al s = Some (cap, r0) -> k r0 = Some (caps, r) ->
  try_alts k al s = Some (cap :: caps, r).
Proof.
  induction al as [|a al IH]; cbn [first_alt try_alts]; [discriminate|].
  destruct (match_alt a s) as [[c0 r1]|].
  - intros E K. inversion E; subst. rewrite K. reflexivity.
  - auto.
Qed.

Lemma match_alt_app a : forall s rest, (length a <= length s)%nat ->
  match_alt a (s ++ rest) =
  match match_alt a s with Some (cap, r') => Some (cap, r' ++ rest) | None => None end.
Proof.
  induction a as [|k a IH]; intros s rest L.
  - reflexivity.
  - destruct s as [|c s]; [cbn in L; lia|]. cbn [match_alt app].
    destruct (cc_match k c); [|reflexivity].
    rewrite IH by (cbn in L; lia).
    destruct (match_alt a s) as [[cap r']|]; reflexivity.
Qed.

Lemma first_alt_app al s rest :
  forallb (fun a => (length a <=? length s)%nat) al = true ->
  first_alt al (s ++ rest) =
  match first_alt al s with Some (cap, r') => Some (cap, r' ++ rest) | None => None end.
Proof.
  induction al as [|a al IH]; cbn [first_alt forallb]; [reflexivity|].
  intros H. apply andb_true_iff in H as [H1 H2].
  rewrite match_alt_app by (apply Nat.leb_le; auto).
  destruct (match_alt a s) as [[cap r']|]; auto.
Qed.

(** A two-character group value [v] is taken whole by the first alternative that matches. *)
Definition field2_ok (alts : list (list cc)) (v : Z) : bool :=
  forallb (fun a => (length a <=? 2)%nat) alts &&
  match first_alt alts (pad2 v) with
  | Some (cap, []) => str_eqb cap (pad2 v)
  | _ => false
  end.

Lemma match_field2 alts v p' rest caps r :
  field2_ok alts v = true -> match_pat p' rest = Some (caps, r) ->
  match_pat (IField alts :: p') (pad2 v ++ rest) = Some (pad2 v :: caps, r).
Proof.
  unfold field2_ok. intros H K. apply andb_true_iff in H as [H1 H2].
  cbn [match_pat]. apply try_alts_first with (r0 := rest); auto.
  rewrite first_alt_app by exact H1.
  destruct (first_alt alts (pad2 v)) as [[cap [|x r']]|]; try discriminate.
  apply str_eqb_eq in H2. subst. reflexivity.
Qed.

Lemma range_check (f : Z -> bool) lo n :
  forallb (fun i => f (lo + Z.of_nat i)%Z) (seq 0 n) = true ->
  forall v, (lo <= v < lo + Z.of_nat n)%Z -> f v = true.
Proof.
  intros H v Hv. rewrite forallb_forall in H.
  specialize (H (Z.to_nat (v - lo))).
  replace (lo + Z.of_nat (Z.to_nat (v - lo)))%Z with v in H by lia.
  apply H. apply in_seq. lia.
Qed.

Definition alts_of (i : item) : list (list cc) :=
  match i with IField a => a | ILit _ => [] end.

Lemma field_m_ok v : (1 <= v <= 12)%Z -> field2_ok (alts_of f_m) v = true.
Proof. intros H. apply (range_check (field2_ok (alts_of f_m)) 1 12); [vm_compute; reflexivity|lia]. Qed.
Lemma field_d_ok v : (1 <= v <= 31)%Z -> field2_ok (alts_of f_d) v = true.
Proof. intros H. apply (range_check (field2_ok (alts_of f_d)) 1 31); [vm_compute; reflexivity|lia]. Qed.
Lemma field_H_ok v : (0 <= v <= 23)%Z -> field2_ok (alts_of f_H) v = true.
Proof. intros H. apply (range_check (field2_ok (alts_of f_H)) 0 24); [vm_compute; reflexivity|lia]. Qed.
Lemma field_M_ok v : (0 <= v <= 59)%Z -> field2_ok (alts_of f_M) v = true.
Proof. intros H. apply (range_check (field2_ok (alts_of f_M)) 0 60); [vm_compute; reflexivity|lia]. Qed.
Lemma field_S_ok v : (0 <= v <= 59)%Z -> field2_ok (alts_of f_S) v = true.
Proof. intros H. apply (range_check (field2_ok (alts_of f_S)) 0 60); [vm_compute; reflexivity|lia]. Qed.

Lemma match_field_Y y p' rest caps r : (0 <= y <= 9999)%Z ->
  match_pat p' rest = Some (caps, r) ->
  match_pat (f_Y :: p') (pad4 y ++ rest) = Some (pad4 y :: caps, r).
Proof.
  intros H K. unfold f_Y. cbn [match_pat]. apply try_alts_first with (r0 := rest); auto.
  unfold pad4. cbn [first_alt match_alt app cc_match].
  rewrite !digit_char_udigit by lia. reflexivity.
Qed.

Lemma match_lit k c p' s : cc_match k c = true ->
  match_pat (ILit k :: p') (c :: s) = match_pat p' s.
Proof. intros H. cbn [match_pat]. rewrite H. reflexivity. Qed.

(** Ranges of a valid date-time. *)
Lemma valid_dt_bounds t : valid_datetime t = true ->
  (1 <= dt_month t <= 12 /\ 1 <= dt_day t <= 31 /\ 0 <= dt_hour t <= 23 /\
   0 <= dt_minute t <= 59 /\ 0 <= dt_second t <= 59)%Z.
Proof.
  unfold valid_datetime, valid_date, date_of, valid_time, days_in_month. intros H.
  pose proof (dim_pos (is_leap (dt_year t)) (dt_month t)). lia.
Qed.

Section Full.
  Variable t : datetime.
  Hypothesis Vt : valid_datetime t = true.
  Hypothesis Yr : (1 <= dt_year t <= 9999)%Z.

  Let B := valid_dt_bounds t Vt.

  Lemma match_full :
    match_pat tmpl_full (w3c_full t) =
    Some ([pad4 (dt_year t); pad2 (dt_month t); pad2 (dt_day t); pad2 (dt_hour t);
           pad2 (dt_minute t); pad2 (dt_second t)], []).
  Proof.
    destruct B as [Bm [Bd [Bh [Bmi Bs]]]].
    unfold tmpl_full, w3c_full, l_dash, l_colon, l_T.
    apply match_field_Y; [lia|]. rewrite match_lit by reflexivity.
    apply (match_field2 (alts_of f_m)); [apply field_m_ok; lia|]. rewrite match_lit by reflexivity.
    apply (match_field2 (alts_of f_d)); [apply field_d_ok; lia|]. rewrite match_lit by reflexivity.
    apply (match_field2 (alts_of f_H)); [apply field_H_ok; lia|]. rewrite match_lit by reflexivity.
    apply (match_field2 (alts_of f_M)); [apply field_M_ok; lia|]. rewrite match_lit by reflexivity.
    rewrite <- (app_nil_r (pad2 (dt_second t))).
    apply (match_field2 (alts_of f_S)); [apply field_S_ok; lia|]. reflexivity.
  Qed.

  (** The shorter templates match a proper prefix only. *)
  Lemma match_date_prefix rest :
    match_pat tmpl_date (w3c_date (dt_year t) (dt_month t) (dt_day t) ++ rest) =
    Some ([pad4 (dt_year t); pad2 (dt_month t); pad2 (dt_day t)], rest).
  Proof.
    destruct B as [Bm [Bd _]].
    unfold tmpl_date, w3c_date, l_dash. rewrite <- !app_assoc. cbn [app].
    apply match_field_Y; [lia|]. rewrite match_lit by reflexivity.
    rewrite <- !app_assoc. cbn [app].
    apply (match_field2 (alts_of f_m)); [apply field_m_ok; lia|]. rewrite match_lit by reflexivity.
    apply (match_field2 (alts_of f_d)); [apply field_d_ok; lia|]. reflexivity.
  Qed.

  Lemma match_ym_prefix rest :
    match_pat tmpl_ym (w3c_ym (dt_year t) (dt_month t) ++ rest) =
    Some ([pad4 (dt_year t); pad2 (dt_month t)], rest).
  Proof.
    destruct B as [Bm _].
    unfold tmpl_ym, w3c_ym, l_dash. rewrite <- !app_assoc. cbn [app].
    apply match_field_Y; [lia|]. rewrite match_lit by reflexivity.
    apply (match_field2 (alts_of f_m)); [apply field_m_ok; lia|]. reflexivity.
  Qed.

  Lemma match_y_prefix rest :
    match_pat tmpl_y (pad4 (dt_year t) ++ rest) = Some ([pad4 (dt_year t)], rest).
  Proof. unfold tmpl_y. apply match_field_Y; [lia|]. reflexivity. Qed.
End Full.

(** ---- strptime on the W3CDTF forms ---- *)

Lemma mkDT_eta t :
  mkDT (dt_year t) (dt_month t) (dt_day t) (dt_hour t) (dt_minute t) (dt_second t) = t.
Proof. destruct t; reflexivity. Qed.

Lemma in_py_range_iff t : in_py_range t = true <-> (1 <= dt_year t <= 9999)%Z.
Proof. unfold in_py_range. lia. Qed.

Lemma strptime_full t : valid_datetime t = true -> (1 <= dt_year t <= 9999)%Z ->
  strptime tmpl_full (w3c_full t) = Some t.
Proof.
  intros V Y. pose proof (valid_dt_bounds t V) as [Bm [Bd [Bh [Bmi Bs]]]].
  unfold strptime. rewrite (match_full t V Y).
  unfold nth_int. cbn [nth_error].
  rewrite py_int_pad4 by lia. rewrite !py_int_pad2 by lia.
  rewrite mkDT_eta, V. rewrite (proj2 (in_py_range_iff t) Y). reflexivity.
Qed.

Lemma valid_date_datetime y m d : valid_date (y, m, d) = true ->
  valid_datetime (mkDT y m d 0 0 0) = true.
Proof. intros V. unfold valid_datetime, date_of. cbn [dt_year dt_month dt_day dt_hour dt_minute dt_second]. rewrite V. reflexivity. Qed.

Lemma strptime_date y m d : valid_date (y, m, d) = true -> (1 <= y <= 9999)%Z ->
  strptime tmpl_date (w3c_date y m d) = Some (mkDT y m d 0 0 0).
Proof.
  intros V Y. pose proof (valid_date_datetime y m d V) as Vt.
  pose proof (valid_dt_bounds _ Vt) as [Bm [Bd _]].
  cbn [dt_year dt_month dt_day dt_hour dt_minute dt_second] in *.
  unfold strptime. rewrite <- (app_nil_r (w3c_date y m d)).
  pose proof (match_date_prefix (mkDT y m d 0 0 0) Vt Y []) as Mp.
  cbn [dt_year dt_month dt_day] in Mp. rewrite Mp.
  unfold nth_int. cbn [nth_error].
  rewrite py_int_pad4 by lia. rewrite !py_int_pad2 by lia.
  rewrite Vt. unfold in_py_range. cbn [dt_year].
  destruct ((1 <=? y)%Z && (y <=? 9999)%Z) eqn:E; [reflexivity|lia].
Qed.

Lemma strptime_ym y m : (1 <= m <= 12)%Z -> (1 <= y <= 9999)%Z ->
  strptime tmpl_ym (w3c_ym y m) = Some (mkDT y m 1 0 0 0).
Proof.
  intros M Y.
  assert (V : valid_date (y, m, 1%Z) = true).
  { unfold valid_date, days_in_month. pose proof (dim_pos (is_leap y) m). lia. }
  pose proof (valid_date_datetime y m 1%Z V) as Vt.
  unfold strptime. rewrite <- (app_nil_r (w3c_ym y m)).
  pose proof (match_ym_prefix (mkDT y m 1 0 0 0) Vt Y []) as Mp.
  cbn [dt_year dt_month dt_day] in Mp. rewrite Mp.
  unfold nth_int. cbn [nth_error].
  rewrite py_int_pad4 by lia. rewrite !py_int_pad2 by lia.
  rewrite Vt. unfold in_py_range. cbn [dt_year].
  destruct ((1 <=? y)%Z && (y <=? 9999)%Z) eqn:E; [reflexivity|lia].
Qed.

Lemma strptime_y y : (1 <= y <= 9999)%Z ->
  strptime tmpl_y (pad4 y) = Some (mkDT y 1 1 0 0 0).
Proof.
  intros Y.
  assert (Vt : valid_datetime (mkDT y 1 1 0 0 0) = true) by (apply valid_date_datetime; reflexivity).
  unfold strptime. rewrite <- (app_nil_r (pad4 y)).
  pose proof (match_y_prefix (mkDT y 1 1 0 0 0) Y []) as Mp.
  cbn [dt_year dt_month dt_day] in Mp. rewrite Mp.
  unfold nth_int. cbn [nth_error].
  rewrite py_int_pad4 by lia.
  rewrite Vt. unfold in_py_range. cbn [dt_year].
  destruct ((1 <=? y)%Z && (y <=? 9999)%Z) eqn:E; [reflexivity|lia].
Qed.

(** A shorter template applied to a longer form leaves text unconsumed: ValueError. *)
Lemma strptime_leftover tmpl s caps c rest :
  match_pat tmpl s = Some (caps, c :: rest) -> strptime tmpl s = None.
Proof. intros H. unfold strptime. rewrite H. reflexivity. Qed.

Lemma w3c_full_split t :
  w3c_full t = w3c_date (dt_year t) (dt_month t) (dt_day t) ++
               c_T :: pad2 (dt_hour t) ++ c_colon :: pad2 (dt_minute t) ++ c_colon :: pad2 (dt_second t).
Proof. reflexivity. Qed.
Lemma w3c_date_split y m d : w3c_date y m d = w3c_ym y m ++ c_dash :: pad2 d.
Proof. reflexivity. Qed.
Lemma w3c_ym_split y m : w3c_ym y m = pad4 y ++ c_dash :: pad2 m.
Proof. reflexivity. Qed.

Section Shorter.
  Variable t : datetime.
  Hypothesis Vt : valid_datetime t = true.
  Hypothesis Yr : (1 <= dt_year t <= 9999)%Z.

  Lemma strptime_date_on_full : strptime tmpl_date (w3c_full t) = None.
  Proof. rewrite w3c_full_split. eapply strptime_leftover. apply (match_date_prefix t Vt Yr). Qed.

  Lemma strptime_ym_on_full : strptime tmpl_ym (w3c_full t) = None.
  Proof.
    rewrite w3c_full_split, w3c_date_split, <- app_assoc. cbn [app].
    eapply strptime_leftover. apply (match_ym_prefix t Vt Yr).
  Qed.

  Lemma strptime_y_on_full : strptime tmpl_y (w3c_full t) = None.
  Proof.
    rewrite w3c_full_split, w3c_date_split, w3c_ym_split, <- !app_assoc. cbn [app].
    eapply strptime_leftover. apply (match_y_prefix t Yr).
  Qed.

  Lemma strptime_ym_on_date :
    strptime tmpl_ym (w3c_date (dt_year t) (dt_month t) (dt_day t)) = None.
  Proof. rewrite w3c_date_split. eapply strptime_leftover. apply (match_ym_prefix t Vt Yr). Qed.

  Lemma strptime_y_on_date :
    strptime tmpl_y (w3c_date (dt_year t) (dt_month t) (dt_day t)) = None.
  Proof.
    rewrite w3c_date_split, w3c_ym_split, <- !app_assoc. cbn [app].
    eapply strptime_leftover. apply (match_y_prefix t Yr).
  Qed.

  Lemma strptime_y_on_ym : strptime tmpl_y (w3c_ym (dt_year t) (dt_month t)) = None.
  Proof. rewrite w3c_ym_split. eapply strptime_leftover. apply (match_y_prefix t Yr). Qed.
End Shorter.

(** ---- _parse_W3CDTF_to_datetime ---- *)

Lemma firstn_full t z : firstn 19 (w3c_full t ++ z) = w3c_full t.
Proof. reflexivity. Qed.
Lemma skipn_full t z : skipn 19 (w3c_full t ++ z) = z.
Proof. reflexivity. Qed.

Lemma templates_on_full t : valid_datetime t = true -> (1 <= dt_year t <= 9999)%Z ->
  fold_left (fun acc tm => match strptime tm (w3c_full t) with Some x => Some x | None => acc end)
            templates None = Some t.
Proof.
  intros V Y. unfold templates. cbn [fold_left].
  rewrite (strptime_full t V Y), (strptime_date_on_full t V Y), (strptime_ym_on_full t V Y),
          (strptime_y_on_full t Y). reflexivity.
Qed.

(** Complete date plus time, followed by anything that is not six characters long
    (nothing, Z, a fraction with Z ...): the wall-clock time as written. *)
Lemma parse_full_other t z : valid_datetime t = true -> (1 <= dt_year t <= 9999)%Z ->
  length z <> 6%nat -> parse_w3cdtf (w3c_full t ++ z) = Ok t.
Proof.
  intros V Y L. unfold parse_w3cdtf. rewrite firstn_full, skipn_full.
  rewrite (templates_on_full t V Y).
  destruct (Nat.eqb_spec (length z) 6); [contradiction|reflexivity].
Qed.

Lemma offset_dt_spec t neg hh mm : (0 <= hh <= 99)%Z -> (0 <= mm <= 99)%Z ->
  offset_dt t (off_str neg hh mm) =
  let r := add_seconds t (- off_seconds neg hh mm) in
  if in_py_range r then Ok r else Err OverflowErr.
Proof.
  intros H M. unfold off_str, pad2, offset_dt. cbn [app].
  rewrite !digit_char_val by lia.
  destruct neg.
  - change ((c_dash =? 43)%N) with false. change ((c_dash =? 45)%N) with true.
    change ((c_colon =? 58)%N) with true. cbv beta iota zeta. cbn [orb andb]. cbv beta iota.
    match goal with |- context [add_seconds t ?x] =>
      replace x with (- off_seconds true hh mm)%Z by (unfold off_seconds; lia) end.
    reflexivity.
  - change ((c_plus =? 43)%N) with true.
    change ((c_colon =? 58)%N) with true. cbv beta iota zeta. cbn [orb andb]. cbv beta iota.
    match goal with |- context [add_seconds t ?x] =>
      replace x with (- off_seconds false hh mm)%Z by (unfold off_seconds; lia) end.
    reflexivity.
Qed.

Lemma parse_full_offset t neg hh mm : valid_datetime t = true -> (1 <= dt_year t <= 9999)%Z ->
  (0 <= hh <= 99)%Z -> (0 <= mm <= 99)%Z ->
  parse_w3cdtf (w3c_full t ++ off_str neg hh mm) =
  let r := add_seconds t (- off_seconds neg hh mm) in
  if in_py_range r then Ok r else Err OverflowErr.
Proof.
  intros V Y H M. unfold parse_w3cdtf. rewrite firstn_full, skipn_full.
  rewrite (templates_on_full t V Y).
  change (Nat.eqb (length (off_str neg hh mm)) 6) with true. cbv iota.
  apply offset_dt_spec; auto.
Qed.

Lemma parse_date y m d : valid_date (y, m, d) = true -> (1 <= y <= 9999)%Z ->
  parse_w3cdtf (w3c_date y m d) = Ok (mkDT y m d 0 0 0).
Proof.
  intros V Y. pose proof (valid_date_datetime y m d V) as Vt.
  unfold parse_w3cdtf.
  change (firstn 19 (w3c_date y m d)) with (w3c_date y m d).
  change (skipn 19 (w3c_date y m d)) with (@nil N).
  unfold templates. cbn [fold_left].
  rewrite (strptime_date y m d V Y).
  pose proof (strptime_ym_on_date (mkDT y m d 0 0 0) Vt Y) as E1.
  pose proof (strptime_y_on_date (mkDT y m d 0 0 0) Y) as E2.
  cbn [dt_year dt_month dt_day] in E1, E2. rewrite E1, E2. reflexivity.
Qed.

Lemma parse_ym y m : (1 <= m <= 12)%Z -> (1 <= y <= 9999)%Z ->
  parse_w3cdtf (w3c_ym y m) = Ok (mkDT y m 1 0 0 0).
Proof.
  intros M Y.
  assert (V : valid_date (y, m, 1%Z) = true).
  { unfold valid_date, days_in_month. pose proof (dim_pos (is_leap y) m). lia. }
  pose proof (valid_date_datetime y m 1%Z V) as Vt.
  unfold parse_w3cdtf.
  change (firstn 19 (w3c_ym y m)) with (w3c_ym y m).
  change (skipn 19 (w3c_ym y m)) with (@nil N).
  unfold templates. cbn [fold_left].
  pose proof (strptime_y_on_ym (mkDT y m 1 0 0 0) Y) as E1.
  cbn [dt_year dt_month dt_day] in E1. rewrite (strptime_ym y m M Y), E1. reflexivity.
Qed.

Lemma parse_y y : (1 <= y <= 9999)%Z -> parse_w3cdtf (pad4 y) = Ok (mkDT y 1 1 0 0 0).
Proof.
  intros Y. unfold parse_w3cdtf.
  change (firstn 19 (pad4 y)) with (pad4 y).
  change (skipn 19 (pad4 y)) with (@nil N).
  unfold templates. cbn [fold_left].
  rewrite (strptime_y y Y). reflexivity.
Qed.

(** strftime for years from 1000 is the four-digit form followed by Z. *)
Lemma strftime_full t : (1000 <= dt_year t <= 9999)%Z -> strftime t = w3c_full t ++ [c_Z].
Proof.
  intros Y. unfold strftime, w3c_full. rewrite show_year_pad4 by auto.
  rewrite <- !app_assoc. cbn [app]. reflexivity.
Qed.

Lemma parse_strftime t : valid_datetime t = true -> (1000 <= dt_year t <= 9999)%Z ->
  parse_w3cdtf (strftime t) = Ok t.
Proof.
  intros V Y. rewrite strftime_full by auto.
  apply parse_full_other; auto; [lia|discriminate].
Qed.

(** ---- the element as an association list ---- *)

Definition tag_pres (f : child -> child) : Prop := forall c, c_tag (f c) = c_tag c.

Lemma has_tag_pres f q c : tag_pres f -> has_tag q (f c) = has_tag q c.
Proof. intros T. unfold has_tag. rewrite T. reflexivity. Qed.

Lemma has_tag_new p q : has_tag q (new_child p) = prop_eqb q p.
Proof. reflexivity. Qed.

Lemma has_tag_both p q c : has_tag p c = true -> has_tag q c = true -> p = q.
Proof.
  unfold has_tag. destruct (c_tag c) as [r|n]; [|discriminate].
  intros A B. apply prop_eqb_eq in A, B. congruence.
Qed.

Lemma find_upd_other p q f st : tag_pres f -> p <> q ->
  find_child (upd p f st) q = find_child st q.
Proof.
  intros T N. unfold find_child. induction st as [|c st IH]; cbn [upd find].
  - rewrite has_tag_pres, has_tag_new by auto. rewrite prop_eqb_neq by congruence. reflexivity.
  - destruct (has_tag p c) eqn:Hp; cbn [find].
    + rewrite has_tag_pres by auto.
      destruct (has_tag q c) eqn:Hq; [exfalso; apply N; eapply has_tag_both; eauto|reflexivity].
    + rewrite IH. reflexivity.
Qed.

Definition cur_child (st : cpstate) (p : prop) : child :=
  match find_child st p with Some c => c | None => new_child p end.

Lemma find_upd_same p f st : tag_pres f ->
  find_child (upd p f st) p = Some (f (cur_child st p)).
Proof.
  intros T. unfold find_child, cur_child, find_child.
  induction st as [|c st IH]; cbn [upd find].
  - rewrite has_tag_pres, has_tag_new, prop_eqb_refl by auto. reflexivity.
  - destruct (has_tag p c) eqn:Hp; cbn [find].
    + rewrite has_tag_pres, Hp by auto. reflexivity.
    + rewrite Hp. exact IH.
Qed.

Lemma tag_pres_text s : tag_pres (set_c_text s).
Proof. intros c; reflexivity. Qed.
Lemma tag_pres_same : tag_pres same_child.
Proof. intros c; reflexivity. Qed.
Lemma tag_pres_dt s b : tag_pres (fun c => mkChild (c_tag c) s (c_xsi c || b)).
Proof. intros c; reflexivity. Qed.

(** Every setter leaves the state alone or goes through [upd] on its own tag with a
    tag-preserving modification. *)
Lemma set_prop_shape p v st :
  fst (set_prop p v st) = st \/
  exists f, tag_pres f /\ fst (set_prop p v st) = upd p f st.
Proof.
  unfold set_prop, set_text, set_datetime, set_revision.
  destruct (kind_of p) eqn:K.
  - destruct (py_str v); [|left; reflexivity].
    destruct (255 <? length a)%nat; [left; reflexivity|].
    destruct (forallb xml_ok a); right; eexists; split; [apply tag_pres_text|reflexivity|apply tag_pres_text|reflexivity].
  - destruct v; try (left; reflexivity).
    right; eexists; split; [apply tag_pres_dt|reflexivity].
  - assert (p = Revision) by (destruct p; try discriminate; reflexivity). subst p.
    destruct v; try (left; reflexivity).
    + destruct (z <? 1)%Z; [left; reflexivity|].
      destruct (py_str_int z); right; eexists; split; [apply tag_pres_text|reflexivity|apply tag_pres_same|reflexivity].
    + destruct b; [|left; reflexivity].
      right; eexists; split; [apply tag_pres_text|reflexivity].
Qed.

Lemma get_prop_find st st' q :
  find_child st' q = find_child st q -> get_prop st' q = get_prop st q.
Proof.
  intros E. unfold get_prop, get_text, get_datetime, get_revision.
  destruct (kind_of q) eqn:K; try rewrite E; try reflexivity.
  assert (q = Revision) by (destruct q; try discriminate; reflexivity). subst q.
  rewrite E. reflexivity.
Qed.

(** Frame: assigning one property (successfully or not) leaves the other 14 readings alone. *)
Lemma frame p q v st : p <> q -> get_prop (fst (set_prop p v st)) q = get_prop st q.
Proof.
  intros N. apply get_prop_find.
  destruct (set_prop_shape p v st) as [E|[f [T E]]]; rewrite E; [reflexivity|].
  apply find_upd_other; auto.
Qed.

(** ---- strings ---- *)

Lemma set_text_ok p s st : kind_of p = KText -> (length s <= 255)%nat -> forallb xml_ok s = true ->
  set_prop p (VStr s) st = (upd p (set_c_text s) st, Ok tt).
Proof.
  intros K L X. unfold set_prop. rewrite K. unfold set_text. cbn [py_str].
  destruct (Nat.ltb_spec 255 (length s)); [lia|]. rewrite X. reflexivity.
Qed.

Lemma text_roundtrip p s st : kind_of p = KText -> (length s <= 255)%nat -> forallb xml_ok s = true ->
  snd (set_prop p (VStr s) st) = Ok tt /\
  get_prop (fst (set_prop p (VStr s) st)) p = Ok (OStr s).
Proof.
  intros K L X. rewrite set_text_ok by auto. split; [reflexivity|].
  cbn [fst]. unfold get_prop. rewrite K. unfold get_text.
  rewrite find_upd_same by apply tag_pres_text. reflexivity.
Qed.

Lemma text_limit p s st : kind_of p = KText -> (255 < length s)%nat ->
  set_prop p (VStr s) st = (st, Err ValueErr).
Proof.
  intros K L. unfold set_prop. rewrite K. unfold set_text. cbn [py_str].
  destruct (Nat.ltb_spec 255 (length s)); [reflexivity|lia].
Qed.

(** ---- datetimes ---- *)

Lemma valid_pydt_parts d : valid_pydt d = true ->
  valid_datetime (p_dt d) = true /\ (1 <= dt_year (p_dt d) <= 9999)%Z.
Proof.
  unfold valid_pydt. intros H. do 3 (apply andb_true_iff in H as [H ?]).
  apply andb_true_iff in H as [H Hr].
  split; auto. apply in_py_range_iff; auto.
Qed.

Lemma get_after_set_dt p d st : kind_of p = KDate ->
  get_prop (fst (set_prop p (VDt d) st)) p =
  match parse_w3cdtf (strftime (p_dt d)) with
  | Ok t => Ok (ODt (Some t))
  | Err ValueErr => Ok (ODt None)
  | Err e => Err e
  end.
Proof.
  intros K. unfold set_prop. rewrite K. unfold set_datetime. cbn [fst].
  unfold get_prop. rewrite K. unfold get_datetime.
  rewrite find_upd_same by apply tag_pres_dt. cbn [c_text].
  destruct (parse_w3cdtf (strftime (p_dt d))) as [t|[]]; reflexivity.
Qed.

Lemma date_roundtrip p d st : kind_of p = KDate -> valid_pydt d = true ->
  (1000 <= dt_year (p_dt d))%Z ->
  snd (set_prop p (VDt d) st) = Ok tt /\
  get_prop (fst (set_prop p (VDt d) st)) p = Ok (ODt (Some (p_dt d))).
Proof.
  intros K V Y. destruct (valid_pydt_parts d V) as [Vt Yr].
  split.
  - unfold set_prop. rewrite K. reflexivity.
  - rewrite get_after_set_dt by auto. rewrite parse_strftime by (auto; lia). reflexivity.
Qed.

Lemma date_type p v st : kind_of p = KDate -> (forall d, v <> VDt d) ->
  set_prop p v st = (st, Err ValueErr).
Proof.
  intros K N. unfold set_prop. rewrite K. unfold set_datetime.
  destruct v; try reflexivity. exfalso. apply (N d). reflexivity.
Qed.

(** ---- revision ---- *)

Definition dec_len (z : Z) : N := N.of_nat (length (dec_of_N (Z.abs_N z))).

Lemma py_str_int_pos z : (1 <= z)%Z -> (dec_len z <= 4300)%N ->
  py_str_int z = Ok (dec_of_N (Z.to_N z)).
Proof.
  intros P L. unfold py_str_int, dec_len in *. unfold max_str_digits.
  destruct (N.ltb_spec 4300 (N.of_nat (length (dec_of_N (Z.abs_N z))))); [lia|].
  destruct (Z.ltb_spec z 0); [lia|]. f_equal. f_equal. lia.
Qed.

Lemma py_int_dec n : (N.of_nat (length (dec_of_N n)) <= 4300)%N ->
  py_int (dec_of_N n) = Some (Z.of_N n).
Proof.
  intros L. destruct (dec_of_N_spec n) as [A [B C]].
  rewrite py_int_digits by auto. rewrite C. reflexivity.
Qed.

Lemma revision_roundtrip z st : (1 <= z)%Z -> (dec_len z <= 4300)%N ->
  snd (set_prop Revision (VInt z) st) = Ok tt /\
  get_prop (fst (set_prop Revision (VInt z) st)) Revision = Ok (OInt z).
Proof.
  intros P L. unfold set_prop. cbn [kind_of]. unfold set_revision.
  destruct (Z.ltb_spec z 1); [lia|]. rewrite py_str_int_pos by auto.
  split; [reflexivity|]. cbn [fst]. unfold get_prop. cbn [kind_of]. unfold get_revision.
  rewrite find_upd_same by apply tag_pres_text. cbn [c_text set_c_text].
  rewrite py_int_dec.
  - destruct (Z.ltb_spec (Z.of_N (Z.to_N z)) 0); [lia|]. f_equal. f_equal. lia.
  - unfold dec_len in L. replace (Z.to_N z) with (Z.abs_N z) by lia. exact L.
Qed.

Definition rev_acceptable (v : pyv) : bool :=
  match v with
  | VInt z => (1 <=? z)%Z
  | VBool b => b
  | _ => false
  end.

Lemma revision_reject v st : rev_acceptable v = false ->
  set_prop Revision v st = (st, Err ValueErr).
Proof.
  unfold set_prop. cbn [kind_of]. unfold set_revision, rev_acceptable.
  destruct v; try reflexivity.
  - intros H. destruct (Z.ltb_spec z 1); [reflexivity|lia].
  - intros ->. reflexivity.
Qed.

Lemma revision_read st :
  get_prop st Revision =
  Ok (OInt match find_child st Revision with
           | None => 0%Z
           | Some c => match py_int (c_text c) with
                       | Some z => if (z <? 0)%Z then 0%Z else z
                       | None => 0%Z
                       end
           end).
Proof. reflexivity. Qed.

(** ---- histories ---- *)

Definition op := (prop * pyv)%type.

Definition run (ops : list op) (st : cpstate) : cpstate :=
  fold_left (fun s o => fst (set_prop (fst o) (snd o) s)) ops st.

(** Assignments the property statement says must be accepted ... *)
Definition goodb (o : op) : bool :=
  match kind_of (fst o), snd o with
  | KText, VStr s => (length s <=? 255)%nat && forallb xml_ok s
  | KDate, VDt d => valid_pydt d && (1000 <=? dt_year (p_dt d))%Z
  | KRev, VInt z => (1 <=? z)%Z && (dec_len z <=? 4300)%N
  | _, _ => false
  end.

(** ... and assignments it says must be refused. *)
Definition rejb (o : op) : bool :=
  match kind_of (fst o), snd o with
  | KText, VStr s => (255 <? length s)%nat
  | KDate, VDt _ => false
  | KDate, _ => true
  | KRev, v => negb (rev_acceptable v)
  | _, _ => false
  end.

Definition reading_of (v : pyv) : outv :=
  match v with
  | VStr s => OStr s
  | VDt d => ODt (Some (p_dt d))
  | VInt z => OInt z
  | _ => OStr []
  end.

Lemma good_set_get o st : goodb o = true ->
  snd (set_prop (fst o) (snd o) st) = Ok tt /\
  get_prop (fst (set_prop (fst o) (snd o) st)) (fst o) = Ok (reading_of (snd o)).
Proof.
  destruct o as [p v]. unfold goodb. cbn [fst snd].
  destruct (kind_of p) eqn:K; destruct v; try discriminate; intros H;
    apply andb_true_iff in H as [H1 H2]; cbn [reading_of].
  - apply text_roundtrip; auto. apply Nat.leb_le; auto.
  - apply date_roundtrip; auto. lia.
  - assert (p = Revision) by (destruct p; try discriminate; reflexivity). subst p.
    apply revision_roundtrip; lia.
Qed.

Lemma rej_unchanged o st : rejb o = true ->
  set_prop (fst o) (snd o) st = (st, Err ValueErr).
Proof.
  destruct o as [p v]. unfold rejb. cbn [fst snd].
  destruct (kind_of p) eqn:K.
  - destruct v; try discriminate. intros H. apply text_limit; auto. apply Nat.ltb_lt; auto.
  - intros H. apply date_type; auto. intros d ->. discriminate.
  - assert (p = Revision) by (destruct p; try discriminate; reflexivity). subst p.
    intros H. apply revision_reject. apply negb_true_iff; auto.
Qed.

(** The value of the last accepted assignment to [q], if any. *)
Definition last_good (ops : list op) (q : prop) : option pyv :=
  fold_left (fun acc o => if goodb o && prop_eqb (fst o) q then Some (snd o) else acc) ops None.

Lemma history ops : forall st q,
  Forall (fun o => goodb o || rejb o = true) ops ->
  get_prop (run ops st) q =
  match last_good ops q with Some v => Ok (reading_of v) | None => get_prop st q end.
Proof.
  induction ops as [|o ops IH] using rev_ind; intros st q F.
  - reflexivity.
  - apply Forall_app in F as [F1 F2]. inversion F2 as [|? ? Ho _]; subst.
    unfold run, last_good. rewrite !fold_left_app. cbn [fold_left].
    fold (run ops st). fold (last_good ops q).
    specialize (IH st q F1).
    destruct (goodb o) eqn:G.
    + cbn [andb]. destruct (prop_eqb (fst o) q) eqn:E.
      * apply prop_eqb_eq in E. subst q. apply good_set_get; auto.
      * rewrite frame; auto. intros Heq. rewrite Heq, prop_eqb_refl in E. discriminate.
    + cbn [orb andb] in *. rewrite rej_unchanged by auto. cbn [fst]. exact IH.
Qed.

(** ---- validity ---- *)

Lemma has_tag_true p c : has_tag p c = true -> c_tag c = TProp p.
Proof.
  unfold has_tag. destruct (c_tag c) as [q|n]; [|discriminate].
  intros H. apply prop_eqb_eq in H. congruence.
Qed.

Lemma count_upd p q f st : tag_pres f ->
  count_tag q (upd p f st) =
  (count_tag q st + if prop_eqb q p && Nat.eqb (count_tag p st) 0 then 1 else 0)%nat.
Proof.
  intros T. unfold count_tag. induction st as [|c st IH]; cbn [upd filter length].
  - rewrite has_tag_pres, has_tag_new by auto. cbn [Nat.eqb]. rewrite andb_true_r.
    destruct (prop_eqb q p); reflexivity.
  - destruct (has_tag p c) eqn:Hp; cbn [filter].
    + rewrite has_tag_pres by auto. cbn [length Nat.eqb]. rewrite andb_false_r. destruct (has_tag q c); cbn [length]; lia.
    + destruct (has_tag q c); cbn [length]; rewrite IH; lia.
Qed.

Lemma forallb_upd (g : child -> bool) p f st :
  forallb g st = true -> (forall c, c_tag c = TProp p -> g (f c) = true) ->
  forallb g (upd p f st) = true.
Proof.
  intros H G. induction st as [|c st IH]; cbn [upd forallb].
  - rewrite G by reflexivity. reflexivity.
  - cbn [forallb] in H. apply andb_true_iff in H as [H1 H2].
    destruct (has_tag p c) eqn:Hp; cbn [forallb].
    + rewrite G by (apply has_tag_true; auto). rewrite H2. reflexivity.
    + rewrite H1, IH by auto. reflexivity.
Qed.

Lemma valid_upd p f st : tag_pres f -> valid_cp st = true ->
  (forall c, c_tag c = TProp p -> child_ok (f c) = true) ->
  valid_cp (upd p f st) = true.
Proof.
  intros T V G. unfold valid_cp in *. apply andb_true_iff in V as [V1 V2].
  apply andb_true_iff. split; [apply forallb_upd; auto|].
  rewrite forallb_forall in *. intros q Hq. specialize (V2 q Hq).
  rewrite count_upd by auto.
  destruct (prop_eqb q p) eqn:E; cbn [andb].
  - apply prop_eqb_eq in E. subst q. destruct (count_tag p st) as [|[|n]]; cbn in *; auto; discriminate.
  - rewrite Nat.add_0_r. exact V2.
Qed.

Lemma two_digits_pad v : (0 <= v <= 99)%Z ->
  two_digits (digit_char (v / 10)) (digit_char (v mod 10)) = Some v.
Proof.
  intros H. unfold two_digits. rewrite !digit_char_is_digit by lia. cbn [andb].
  f_equal. unfold digit_char. lia.
Qed.

Lemma collapse_id c m x : xml_space c = false -> xml_space x = false ->
  collapse_ws ((c :: m) ++ [x]) = (c :: m) ++ [x].
Proof.
  intros Hc Hx. unfold collapse_ws. set (s := (c :: m) ++ [x]).
  assert (D1 : drop_while xml_space s = s) by (subst s; cbn [app]; apply drop_while_hd; auto).
  rewrite D1.
  assert (R : rev s = x :: rev (c :: m)) by (subst s; apply rev_unit).
  rewrite R. rewrite drop_while_hd by auto. rewrite <- R. apply rev_involutive.
Qed.

Lemma digit_not_xml_space v : (0 <= v <= 9)%Z -> xml_space (digit_char v) = false.
Proof. unfold xml_space, digit_char. lia. Qed.

Lemma dec_value_pad4 y : (0 <= y <= 9999)%Z -> dec_value (pad4 y) = Z.to_N y.
Proof.
  intros H. unfold dec_value, pad4, digit_char. cbn [fold_left]. lia.
Qed.

Lemma xsd_year_pad4 y rest : (1 <= y <= 9999)%Z ->
  xsd_year (pad4 y ++ c_dash :: rest) = Some (y, c_dash :: rest).
Proof.
  intros H. unfold xsd_year.
  assert (Hd : forallb is_digit (pad4 y) = true) by (apply pad4_digits; lia).
  assert (N45 : (digit_char (y / 1000) =? 45)%N = false) by (unfold digit_char; lia).
  cbv zeta.
  match goal with |- context [take_while is_digit ?b] =>
    assert (Hb : b = pad4 y ++ c_dash :: rest)
      by (unfold pad4; cbn [app]; rewrite N45; reflexivity);
    rewrite !Hb end.
  rewrite take_while_app_stop, drop_while_app_stop by (auto; reflexivity).
  change (length (pad4 y)) with 4%nat. cbn [Nat.ltb Nat.leb andb].
  rewrite dec_value_pad4 by lia.
  destruct (Z.eqb_spec (Z.of_N (Z.to_N y)) 0); [lia|]. f_equal. f_equal. lia.
Qed.

Lemma xsd_dateTime_strftime t : valid_datetime t = true -> (1000 <= dt_year t <= 9999)%Z ->
  xsd_dateTime (strftime t) = true.
Proof.
  intros V Y. pose proof (valid_dt_bounds t V) as [Bm [Bd [Bh [Bmi Bs]]]].
  rewrite strftime_full by auto. unfold xsd_dateTime.
  assert (E : w3c_full t ++ [c_Z] =
    (digit_char (dt_year t / 1000) ::
       ([digit_char (dt_year t / 100 mod 10); digit_char (dt_year t / 10 mod 10); digit_char (dt_year t mod 10)] ++
        c_dash :: pad2 (dt_month t) ++ c_dash :: pad2 (dt_day t) ++ c_T :: pad2 (dt_hour t) ++
        c_colon :: pad2 (dt_minute t) ++ c_colon :: pad2 (dt_second t))) ++ [c_Z]) by reflexivity.
  rewrite E. rewrite collapse_id by (try apply digit_not_xml_space; try reflexivity; lia).
  rewrite <- E. unfold w3c_full. rewrite <- app_assoc, <- app_comm_cons.
  rewrite xsd_year_pad4 by lia.
  unfold pad2, c_dash, c_T, c_colon. cbn [app].
  unfold xsd_month_day. rewrite !two_digits_pad by lia.
  unfold valid_datetime, date_of in V. apply andb_true_iff in V as [Vd Vt]. rewrite Vd.
  unfold xsd_time. rewrite !two_digits_pad by lia.
  cbn [andb]. 
  assert (R : ((dt_hour t <=? 23) && (dt_minute t <=? 59) && (dt_second t <=? 59))%Z = true) by lia.
  rewrite R. reflexivity.
Qed.

Lemma child_ok_text p s b : kind_of p <> KDate -> child_ok (mkChild (TProp p) s b) = true.
Proof. destruct p; cbn; try reflexivity; congruence. Qed.

Lemma child_ok_date p t b : kind_of p = KDate -> valid_datetime t = true ->
  (1000 <= dt_year t <= 9999)%Z ->
  child_ok (mkChild (TProp p) (strftime t) (b || needs_xsi p)) = true.
Proof.
  intros K V Y. pose proof (xsd_dateTime_strftime t V Y) as X.
  destruct p; try discriminate; unfold child_ok; cbn [c_tag c_text c_xsi needs_xsi].
  - rewrite orb_true_r. unfold w3cdtf_ok. rewrite X. apply orb_true_r.
  - exact X.
  - rewrite orb_true_r. unfold w3cdtf_ok. rewrite X. apply orb_true_r.
Qed.

(** Every assignment keeps a valid part valid, accepted or not, except a datetime whose
    year is below 1000. *)
Lemma valid_step p v st : valid_cp st = true ->
  (forall d, v = VDt d -> kind_of p = KDate -> valid_pydt d = true /\ (1000 <= dt_year (p_dt d))%Z) ->
  valid_cp (fst (set_prop p v st)) = true.
Proof.
  intros V G. unfold set_prop, set_text, set_datetime, set_revision.
  destruct (kind_of p) eqn:K.
  - destruct (py_str v); [|exact V]. destruct (255 <? length a)%nat; [exact V|].
    destruct (forallb xml_ok a); cbn [fst]; apply valid_upd; auto using tag_pres_text;
      intros c Hc; unfold set_c_text; rewrite Hc; apply child_ok_text; congruence.
  - destruct v; try exact V. cbn [fst]. destruct (G d eq_refl eq_refl) as [Vd Y].
    destruct (valid_pydt_parts d Vd) as [Vt Yr].
    apply valid_upd; auto using tag_pres_dt. intros c Hc. rewrite Hc.
    apply child_ok_date; auto. lia.
  - assert (p = Revision) by (destruct p; try discriminate; reflexivity). subst p.
    destruct v; try exact V.
    + destruct (z <? 1)%Z; [exact V|].
      destruct (py_str_int z); cbn [fst]; apply valid_upd; auto using tag_pres_text, tag_pres_same;
        intros c Hc; unfold set_c_text, same_child; [rewrite Hc; reflexivity|].
      unfold child_ok. rewrite Hc. reflexivity.
    + destruct b; [|exact V]. cbn [fst]. apply valid_upd; auto using tag_pres_text.
      intros c Hc. unfold set_c_text. rewrite Hc. reflexivity.
Qed.

Definition date_guard (o : op) : Prop :=
  forall d, snd o = VDt d -> kind_of (fst o) = KDate ->
            valid_pydt d = true /\ (1000 <= dt_year (p_dt d))%Z.

Lemma valid_history ops : forall st, valid_cp st = true -> Forall date_guard ops ->
  valid_cp (run ops st) = true.
Proof.
  induction ops as [|o ops IH]; intros st V F; [exact V|].
  inversion F as [|? ? Ho Fr]; subst. cbn [run fold_left]. apply IH; auto.
  apply valid_step; auto.
Qed.

(** ---- default part ---- *)

Lemma default_part_readings now : valid_pydt now = true -> (1000 <= dt_year (p_dt now))%Z ->
  forall q, get_prop (default_part now) q =
    match q with
    | Title => Ok (OStr s_default_title)
    | LastModifiedBy => Ok (OStr s_python_pptx)
    | Revision => Ok (OInt 1)
    | Modified => Ok (ODt (Some (p_dt now)))
    | Created | LastPrinted => Ok (ODt None)
    | _ => Ok (OStr [])
    end.
Proof.
  intros V Y q.
  change (default_part now) with
    (run [(Title, VStr s_default_title); (LastModifiedBy, VStr s_python_pptx);
          (Revision, VInt 1); (Modified, VDt now)] []).
  assert (G : goodb (Modified, VDt now) = true).
  { unfold goodb. cbn [fst snd kind_of]. rewrite V. lia. }
  rewrite history.
  - unfold last_good. cbn [fold_left]. rewrite G. destruct q; reflexivity.
  - repeat constructor; try reflexivity. rewrite G. reflexivity.
Qed.

Lemma default_part_valid now : valid_pydt now = true -> (1000 <= dt_year (p_dt now))%Z ->
  valid_cp (default_part now) = true.
Proof.
  intros V Y.
  change (default_part now) with
    (run [(Title, VStr s_default_title); (LastModifiedBy, VStr s_python_pptx);
          (Revision, VInt 1); (Modified, VDt now)] []).
  apply valid_history; [reflexivity|].
  apply Forall_cons; [intros d E K; discriminate|].
  apply Forall_cons; [intros d E K; discriminate|].
  apply Forall_cons; [intros d E K; discriminate|].
  apply Forall_cons; [|apply Forall_nil].
  intros d E K. cbn [snd] in E. inversion E; subst. auto.
Qed.

(** ---- reading stored text ---- *)

(** The first child carrying the tag of [p] has text [s]. *)
Definition stored (st : cpstate) (p : prop) (s : str) : Prop :=
  exists c, find_child st p = Some c /\ c_text c = s.

Lemma read_date st p s : kind_of p = KDate -> stored st p s ->
  get_prop st p =
  match parse_w3cdtf s with
  | Ok t => Ok (ODt (Some t))
  | Err ValueErr => Ok (ODt None)
  | Err e => Err e
  end.
Proof.
  intros K [c [F T]]. unfold get_prop. rewrite K. unfold get_datetime. rewrite F, T.
  destruct (parse_w3cdtf s) as [t|[]]; reflexivity.
Qed.

Lemma read_offset st p t neg hh mm :
  kind_of p = KDate -> stored st p (w3c_full t ++ off_str neg hh mm) ->
  valid_datetime t = true -> (1 <= dt_year t <= 9999)%Z -> (0 <= hh <= 99)%Z -> (0 <= mm <= 99)%Z ->
  let utc := add_seconds t (- off_seconds neg hh mm) in
  to_seconds utc = (to_seconds t - off_seconds neg hh mm)%Z /\
  valid_datetime utc = true /\
  get_prop st p = if in_py_range utc then Ok (ODt (Some utc)) else Err OverflowErr.
Proof.
  intros K S V Y H M utc. split; [|split].
  - subst utc. rewrite add_seconds_spec. lia.
  - apply add_seconds_valid.
  - rewrite (read_date st p _ K S). rewrite parse_full_offset by auto. cbv zeta.
    fold utc. destruct (in_py_range utc); reflexivity.
Qed.

Lemma read_full st p t z :
  kind_of p = KDate -> stored st p (w3c_full t ++ z) -> length z <> 6%nat ->
  valid_datetime t = true -> (1 <= dt_year t <= 9999)%Z ->
  get_prop st p = Ok (ODt (Some t)).
Proof. intros K S L V Y. rewrite (read_date st p _ K S), parse_full_other by auto. reflexivity. Qed.

Lemma read_date_only st p y m d :
  kind_of p = KDate -> stored st p (w3c_date y m d) -> valid_date (y, m, d) = true ->
  (1 <= y <= 9999)%Z -> get_prop st p = Ok (ODt (Some (mkDT y m d 0 0 0))).
Proof. intros K S V Y. rewrite (read_date st p _ K S), parse_date by auto. reflexivity. Qed.

Lemma read_year_month st p y m :
  kind_of p = KDate -> stored st p (w3c_ym y m) -> (1 <= m <= 12)%Z ->
  (1 <= y <= 9999)%Z -> get_prop st p = Ok (ODt (Some (mkDT y m 1 0 0 0))).
Proof. intros K S V Y. rewrite (read_date st p _ K S), parse_ym by auto. reflexivity. Qed.

Lemma read_year st p y :
  kind_of p = KDate -> stored st p (pad4 y) ->
  (1 <= y <= 9999)%Z -> get_prop st p = Ok (ODt (Some (mkDT y 1 1 0 0 0))).
Proof. intros K S Y. rewrite (read_date st p _ K S), parse_y by auto. reflexivity. Qed.

(** ---- package level ---- *)

Lemma core_properties_present st now : core_properties (Some st) now = (Some st, st).
Proof. reflexivity. Qed.

Lemma core_properties_absent now :
  core_properties None now = (Some (default_part now), default_part now).
Proof. reflexivity. Qed.

(** ---- witnesses against the statement ---- *)

Definition dt999 : pydt := mkPydt (mkDT 999 1 2 3 4 5) 0 None.

Lemma date_lt1000_witness :
  valid_pydt dt999 = true /\
  snd (set_prop Created (VDt dt999) []) = Ok tt /\
  get_prop (fst (set_prop Created (VDt dt999) [])) Created = Ok (ODt None) /\
  valid_cp (fst (set_prop Created (VDt dt999) [])) = false.
Proof. vm_compute. repeat split. Qed.

(** 2020-02-29T23:59:59+05:00 *)
Definition dt_aware : pydt := mkPydt (mkDT 2020 2 29 23 59 59) 0 (Some 18000%Z).

Lemma date_tzaware_witness :
  valid_pydt dt_aware = true /\
  get_prop (fst (set_prop Created (VDt dt_aware) [])) Created = Ok (ODt (Some (mkDT 2020 2 29 23 59 59))) /\
  add_seconds (p_dt dt_aware) (-18000) = mkDT 2020 2 29 18 59 59.
Proof. vm_compute. repeat split. Qed.

Lemma revision_bool_witness :
  set_prop Revision (VBool true) [] = ([mkChild (TProp Revision) s_True false], Ok tt) /\
  get_prop (fst (set_prop Revision (VBool true) [])) Revision = Ok (OInt 0).
Proof. vm_compute. split; reflexivity. Qed.

Definition t2003 : datetime := mkDT 2003 12 31 10 14 55.

(** 2003-12-31T10:14+01:00 : hours and minutes with a zone designator (a W3CDTF granularity) *)
Lemma minutes_granularity_witness :
  parse_w3cdtf (w3c_date 2003 12 31 ++ c_T :: pad2 10 ++ c_colon :: pad2 14 ++ off_str false 1 0) = Err ValueErr.
Proof. vm_compute. reflexivity. Qed.

(** 2003-12-31T10:14:55.5+01:00 : the offset is dropped *)
Lemma fraction_offset_witness :
  parse_w3cdtf (w3c_full t2003 ++ [46; 53]%N ++ off_str false 1 0) = Ok t2003 /\
  add_seconds t2003 (- off_seconds false 1 0) = mkDT 2003 12 31 9 14 55.
Proof. vm_compute. split; reflexivity. Qed.

(** 2003-12-31T10:14:55.1234Z : a fraction and Z making six characters *)
Lemma fraction_z_witness :
  parse_w3cdtf (w3c_full t2003 ++ [46; 49; 50; 51; 52; 90]%N) = Err ValueErr.
Proof. vm_compute. reflexivity. Qed.

(** 0001-01-01T00:00:00+00:01 : the UTC time is before year 1 *)
Lemma offset_overflow_witness :
  parse_w3cdtf (w3c_full (mkDT 1 1 1 0 0 0) ++ off_str false 0 1) = Err OverflowErr.
Proof. vm_compute. reflexivity. Qed.

(** Refused text (a code point lxml rejects) erases the previous value. *)
Lemma nonxml_erases_witness :
  let st := fst (set_prop Title (VStr [97]%N) []) in
  set_prop Title (VStr [65535]%N) st = ([mkChild (TProp Title) [] false], Err ValueErr).
Proof. vm_compute. reflexivity. Qed.

(** ---- statements in the form used by props/C18.v ---- *)

Lemma date_lt1000_refuted : exists d : pydt,
  valid_pydt d = true /\ (dt_year (p_dt d) < 1000)%Z /\
  snd (set_prop Created (VDt d) []) = Ok tt /\
  get_prop (fst (set_prop Created (VDt d) [])) Created = Ok (ODt None) /\
  valid_cp (fst (set_prop Created (VDt d) [])) = false.
Proof.
  exists dt999. destruct date_lt1000_witness as [A [B [C D]]].
  repeat split; auto.
Qed.

Lemma date_tzaware_refuted : exists (d : pydt) (o : Z),
  valid_pydt d = true /\ p_tz d = Some o /\ o <> 0%Z /\
  get_prop (fst (set_prop Created (VDt d) [])) Created = Ok (ODt (Some (p_dt d))) /\
  add_seconds (p_dt d) (- o) <> p_dt d.
Proof.
  exists dt_aware, 18000%Z. destruct date_tzaware_witness as [A [B C]].
  split; [exact A|]. split; [reflexivity|]. split; [discriminate|]. split; [exact B|].
  intros H. vm_compute in H. discriminate.
Qed.

Lemma granularity st p : kind_of p = KDate ->
  (forall t z, stored st p (w3c_full t ++ z) -> length z <> 6%nat ->
     valid_datetime t = true -> (1 <= dt_year t <= 9999)%Z ->
     get_prop st p = Ok (ODt (Some t))) /\
  (forall y m d, stored st p (w3c_date y m d) -> valid_date (y, m, d) = true -> (1 <= y <= 9999)%Z ->
     get_prop st p = Ok (ODt (Some (mkDT y m d 0 0 0)))) /\
  (forall y m, stored st p (w3c_ym y m) -> (1 <= m <= 12)%Z -> (1 <= y <= 9999)%Z ->
     get_prop st p = Ok (ODt (Some (mkDT y m 1 0 0 0)))) /\
  (forall y, stored st p (pad4 y) -> (1 <= y <= 9999)%Z ->
     get_prop st p = Ok (ODt (Some (mkDT y 1 1 0 0 0)))).
Proof.
  intros K. repeat split; intros.
  - eapply read_full; eauto.
  - eapply read_date_only; eauto.
  - eapply read_year_month; eauto.
  - eapply read_year; eauto.
Qed.

Lemma offset_fraction_refuted : exists (t : datetime) (frac : str),
  parse_w3cdtf (w3c_full t ++ frac ++ off_str false 1 0) = Ok t /\
  add_seconds t (- off_seconds false 1 0) <> t.
Proof.
  exists t2003, [46; 53]%N. destruct fraction_offset_witness as [A B].
  split; auto. rewrite B. discriminate.
Qed.

Lemma revision_bool_refuted :
  snd (set_prop Revision (VBool true) []) = Ok tt /\
  get_text (fst (set_prop Revision (VBool true) [])) Revision = s_True /\
  get_prop (fst (set_prop Revision (VBool true) [])) Revision = Ok (OInt 0).
Proof. destruct revision_bool_witness as [A B]. rewrite A. repeat split; auto. Qed.

Lemma default_part_spec now :
  (forall st, core_properties (Some st) now = (Some st, st)) /\
  core_properties None now = (Some (default_part now), default_part now) /\
  (valid_pydt now = true -> (1000 <= dt_year (p_dt now))%Z ->
   valid_cp (default_part now) = true /\
   forall q, get_prop (default_part now) q =
     match q with
     | Title => Ok (OStr s_default_title)
     | LastModifiedBy => Ok (OStr s_python_pptx)
     | Revision => Ok (OInt 1)
     | Modified => Ok (ODt (Some (p_dt now)))
     | Created | LastPrinted => Ok (ODt None)
     | _ => Ok (OStr [])
     end).
Proof.
  split; [reflexivity|]. split; [reflexivity|].
  intros V Y. split; [apply default_part_valid|apply default_part_readings]; auto.
Qed.

Lemma calendar_inverse :
  (forall dt, valid_date dt = true -> civil_of_ordinal (ordinal dt) = dt) /\
  (forall n, valid_date (civil_of_ordinal n) = true /\ ordinal (civil_of_ordinal n) = n).
Proof. split; [exact civil_ordinal|exact civil_of_ordinal_spec]. Qed.

Lemma add_seconds_char t k :
  to_seconds (add_seconds t k) = (to_seconds t + k)%Z /\ valid_datetime (add_seconds t k) = true /\
  (forall u, valid_datetime u = true -> to_seconds u = (to_seconds t + k)%Z -> u = add_seconds t k).
Proof.
  split; [apply add_seconds_spec|]. split; [apply add_seconds_valid|].
  intros u Vu E. apply to_seconds_inj; auto using add_seconds_valid.
  rewrite add_seconds_spec. exact E.
Qed.
