(** Runner entry point for the C20 correspondence.  The tables are the ones generated
    from /repo on this run (gen/GenC20.v); the first field is the operation name.
    Numbers travel as decimal text; lists of numbers are separated by spaces. *)
From V.lib Require Import Prelude Wire.
From V.model Require Import EnumLib.
From V.gen Require Import GenC20.

Definition op_fx  : str := [102; 120]%N.        (* fx  : from_xml E token *)
Definition op_tx  : str := [116; 120]%N.        (* tx  : to_xml E value *)
Definition op_rt  : str := [114; 116]%N.        (* rt  : to_xml then from_xml *)
Definition op_nm  : str := [110; 109]%N.        (* nm  : E[name] *)
Definition op_ms  : str := [109; 115]%N.        (* ms  : list(E) *)
Definition op_av  : str := [97; 118]%N.         (* av  : default adjustment values *)
Definition op_adj : str := [97; 100; 106]%N.    (* adj : adjustment history on a shape *)
Definition op_wr  : str := [119; 114]%N.        (* wr  : ChartXmlWriter dispatch *)

Definition c_space : N := 32%N.
Definition c_colon : N := 58%N.
Definition c_eq : N := 61%N.

Definition words (s : str) : list str := filter (fun w => negb (str_eqb w [])) (split_on c_space s).

Fixpoint parse_Zs (ws : list str) : option (list Z) :=
  match ws with
  | [] => Some []
  | w :: r => match parse_Z w, parse_Zs r with
              | Some z, Some l => Some (z :: l)
              | _, _ => None
              end
  end.

Fixpoint pair_up (l : list Z) : option (list (Z * Z)) :=
  match l with
  | [] => Some []
  | a :: b :: r => match pair_up r with Some p => Some ((a, b) :: p) | None => None end
  | _ => None
  end.

Definition show_member (m : member) : str := show_str (m_name m).
Definition show_pairs (l : list (str * Z)) : str :=
  fields (map (fun p => show_str (fst p) ++ [c_eq] ++ show_Z (snd p)) l).
Definition show_adjs (l : list adj) : str :=
  fields (map (fun a => show_str (a_name a) ++ [c_eq] ++ show_Z (a_def a) ++ [c_colon]
                        ++ show_opt show_Z (a_actual a)) l).

Definition with_enum (n : str) (f : list member -> str) : str :=
  match find_enum enums n with Some e => f (e_rows e) | None => w_badcase end.

Definition run_c20 (args : list str) : str :=
  match args with
  | [op; e] =>
      if str_eqb op op_ms then
        with_enum e (fun rows => fields (map show_member (canonical rows)))
      else if str_eqb op op_av then
        match parse_Z e with
        | Some v => show_res show_pairs (default_adjustments spec_table v)
        | None => w_badcase
        end
      else if str_eqb op op_wr then
        match parse_Z e with
        | Some v => show_res show_N (writer_dispatch chart_rows v)
        | None => w_badcase
        end
      else w_badcase
  | [op; e; x] =>
      if str_eqb op op_fx then with_enum e (fun rows => show_res show_member (from_xml rows x))
      else if str_eqb op op_nm then with_enum e (fun rows => show_res show_member (by_name rows x))
      else if str_eqb op op_tx then
        match parse_Z x with
        | Some v => with_enum e (fun rows => show_res show_str (to_xml rows v))
        | None => w_badcase
        end
      else if str_eqb op op_rt then
        match parse_Z x with
        | Some v => with_enum e (fun rows =>
            let t := to_xml rows v in
            fields [show_res show_str t; show_res show_member (bind t (from_xml rows))])
        | None => w_badcase
        end
      else if str_eqb op op_adj then
        (* e = prst token, x = idx raw idx raw ... : assignments applied in order on a
           new shape; output = guides after the history | adjustments read back *)
        match parse_Zs (words x) with
        | Some zs =>
            match pair_up zs with
            | Some ops =>
                let g := adj_run shape_rows spec_table e [] ops in
                fields [show_res show_pairs g;
                        show_res show_adjs (bind g (init_adjustments shape_rows spec_table e))]
            | None => w_badcase
            end
        | None => w_badcase
        end
      else w_badcase
  | _ => w_badcase
  end.
