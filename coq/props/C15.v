(** C15 -- stub while the correspondence is brought up. *)
From V.lib Require Import Prelude.
From V.model Require Import Image.
From V.proofs Require Import Image_proofs.

Theorem C15_stub : True.
Proof. exact stub_true. Qed.
Print Assumptions C15_stub.
