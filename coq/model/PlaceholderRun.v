(** Runner entry point for the C13 correspondence.

    [run_c13 (run :: masters :: layouts :: package :: notesmaster :: ops)]
      masters      trees separated by slash; a tree = shapes separated by semicolon
      layouts      separated by slash; each = master-index ; shape ; shape ...
      package      the presentation part as the file has it (before prs.slides renames anything),
                   four lists separated by semicolon, entries separated by a space, strings dotted
                   (code points joined by a full stop):
                     parts   kind,name        kind = layout index of a slide part, minus sign otherwise
                     rels    rId,class,target class s slide / n notes master / o other / x external;
                                              target = position in parts (minus sign when external)
                     sldIds  id,rId
                     xrefs   rId              every other r:id value in the presentation XML
      notesmaster  a tree, or a single minus sign when the deck has none
      ops          one field each:
                     R i | U i | S                         delete slide i (drop_rel + p:sldId) /
                                                           remove the p:sldId only / save and re-open
                     A l | N s | X s x y cx cy            add slide / notes slide / text box
                     P s l i                               clone placeholder i of layout l onto slide s
                     E tgt a b e ...                       edit; tgt: s a=slide b=shape, n notes,
                                                           l layout, m master, k notes master (a unused)
                       e = S attr v (attr 0..3) | C | R cp cp ... | D
    A shape is: id type idx orient sz ox oy cx cy tx cp cp ...   (minus sign = absent;
    type = minus sign with idx = x means: not a placeholder).
    Output: the state after loading and after every operation, joined with a hash sign;
    each is result @ state.

    [run_c13 (tables :: nil)] prints the uncovered types of the three literal dicts. *)
From V.lib Require Import Prelude Wire.
From V.gen Require Import GenC13.
From V.model Require Import Placeholder PlaceholderPkg.
From V.model Require Ids PkgOps.

Definition sp : str := [32%N].
Definition c_semi : N := 59%N.
Definition c_sl : N := 47%N.
Definition c_comma : N := 44%N.

Fixpoint all_some {A} (l : list (option A)) : option (list A) :=
  match l with
  | [] => Some []
  | Some a :: l' => match all_some l' with Some r => Some (a :: r) | None => None end
  | None :: _ => None
  end.

Definition is_minus (s : str) : bool := str_eqb s [c_minus].

Definition parse_optN (s : str) : option (option N) :=
  if is_minus s then Some None else option_map Some (parse_N s).

Definition parse_pair (a b : str) : option (option (Z * Z)) :=
  if is_minus a then (if is_minus b then Some None else None)
  else match parse_Z a, parse_Z b with
       | Some x, Some y => Some (Some (x, y))
       | _, _ => None
       end.

Definition parse_shape (f : str) : option shape :=
  match split_on 32%N f with
  | id :: ty :: ix :: orr :: sz :: ox :: oy :: cx :: cy :: tx :: name =>
      match parse_N id, parse_pair ox oy, parse_pair cx cy, parse_N tx, all_some (map parse_N name) with
      | Some id, Some off, Some ext, Some tx, Some name =>
          if str_eqb ix [120%N] then            (* x: not a placeholder *)
            Some (mk_shape id name None off ext (negb (N.eqb tx 0)))
          else
            match parse_optN ty, parse_optN ix, parse_optN orr, parse_optN sz with
            | Some ty, Some ix, Some orr, Some sz =>
                Some (mk_shape id name (Some (mk_ph ty ix orr sz)) off ext (negb (N.eqb tx 0)))
            | _, _, _, _ => None
            end
      | _, _, _, _, _ => None
      end
  | _ => None
  end.

Definition parse_tree (f : str) : option (list shape) :=
  match f with
  | [] => Some []
  | _ => all_some (map parse_shape (split_on c_semi f))
  end.

Definition parse_trees (f : str) : option (list (list shape)) :=
  match f with
  | [] => Some []
  | _ => all_some (map parse_tree (split_on c_sl f))
  end.

Definition parse_layout (f : str) : option layout :=
  match split_on c_semi f with
  | m :: shapes =>
      match parse_nat m, all_some (map parse_shape shapes) with
      | Some m, Some t => Some (mk_layout m t)
      | _, _ => None
      end
  | [] => None
  end.

Definition parse_layouts (f : str) : option (list layout) :=
  match f with
  | [] => Some []
  | _ => all_some (map parse_layout (split_on c_sl f))
  end.

Definition parse_nats (f : str) : option (list nat) :=
  match f with
  | [] => Some []
  | _ => all_some (map parse_nat (split_on 32%N f))
  end.

Definition parse_attr (s : str) : option attr :=
  match parse_N s with
  | Some 0%N => Some ALeft | Some 1%N => Some ATop | Some 2%N => Some AWidth | Some 3%N => Some AHeight
  | _ => None
  end.

Definition parse_edit (toks : list str) : option edit :=
  match toks with
  | [[83%N]; a; v] =>                                           (* S attr v *)
      match parse_attr a, parse_Z v with Some a, Some v => Some (ESet a v) | _, _ => None end
  | [[67%N]] => Some EClear                                     (* C *)
  | [68%N] :: [] => Some EDelete                                (* D *)
  | [82%N] :: cps => option_map ERename (all_some (map parse_N cps))   (* R cps *)
  | _ => None
  end.

Definition parse_target (k a b : str) : option target :=
  match k, parse_nat a, parse_nat b with
  | [115%N], Some a, Some b => Some (TSlide a b)
  | [110%N], Some a, Some b => Some (TNotes a b)
  | [108%N], Some a, Some b => Some (TLayout a b)
  | [109%N], Some a, Some b => Some (TMaster a b)
  | [107%N], Some _, Some b => Some (TNotesMaster b)
  | _, _, _ => None
  end.

Definition parse_op (f : str) : option op :=
  match split_on 32%N f with
  | [[65%N]; l] => option_map AddSlide (parse_nat l)            (* A l *)
  | [[78%N]; s] => option_map NotesSlide (parse_nat s)          (* N s *)
  | [[88%N]; s; x; y; cx; cy] =>                                (* X s x y cx cy *)
      match parse_nat s, parse_Z x, parse_Z y, parse_Z cx, parse_Z cy with
      | Some s, Some x, Some y, Some cx, Some cy => Some (AddTextbox s x y cx cy)
      | _, _, _, _, _ => None
      end
  | [[80%N]; s; l; i] =>                                        (* P s l i *)
      match parse_nat s, parse_nat l, parse_nat i with
      | Some s, Some l, Some i => Some (ClonePh s l i)
      | _, _, _ => None
      end
  | [69%N] :: k :: a :: b :: e =>                               (* E tgt a b edit *)
      match parse_target k a b, parse_edit e with
      | Some tg, Some e => Some (Edit tg e)
      | _, _ => None
      end
  | _ => None
  end.

(** ** printing *)
Definition show_b01 (b : bool) : str := if b then [49%N] else [48%N].
Definition show_geom (r : res (option Z)) : str := show_res (show_opt show_Z) r.

Definition show_key (s : shape) : str :=
  match s_ph s with
  | None => [c_minus]
  | Some p => join_with sp [show_N (ph_type p); show_N (ph_idx p); show_N (ph_orient p); show_N (ph_sz p)]
  end.

(** id,name,key,txbody,left,top,width,height *)
Definition show_shape (g : attr -> shape -> res (option Z)) (s : shape) : str :=
  join_with [c_comma]
    [show_N (s_id s); show_str (s_name s); show_key s; show_b01 (s_txbody s);
     show_geom (g ALeft s); show_geom (g ATop s); show_geom (g AWidth s); show_geom (g AHeight s)].

Definition show_tree (g : attr -> shape -> res (option Z)) (t : list shape) : str :=
  join_with [c_semi] (map (show_shape g) t).

Definition c_colon : N := 58%N.
Definition c_bang : N := 33%N.

(** layout : shapes : ids of slide.placeholders in iteration order : notes shapes or minus *)
Definition show_slide (c : cfg) (d : deck) (sl : slide) : str :=
  join_with [c_colon]
    [show_nat (sl_layout sl);
     show_tree (slide_geom c d sl) (sl_shapes sl);
     join_with sp (map (fun s => show_N (s_id s)) (slide_placeholders (sl_shapes sl)));
     match sl_notes sl with
     | None => [c_minus]
     | Some nt => show_tree (fun a s => Ok (notes_eff a (the_notes_master d) s)) nt
     end].

Definition show_deck (c : cfg) (d : deck) : str :=
  fields
    [join_with [c_bang] (map (show_slide c d) (d_slides d));
     join_with [c_bang] (map (fun os => show_N (fst os) ++ [c_colon] ++ show_slide c d (snd os)) (d_orphans d));
     join_with [c_bang] (map (fun L => show_tree (fun a s => layout_eff c a (nth (l_master L) (d_masters d) []) s) (l_shapes L))
                             (d_layouts d));
     join_with [c_bang] (map (show_tree (fun a s => Ok (own a s))) (d_masters d));
     match d_notes_master d with
     | None => [c_minus]
     | Some nm => show_tree (fun a s => Ok (own a s)) nm
     end].

Definition show_unit (u : unit) : str := [].
Definition c_at : N := 64%N.
Definition c_hash : N := 35%N.

(** ** the presentation part *)
Definition c_dot46 : N := 46%N.
Definition c_gt : N := 62%N.
Definition c_q : N := 63%N.

Definition parse_dotted (s : str) : option str :=
  match s with
  | [] => Some []
  | _ => all_some (map parse_N (split_on c_dot46 s))
  end.

Definition parse_list {A} (f : str -> option A) (s : str) : option (list A) :=
  match s with
  | [] => Some []
  | _ => all_some (map f (split_on 32%N s))
  end.

Definition parse_ppart (f : str) : option ppart :=
  match split_on c_comma f with
  | [k; n] =>
      match parse_dotted n with
      | Some n => if is_minus k then Some (mk_ppart n None)
                  else option_map (fun l => mk_ppart n (Some (mk_slide l [] None))) (parse_nat k)
      | None => None
      end
  | _ => None
  end.

Definition parse_rel (f : str) : option PkgOps.relr :=
  match split_on c_comma f with
  | [r; k; t] =>
      match parse_dotted r with
      | Some r =>
          let ty := if str_eqb k [115%N] then PkgOps.rt_slide
                    else if str_eqb k [110%N] then PkgOps.rt_notes_master else k in
          if str_eqb k [120%N] then Some (PkgOps.mkR r ty (PkgOps.TExt []) None)
          else option_map (fun p => PkgOps.mkR r ty (PkgOps.TInt p) None) (parse_nat t)
      | None => None
      end
  | _ => None
  end.

Definition parse_sldId (f : str) : option (Z * str) :=
  match split_on c_comma f with
  | [i; r] => match parse_Z i, parse_dotted r with Some i, Some r => Some (i, r) | _, _ => None end
  | _ => None
  end.

Definition parse_pkg (f : str) : option (list ppart * list PkgOps.relr * list (Z * str) * list str) :=
  match split_on c_semi f with
  | [a; b; c; d] =>
      match parse_list parse_ppart a, parse_list parse_rel b, parse_list parse_sldId c, parse_list parse_dotted d with
      | Some a, Some b, Some c, Some d => Some (a, b, c, d)
      | _, _, _, _ => None
      end
  | _ => None
  end.

Definition parse_pop (f : str) : option pop :=
  match split_on 32%N f with
  | [[82%N]; i] => option_map Remove (parse_nat i)              (* R i *)
  | [[85%N]; i] => option_map Unlist (parse_nat i)              (* U i *)
  | [[83%N]] => Some SaveReopen                                 (* S *)
  | _ => option_map Op (parse_op f)
  end.

(** slide parts numbered by their first occurrence among the slide relationships (dict order):
    object identity up to renaming, the same on both sides *)
Definition canon (ps : pres) : list nat := dedup_nat (PkgOps.typed_targets [PkgOps.rt_slide] (p_rels ps)).

Fixpoint index_of (p : nat) (l : list nat) : option nat :=
  match l with
  | [] => None
  | x :: l' => if Nat.eqb x p then Some O else option_map S (index_of p l')
  end.

Definition show_canon (ps : pres) (p : nat) : str :=
  match index_of p (canon ps) with Some k => show_nat k | None => [c_q] end.

Definition is_slide_rel (r : PkgOps.relr) : option nat :=
  if str_eqb (PkgOps.rr_type r) PkgOps.rt_slide
  then match PkgOps.rr_tgt r with PkgOps.TInt p => Some p | PkgOps.TExt _ => None end
  else None.

Definition show_part_slide (c : cfg) (ps : pres) (p : nat) : str :=
  match slide_of ps p with
  | Ok sl => show_slide c (p_deck ps) sl
  | Err _ => [c_q]
  end.

Definition show_entry (c : cfg) (ps : pres) (i : nat) : str :=
  match slide_at ps i with
  | Ok (_, sl) => show_slide c (p_deck ps) sl
  | Err e => [c_q] ++ show_err e
  end.

Definition show_pkg (ps : pres) : str :=
  join_with [c_semi]
    [join_with [c_comma] (map (fun e => show_Z (fst e) ++ sp ++ snd e) (p_ids ps));
     join_with [c_comma] (map (fun r => PkgOps.rr_id r ++
                                  match is_slide_rel r with Some p => [c_gt] ++ show_canon ps p | None => [] end)
                              (p_rels ps));
     join_with [c_comma] (map (name_of ps) (canon ps))].

Definition show_pres (c : cfg) (ps : pres) : str :=
  let d := p_deck ps in
  fields
    [join_with [c_bang] (map (show_entry c ps) (seq 0 (length (p_ids ps))));
     join_with [c_bang]
       (flat_map (fun r => match is_slide_rel r with
                           | Some p => if mem_str (PkgOps.rr_id r) (map snd (p_ids ps)) then []
                                       else [show_canon ps p ++ [c_colon] ++ show_part_slide c ps p]
                           | None => []
                           end) (p_rels ps));
     join_with [c_bang] (map (fun L => show_tree (fun a s => layout_eff c a (nth (l_master L) (d_masters d) []) s) (l_shapes L))
                             (d_layouts d));
     join_with [c_bang] (map (show_tree (fun a s => Ok (own a s))) (d_masters d));
     match d_notes_master d with
     | None => [c_minus]
     | Some nm => show_tree (fun a s => Ok (own a s)) nm
     end;
     show_pkg ps].

Fixpoint run_steps (c : cfg) (ps : pres) (ops : list pop) : list str :=
  match ops with
  | [] => []
  | o :: ops' =>
      let '(ps', r) := pstep c ps o in
      (show_res show_unit r ++ [c_at] ++ show_pres c ps') :: run_steps c ps' ops'
  end.

Definition op_run : str := [114; 117; 110]%N.                       (* run *)
Definition op_tables : str := [116; 97; 98; 108; 101; 115]%N.       (* tables *)

Definition show_Ns (l : list N) : str := join_with sp (map show_N l).

Definition run_c13 (args : list str) : str :=
  match args with
  | [o] =>
      if str_eqb o op_tables then
        fields [show_Ns (missing (c_base_slide gen_cfg)); show_Ns (missing (c_base_notes gen_cfg));
                show_Ns (missing (c_lmmap gen_cfg)); show_Ns (c_latent gen_cfg);
                show_Ns (c_notes_cloneable gen_cfg); show_Ns (c_txbody gen_cfg)]
      else w_badcase
  | o :: ms :: ls :: pk :: nm :: opfs =>
      if str_eqb o op_run then
        match parse_trees ms, parse_layouts ls, parse_pkg pk,
              (if is_minus nm then Some None else option_map Some (parse_tree nm)),
              all_some (map parse_pop opfs) with
        | Some ms, Some ls, Some (parts, rels, ids, xrefs), Some nm, Some ops =>
            let raw := mk_pres (mk_deck ms ls [] [] nm) parts rels ids xrefs in
            (* loading ends with the first access of prs.slides *)
            match prename raw with
            | Ok ps => join_with [c_hash] ((w_ok ++ [c_at] ++ show_pres gen_cfg ps) :: run_steps gen_cfg ps ops)
            | Err e => w_err ++ show_err e
            end
        | _, _, _, _, _ => w_badcase
        end
      else w_badcase
  | _ => w_badcase
  end.
