(** Model for property C05: caller strings spliced into XML template text.

    Mirrors  xml.sax.saxutils.escape  (three successive str.replace passes: the ampersand
    first, then the greater-than sign, then the less-than sign; the optional entities
    dictionary of python-pptx is the single pair double-quote -> the quot entity) and the
    part of an XML 1.0 parser (libxml2 as configured by pptx.oxml.parse_xml) that decides
    what ONE template slot becomes once the text is parsed (a CDATA section inside element
    content is read as the characters it holds; any other markup breaks the slot):
      - a double-quoted attribute value (production AttValue, with the attribute-value
        normalisation of section 3.3.3 and the line-end handling of section 2.11),
      - element content made of character data, references and CDATA sections (production
        content without child elements; the CDATA-end sequence is forbidden), including
        the blank-text removal heuristic of libxml2 (see lex_text).
    The lexers return the decoded value when the slot is still exactly one value, and
    Broken otherwise (parse error, or the value ended early so that the rest of the
    caller string is read as markup).

    Definitions only. *)
From V.lib Require Import Prelude.
Open Scope N_scope.

(** ---- characters ---- *)
Definition c_tab  : N := 9.
Definition c_lf   : N := 10.
Definition c_cr   : N := 13.
Definition c_sp   : N := 32.
Definition c_quot : N := 34.   (* double quote *)
Definition c_hash : N := 35.
Definition c_amp  : N := 38.
Definition c_apos : N := 39.
Definition c_semi : N := 59.
Definition c_lt   : N := 60.
Definition c_gt   : N := 62.
Definition c_rbr  : N := 93.   (* right square bracket *)
Definition c_x    : N := 120.

(** XML 1.0 production [2] Char. *)
Definition is_xml_char (c : N) : bool :=
  (c =? 9) || (c =? 10) || (c =? 13)
  || ((32 <=? c) && (c <=? 55295))
  || ((57344 <=? c) && (c <=? 65533))
  || ((65536 <=? c) && (c <=? 1114111)).

Definition xml_str (s : str) : bool := forallb is_xml_char s.

(** ---- escaping ---- *)
(** str.replace with a one-character key. *)
Fixpoint replace1 (k : N) (rep : str) (s : str) : str :=
  match s with
  | [] => []
  | c :: r => if c =? k then rep ++ replace1 k rep r else c :: replace1 k rep r
  end.

Definition e_amp  : str := [38; 97; 109; 112; 59].          (* &amp;  *)
Definition e_lt   : str := [38; 108; 116; 59].              (* &lt;   *)
Definition e_gt   : str := [38; 103; 116; 59].              (* &gt;   *)
Definition e_quot : str := [38; 113; 117; 111; 116; 59].    (* &quot; *)

(** xml.sax.saxutils.escape(data): the ampersand must be done first. *)
Definition sax_escape (s : str) : str :=
  replace1 c_lt e_lt (replace1 c_gt e_gt (replace1 c_amp e_amp s)).

(** escape(data, entities) with the one-pair dictionary python-pptx uses. *)
Definition sax_escape_q (s : str) : str := replace1 c_quot e_quot (sax_escape s).

(** escape(data, entities) where the dictionary also maps TAB, LF and CR to character
    references (what an attribute value needs to survive attribute-value normalisation).
    The replacement texts hold none of the keys, so the dictionary order is immaterial. *)
Definition e_tab : str := [38; 35; 57; 59].                 (* &#9;  *)
Definition e_lf  : str := [38; 35; 49; 48; 59].             (* &#10; *)
Definition e_cr  : str := [38; 35; 49; 51; 59].             (* &#13; *)

Definition rep_if (b : bool) (k : N) (rep : str) (s : str) : str := if b then replace1 k rep s else s.

(** escape with any sub-dictionary of quote / TAB / LF / CR *)
Definition sax_escape_g (q t l r : bool) (s : str) : str :=
  rep_if r c_cr e_cr (rep_if l c_lf e_lf (rep_if t c_tab e_tab (rep_if q c_quot e_quot (sax_escape s)))).

Definition sax_escape_qw (s : str) : str := sax_escape_g true true true true s.

(** The single-pass reading of the same functions (equality proved in Escape_proofs). *)
Definition esc_char (c : N) : str :=
  if c =? c_amp then e_amp else if c =? c_lt then e_lt else if c =? c_gt then e_gt else [c].
Definition esc_char_q (c : N) : str := if c =? c_quot then e_quot else esc_char c.
Definition esc_char_g (q t l r : bool) (c : N) : str :=
  if (c =? c_quot) && q then e_quot
  else if (c =? c_tab) && t then e_tab
  else if (c =? c_lf) && l then e_lf
  else if (c =? c_cr) && r then e_cr
  else esc_char c.

(** ---- references ---- *)
Definition hex_val (c : N) : option N :=
  if is_digit c then Some (c - 48)
  else if (97 <=? c) && (c <=? 102) then Some (c - 87)
  else if (65 <=? c) && (c <=? 70) then Some (c - 55)
  else None.

Fixpoint hex_value (s : str) (acc : N) : option N :=
  match s with
  | [] => Some acc
  | c :: r => match hex_val c with Some d => hex_value r (acc * 16 + d) | None => None end
  end.

Definition n_amp  : str := [97; 109; 112].
Definition n_lt   : str := [108; 116].
Definition n_gt   : str := [103; 116].
Definition n_quot : str := [113; 117; 111; 116].
Definition n_apos : str := [97; 112; 111; 115].

Definition char_ref (v : N) : option N := if is_xml_char v then Some v else None.

(** What stands between the ampersand and the semicolon: a predefined entity name, a
    decimal or a hexadecimal character reference to an XML character.  Anything else
    (undeclared entity, empty name, reference to a non-character) is an error. *)
Definition decode_ref (nm : str) : option N :=
  match nm with
  | [] => None
  | h :: t =>
      if h =? c_hash then
        match t with
        | [] => None
        | h2 :: t2 =>
            if h2 =? c_x then
              match t2 with
              | [] => None
              | _ => match hex_value t2 0 with Some v => char_ref v | None => None end
              end
            else if forallb is_digit t then char_ref (dec_value t) else None
        end
      else if str_eqb nm n_amp then Some c_amp
      else if str_eqb nm n_lt then Some c_lt
      else if str_eqb nm n_gt then Some c_gt
      else if str_eqb nm n_quot then Some c_quot
      else if str_eqb nm n_apos then Some c_apos
      else None
  end.

(** ---- the two slot contexts ---- *)
Inductive ctx := AttrDq | Text.

Definition ctx_eqb (a b : ctx) : bool :=
  match a, b with AttrDq, AttrDq | Text, Text => true | _, _ => false end.

(** Lexer state: in character data (with the number of right brackets just seen, capped
    at two, and whether the previous character was a carriage return), inside a
    reference (the name read so far, reversed), matching the opening of a CDATA section
    after a less-than sign (number of characters matched), or inside a CDATA section. *)
Inductive mode := MNorm (rb : nat) (cr : bool) | MRef (nm : str) | MCdOpen (k : nat) | MCd (rb : nat) (cr : bool).
Inductive lst := Run (m : mode) (acc : str) | Closed (acc : str) | Dead.

(** Attribute-value normalisation of a literal white-space character. *)
Definition attr_ws (c : N) : N := if (c =? c_tab) || (c =? c_lf) then c_sp else c.
(** What a carriage return (with an optional following line feed) becomes. *)
Definition eol (cx : ctx) : N := match cx with AttrDq => c_sp | Text => c_lf end.

(** what follows the less-than sign when a CDATA section opens: ![CDATA[ *)
Definition cdata_open : list N := [33; 91; 67; 68; 65; 84; 65; 91].

Definition bump (c : N) (rb : nat) : nat := if c =? c_rbr then Nat.min 2 (S rb) else 0%nat.

Definition step (cx : ctx) (st : lst) (c : N) : lst :=
  match st with
  | Dead => Dead
  | Closed _ => Dead                      (* text after the closing quote: markup *)
  | Run (MRef nm) acc =>
      if c =? c_semi then
        match decode_ref (rev nm) with
        | Some d => Run (MNorm 0 false) (d :: acc)
        | None => Dead
        end
      else Run (MRef (c :: nm)) acc
  | Run (MCdOpen k) acc =>
      if c =? nth k cdata_open 0 then
        (if (S k =? 8)%nat then Run (MCd 0 false) acc else Run (MCdOpen (S k)) acc)
      else Dead                           (* any other markup: element, comment, instruction *)
  | Run (MCd rb cr) acc =>
      if negb (is_xml_char c) then Dead
      else if c =? c_cr then Run (MCd 0 true) (c_lf :: acc)
      else if (c =? c_lf) && cr then Run (MCd 0 false) acc
      else if (c =? c_gt) && (2 <=? rb)%nat then Run (MNorm 0 false) (tl (tl acc))
      else Run (MCd (bump c rb) false) (c :: acc)
  | Run (MNorm rb cr) acc =>
      if negb (is_xml_char c) then Dead
      else if c =? c_amp then Run (MRef []) acc
      else if c =? c_lt then (match cx with AttrDq => Dead | Text => Run (MCdOpen 0) acc end)
      else if c =? c_cr then Run (MNorm 0 true) (eol cx :: acc)
      else if (c =? c_lf) && cr then Run (MNorm 0 false) acc
      else match cx with
           | AttrDq =>
               if c =? c_quot then Closed acc
               else Run (MNorm 0 false) (attr_ws c :: acc)
           | Text =>
               if (c =? c_gt) && (2 <=? rb)%nat then Dead
               else Run (MNorm (bump c rb) false) (c :: acc)
           end
  end.

Definition start : lst := Run (MNorm 0 false) [].

Inductive attr_result := OneValue (v : str) | BrokenAttr.
Inductive text_result := OneText (v : str) | BrokenText.

(** [lex_attr s] : [s] starts at the opening double quote; the literal must end exactly
    at the end of [s]. *)
Definition lex_attr (s : str) : attr_result :=
  match s with
  | [] => BrokenAttr
  | c :: r =>
      if c =? c_quot then
        match fold_left (step AttrDq) r start with
        | Closed acc => OneValue (rev acc)
        | _ => BrokenAttr
        end
      else BrokenAttr
  end.

(** [lex_text_conf s] : [s] is the whole content of an element, read the way XML 1.0
    prescribes (every character of the content is kept). *)
Definition lex_text_conf (s : str) : text_result :=
  match fold_left (step Text) s start with
  | Run (MNorm _ _) acc => OneText (rev acc)
  | _ => BrokenText
  end.

(** ---- blank-text removal (libxml2 with the NOBLANKS option, which pptx.oxml sets through
    remove_blank_text=True) ----
    libxml2 hands character data to the tree builder in chunks and asks, chunk by chunk,
    whether the chunk is ignorable white space (function areBlanks of parser.c).  Without a
    DTD the answer is a heuristic: a chunk is DROPPED when it is not empty, holds only
    blanks (space, TAB, LF, CR), the element has received nothing yet (no text node, no
    child) and the next raw byte is a carriage return, or a less-than sign that does not
    open the end tag.  Where the chunks end (xmlParseCharData):
      - fast path: the scan runs over ASCII 0x20..0x7F (except ampersand, less-than), TAB
        and LF; a chunk ends at a CR, an ampersand, a less-than sign or any other
        character.  At CR LF the CR is skipped and the next chunk starts at the LF, still
        in the fast path when the character after the LF is 0x20..0x7F, TAB or LF;
        otherwise (bare CR, or CR LF before another character) the slow path takes over.
      - slow path (xmlParseCharDataComplex): copies characters (line ends normalised) up
        to the next ampersand or less-than sign into a buffer that is flushed as a chunk
        whenever it holds 300 bytes, and at the end.
    A reference or a CDATA section is handed to the tree directly (never dropped), and
    the scan after it starts in the fast path again.  Once the element holds a text node
    nothing is dropped any more.
    The lexer below therefore has a PENDING phase (nothing handed over yet: the pending
    chunk is all blank) before it behaves as [step Text]. *)
Definition is_blank (c : N) : bool := (c =? c_sp) || (c =? c_tab) || (c =? c_lf) || (c =? c_cr).
Definition is_fast (c : N) : bool := ((32 <=? c) && (c <=? 127)) || (c =? c_tab) || (c =? c_lf).
(** XML_PARSER_BIG_BUFFER_SIZE *)
Definition buf_size : nat := 300.

(** Where the scan is while nothing has been handed over: in the fast path; just after a
    CR met in the fast path; just after the LF of a CR LF met in the fast path; in the slow
    path with [n] bytes in the buffer ([n] = buf_size: the buffer has just been flushed and
    the next character decides whether that chunk is dropped) and whether the previous
    character was a CR. *)
Inductive bpath := PFast | PCr | PLf | PSlow (n : nat) (cr : bool).

(** One raw character in the pending phase; [pend] is the pending chunk, line ends
    normalised, reversed.  [PStay p q]: still pending, the chunk is now [q] (a dropped chunk
    shows as a chunk that restarts).  [PKeep q]: the pending phase is over, [q] is handed
    over and the character is read by the ordinary lexer. *)
Inductive pend_res := PStay (p : bpath) (pend : str) | PKeep (pend : str).

Definition fast_next (pend : str) (c : N) : pend_res :=
  if (c =? c_sp) || (c =? c_tab) || (c =? c_lf) then PStay PFast (c :: pend)
  else if c =? c_cr then PStay PCr [c_lf]            (* chunk before a CR: dropped *)
  else if c =? c_lt then PKeep []                    (* chunk before markup: dropped *)
  else PKeep pend.

Definition slow_next (n : nat) (cr : bool) (pend : str) (c : N) : pend_res :=
  if (c =? c_lf) && cr then PStay (PSlow n false) pend
  else if (n =? buf_size)%nat then
    (if c =? c_cr then PStay (PSlow 1 true) [c_lf]   (* full buffer before a CR: dropped *)
     else if c =? c_lt then PKeep []                 (* full buffer before markup: dropped *)
     else PKeep pend)
  else if is_blank c then
    PStay (PSlow (S n) (c =? c_cr)) ((if c =? c_cr then c_lf else c) :: pend)
  else if c =? c_lt then PKeep []
  else PKeep pend.

Definition pend_next (p : bpath) (pend : str) (c : N) : pend_res :=
  match p with
  | PFast => fast_next pend c
  | PCr => if c =? c_lf then PStay PLf pend else slow_next 1 false pend c
  | PLf => if is_fast c then fast_next pend c else slow_next 1 false pend c
  | PSlow n cr => slow_next n cr pend c
  end.

Inductive tst := TPend (p : bpath) (pend : str) | TLive (st : lst).

Definition tstep (t : tst) (c : N) : tst :=
  match t with
  | TLive st => TLive (step Text st c)
  | TPend p pend =>
      match pend_next p pend c with
      | PStay p' q => TPend p' q
      | PKeep q => TLive (step Text (Run (MNorm 0 false) q) c)
      end
  end.

Definition tstart : tst := TPend PFast [].

Definition text_of (t : tst) : text_result :=
  match t with
  | TPend _ pend => OneText (rev pend)     (* before the end tag a chunk is never dropped *)
  | TLive (Run (MNorm _ _) acc) => OneText (rev acc)
  | TLive _ => BrokenText
  end.

(** [lex_text s] : [s] is the whole content of an element, read by libxml2 as pptx.oxml
    configures it. *)
Definition lex_text (s : str) : text_result := text_of (fold_left tstep s tstart).

(** ---- what the parser hands back for a value written literally ---- *)
(** Line ends (section 2.11) and, in attribute values, white space (section 3.3.3). *)
Fixpoint norm_go (cx : ctx) (after_cr : bool) (s : str) : str :=
  match s with
  | [] => []
  | c :: r =>
      if c =? c_cr then eol cx :: norm_go cx true r
      else if (c =? c_lf) && after_cr then norm_go cx false r
      else (match cx with AttrDq => attr_ws c | Text => c end) :: norm_go cx false r
  end.
Definition norm (cx : ctx) (s : str) : str := norm_go cx false s.

(** What element text written literally (raw TAB, LF, CR; plain saxutils.escape) is read
    back as: the pending phase of the lexer run over the caller string itself; from the
    first character that is kept on, the line-end handling. *)
Fixpoint bdn_go (p : bpath) (pend : str) (s : str) : str :=
  match s with
  | [] => rev pend
  | c :: r =>
      if is_blank c then
        match pend_next p pend c with
        | PStay p' q => bdn_go p' q r
        | PKeep q => rev q ++ norm_go Text false (c :: r)
        end
      else rev pend ++ norm_go Text false (c :: r)
  end.
Definition blank_drop_normalise (s : str) : str := bdn_go PFast [] s.

(** what a literally written value is read back as, per context *)
Definition read_back (cx : ctx) (s : str) : str :=
  match cx with AttrDq => norm AttrDq s | Text => blank_drop_normalise s end.

(** Strings the normalisation leaves alone. *)
Definition no_cr (s : str) : bool := forallb (fun c => negb (c =? c_cr)) s.
Definition no_ws_ctl (s : str) : bool :=
  forallb (fun c => negb ((c =? c_tab) || (c =? c_lf) || (c =? c_cr))) s.

(** ---- sinks ---- *)
(** Escaping applied to a substituted value: none; saxutils.escape with a dictionary holding
    the quote (q), TAB (t), LF (l), CR (r) entries that are set; or the value is not text. *)
Inductive esc := EscNone | EscSaxWith (q t l r : bool) | NotText.
Definition EscSax : esc := EscSaxWith false false false false.
Definition EscSaxQuot : esc := EscSaxWith true false false false.
Definition EscSaxQuotWs : esc := EscSaxWith true true true true.

Definition esc_eqb (a b : esc) : bool :=
  match a, b with
  | EscNone, EscNone | NotText, NotText => true
  | EscSaxWith q t l r, EscSaxWith q' t' l' r' => Bool.eqb q q' && Bool.eqb t t' && Bool.eqb l l' && Bool.eqb r r'
  | _, _ => false
  end.

Definition apply_esc (e : esc) (s : str) : str :=
  match e with
  | EscNone => s
  | EscSaxWith q t l r => sax_escape_g q t l r s
  | NotText => s
  end.

Inductive slot_result := Got (v : str) | Broken.

Definition slot_result_eqb (a b : slot_result) : bool :=
  match a, b with
  | Got x, Got y => str_eqb x y
  | Broken, Broken => true
  | _, _ => false
  end.

(** The template instance of one slot: the payload between the literal quotes of the
    template (attribute) or between the tags (text). *)
Definition lex_slot (cx : ctx) (payload : str) : slot_result :=
  match cx with
  | AttrDq => match lex_attr (c_quot :: payload ++ [c_quot]) with OneValue v => Got v | BrokenAttr => Broken end
  | Text => match lex_text payload with OneText v => Got v | BrokenText => Broken end
  end.

(** Values that are not caller text (integers, enumeration tokens, relationship ids,
    library-made names): no markup metacharacter (and no TAB, LF, CR: see no_ws_ctl). *)
Definition is_meta (c : N) : bool := (c =? c_amp) || (c =? c_lt) || (c =? c_gt) || (c =? c_quot).
Definition plain (s : str) : bool := forallb (fun c => negb (is_meta c)) s.

(** The decision table: the slot gives back EXACTLY the string, for every string.
    An attribute value needs the quote and the three white-space characters escaped,
    element text needs the carriage return escaped (line-end handling). *)
Definition exact_ok (cx : ctx) (q t l r : bool) : bool :=
  match cx with AttrDq => q && t && l && r | Text => r end.

Definition sink_ok (cx : ctx) (e : esc) : bool :=
  match e with
  | NotText => true
  | EscNone => false
  | EscSaxWith q t l r => exact_ok cx q t l r
  end.

(** the weaker requirement: exact for strings without TAB, LF, CR (markup safety only) *)
Definition markup_ok (cx : ctx) (e : esc) : bool :=
  match e with
  | NotText => true
  | EscNone => false
  | EscSaxWith q _ _ _ => match cx with AttrDq => q | Text => true end
  end.

(** A string on which a rejected combination goes wrong. *)
Definition witness (cx : ctx) (e : esc) : str :=
  match e with
  | EscSaxWith q t l r =>
      match cx with
      | AttrDq => if negb q then [c_quot] else if negb t then [c_tab] else if negb l then [c_lf] else [c_cr]
      | Text => [c_cr]
      end
  | _ => [c_amp]
  end.

Record sink := { sk_id : N; sk_ctx : ctx; sk_esc : esc }.

Definition sink_good (k : sink) : bool := sink_ok (sk_ctx k) (sk_esc k).
Definition sink_markup_good (k : sink) : bool := markup_ok (sk_ctx k) (sk_esc k).
Definition sink_witness (k : sink) : str := witness (sk_ctx k) (sk_esc k).
(** does the witness really break this sink (computable form of the refutation) *)
Definition sink_breaks (k : sink) : bool :=
  negb (slot_result_eqb (lex_slot (sk_ctx k) (apply_esc (sk_esc k) (sink_witness k)))
                        (Got (sink_witness k))).
Close Scope N_scope.
