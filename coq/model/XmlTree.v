(** C09 -- a concrete, generic writer and reader of XML element trees, at the level of code
    points (save / re-open of ANY part python-pptx holds as an lxml tree).

    Every getter of python-pptx is a function of the lxml element tree of a part.  A part is
    saved by  serialize_part_xml  (src/pptx/opc/serialized.py:
    etree.tostring(element, encoding=UTF-8, standalone=True)) and re-opened by
    pptx.oxml.parse_xml  (XMLParser(remove_blank_text=True, resolve_entities=False)).

    The tree.  PresentationML / DrawingML / chart / relationship / content-type parts have no
    mixed content: an element holds child elements only (XNode) or text only (XLeaf).  Names
    are qualified names as written (p:sp, a:t).  A namespace declaration (xmlns:a, xmlns) is an
    ordinary attribute standing where lxml writes it (before the other attributes of the
    element that carries it).  An element without any child node is  XNode n a []  (written as an
    empty-element tag); an element holding an EMPTY text node (what assigning the empty string to
    .text leaves) is  XLeaf n a []  (written with a start tag and an end tag).  The parser gives
    both back as  XNode n a []  (see canon).

    Writer (libxml2 xmlNodeDumpOutput without formatting): start tag = less-than, name, then per
    attribute a blank, the name, the equals sign and the double-quoted value escaped as
    xmlAttrSerializeTxtContent does (ampersand, less-than, greater-than, double quote as the
    predefined entities; TAB, LF, CR as decimal character references): sax_escape_qw of
    model/Escape.v; element text escaped as xmlEscapeContent does (ampersand, less-than,
    greater-than, CR as the reference to 13): sax_escape_g false false false true.  Characters
    outside ASCII are written as they are (UTF-8 output).  enc_doc puts the XML declaration
    with single quotes and a line feed in front.

    Reader (libxml2 as configured by pptx.oxml.parse_xml): a recursive-descent parser over the
    code points.  Start tag: a qualified name (XML 1.0 fifth edition name characters; at most
    one colon, both sides NCNames), then attributes, each after at least one blank: name, Eq
    with optional blanks, a value in double or single quotes decoded by lex_attr of
    model/Escape.v (references, attribute-value normalisation, line ends, rejection of
    non-characters and of the raw less-than sign); duplicate attribute names are refused.
    Content: character data up to the next less-than sign; before the end tag of an element
    that received no child it is the text of a leaf, decoded by lex_text of model/Escape.v
    (which contains libxml2's blank-text removal under remove_blank_text=True: a blank-only
    text of a leaf is kept); before a child element, or before the end tag of an element with
    children, it must be blank-only and is dropped (anything else is mixed content: None).
    The end tag must repeat the name.  Comments, processing instructions, CDATA sections, a
    DOCTYPE and mixed content are outside the shape: None.  Recursion is structural on a
    fuel string (the input itself is passed as fuel: one unit per nesting / sibling step).

    One behaviour of the real parser is outside what a model over code points can say and is
    kept out of the correspondence as a recorded finding of the check (signature
    reopen-blank-text-at-input-block-boundary): libxml2 2.14 reads its input in blocks of 4000
    bytes, and a blank-only leaf text of about 250 bytes or more whose end tag starts on the
    last byte of a block is dropped (the look-ahead of the blank-text heuristic does not see
    the slash).  The theorems below are about the reader as specified here.

    Definitions only; proofs are in proofs/XmlTree_proofs.v. *)
From V.lib Require Import Prelude.
From V.model Require Import Escape.
Open Scope N_scope.

Inductive xtree :=
| XNode (name : str) (attrs : list (str * str)) (kids : list xtree)
| XLeaf (name : str) (attrs : list (str * str)) (text : str).

(** ---- characters ---- *)
Definition c_eq : N := 61.
Definition c_colon : N := 58.
Definition c_qm : N := 63.      (* question mark *)

(** XML 1.0 (fifth edition) NameStartChar without the colon, and NameChar without the colon *)
Definition in_rg (lo hi c : N) : bool := (lo <=? c) && (c <=? hi).
Definition is_name_start (c : N) : bool :=
  in_rg 97 122 c || in_rg 65 90 c || (c =? 95)
  || ((192 <=? c) &&
      (in_rg 192 214 c || in_rg 216 246 c || in_rg 248 767 c || in_rg 880 893 c
       || in_rg 895 8191 c || in_rg 8204 8205 c || in_rg 8304 8591 c || in_rg 11264 12271 c
       || in_rg 12289 55295 c || in_rg 63744 64975 c || in_rg 65008 65533 c || in_rg 65536 983039 c)).
Definition is_nc_char (c : N) : bool :=
  is_name_start c || in_rg 48 57 c || (c =? 45) || (c =? 46)
  || ((183 <=? c) && ((c =? 183) || in_rg 768 879 c || in_rg 8255 8256 c)).
Definition is_name_char (c : N) : bool := is_nc_char c || (c =? c_colon).

Definition ncname (s : str) : bool :=
  match s with [] => false | c :: r => is_name_start c && forallb is_nc_char r end.

Definition not_c (k : N) (c : N) : bool := negb (c =? k).

(** a qualified name: an NCName, or two of them around one colon *)
Definition valid_qname (s : str) : bool :=
  match drop_while (not_c c_colon) s with
  | [] => ncname s
  | _ :: b => ncname (take_while (not_c c_colon) s) && ncname b
  end.

Fixpoint distinct (l : list str) : bool :=
  match l with [] => true | x :: r => negb (mem_str x r) && distinct r end.

(** ---- writer ---- *)
Definition xesc_attr (s : str) : str := sax_escape_qw s.
Definition xesc_text (s : str) : str := sax_escape_g false false false true s.

Definition enc_attr (a : str * str) : str :=
  c_sp :: fst a ++ c_eq :: c_quot :: xesc_attr (snd a) ++ [c_quot].
Definition enc_attrs (l : list (str * str)) : str := flat_map enc_attr l.

Definition end_tag (n : str) : str := c_lt :: c_slash :: n ++ [c_gt].

Fixpoint enc_tree (t : xtree) : str :=
  match t with
  | XNode n a ks =>
      match ks with
      | [] => c_lt :: n ++ enc_attrs a ++ [c_slash; c_gt]
      | _ => c_lt :: n ++ enc_attrs a ++ c_gt :: flat_map enc_tree ks ++ end_tag n
      end
  | XLeaf n a tx => c_lt :: n ++ enc_attrs a ++ c_gt :: xesc_text tx ++ end_tag n
  end.

Definition xml_decl : str := (* <?xml version='1.0' encoding='UTF-8' standalone='yes'?> LF *)
  [60; 63; 120; 109; 108; 32; 118; 101; 114; 115; 105; 111; 110; 61; 39; 49; 46; 48; 39; 32; 101; 110; 99; 111; 100; 105; 110; 103; 61; 39; 85; 84; 70; 45; 56; 39; 32; 115; 116; 97; 110; 100; 97; 108; 111; 110; 101; 61; 39; 121; 101; 115; 39; 63; 62; 10].

(** serialize_part_xml of the tree *)
Definition enc_doc (t : xtree) : str := xml_decl ++ enc_tree t.

(** ---- reader ---- *)

(** the decoded value of an attribute literal; a single-quoted literal is read as the
    double-quoted literal in which every raw double quote is written as its entity *)
Definition attr_value (q : N) (payload : str) : option str :=
  let p := if q =? c_quot then payload else replace1 c_quot e_quot payload in
  match lex_attr (c_quot :: p ++ [c_quot]) with OneValue v => Some v | BrokenAttr => None end.

(** one attribute: [s1] stands at the first character of its name.  Result: name, decoded
    value, what follows the closing quote. *)
Definition parse_attr1 (s1 : str) : option (str * str * str) :=
  let nm := take_while is_name_char s1 in
  if valid_qname nm then
    match drop_while is_blank (drop_while is_name_char s1) with
    | [] => None
    | e :: r2 =>
        if e =? c_eq then
          match drop_while is_blank r2 with
          | [] => None
          | q :: r3 =>
              if (q =? c_quot) || (q =? c_apos) then
                match drop_while (not_c q) r3 with
                | [] => None
                | _ :: r4 =>
                    match attr_value q (take_while (not_c q) r3) with
                    | Some v => Some (nm, v, r4)
                    | None => None
                    end
                end
              else None
          end
        else None
    end
  else None.

(** [s] stands right after the element name or after the closing quote of an attribute (an
    attribute must be preceded by a blank).  Result: the attributes, whether the tag is an
    empty-element tag, the rest. *)
Fixpoint parse_attrs (fuel s : str) : option (list (str * str) * bool * str) :=
  match fuel with
  | [] => None
  | _ :: f =>
  match drop_while is_blank s with
  | [] => None
  | c :: r =>
      if c =? c_gt then Some ([], false, r)
      else if c =? c_slash then
        match r with
        | d :: r' => if d =? c_gt then Some ([], true, r') else None
        | [] => None
        end
      else
        match s with
        | [] => None
        | b :: _ =>
            if is_blank b then
              match parse_attr1 (c :: r) with
              | Some (nm, v, r4) =>
                  match parse_attrs f r4 with
                  | Some (l, sc, rest) => Some ((nm, v) :: l, sc, rest)
                  | None => None
                  end
              | None => None
              end
            else None
        end
  end
  end.

(** a start tag or empty-element tag: [s] stands right after the less-than sign *)
Definition parse_head (s : str) : option (str * list (str * str) * bool * str) :=
  let nm := take_while is_name_char s in
  if valid_qname nm then
    match parse_attrs s (drop_while is_name_char s) with
    | Some (attrs, selfclose, r) =>
        if distinct (map fst attrs) then Some (nm, attrs, selfclose, r) else None
    | None => None
    end
  else None.

(** [s] stands right after the less-than sign and the slash of an end tag *)
Definition parse_end (nm s : str) : option str :=
  if str_eqb (take_while is_name_char s) nm then
    match drop_while is_blank (drop_while is_name_char s) with
    | c :: r => if c =? c_gt then Some r else None
    | [] => None
    end
  else None.

Definition all_blank (s : str) : bool := forallb is_blank s.

(** the text of a leaf: what stands between the start tag and the end tag *)
Definition leaf_of (nm : str) (attrs : list (str * str)) (raw : str) : option xtree :=
  match raw with
  | [] => Some (XNode nm attrs [])
  | _ =>
      match lex_text raw with
      | OneText [] => Some (XNode nm attrs [])
      | OneText v => Some (XLeaf nm attrs v)
      | BrokenText => None
      end
  end.

(** [parse_elem fuel s]: [s] stands right after the less-than sign of a start tag.
    [parse_kids fuel nm s]: [s] stands in the content of an element named [nm] that is known to
    hold child elements only; the result is the remaining children, up to and including the
    end tag. *)
Fixpoint parse_elem (fuel s : str) : option (xtree * str) :=
  match fuel with
  | [] => None
  | _ :: f =>
      match parse_head s with
      | None => None
      | Some (nm, attrs, selfclose, r) =>
          if selfclose then Some (XNode nm attrs [], r)
          else
            match drop_while (not_c c_lt) r with
            | [] => None
            | _ :: r2 =>
                match r2 with
                | [] => None
                | d :: r3 =>
                    if d =? c_slash then
                      match parse_end nm r3, leaf_of nm attrs (take_while (not_c c_lt) r) with
                      | Some rest, Some t => Some (t, rest)
                      | _, _ => None
                      end
                    else if all_blank (take_while (not_c c_lt) r) then
                      match parse_kids f nm r with
                      | Some (ks, rest) => Some (XNode nm attrs ks, rest)
                      | None => None
                      end
                    else None
                end
            end
      end
  end
with parse_kids (fuel nm s : str) : option (list xtree * str) :=
  match fuel with
  | [] => None
  | _ :: f =>
      if all_blank (take_while (not_c c_lt) s) then
        match drop_while (not_c c_lt) s with
        | [] => None
        | _ :: r2 =>
            match r2 with
            | [] => None
            | d :: r3 =>
                if d =? c_slash then
                  match parse_end nm r3 with Some rest => Some ([], rest) | None => None end
                else
                  match parse_elem f r2 with
                  | Some (k, r4) =>
                      match parse_kids f nm r4 with
                      | Some (ks, rest) => Some (k :: ks, rest)
                      | None => None
                      end
                  | None => None
                  end
            end
        end
      else None
  end.

(** one element and nothing after it *)
Definition dec_tree (s : str) : option xtree :=
  match s with
  | c :: r =>
      if c =? c_lt then
        match parse_elem s r with
        | Some (t, []) => Some t
        | _ => None
        end
      else None
  | [] => None
  end.

(** the XML declaration, when there is one: the less-than sign, the question mark, xml, a
    blank, then anything up to the first question mark followed by greater-than *)
Fixpoint after_pi_end (s : str) : option str :=
  match s with
  | [] => None
  | c :: r =>
      match r with
      | d :: r' => if (c =? c_qm) && (d =? c_gt) then Some r' else after_pi_end r
      | [] => None
      end
  end.

Definition decl_open : str := [60; 63; 120; 109; 108].   (* <?xml *)

Definition skip_decl (s : str) : option str :=
  if starts_with decl_open s then
    match skipn 5 s with
    | b :: r => if is_blank b then after_pi_end r else None
    | [] => None
    end
  else Some s.

(** parse_xml of a whole part: optional declaration, blanks, the root, blanks *)
Definition dec_doc (s : str) : option xtree :=
  match skip_decl s with
  | None => None
  | Some s1 =>
      match drop_while is_blank s1 with
      | c :: r =>
          if c =? c_lt then
            match parse_elem s r with
            | Some (t, rest) => if all_blank rest then Some t else None
            | None => None
            end
          else None
      | [] => None
      end
  end.

(** ---- the trees on which the codec is exact ---- *)
Definition wf_attr (a : str * str) : bool := valid_qname (fst a) && xml_str (snd a).

Fixpoint wf_tree (t : xtree) : bool :=
  match t with
  | XNode n a ks => valid_qname n && forallb wf_attr a && distinct (map fst a) && forallb wf_tree ks
  | XLeaf n a tx => valid_qname n && forallb wf_attr a && distinct (map fst a) && xml_str tx
  end.

(** what the parser makes of the two spellings of an element without content *)
Fixpoint canon (t : xtree) : xtree :=
  match t with
  | XNode n a ks => XNode n a (map canon ks)
  | XLeaf n a tx => match tx with [] => XNode n a [] | _ => t end
  end.

(** no leaf holds an empty text node (what the parser itself produces, and every tree in
    which no empty string was assigned to .text) *)
Fixpoint strict (t : xtree) : bool :=
  match t with
  | XNode _ _ ks => forallb strict ks
  | XLeaf _ _ tx => match tx with [] => false | _ => true end
  end.

(** [n] save / re-open cycles: None as soon as one re-open does not recognise the text *)
Fixpoint xreopen_cycles (n : nat) (t : xtree) : option xtree :=
  match n with
  | O => Some t
  | S n' => match dec_doc (enc_doc t) with Some t' => xreopen_cycles n' t' | None => None end
  end.
Close Scope N_scope.
