(** C11 model: lexical spaces of schema simple types (as far as the attributes that
    python-pptx touches need them), the canonical descriptor behaviours of the
    simple-type classes, and the decision [attr_ok] comparing a descriptor with the
    lexical space of the attribute's schema type.  Definitions only. *)
From V.lib Require Import Prelude PyFloat PyVal.

(** ---- lexical spaces ---- *)
Inductive lexspec :=
| LInt (lo hi : Z)                (* integer-derived type, value range after facets *)
| LEnum (toks : list str)         (* string-derived type with enumeration facets *)
| LString                         (* string-derived type without constraining facets we model *)
| LBool                           (* xsd:boolean: true false 1 0 *)
| LDouble                         (* xsd:double / xsd:float *)
| LHexBin (len : nat)             (* xsd:hexBinary with a length facet (bytes) *)
| LPercent (signed : bool)        (* pattern  -?[0-9]+(\.[0-9]+)?%  *)
| LUnivMeasure (signed : bool)    (* pattern  -?[0-9]+(\.[0-9]+)?(mm|cm|in|pt|pc|pi) *)
| LUnion (l : list lexspec)
| LUnknown.                       (* a type the translator could not express: fail-closed *)

Definition c_plus : N := 43%N.
Definition c_minus : N := 45%N.
Definition c_pct : N := 37%N.

Definition all_digits (s : str) : bool :=
  match s with [] => false | _ => forallb is_digit s end.

(** optional sign, at least one digit (the canonical lexical space of xsd:integer;
    surrounding whitespace, which the whiteSpace facet would collapse, is out of scope) *)
Definition lex_integer (s : str) : option Z :=
  match s with
  | c :: r =>
      if N.eqb c c_minus then (if all_digits r then Some (- Z.of_N (dec_value r))%Z else None)
      else if N.eqb c c_plus then (if all_digits r then Some (Z.of_N (dec_value r)) else None)
      else if all_digits s then Some (Z.of_N (dec_value s)) else None
  | [] => None
  end.

(** digits, optionally followed by a dot and digits *)
Definition lex_decimal_unsigned (s : str) : bool :=
  let ip := take_while is_digit s in
  let rest := drop_while is_digit s in
  match ip, rest with
  | [], _ => false
  | _, [] => true
  | _, c :: fr => N.eqb c c_dot && all_digits fr
  end.
Definition strip_sign (signed : bool) (s : str) : str :=
  match s with
  | c :: r => if signed && N.eqb c c_minus then r else s
  | [] => s
  end.

Definition is_hex (c : N) : bool :=
  is_digit c || ((65 <=? c) && (c <=? 70))%N || ((97 <=? c) && (c <=? 102))%N.

Definition units : list str :=
  [[109; 109]; [99; 109]; [105; 110]; [112; 116]; [112; 99]; [112; 105]]%N.   (* mm cm in pt pc pi *)

Fixpoint lex_ok (t : lexspec) (s : str) : bool :=
  match t with
  | LInt lo hi => match lex_integer s with Some z => (lo <=? z)%Z && (z <=? hi)%Z | None => false end
  | LEnum toks => mem_str s toks
  | LString => true
  | LBool => mem_str s [[116; 114; 117; 101]; [102; 97; 108; 115; 101]; [49]; [48]]%N
  | LDouble => true      (* judged by the harness through float(text); see the C11 trusted base *)
  | LHexBin len => Nat.eqb (length s) (2 * len) && forallb is_hex s
  | LPercent signed =>
      match rev (strip_sign signed s) with
      | c :: body => N.eqb c c_pct && lex_decimal_unsigned (rev body)
      | [] => false
      end
  | LUnivMeasure signed =>
      let b := strip_sign signed s in
      let n := length b in
      mem_str (skipn (n - 2) b) units && lex_decimal_unsigned (firstn (n - 2) b)
  | LUnion l => (fix any (l : list lexspec) := match l with [] => false | t :: l' => lex_ok t s || any l' end) l
  | LUnknown => false
  end.

(** ---- canonical descriptor behaviours (what a class of the given kind does) ---- *)

Definition in_range (lo hi z : Z) : bool := negb ((z <? lo)%Z || (hi <? z)%Z).

(** validate_int_in_range + str(value): bool is an Integral *)
Definition int_range_to_xml (lo hi : Z) (v : pyval) : res pyval :=
  match v with
  | PInt z => if in_range lo hi z then Ok (PStr (str_of_Z z)) else Err ValueErr
  | PBool b => if in_range lo hi (if b then 1 else 0)%Z
               then Ok (PStr (if b then s_True else s_False)) else Err ValueErr
  | _ => Err TypeErr
  end.

(** the same with a bool written as its integer value (str(int(value))) *)
Definition int_range_to_xml_b (lo hi : Z) (v : pyval) : res pyval :=
  match v with
  | PInt z => if in_range lo hi z then Ok (PStr (str_of_Z z)) else Err ValueErr
  | PBool b => if in_range lo hi (if b then 1 else 0)%Z
               then Ok (PStr (str_of_Z (if b then 1 else 0))) else Err ValueErr
  | _ => Err TypeErr
  end.

(** validate_int only *)
Definition int_any_to_xml (v : pyval) : res pyval :=
  match v with
  | PInt z => Ok (PStr (str_of_Z z))
  | PBool b => Ok (PStr (if b then s_True else s_False))
  | _ => Err TypeErr
  end.

Definition int_any_to_xml_b (v : pyval) : res pyval :=
  match v with
  | PInt z => Ok (PStr (str_of_Z z))
  | PBool b => Ok (PStr (str_of_Z (if b then 1 else 0)))
  | _ => Err TypeErr
  end.

Definition str_any_to_xml (v : pyval) : res pyval :=
  match v with PStr s => Ok (PStr s) | _ => Err TypeErr end.

Definition str_enum_to_xml (members : list str) (v : pyval) : res pyval :=
  match v with
  | PStr s => if mem_str s members then Ok (PStr s) else Err ValueErr
  | _ => Err TypeErr
  end.

(** XsdBoolean: anything == True or == False *)
Definition bool_to_xml (v : pyval) : res pyval :=
  if py_eqb v (PBool true) then Ok (PStr [49%N])
  else if py_eqb v (PBool false) then Ok (PStr [48%N]) else Err TypeErr.

(** XML-mapped enumeration: the python-side domain is the member set; what is written
    is one of the member tokens *)
Definition enum_tokens_to_xml (toks : list str) (v : pyval) : res pyval :=
  match v with
  | PStr s => if mem_str s toks then Ok (PStr s) else Err ValueErr
  | _ => Err TypeErr
  end.

(** a string of exactly n characters drawn from [allowed], written upper-cased
    (ST_HexColorRGB) *)
Definition charset_upper_to_xml (n : Z) (allowed : str) (v : pyval) : res pyval :=
  match v with
  | PStr s => if (match Z.compare (Z.of_nat (length s)) n with Eq => true | _ => false end)
              then (if forallb (fun c => memN c allowed) s then Ok (PStr (map ascii_upper s)) else Err ValueErr)
              else Err ValueErr
  | _ => Err TypeErr
  end.

Inductive desc :=
| DCharsetUpper (n : Z) (allowed : str)
| DBool
| DEnumTokens (toks : list str)
| DIntRange (lo hi : Z)
| DIntRangeB (lo hi : Z)
| DIntAny
| DIntAnyB
| DStrAny
| DStrEnum (members : list str)
| DCustom.                         (* no canonical form claimed: judged by correspondence + oracle *)

Definition desc_to_xml (d : desc) (v : pyval) : res pyval :=
  match d with
  | DCharsetUpper n allowed => charset_upper_to_xml n allowed v
  | DBool => bool_to_xml v
  | DEnumTokens toks => enum_tokens_to_xml toks v
  | DIntRange lo hi => int_range_to_xml lo hi v
  | DIntRangeB lo hi => int_range_to_xml_b lo hi v
  | DIntAny => int_any_to_xml v
  | DIntAnyB => int_any_to_xml_b v
  | DStrAny => str_any_to_xml v
  | DStrEnum ms => str_enum_to_xml ms v
  | DCustom => Err OtherErr
  end.

(** the range [lo, hi] holds neither 0 nor 1, so that no bool is accepted *)
Definition no_bool (lo hi : Z) : bool := negb (in_range lo hi 0) && negb (in_range lo hi 1).

(** Write side: everything the descriptor accepts is in the lexical space. *)
Fixpoint covers_int (t : lexspec) (lo hi : Z) : bool :=
  match t with
  | LInt slo shi => (slo <=? lo)%Z && (hi <=? shi)%Z
  | LUnion l => (fix any (l : list lexspec) := match l with [] => false | t :: l' => covers_int t lo hi || any l' end) l
  | _ => false
  end.
Fixpoint covers_str (t : lexspec) (ms : list str) : bool :=
  match t with
  | LEnum toks => forallb (fun m => mem_str m toks) ms
  | LString => true
  | LUnion l => (fix any (l : list lexspec) := match l with [] => false | t :: l' => covers_str t ms || any l' end) l
  | _ => false
  end.

Definition write_ok (d : desc) (t : lexspec) : bool :=
  match d with
  | DCharsetUpper n allowed =>
      match t with
      | LHexBin k => Z.eqb n (Z.of_nat (2 * k)) && forallb is_hex (map ascii_upper allowed)
      | _ => false
      end
  | DBool => match t with LBool => true | _ => false end
  | DEnumTokens toks => covers_str t toks
  | DIntRange lo hi => (lo <=? hi)%Z && covers_int t lo hi && no_bool lo hi
  | DIntRangeB lo hi => (lo <=? hi)%Z && covers_int t lo hi
  | DIntAny => false
  | DIntAnyB => false
  | DStrAny => match t with LString => true | _ => false end
  | DStrEnum ms => covers_str t ms
  | DCustom => false
  end.

(** ---- read side ---- *)
Inductive rdesc :=
| RInt                      (* int(text), possibly wrapped in Emu *)
| RStr                      (* the text itself *)
| RBool                     (* XsdBoolean.convert_from_xml *)
| REnumTokens (toks : list str)   (* BaseXmlEnum.from_xml: ValueError on an unregistered token *)
| RCustom.

Definition bool_from_xml (v : pyval) : res pyval :=
  match v with
  | PStr s =>
      if mem_str s [[49]; [48]; [116; 114; 117; 101]; [102; 97; 108; 115; 101]]%N
      then Ok (PBool (mem_str s [[49]; [116; 114; 117; 101]]%N)) else Err OtherErr
  | _ => Err OtherErr
  end.

Definition rdesc_from_xml (r : rdesc) (v : pyval) : res pyval :=
  match r with
  | RInt => py_int v
  | RStr => Ok v
  | RBool => bool_from_xml v
  | REnumTokens toks => enum_tokens_to_xml toks v
  | RCustom => Err OtherErr
  end.

(** every string of the lexical space can be read *)
Fixpoint read_ok (r : rdesc) (t : lexspec) : bool :=
  match r, t with
  | RInt, LInt _ _ => true
  | RStr, (LString | LEnum _ | LHexBin _ | LPercent _ | LUnivMeasure _ | LDouble | LBool | LInt _ _) => true
  | RBool, LBool => true
  | REnumTokens toks, LEnum stoks => forallb (fun x => mem_str x toks) stoks
  | _, LUnion l => (fix all (l : list lexspec) := match l with [] => true | t :: l' => read_ok r t && all l' end) l
  | _, _ => false
  end.

(** a lexical space the translator could not express completely *)
Fixpoint has_unknown (t : lexspec) : bool :=
  match t with
  | LUnknown => true
  | LUnion l => (fix any (l : list lexspec) := match l with [] => false | t :: l' => has_unknown t || any l' end) l
  | _ => false
  end.

(** One attribute declaration of a registered element class with the lexical space of
    the attribute's type in one XSD type the element's tag can have. *)
Record attr_row := { ar_id : N; ar_desc : desc; ar_rdesc : rdesc; ar_lex : lexspec;
                     ar_to_xml : pyval -> res pyval; ar_from_xml : pyval -> res pyval }.
Definition is_custom_w (d : desc) : bool := match d with DCustom => true | _ => false end.
Definition is_custom_r (r : rdesc) : bool := match r with RCustom => true | _ => false end.

(** verdicts: 0 = obligation holds, 1 = fails, 2 = not judged (custom class or a
    lexical space with an unmodelled pattern that would be needed to decide) *)
Definition w_verdict (r : attr_row) : N :=
  if is_custom_w (ar_desc r) then 2%N
  else if write_ok (ar_desc r) (ar_lex r) then 0%N
  else if has_unknown (ar_lex r) then 2%N else 1%N.
Definition r_verdict (r : attr_row) : N :=
  if is_custom_r (ar_rdesc r) then 2%N
  else if has_unknown (ar_lex r) then 2%N
  else if read_ok (ar_rdesc r) (ar_lex r) then 0%N else 1%N.

(** RT applicability (mirrors proofs/SimpleTypeLib_proofs.rt_ok; kept here for diagnostics) *)
Definition big30 : Z := 1000000000000000000000000000000%Z.
Definition rt_ok_b (r : attr_row) : bool :=
  match ar_desc r, ar_rdesc r with
  | DIntRange lo hi, RInt => (- big30 <? lo)%Z && (hi <? big30)%Z && no_bool lo hi
  | DIntRangeB lo hi, RInt => (- big30 <? lo)%Z && (hi <? big30)%Z
  | (DStrAny | DStrEnum _), RStr => true
  | DBool, RBool => true
  | DEnumTokens a, REnumTokens b => forallb (fun x => mem_str x b) a
  | _, _ => false
  end.

(** ---- xmlchemy attribute descriptors (OptionalAttribute / RequiredAttribute) ----
    state of one attribute of an element: absent or its text *)
Definition opt_attr_set (to_xml : pyval -> res pyval) (dflt v : pyval) : res (option str) :=
  if py_eqb v dflt then Ok None                 (* assigning the default removes the attribute *)
  else match to_xml v with
       | Ok (PStr s) => Ok (Some s)
       | Ok _ => Err OtherErr
       | Err e => Err e
       end.
Definition req_attr_set (to_xml : pyval -> res pyval) (v : pyval) : res (option str) :=
  match to_xml v with
  | Ok (PStr s) => Ok (Some s)
  | Ok _ => Err OtherErr
  | Err e => Err e
  end.
(** one assignment: a refused value leaves the attribute as it was *)
Definition attr_step (required : bool) (to_xml : pyval -> res pyval) (dflt : pyval)
                     (cur : option str) (v : pyval) : option str * res unit :=
  match (if required then req_attr_set to_xml v else opt_attr_set to_xml dflt v) with
  | Ok c => (c, Ok tt)
  | Err e => (cur, Err e)
  end.
Definition opt_attr_get (from_xml : pyval -> res pyval) (dflt : pyval) (cur : option str) : res pyval :=
  match cur with None => Ok dflt | Some s => from_xml (PStr s) end.
