From Coq Require Import Extraction ExtrOcamlBasic.
From V.model Require Import EscapeRun.
Extraction Language OCaml.
Cd "extract".
Extraction "c05.ml" run_c05.
Cd "..".
