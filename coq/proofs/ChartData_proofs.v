(** C07 lemmas over model/ChartData.v. *)
From V.lib Require Import Prelude Wire Calendar.
From V.model Require Import ChartData.
Local Open Scope Z_scope.

Lemma stub_true : True. Proof. exact I. Qed.
