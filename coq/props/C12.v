(** C12 -- inspecting a presentation does not change it.
    Generic theorems over XML trees, strip and accessor effects (no data) + instance over the
    accessor table regenerated from /repo on this run (gen/GenC12.v).

    Full statement: a deck saved after any traversal by read-only accessors (any order, any
    repetition, any number of intermediate saves) has the same parts as one saved straight after
    opening, with XML identical up to empty, attribute-less formatting containers; accessors
    documented as creating content are the only exceptions.
    Proved here: for every accessor whose effect is Pure or AddsEmpty of container tags, for every
    package, every realisation of the effects as xmlchemy steps and every interleaving of saves.
    The table of effects itself is a static analysis of the source (tx/tx_c12.py) whose soundness
    is observed by checks/c12.py on the implementation, not proved (the property is partial there). *)
From V.lib Require Import Prelude.
From V.model Require Import Schema Xmlchemy Access.
From V.proofs Require Import Access_proofs C12_instance.
From V.gen Require Import GenC12.

(** get_or_add of an attribute-less, child-less element of a container tag, at ANY element of ANY
    tree and whatever the successors tuple, is invisible under strip *)
Theorem C12_get_or_add_strip : forall cs x, memt x cs = true ->
  forall Sx p t, strip cs (at_path (goa_children x Sx) p t) = strip cs t.
Proof. exact get_or_add_strip. Qed.
Print Assumptions C12_get_or_add_strip.

(** the same for an empty container put at any position of any element's children *)
Theorem C12_add_anywhere_strip : forall cs x, memt x cs = true ->
  forall p i t, strip cs (at_path (insert_nth i (empty_elem x)) p t) = strip cs t.
Proof. exact add_anywhere_strip. Qed.
Print Assumptions C12_add_anywhere_strip.

(** the node-level child operations are those of model/Xmlchemy.v (C10) on the tag lists *)
Theorem C12_goa_is_xmlchemy : forall x Sx l,
  map tag_of (goa_children x Sx l) = get_or_add x Sx (map tag_of l).
Proof. exact goa_children_tags. Qed.
Print Assumptions C12_goa_is_xmlchemy.

(** any list of accessor evaluations whose effects are Pure or AddsEmpty of container tags, in any
    order and with any repetition, each realised by any steps within its effect (reads, get_or_add /
    empty additions of its tags at any place of any part, saves): the final package is strip-equal
    to the initial one part by part, has the same part names, and every intermediate save wrote a
    package strip-equal to the initial one *)
Theorem C12_traversal : forall cs (runs : list (effect * list step)) s0,
  (forall r, In r runs -> eff_ok cs (fst r) = true /\ realises (fst r) (snd r) = true) ->
  let s := run (concat (map snd runs)) s0 in
  strip_pkg cs (st_pkg s) = strip_pkg cs (st_pkg s0)
  /\ map fst (st_pkg s) = map fst (st_pkg s0)
  /\ exists new, st_saved s = st_saved s0 ++ new
       /\ Forall (fun q => strip_pkg cs q = strip_pkg cs (st_pkg s0) /\ map fst q = map fst (st_pkg s0)) new.
Proof. exact traversal_full. Qed.
Print Assumptions C12_traversal.

(** saving is a function of the state that does not change it *)
Theorem C12_save_changes_nothing : forall s, st_pkg (apply_step s Save) = st_pkg s.
Proof. exact save_changes_nothing. Qed.
Print Assumptions C12_save_changes_nothing.

Theorem C12_strip_idempotent : forall cs n, strip cs (strip cs n) = strip cs n.
Proof. exact strip_idempotent. Qed.
Print Assumptions C12_strip_idempotent.

(** strip removes exactly the subtrees in which nothing carries meaning: an element that has an
    attribute, text, a non-container tag, or such a descendant is kept (with its tag, attributes
    and text; the root always) *)
Theorem C12_strip_preserves_meaning : forall cs t a c x,
  strip cs (Elem t a c x) = Elem t a (map (strip cs) (filter (significant cs) c)) x
  /\ (forall m, In m c -> significant cs m = true -> In (strip cs m) (children_of (strip cs (Elem t a c x))))
  /\ (forall m, removable cs (strip cs m) = negb (significant cs m)).
Proof. exact strip_preserves_meaning. Qed.
Print Assumptions C12_strip_preserves_meaning.

(** an element that carries meaning never disappears: Creates is observable under strip *)
Theorem C12_creates_visible : forall cs new i t, significant cs new = true ->
  strip cs (at_path (insert_nth i new) [] t) <> strip cs t.
Proof. exact creates_visible. Qed.
Print Assumptions C12_creates_visible.

(** nothing the translator met was left unmodelled (layering of the source, container audit) *)
Theorem C12_no_unmodelled : n_unmodelled = 0.
Proof. exact no_unmodelled. Qed.
Print Assumptions C12_no_unmodelled.

(** INSTANCE: every accessor of the table regenerated from /repo is allowed: outside the read
    surface (a formatting gateway), or a documented creating accessor, or Pure / AddsEmpty of the
    audited containers -- except the recorded findings *)
Theorem C12_effects_allowed : forall a, In a effects -> memN (acc_id a) known_failing = false ->
  allowed containers a = true.
Proof. exact effects_allowed. Qed.
Print Assumptions C12_effects_allowed.

(** hence every judged accessor of the table leaves every package strip-equal, with its saves *)
Theorem C12_judged_accessor_harmless : forall a, In a effects -> memN (acc_id a) known_failing = false ->
  acc_surface a = true -> acc_documented a = false ->
  forall steps s0, realises (acc_eff a) steps = true ->
  strip_pkg containers (st_pkg (run steps s0)) = strip_pkg containers (st_pkg s0)
  /\ map fst (st_pkg (run steps s0)) = map fst (st_pkg s0).
Proof. exact judged_accessor_harmless_pkg. Qed.
Print Assumptions C12_judged_accessor_harmless.

(** recorded findings are real: each is a judged accessor predicted Creates, and an accessor that
    creates an element carrying meaning changes the document under strip *)
Theorem C12_known_failing_refuted : forall a, In a effects -> memN (acc_id a) known_failing = true ->
  allowed containers a = false /\ is_creates (acc_eff a) = true
  /\ (forall new i t, significant containers new = true ->
        realises (acc_eff a) [Put 0 [] i new] = true
        /\ strip containers (at_path (insert_nth i new) [] t) <> strip containers t).
Proof. exact known_failing_refuted. Qed.
Print Assumptions C12_known_failing_refuted.

(** non-vacuity: a paragraph with a run; get_or_add of a:pPr (container 1) is invisible, nested
    empties collapse bottom-up, an element with an attribute stays *)
Example C12_nonvacuous :
  let cs := [1; 2]%N in
  let r := Elem 5%N [] [] [104; 105]%N in
  let p := Elem 4%N [] [r] [] in
  let t := Elem 3%N [] [p] [] in
  at_path (goa_children 1%N [5%N]) [0%nat] t = Elem 3%N [] [Elem 4%N [] [empty_elem 1%N; r] []] []
  /\ strip cs (at_path (goa_children 1%N [5%N]) [0%nat] t) = t
  /\ strip cs (Elem 3%N [] [Elem 1%N [] [Elem 2%N [] [] []] []; r] []) = Elem 3%N [] [r] []
  /\ strip cs (Elem 3%N [] [Elem 1%N [(7%N, [49%N])] [] []; r] []) = Elem 3%N [] [Elem 1%N [(7%N, [49%N])] [] []; r] []
  /\ eff_ok cs (AddsEmpty [1%N]) = true /\ eff_ok cs (AddsEmpty [9%N]) = false /\ eff_ok cs (Creates 1%N) = false
  /\ realises (AddsEmpty [1%N]) [Read; GoA 0 [0%nat] 1%N [5%N]; Save; Read] = true.
Proof. vm_compute. repeat split; reflexivity. Qed.

(** non-vacuity of the traversal theorem: two evaluations and a save on a one-part package *)
Example C12_traversal_nonvacuous :
  let cs := [1; 2]%N in
  let t := Elem 3%N [] [Elem 4%N [] [Elem 5%N [] [] [104]%N] []] [] in
  let s0 := {| st_pkg := [(1%N, t)]; st_saved := [] |} in
  let runs := [(AddsEmpty [1%N], [GoA 0 [0%nat] 1%N [5%N]; Save]); (Pure, [Read]); (AddsEmpty [2%N], [AddAt 0 [0%nat; 0%nat] 0 2%N])] in
  (forall r, In r runs -> eff_ok cs (fst r) = true /\ realises (fst r) (snd r) = true)
  /\ st_pkg (run (concat (map snd runs)) s0) <> st_pkg s0
  /\ length (st_saved (run (concat (map snd runs)) s0)) = 1%nat.
Proof.
  cbv zeta. split; [|split; [vm_compute; discriminate | reflexivity]].
  intros r [<-|[<-|[<-|[]]]]; vm_compute; auto.
Qed.
