(** Diagnostics for C11, custom classes lifted to rows (proofs/C11_rows_custom.v): ids of the rows
    judged valid by a class-level range theorem (7006) and of those whose facet is narrower than
    the class's range (7007).  No obligations here. *)
From V.lib Require Import Prelude PyFloat PyVal.
From V.model Require Import SimpleTypeLib.
From V.proofs Require Import C11_rows_custom.
From V.gen Require Import GenC11.
Eval vm_compute in (7006%N :: map fst (filter (fun p => N.eqb (snd p) 0) custom_verdicts)).
Eval vm_compute in (7007%N :: map fst (filter (fun p => N.eqb (snd p) 1) custom_verdicts)).
