(** Runner of the generic XML tree codec (model/XmlTree.v) for the correspondence phase
    klass xml-codec of property C09.  Definitions only.

    Ops (first field):
      xe  tokens...   the tree in wire form -> enc_doc (written with out_str)
      xt  tokens...   the same for enc_tree (no declaration)
      xd  text        dec_doc of the text -> the tree in wire form, or None
      xw  tokens...   wf_tree of the tree
    Wire form of a tree (one field per token, pre-order):
      N name (A key value)* kid* E        an element holding elements only (or nothing)
      L name (A key value)* T text        an element holding a text node
    In the output the tokens are joined with a vertical bar, strings written with out_str. *)
From V.lib Require Import Prelude Wire.
From V.model Require Import Escape XmlTree.
Open Scope N_scope.

Definition k_N : str := [78].
Definition k_L : str := [76].
Definition k_A : str := [65].
Definition k_T : str := [84].
Definition k_E : str := [69].

Fixpoint wire_attrs (fuel : nat) (l : list str) : list (str * str) * list str :=
  match fuel with
  | O => ([], l)
  | S f =>
      match l with
      | m :: k :: v :: r =>
          if str_eqb m k_A then let '(a, r') := wire_attrs f r in ((k, v) :: a, r') else ([], l)
      | _ => ([], l)
      end
  end.

Fixpoint wire_tree (fuel : nat) (l : list str) : option (xtree * list str) :=
  match fuel with
  | O => None
  | S f =>
      match l with
      | m :: nm :: r =>
          let '(a, r1) := wire_attrs (length r) r in
          if str_eqb m k_L then
            match r1 with
            | t :: tx :: r2 => if str_eqb t k_T then Some (XLeaf nm a tx, r2) else None
            | _ => None
            end
          else if str_eqb m k_N then
            match wire_kids f r1 with
            | Some (ks, r2) => Some (XNode nm a ks, r2)
            | None => None
            end
          else None
      | _ => None
      end
  end
with wire_kids (fuel : nat) (l : list str) : option (list xtree * list str) :=
  match fuel with
  | O => None
  | S f =>
      match l with
      | m :: r =>
          if str_eqb m k_E then Some ([], r)
          else match wire_tree f l with
               | Some (k, r1) =>
                   match wire_kids f r1 with
                   | Some (ks, r2) => Some (k :: ks, r2)
                   | None => None
                   end
               | None => None
               end
      | [] => None
      end
  end.

Definition read_wire (l : list str) : option xtree :=
  match wire_tree (S (length l)) l with
  | Some (t, []) => Some t
  | _ => None
  end.

(** a string on one output line: backslash, line feed, carriage return and the vertical bar
    are written as a backslash followed by b, n, r, p *)
Definition out_char (c : N) : str :=
  if c =? 92 then [92; 98] else if c =? 10 then [92; 110] else if c =? 13 then [92; 114]
  else if c =? 124 then [92; 112] else [c].
Definition out_str (s : str) : str := flat_map out_char s.

Definition show_attrs (a : list (str * str)) : list str :=
  flat_map (fun kv => [k_A; out_str (fst kv); out_str (snd kv)]) a.

Fixpoint show_tree (t : xtree) : list str :=
  match t with
  | XNode n a ks => k_N :: out_str n :: show_attrs a ++ flat_map show_tree ks ++ [k_E]
  | XLeaf n a tx => k_L :: out_str n :: show_attrs a ++ [k_T; out_str tx]
  end.

Definition op_xe : str := [120; 101].
Definition op_xt : str := [120; 116].
Definition op_xd : str := [120; 100].
Definition op_xw : str := [120; 119].

Definition run_xmltree (args : list str) : str :=
  match args with
  | op :: rest =>
      if str_eqb op op_xe then
        match read_wire rest with Some t => out_str (enc_doc t) | None => w_badcase end
      else if str_eqb op op_xt then
        match read_wire rest with Some t => out_str (enc_tree t) | None => w_badcase end
      else if str_eqb op op_xw then
        match read_wire rest with Some t => show_bool (wf_tree t) | None => w_badcase end
      else if str_eqb op op_xd then
        match rest with
        | [s] => match dec_doc s with Some t => fields (show_tree t) | None => w_none end
        | _ => w_badcase
        end
      else w_badcase
  | [] => w_badcase
  end.
Close Scope N_scope.
