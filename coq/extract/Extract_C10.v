From Coq Require Import Extraction ExtrOcamlBasic.
From V.model Require Import XmlchemyRun.
Extraction Language OCaml.
Cd "extract".
Extraction "c10.ml" run_c10.
Cd "..".
