From V.lib Require Import Prelude.
From V.gen Require Import GenC13.
From V.model Require Import Placeholder.
From V.proofs Require Import Placeholder_proofs.

Theorem C13_no_unmodelled : n_unmodelled = 0%nat.
Proof. exact no_unmodelled. Qed.
Print Assumptions C13_no_unmodelled.
