"""Shallow translation of a small Python subset (the one simpletypes.py uses) into
monadic Gallina over coq/lib/PyVal.v.  Fail-closed: any construct outside the subset
raises Unmodelled, which the caller records in `unmodelled`.

A method is always translated for a concrete class C (so `cls.x`, `super(X, cls).x` and
`Other.x` calls resolve statically through C's MRO); the Gallina name is C__method.
"""
import ast
import inspect
import textwrap


class Unmodelled(Exception):
    pass


ERRMAP = {"TypeError": "TypeErr", "ValueError": "ValueErr", "KeyError": "KeyErr", "IndexError": "IndexErr",
          "OverflowError": "OverflowErr", "InvalidXmlError": "OtherErr", "NotImplementedError": "OtherErr"}
BINOPS = {ast.Mult: "py_mul", ast.Div: "py_truediv", ast.Mod: "py_mod", ast.Add: "py_add", ast.Sub: "py_sub",
          ast.FloorDiv: "py_floordiv"}
CMPOPS = {ast.Lt: "py_lt", ast.LtE: "py_le", ast.Gt: "py_gt", ast.GtE: "py_ge", ast.Eq: "py_eq", ast.NotEq: "py_ne",
          ast.In: "py_in", ast.NotIn: "py_not_in"}
ISINST = {"int": "C_int", "float": "C_float", "str": "C_str", "numbers.Integral": "C_Integral", "bool": "C_bool"}


def coq_str(s):
    return "[" + "; ".join(str(ord(c)) for c in s) + "]%N"


def coq_const(v):
    """Python constant -> Gallina pyval term (pure)."""
    if v is True:
        return "(PBool true)"
    if v is False:
        return "(PBool false)"
    if v is None:
        return "PNone"
    if isinstance(v, int):
        return "(PInt (%d))" % v
    if isinstance(v, float):
        if v != v:
            return "(PFloat NaN)"
        if v in (float("inf"), float("-inf")):
            return "(PFloat PInf)" if v > 0 else "(PFloat NInf)"
        n, d = v.as_integer_ratio()
        e = -(d.bit_length() - 1)
        return "(PFloat (Fin (%d) (%d)))" % (n, e)
    if isinstance(v, str):
        return "(PStr %s)" % coq_str(v)
    if isinstance(v, tuple):
        return "(PTuple [%s])" % "; ".join(coq_const(x) for x in v)
    raise Unmodelled("constant of type %s" % type(v).__name__)


class Translator:
    def __init__(self, module_globals):
        self.g = module_globals
        self.defs = []           # (name, text) in dependency order
        self.done = {}           # (cls, method) -> coq name
        self.fresh = 0

    # ------------------------------------------------------------ methods
    def resolve(self, cls, name, after=None):
        mro = list(cls.__mro__)
        if after is not None:
            mro = mro[mro.index(after) + 1:]
        for k in mro:
            if name in vars(k):
                return k
        raise Unmodelled("method %s not found for %s" % (name, cls.__name__))

    def method(self, cls, name, after=None):
        owner = self.resolve(cls, name, after)
        key = (cls, owner, name)
        if key in self.done:
            return self.done[key]
        coqname = "%s__%s" % (cls.__name__, name) if after is None and self.resolve(cls, name) is owner \
            else "%s__%s__from_%s" % (cls.__name__, name, owner.__name__)
        self.done[key] = coqname
        raw = vars(owner)[name]
        fn = raw.__func__ if isinstance(raw, (classmethod, staticmethod)) else raw.fget if isinstance(raw, property) else raw
        src = textwrap.dedent(inspect.getsource(fn))
        fdef = ast.parse(src).body[0]
        params = [a.arg for a in fdef.args.args]
        if isinstance(raw, classmethod):
            params = params[1:]
        if fdef.args.vararg or fdef.args.kwarg or fdef.args.kwonlyargs:
            raise Unmodelled("varargs in %s.%s" % (owner.__name__, name))
        ctx = {"cls": cls, "owner": owner, "vars": set(params)}
        body = self.block(fdef.body, ctx)
        args = " ".join("(v_%s : pyval)" % p for p in params)
        self.defs.append((coqname, "Definition %s %s : res pyval :=\n  %s." % (coqname, args, body)))
        return coqname

    def function(self, name):
        """A plain module-level helper function of the translated module: one Gallina definition."""
        fn = self.g[name]
        key = (None, None, name)
        if key in self.done:
            return self.done[key]
        coqname = "modfn__%s" % name
        self.done[key] = coqname
        src = textwrap.dedent(inspect.getsource(fn))
        fdef = ast.parse(src).body[0]
        if fdef.args.vararg or fdef.args.kwarg or fdef.args.kwonlyargs or fdef.args.defaults or fdef.decorator_list:
            raise Unmodelled("signature of module-level function %s" % name)
        params = [a.arg for a in fdef.args.args]
        ctx = {"cls": None, "owner": None, "vars": set(params)}
        body = self.block(fdef.body, ctx)
        args = " ".join("(v_%s : pyval)" % p for p in params)
        self.defs.append((coqname, "Definition %s %s : res pyval :=\n  %s." % (coqname, args, body)))
        return coqname

    def length_class(self):
        import pptx.util
        return pptx.util.Length

    def length_props(self):
        return {n for n, v in vars(self.length_class()).items() if isinstance(v, property)}

    # ------------------------------------------------------------ statements
    def block(self, stmts, ctx):
        if not stmts:
            return "Ok PNone"
        s, rest = stmts[0], stmts[1:]
        if isinstance(s, ast.Expr) and isinstance(s.value, ast.Constant) and isinstance(s.value.value, str):
            return self.block(rest, ctx)                       # docstring
        if isinstance(s, ast.Pass):
            return self.block(rest, ctx)
        if isinstance(s, ast.Return):
            return self.expr(s.value, ctx) if s.value is not None else "Ok PNone"
        if isinstance(s, ast.Raise):
            exc = s.exc
            name = exc.func.id if isinstance(exc, ast.Call) and isinstance(exc.func, ast.Name) else (
                exc.id if isinstance(exc, ast.Name) else None)
            if name not in ERRMAP:
                raise Unmodelled("raise of %r" % ast.unparse(exc))
            return "Err %s" % ERRMAP[name]
        if isinstance(s, ast.Expr):
            return "(_ <- %s ;;\n   %s)" % (self.expr(s.value, ctx), self.block(rest, ctx))
        if isinstance(s, ast.Assign):
            if len(s.targets) == 1 and isinstance(s.targets[0], ast.Name):
                nm = s.targets[0].id
                e = self.expr(s.value, ctx)
                ctx2 = dict(ctx, vars=ctx["vars"] | {nm})
                return "(v_%s <- %s ;;\n   %s)" % (nm, e, self.block(rest, ctx2))
            if len(s.targets) == 1 and isinstance(s.targets[0], ast.Tuple) and isinstance(s.value, ast.Tuple) \
                    and len(s.targets[0].elts) == len(s.value.elts) \
                    and all(isinstance(t, ast.Name) for t in s.targets[0].elts):
                # a, b = e1, e2  (right-hand sides evaluated first; names must not be reused inside)
                names = [t.id for t in s.targets[0].elts]
                out = self.block(rest, dict(ctx, vars=ctx["vars"] | set(names)))
                for nm, v in reversed(list(zip(names, s.value.elts))):
                    out = "(v_%s <- %s ;;\n   %s)" % (nm, self.expr(v, ctx), out)
                return out
            raise Unmodelled("assignment target " + ast.unparse(s))
        if isinstance(s, ast.AugAssign) and isinstance(s.target, ast.Name) and type(s.op) in BINOPS:
            nm = s.target.id
            rhs = self.expr(s.value, ctx)
            t = self.tmp()
            return "(%s <- %s ;; v_%s <- %s v_%s %s ;;\n   %s)" % (t, rhs, nm, BINOPS[type(s.op)], nm, t, self.block(rest, ctx))
        if isinstance(s, ast.If):
            t = self.tmp()
            return "(%s <- %s ;;\n   if %s then %s\n   else %s)" % (
                t, self.test(s.test, ctx), t, self.block(list(s.body) + rest, ctx), self.block(list(s.orelse) + rest, ctx))
        if isinstance(s, ast.Try):
            return self.try_(s, rest, ctx)
        raise Unmodelled("statement " + type(s).__name__)

    def try_(self, s, rest, ctx):
        if s.finalbody or s.orelse or len(s.handlers) != 1:
            raise Unmodelled("try shape")
        h = s.handlers[0]
        hname = h.type.id if isinstance(h.type, ast.Name) else None
        if hname == "NameError":
            # python-2 relic: the body names a global that does not exist, so evaluating it raises
            # NameError at once and the handler runs
            names = {n.id for n in ast.walk(ast.Module(body=s.body, type_ignores=[])) if isinstance(n, ast.Name)}
            import builtins
            undefined = [n for n in names if n not in ctx["vars"] and n not in self.g and not hasattr(builtins, n)]
            if not undefined:
                raise Unmodelled("try/except NameError whose body can run")
            return self.block(list(h.body) + rest, ctx)
        if hname in ERRMAP and len(s.body) == 1 and isinstance(s.body[0], ast.Expr):
            t = self.tmp()
            return ("(match %s with\n   | Ok _ => %s\n   | Err %s => if pyerr_eqb %s %s then %s else Err %s\n   end)" % (
                self.expr(s.body[0].value, ctx), self.block(rest, ctx), t, t, ERRMAP[hname],
                self.block(list(h.body) + rest, ctx), t))
        if hname in ERRMAP and len(s.body) == 1 and isinstance(s.body[0], ast.Assign) \
                and len(s.body[0].targets) == 1 and isinstance(s.body[0].targets[0], ast.Name):
            # try: x = e  except E: handler   (x is bound only on the Ok path; a handler that falls
            # through would read an unbound name, so the handler must end in raise)
            if not (h.body and isinstance(h.body[-1], ast.Raise)):
                raise Unmodelled("try shape: handler of an assignment body does not raise")
            nm = s.body[0].targets[0].id
            t = self.tmp()
            return ("(match %s with\n   | Ok v_%s => %s\n   | Err %s => if pyerr_eqb %s %s then %s else Err %s\n   end)" % (
                self.expr(s.body[0].value, ctx), nm, self.block(rest, dict(ctx, vars=ctx["vars"] | {nm})),
                t, t, ERRMAP[hname], self.block(list(h.body), ctx), t))
        raise Unmodelled("try shape")

    # ------------------------------------------------------------ expressions
    def tmp(self):
        self.fresh += 1
        return "t%d" % self.fresh

    def const_of(self, e, ctx):
        """Compile-time constant value of an expression, or raise KeyError."""
        if isinstance(e, ast.Constant):
            return e.value
        if isinstance(e, ast.UnaryOp) and isinstance(e.op, ast.USub):
            return -self.const_of(e.operand, ctx)
        if isinstance(e, ast.Tuple):
            return tuple(self.const_of(x, ctx) for x in e.elts)
        if isinstance(e, ast.Name) and e.id not in ctx["vars"] and e.id in self.g:
            # a module-level constant (bound once at import; classes, functions and modules are not constants)
            v = self.g[e.id]
            if isinstance(v, (int, float, str)) or (isinstance(v, tuple) and all(isinstance(x, (int, float, str)) for x in v)):
                return v
        if isinstance(e, ast.Attribute) and isinstance(e.value, ast.Name):
            base = e.value.id
            obj = ctx["cls"] if base == "cls" or (base == "self" and "self" in ctx["vars"]) else self.g.get(base)
            if obj is not None and inspect.isclass(obj) and hasattr(obj, e.attr):
                v = getattr(obj, e.attr)
                if isinstance(v, (int, float, str, tuple)) and not callable(v):
                    return v
        raise KeyError

    def pure(self, e, ctx):
        """Gallina pyval term for an effect-free expression, else None."""
        try:
            return coq_const(self.const_of(e, ctx))
        except KeyError:
            pass
        if isinstance(e, ast.Name) and e.id in ctx["vars"]:
            return "v_" + e.id
        return None

    def atom(self, e, ctx):
        """(prefix bindings, pyval term)"""
        p = self.pure(e, ctx)
        if p is not None:
            return "", p
        t = self.tmp()
        return "%s <- %s ;; " % (t, self.expr(e, ctx)), t

    def expr(self, e, ctx):
        """Gallina term of type res pyval."""
        p = self.pure(e, ctx)
        if p is not None:
            return "Ok %s" % p
        if isinstance(e, ast.BinOp) and type(e.op) in BINOPS:
            b1, a1 = self.atom(e.left, ctx)
            b2, a2 = self.atom(e.right, ctx)
            return "(%s%s%s %s %s)" % (b1, b2, BINOPS[type(e.op)], a1, a2)
        if isinstance(e, ast.UnaryOp) and isinstance(e.op, ast.USub):
            b1, a1 = self.atom(e.operand, ctx)
            return "(%spy_neg %s)" % (b1, a1)
        if isinstance(e, (ast.Compare, ast.BoolOp)) or (isinstance(e, ast.UnaryOp) and isinstance(e.op, ast.Not)):
            return "(of_bool %s)" % self.test(e, ctx)
        if isinstance(e, ast.Tuple):
            binds, terms = "", []
            for x in e.elts:
                b, a = self.atom(x, ctx)
                binds += b
                terms.append(a)
            return "(%sOk (PTuple [%s]))" % (binds, "; ".join(terms))
        if isinstance(e, ast.Subscript):
            return self.subscript(e, ctx)
        if isinstance(e, ast.Attribute) and e.attr in self.length_props():
            # a unit property of pptx.util.Length (value.centipoints, self.pt, ...): its body is translated from util.py
            b1, a1 = self.atom(e.value, ctx)
            return "(%s%s %s)" % (b1, self.method(self.length_class(), e.attr), a1)
        if isinstance(e, ast.Call):
            return self.call(e, ctx)
        raise Unmodelled("expression " + ast.unparse(e))

    def test(self, e, ctx):
        """Gallina term of type res bool (truth value of e, with short-circuit)."""
        if isinstance(e, ast.BoolOp):
            terms = [self.test(v, ctx) for v in e.values]
            out = terms[-1]
            for t in reversed(terms[:-1]):
                b = self.tmp()
                if isinstance(e.op, ast.Or):
                    out = "(%s <- %s ;; if %s then Ok true else %s)" % (b, t, b, out)
                else:
                    out = "(%s <- %s ;; if %s then %s else Ok false)" % (b, t, b, out)
            return out
        if isinstance(e, ast.UnaryOp) and isinstance(e.op, ast.Not):
            b = self.tmp()
            return "(%s <- %s ;; Ok (negb %s))" % (b, self.test(e.operand, ctx), b)
        if isinstance(e, ast.Compare) and len(e.ops) > 1:
            # a chained comparison  a < b <= c  is  (a < b) and (b <= c)  with b evaluated once: only for operands that
            # are effect-free (constants and local names), where evaluating twice cannot be observed
            operands = [e.left] + list(e.comparators)
            if any(self.pure(x, ctx) is None for x in operands) or any(type(o) not in CMPOPS for o in e.ops):
                raise Unmodelled("comparison " + ast.unparse(e))
            parts = [ast.Compare(left=operands[i], ops=[e.ops[i]], comparators=[operands[i + 1]]) for i in range(len(e.ops))]
            return self.test(ast.BoolOp(op=ast.And(), values=parts), ctx)
        if isinstance(e, ast.Compare):
            if len(e.ops) != 1 or type(e.ops[0]) not in CMPOPS:
                raise Unmodelled("comparison " + ast.unparse(e))
            b1, a1 = self.atom(e.left, ctx)
            b2, a2 = self.atom(e.comparators[0], ctx)
            return "(%s%s%s %s %s)" % (b1, b2, CMPOPS[type(e.ops[0])], a1, a2)
        return "(as_bool %s)" % self.expr(e, ctx)

    def subscript(self, e, ctx):
        sl = e.slice
        if isinstance(e.value, ast.Dict):
            items = []
            for k, v in zip(e.value.keys, e.value.values):
                pk, pv = self.pure(k, ctx), self.pure(v, ctx)
                if pk is None or pv is None:
                    raise Unmodelled("dict literal with computed entries")
                items.append("(%s, %s)" % (pk, pv))
            b, a = self.atom(sl, ctx)
            return "(%spy_dict_get [%s] %s)" % (b, "; ".join(items), a)
        if isinstance(sl, ast.Slice) and sl.step is None:
            b, a = self.atom(e.value, ctx)

            def k(x):
                return self.const_of(x, ctx)
            if sl.lower is None and sl.upper is not None and k(sl.upper) < 0:
                return "(%spy_slice_to_neg %s %d)" % (b, a, -k(sl.upper))
            if sl.upper is None and sl.lower is not None and k(sl.lower) < 0:
                return "(%spy_slice_from_neg %s %d)" % (b, a, -k(sl.lower))
            if sl.upper is None and sl.lower is not None and k(sl.lower) >= 0:
                return "(%spy_slice_from %s %d)" % (b, a, k(sl.lower))
        raise Unmodelled("subscript " + ast.unparse(e))

    def call(self, e, ctx):
        if e.keywords:
            raise Unmodelled("keyword arguments in " + ast.unparse(e))
        f = e.func
        # all(c in "<constant>" for c in <str expr>)
        if isinstance(f, ast.Name) and f.id == "all" and len(e.args) == 1 and isinstance(e.args[0], ast.GeneratorExp):
            g = e.args[0]
            if len(g.generators) == 1 and not g.generators[0].ifs and isinstance(g.generators[0].target, ast.Name) \
                    and isinstance(g.elt, ast.Compare) and len(g.elt.ops) == 1 and isinstance(g.elt.ops[0], ast.In) \
                    and isinstance(g.elt.left, ast.Name) and g.elt.left.id == g.generators[0].target.id:
                try:
                    allowed = self.const_of(g.elt.comparators[0], ctx)
                except KeyError:
                    allowed = None
                if isinstance(allowed, str):
                    b0, a0 = self.atom(g.generators[0].iter, ctx)
                    return "(%spy_all_chars_in %s %s)" % (b0, a0, coq_str(allowed))
            raise Unmodelled("all(...) shape " + ast.unparse(e))
        if isinstance(f, ast.Name) and f.id == "isinstance" and len(e.args) == 2:
            b0, a0 = self.atom(e.args[0], ctx)
            cl = e.args[1]
            names = [ast.unparse(x) for x in (cl.elts if isinstance(cl, ast.Tuple) else [cl])]
            if not all(x in ISINST for x in names):
                raise Unmodelled("isinstance against " + ast.unparse(cl))
            return "(%sOk (PBool (py_isinstance %s [%s])))" % (b0, a0, "; ".join(ISINST[x] for x in names))
        binds, args = "", []
        for a in e.args:
            b, t = self.atom(a, ctx)
            binds += b
            args.append(t)
        if isinstance(f, ast.Name):
            n = f.id
            simple = {"float": "py_float", "str": "py_str", "round": "py_round", "len": "py_len", "Emu": "py_Emu",
                      "Centipoints": "py_Centipoints"}
            if n == "int" and len(args) == 1:
                return "(%spy_int %s)" % (binds, args[0])
            if n == "int" and len(args) == 2 and self.const_of(e.args[1], ctx) == 16:
                return "(%spy_int16 %s)" % (binds, args[0])
            if n in simple and len(args) == 1:
                return "(%s%s %s)" % (binds, simple[n], args[0])
            fn = self.g.get(n)
            if n not in ctx["vars"] and inspect.isfunction(fn) and fn.__module__ == self.g.get("__name__") \
                    and len(args) == len(inspect.signature(fn).parameters):
                return "(%s%s %s)" % (binds, self.function(n), " ".join(args))
            raise Unmodelled("call of " + n)
        if isinstance(f, ast.Attribute):
            recv = f.value
            # cls.m(...) / Other.m(...) / super(X, cls).m(...)
            if isinstance(recv, ast.Name) and recv.id == "cls":
                return "(%s%s %s)" % (binds, self.method(ctx["cls"], f.attr), " ".join(args))
            if isinstance(recv, ast.Name) and inspect.isclass(self.g.get(recv.id)) and recv.id not in ctx["vars"]:
                return "(%s%s %s)" % (binds, self.method(self.g[recv.id], f.attr), " ".join(args))
            if isinstance(recv, ast.Call) and isinstance(recv.func, ast.Name) and recv.func.id == "super":
                if recv.args:
                    after = self.g[recv.args[0].id]
                else:
                    after = ctx["owner"]
                return "(%s%s %s)" % (binds, self.method(ctx["cls"], f.attr, after=after), " ".join(args))
            b0, r = self.atom(recv, ctx)
            meth = {"upper": ("py_upper", 0), "endswith": ("py_endswith", 1), "startswith": ("py_startswith", 1),
                    "replace": ("py_replace1", 2)}
            if f.attr in meth and len(args) == meth[f.attr][1]:
                return "(%s%s%s %s)" % (b0, binds, meth[f.attr][0], " ".join([r] + args))
        raise Unmodelled("call " + ast.unparse(e))

    def _is_classref(self, a):
        return False
