#!/usr/bin/env python3
"""bin/seedall.py [-j N] [--confirm] <name>[:Cxx,Cyy] ...   (no names: every directory under seeded/)

Runs the quick tier of the named checks (default: the property of the seed's meta.json) against
each seeded change.  Every run gets a private copy of /verif (with its build output, so the
translators and the Coq build of a changed tree cannot disturb /verif/coq/gen or the evidence of
/repo itself) and a private scratch worktree of /repo at HEAD with seeded/<name>/patch.diff
applied; both are removed afterwards.  /repo is never touched.  With --confirm the demonstration
is also run on the clean and on the changed tree and the pinned test suite on the changed tree.
Results go to seeded/<name>/meta.json under "verification".
"""
import json, os, shutil, subprocess, sys, time
from concurrent.futures import ThreadPoolExecutor
V = os.path.dirname(os.path.dirname(os.path.abspath(__file__)))
SCR = "/tmp/seedall-%d" % os.getpid()   # private to this invocation: concurrent runs must not remove each other's trees


def sh(cmd, **kw):
    p = subprocess.run(cmd, shell=isinstance(cmd, str), stdout=subprocess.PIPE, stderr=subprocess.STDOUT, text=True, **kw)
    return p.returncode, p.stdout


def one(spec, confirm):
    name, _, cks = spec.partition(":")
    sd = os.path.join(V, "seeded", name)
    meta = json.load(open(os.path.join(sd, "meta.json")))
    checks = cks.split(",") if cks else [meta["property"]]
    wt, vc = os.path.join(SCR, "wt-" + name), os.path.join(SCR, "v-" + name)
    for d in (wt, vc):
        shutil.rmtree(d, ignore_errors=True)
    sh("git -C /repo worktree prune")
    res = dict(meta.get("verification") or {}, name=name)
    res.pop("error", None)
    res.setdefault("checks", {})
    try:
        # a seed whose precondition a later repair of /repo removed stays pinned to the commit it was written for
        base = meta.get("pinned_repo_commit", "HEAD")
        rc, o = sh("git -C /repo worktree add --detach %s %s" % (wt, base))
        assert rc == 0, o
        env = dict(os.environ, PYTHONPATH=wt + "/src", PYTHONHASHSEED="0", VERIF_REPO=wt, PYTHONDONTWRITEBYTECODE="1")
        benign = bool(meta.get("benign"))
        if confirm:
            res["demo_clean_rc"], clean_out = sh(["/venv/bin/python", os.path.join(sd, "demo.py")], env=env, cwd="/tmp")
        rc, o = sh("git -C %s apply %s" % (wt, os.path.join(sd, "patch.diff")))
        assert rc == 0, "patch does not apply to HEAD: " + o
        if confirm:
            rc1, o1 = sh(["/venv/bin/python", os.path.join(sd, "demo.py")], env=env, cwd="/tmp")
            res["demo_patched_rc"], res["demo_patched_out"] = rc1, o1[-400:]
            res["baseline_patched"] = sh("cd %s && /venv/bin/python -m pytest -q -p no:cacheprovider --timeout=900 --continue-on-collection-errors 2>&1 | tail -1" % wt, env=env)[1].strip()
            if benign:
                # a harmless refactoring: the demonstration must print the same thing with and without it
                res["demo_same_output"] = (o1 == clean_out)
                res["confirmed"] = res["demo_clean_rc"] == 0 and rc1 == 0 and o1 == clean_out and "566 pass" in res["baseline_patched"]
            else:
                res["confirmed"] = res["demo_clean_rc"] == 0 and rc1 != 0 and "566 pass" in res["baseline_patched"]
        sh("rsync -a --exclude .git --exclude evidence/replay --exclude .scratch_evidence %s/ %s/" % (V, vc))
        for c in checks:
            t = time.time()
            env2 = dict(env, VERIF_EVIDENCE_DIR=os.path.join(vc, "evidence"))
            rcc, oc = sh([os.path.join(vc, "bin", "check"), c, "--tier", "quick"], cwd=vc, env=env2)
            lines = [l for l in oc.split("\n") if l.startswith("VIOLATION") or l.startswith("  what:")]
            res["checks"][c] = {"rc": rcc, "detected": rcc != 0 and any(l.startswith("VIOLATION") for l in lines),
                                "wall_s": round(time.time() - t, 1), "lines": [l[:400].replace(vc, "/verif") for l in lines[:6]],
                                "repo_head": sh("git -C /repo rev-parse --short HEAD")[1].strip(),
                                "verif_head": sh("git -C %s rev-parse --short HEAD" % V)[1].strip()}
            res["checks"][c]["by_crash_only"] = bool(lines) and all("check crashed" in l or l.startswith("VIOLATION") for l in lines) and any("check crashed" in l for l in lines)
            if rcc != 0 and not lines:
                res["checks"][c]["tail"] = oc[-600:]
        res["ran"] = ["VERIF_REPO=<scratch worktree with the change> ./bin/check %s --tier quick" % c for c in checks]
    except AssertionError as e:
        res["error"] = str(e)[:500]
    finally:
        sh("git -C /repo worktree remove --force " + wt)
        shutil.rmtree(wt, ignore_errors=True)
        shutil.rmtree(vc, ignore_errors=True)
        sh("git -C /repo worktree prune")
    meta["verification"] = res
    json.dump(meta, open(os.path.join(sd, "meta.json"), "w"), indent=1)
    if meta.get("benign"):
        return name, {c: ("FALSE ALARM" if r["rc"] != 0 else "quiet") for c, r in res["checks"].items() if c in checks}, res.get("error")
    return name, {c: (("caught (only by a crash of the check)" if r.get("by_crash_only") else "caught") if r["detected"] else "MISSED (rc=%s)" % r["rc"])
                  for c, r in res["checks"].items() if c in checks}, res.get("error")


def main():
    args = sys.argv[1:]
    jobs, confirm = 3, False
    if "-j" in args:
        i = args.index("-j"); jobs = int(args[i + 1]); del args[i:i + 2]
    if "--confirm" in args:
        confirm = True; args.remove("--confirm")
    names = args or sorted(d for d in os.listdir(os.path.join(V, "seeded")) if os.path.isdir(os.path.join(V, "seeded", d)))
    os.makedirs(SCR, exist_ok=True)
    with ThreadPoolExecutor(jobs) as ex:
        for name, r, err in ex.map(lambda s: one(s, confirm), names):
            print(name, r, err or "", flush=True)
    shutil.rmtree(SCR, ignore_errors=True)


if __name__ == "__main__":
    main()
