(** C18 -- core document properties round-trip and stay valid.

    Statements over model/CoreProps.v (tied to python-pptx by the correspondence in
    checks/c18.py).  Spec-level vocabulary defined in proofs/CoreProps_proofs.v:
    w3c_full / w3c_min / w3c_date / w3c_ym (zero-padded W3CDTF text), timeform / time_text /
    form_ok (minutes, seconds, seconds with fraction), zone / zone_str / zone_seconds / zone_ok
    (nothing, Z, signed hh:mm and the seconds east of UTC it denotes), stored (text of the
    first child with the tag), utc_wall, run (fold_left of assignments), goodb / rejb / ovfb
    (assignments the statement says must be accepted / refused / cannot be represented),
    last_good, reading_of, date_guard, dec_len, rev_acceptable. *)
From V.lib Require Import Prelude Calendar.
From V.model Require Import CoreProps CorePropsCodec.
From V.proofs Require Import Calendar_proofs CoreProps_proofs CorePropsCodec_proofs.

(** ---- strings ---- *)

(** A string of at most 255 code points (XML characters) is accepted by every string
    property and read back unchanged, whatever the prior state. *)
Theorem C18_text : forall (p : prop) (s : str) (st : cpstate),
  kind_of p = KText -> (length s <= 255)%nat -> forallb xml_ok s = true ->
  snd (set_prop p (VStr s) st) = Ok tt /\
  get_prop (fst (set_prop p (VStr s) st)) p = Ok (OStr s).
Proof. exact text_roundtrip. Qed.
Print Assumptions C18_text.

(** Longer strings raise ValueError and the element is left exactly as it was. *)
Theorem C18_text_limit : forall (p : prop) (s : str) (st : cpstate),
  kind_of p = KText -> (255 < length s)%nat ->
  set_prop p (VStr s) st = (st, Err ValueErr).
Proof. exact text_limit. Qed.
Print Assumptions C18_text_limit.

(** ---- datetimes ---- *)

(** A naive datetime of any year 1..9999 is accepted by every date property and read back
    to the second (microsecond dropped). *)
Theorem C18_date : forall (p : prop) (d : pydt) (st : cpstate),
  kind_of p = KDate -> valid_pydt d = true -> p_tz d = None ->
  snd (set_prop p (VDt d) st) = Ok tt /\
  get_prop (fst (set_prop p (VDt d) st)) p = Ok (ODt (Some (p_dt d))).
Proof. exact date_roundtrip_naive. Qed.
Print Assumptions C18_date.

(** An aware datetime with utcoffset [o] seconds is read back as the equivalent UTC wall
    clock, the valid date-time whose instant is [to_seconds local - o]; when that lies outside
    years 1..9999 the assignment raises OverflowError and the element is untouched. *)
Theorem C18_date_aware : forall (p : prop) (d : pydt) (o : Z) (st : cpstate),
  kind_of p = KDate -> valid_pydt d = true -> p_tz d = Some o ->
  let utc := add_seconds (p_dt d) (- o) in
  to_seconds utc = (to_seconds (p_dt d) - o)%Z /\
  (in_py_range utc = true ->
     snd (set_prop p (VDt d) st) = Ok tt /\
     get_prop (fst (set_prop p (VDt d) st)) p = Ok (ODt (Some utc))) /\
  (in_py_range utc = false -> set_prop p (VDt d) st = (st, Err OverflowErr)).
Proof. exact date_roundtrip_aware. Qed.
Print Assumptions C18_date_aware.

(** Anything that is not a datetime raises ValueError, element untouched. *)
Theorem C18_date_type : forall (p : prop) (v : pyv) (st : cpstate),
  kind_of p = KDate -> (forall d, v <> VDt d) -> set_prop p v st = (st, Err ValueErr).
Proof. exact date_type. Qed.
Print Assumptions C18_date_type.

(** ---- reading W3CDTF text ---- *)

(** A complete date with a time of any W3CDTF granularity (minutes; seconds; seconds with a
    decimal fraction) followed by any zone designator (nothing, Z, or sign hh:mm with any
    two digits each, which includes every offset from -14:00 to +14:00): the reading is the
    equivalent UTC time, i.e. the instant [to_seconds local - offset]; OverflowError when
    that falls outside years 1..9999. *)
Theorem C18_offset : forall (st : cpstate) (p : prop) (g : timeform) (t : datetime) (z : zone),
  kind_of p = KDate -> stored st p (time_text g t ++ zone_str z) ->
  valid_datetime t = true -> (1 <= dt_year t <= 9999)%Z -> form_ok g t -> zone_ok z ->
  let utc := add_seconds t (- zone_seconds z) in
  to_seconds utc = (to_seconds t - zone_seconds z)%Z /\
  valid_datetime utc = true /\
  get_prop st p = if in_py_range utc then Ok (ODt (Some utc)) else Err OverflowErr.
Proof. exact read_time. Qed.
Print Assumptions C18_offset.

(** The granularities without a time: date, year-month, year. *)
Theorem C18_granularity : forall (st : cpstate) (p : prop), kind_of p = KDate ->
  (forall y m d, stored st p (w3c_date y m d) -> valid_date (y, m, d) = true -> (1 <= y <= 9999)%Z ->
     get_prop st p = Ok (ODt (Some (mkDT y m d 0 0 0)))) /\
  (forall y m, stored st p (w3c_ym y m) -> (1 <= m <= 12)%Z -> (1 <= y <= 9999)%Z ->
     get_prop st p = Ok (ODt (Some (mkDT y m 1 0 0 0)))) /\
  (forall y, stored st p (pad4 y) -> (1 <= y <= 9999)%Z ->
     get_prop st p = Ok (ODt (Some (mkDT y 1 1 0 0 0)))).
Proof. exact granularity. Qed.
Print Assumptions C18_granularity.

(** ---- revision ---- *)

(** Positive integers (up to CPython's 4300-digit conversion limit) round-trip. *)
Theorem C18_revision : forall (z : Z) (st : cpstate), (1 <= z)%Z -> (dec_len z <= 4300)%N ->
  snd (set_prop Revision (VInt z) st) = Ok tt /\
  get_prop (fst (set_prop Revision (VInt z) st)) Revision = Ok (OInt z).
Proof. exact revision_roundtrip. Qed.
Print Assumptions C18_revision.

(** Integers below 1, True and False, None, strings, dates and other objects raise
    ValueError, element untouched. *)
Theorem C18_revision_reject : forall (v : pyv) (st : cpstate),
  rev_acceptable v = false -> set_prop Revision v st = (st, Err ValueErr).
Proof. exact revision_reject. Qed.
Print Assumptions C18_revision_reject.

(** Reading: absent element, text int() cannot parse, and negative numbers all give 0. *)
Theorem C18_revision_read : forall st : cpstate,
  get_prop st Revision =
  Ok (OInt match find_child st Revision with
           | None => 0%Z
           | Some c => match py_int (c_text c) with
                       | Some z => if (z <? 0)%Z then 0%Z else z
                       | None => 0%Z
                       end
           end).
Proof. exact revision_read. Qed.
Print Assumptions C18_revision_read.

(** ---- independence and histories ---- *)

(** Assigning one property -- accepted or refused, any value -- leaves the readings of the
    other 14 unchanged. *)
Theorem C18_frame : forall (p q : prop) (v : pyv) (st : cpstate),
  p <> q -> get_prop (fst (set_prop p v st)) q = get_prop st q.
Proof. exact frame. Qed.
Print Assumptions C18_frame.

(** After any sequence of assignments, each of which the statement says is accepted
    (goodb), refused (rejb) or is an aware datetime without a representable UTC time (ovfb),
    every property reads the value of the last accepted assignment to it, or what it read
    initially if there was none. *)
Theorem C18_history : forall (ops : list op) (st : cpstate) (q : prop),
  Forall (fun o => goodb o || rejb o || ovfb o = true) ops ->
  get_prop (run ops st) q =
  match last_good ops q with Some v => Ok (reading_of v) | None => get_prop st q end.
Proof. exact history. Qed.
Print Assumptions C18_history.

(** ---- validity against opc-coreProperties.xsd ---- *)

(** The schema (xsd:all) asks for each of the 15 children at most once, in any order, nothing
    else; cp:lastPrinted an xsd:dateTime; dcterms:created / modified typed W3CDTF a
    gYear, gYearMonth, date or dateTime (valid_cp).  Every assignment of any value, accepted
    or not, keeps a valid element valid. *)
Theorem C18_valid_step : forall (p : prop) (v : pyv) (st : cpstate),
  valid_cp st = true -> (forall d, v = VDt d -> valid_pydt d = true) ->
  valid_cp (fst (set_prop p v st)) = true.
Proof. exact valid_step. Qed.
Print Assumptions C18_valid_step.

Theorem C18_valid_history : forall (ops : list op) (st : cpstate),
  valid_cp st = true -> Forall date_guard ops -> valid_cp (run ops st) = true.
Proof. exact valid_history. Qed.
Print Assumptions C18_valid_history.

(** ---- default part ---- *)

(** Package.core_properties returns the related part untouched when there is one; otherwise it
    creates, relates and returns a part that reads title, last_modified_by, revision 1 and
    modified = the clock reading to the second, everything else empty, and is schema-valid. *)
Theorem C18_default_part : forall now : pydt,
  (forall st, core_properties (Some st) now = (Some st, st)) /\
  core_properties None now = (Some (default_part now), default_part now) /\
  (valid_pydt now = true -> p_tz now = None ->
   valid_cp (default_part now) = true /\
   forall q, get_prop (default_part now) q =
     match q with
     | Title => Ok (OStr s_default_title)
     | LastModifiedBy => Ok (OStr s_python_pptx)
     | Revision => Ok (OInt 1)
     | Modified => Ok (ODt (Some (p_dt now)))
     | Created | LastPrinted => Ok (ODt None)
     | _ => Ok (OStr [])
     end).
Proof. exact default_part_spec. Qed.
Print Assumptions C18_default_part.

(** ---- calendar (lib/Calendar.v, shared with C07/C08) ---- *)

Theorem C18_calendar_inverse :
  (forall dt, valid_date dt = true -> civil_of_ordinal (ordinal dt) = dt) /\
  (forall n, valid_date (civil_of_ordinal n) = true /\ ordinal (civil_of_ordinal n) = n).
Proof. exact calendar_inverse. Qed.
Print Assumptions C18_calendar_inverse.

Theorem C18_add_seconds : forall t k,
  to_seconds (add_seconds t k) = (to_seconds t + k)%Z /\ valid_datetime (add_seconds t k) = true /\
  (forall u, valid_datetime u = true -> to_seconds u = (to_seconds t + k)%Z -> u = add_seconds t k).
Proof. exact add_seconds_char. Qed.
Print Assumptions C18_add_seconds.

(** ---- save and re-open, through a concrete codec of docProps/core.xml ----

    model/CorePropsCodec.v: enc_core_m / enc_core write docProps/core.xml as lxml serialises the
    tree python-pptx holds (declaration, root with the declarations of the template root or of the
    root CorePropertiesPart.default builds, one element per child in the order of the state,
    xsi:type where the flag is set, text escaped as libxml2 escapes text); dec_core_r / dec_core
    read that document shape, element text through the lexer of model/Escape.v, which contains
    libxml2's blank-text removal (remove_blank_text of the oxml parser).  Tied to lxml byte for
    byte by the codec phase of checks/c18.py.  Vocabulary: wire_ok (declared children only, every
    text made of XML characters), wire_m (the same on a state with text-node marks), assigned /
    parsed (every child holds a text node / none with empty text does), reopen st =
    dec_core (enc_core st), cycles, has_xsi, text_escape, text_val. *)

(** Reading what was written gives back the root kind and the state, whatever the text-node
    marks, for every state of declared children whose texts are XML characters: no bound on the
    number of children or the length of the texts. *)
Theorem C18_reopen_codec : forall (r : rootk) (w : list (child * bool)),
  forallb wire_m w = true -> dec_core_r (enc_core_m r w) = Some (r, map fst w).
Proof. exact dec_enc_m. Qed.
Print Assumptions C18_reopen_codec.

(** Save and re-open is the identity on the state. *)
Theorem C18_reopen_identity : forall st : cpstate,
  wire_ok st = true -> dec_core (enc_core st) = Some st.
Proof. exact dec_enc_core. Qed.
Print Assumptions C18_reopen_identity.

(** What the parser does to an element whose text is only blanks (space, TAB, LF, CR): it keeps
    the text, character for character.  libxml2 drops a blank chunk in front of a child element
    or a raw CR only; in front of the end tag of an element that holds nothing else the chunk is
    delivered, and the writer sends CR as a character reference.  The one text that is not read
    back as a text node is the empty one (start tag, end tag), which every reader of
    oxml/coreprops.py and the model state identify with an absent text. *)
Theorem C18_reopen_blank_text : forall s : str,
  forallb Escape.is_blank s = true -> text_val (text_escape s) = Some s.
Proof. exact blank_text_kept. Qed.
Print Assumptions C18_reopen_blank_text.

Theorem C18_reopen_any_text : forall s : str,
  Escape.xml_str s = true -> text_val (text_escape s) = Some s.
Proof. exact text_val_escape. Qed.
Print Assumptions C18_reopen_any_text.

(** The second save (the tree as the parser built it: no text node where the text is empty)
    is read as the same state again. *)
Theorem C18_reopen_second_save : forall (r : rootk) (st : cpstate),
  wire_ok st = true -> dec_core_r (enc_core_m r (parsed st)) = Some (r, st).
Proof. exact dec_enc_parsed. Qed.
Print Assumptions C18_reopen_second_save.

(** Whatever document of the shape is loaded, the state read is writable, and saving and
    re-opening it returns it. *)
Theorem C18_reopen_loaded : forall (s : str) (st : cpstate),
  dec_core s = Some st -> wire_ok st = true /\ reopen st = Some st.
Proof. exact (fun s st H => conj (dec_core_wire s st H) (loaded_reopen s st H)). Qed.
Print Assumptions C18_reopen_loaded.

(** Two states with the same document are the same state. *)
Theorem C18_reopen_injective : forall st1 st2 : cpstate,
  wire_ok st1 = true -> wire_ok st2 = true -> enc_core st1 = enc_core st2 -> st1 = st2.
Proof. exact enc_core_inj. Qed.
Print Assumptions C18_reopen_injective.

(** Every assignment of any value, accepted or refused, keeps the state writable. *)
Theorem C18_reopen_writable_step : forall (p : prop) (v : pyv) (st : cpstate),
  wire_ok st = true -> (forall d, v = VDt d -> valid_pydt d = true) ->
  wire_ok (fst (set_prop p v st)) = true.
Proof. exact wire_step. Qed.
Print Assumptions C18_reopen_writable_step.

(** Strings: every string of at most 255 XML characters is accepted, and after save and re-open
    the property reads exactly that string -- blank-only strings, leading and trailing blanks,
    CR, TAB, LF, markup characters included.  The blank-text treatment forces NO side condition. *)
Theorem C18_reopen_text : forall (p : prop) (s : str) (st : cpstate),
  kind_of p = KText -> (length s <= 255)%nat -> forallb xml_ok s = true -> wire_ok st = true ->
  let st1 := fst (set_prop p (VStr s) st) in
  snd (set_prop p (VStr s) st) = Ok tt /\
  reopen st1 = Some st1 /\
  (forall st2, reopen st1 = Some st2 -> get_prop st2 p = Ok (OStr s)).
Proof. exact text_reopen. Qed.
Print Assumptions C18_reopen_text.

(** Datetimes (naive or aware, UTC wall clock within years 1..9999): after save and re-open the
    property reads the UTC wall clock to the second, dcterms:created / dcterms:modified still
    carry xsi:type, and a valid part is still valid. *)
Theorem C18_reopen_date : forall (p : prop) (d : pydt) (st : cpstate),
  kind_of p = KDate -> valid_pydt d = true -> in_py_range (utc_wall d) = true -> wire_ok st = true ->
  let st1 := fst (set_prop p (VDt d) st) in
  snd (set_prop p (VDt d) st) = Ok tt /\
  reopen st1 = Some st1 /\
  (forall st2, reopen st1 = Some st2 ->
     get_prop st2 p = Ok (ODt (Some (utc_wall d))) /\
     (needs_xsi p = true -> has_xsi st2 p) /\
     (valid_cp st = true -> valid_cp st2 = true)).
Proof. exact date_reopen. Qed.
Print Assumptions C18_reopen_date.

Theorem C18_reopen_revision : forall (z : Z) (st : cpstate),
  (1 <= z)%Z -> (dec_len z <= 4300)%N -> wire_ok st = true ->
  let st1 := fst (set_prop Revision (VInt z) st) in
  snd (set_prop Revision (VInt z) st) = Ok tt /\
  reopen st1 = Some st1 /\
  (forall st2, reopen st1 = Some st2 -> get_prop st2 Revision = Ok (OInt z)).
Proof. exact revision_reopen. Qed.
Print Assumptions C18_reopen_revision.

(** After any history of assignments (any values, accepted or refused) from a writable state --
    the empty element in particular -- any number of save / re-open cycles gives back the very
    state: every reading, every child, every xsi:type and validity are those before the save. *)
Theorem C18_reopen_history : forall (ops : list op) (st : cpstate) (n : nat),
  wire_ok st = true -> Forall date_guard ops -> cycles n (run ops st) = Some (run ops st).
Proof. exact history_reopen. Qed.
Print Assumptions C18_reopen_history.

(** The part CorePropertiesPart.default builds, written with its own root, reads back as built. *)
Theorem C18_reopen_default_part : forall now : pydt, valid_pydt now = true ->
  dec_core_r (enc_core_r RDefault (default_part now)) = Some (RDefault, default_part now).
Proof. exact default_reopen. Qed.
Print Assumptions C18_reopen_default_part.

(** non-vacuity: title = one blank; blanks, CR LF, empty text, markup and an astral character,
    xsi:type; hypotheses of the text and date statements *)
Example C18_reopen_blank_title :
  let st := fst (set_prop Title (VStr [32]%N) []) in
  wire_ok st = true /\ reopen st = Some st /\ get_prop st Title = Ok (OStr [32]%N).
Proof. exact blank_title. Qed.

Example C18_reopen_forms :
  let st := [mkChild (TProp Title) [32; 9; 10; 13; 32]%N false; mkChild (TProp Subject) [13; 10]%N false;
             mkChild (TProp Author) [] false; mkChild (TProp Created) [32; 60; 38; 62; 34; 39; 128512; 32]%N true] in
  wire_ok st = true /\ reopen st = Some st /\
  dec_core (enc_core_m RTemplate (parsed st)) = Some st.
Proof. exact blank_forms. Qed.

Example C18_reopen_text_nonvacuous :
  kind_of Title = KText /\ (length [32; 10; 32]%N <= 255)%nat /\ forallb xml_ok [32; 10; 32]%N = true /\
  wire_ok [mkChild (TProp Created) [9]%N true] = true.
Proof. exact text_reopen_nonvacuous. Qed.

Example C18_reopen_date_nonvacuous :
  let d := mkPydt (mkDT 4 2 29 23 59 59) 999999 (Some 3600%Z) in
  kind_of Modified = KDate /\ valid_pydt d = true /\ in_py_range (utc_wall d) = true /\ needs_xsi Modified = true.
Proof. exact date_reopen_nonvacuous. Qed.

(** a child outside the declared 15 has no name in the model: the writer's place-holder is refused *)
Example C18_reopen_other_refused : dec_core (enc_core [mkChild (TOther 0) [97]%N false]) = None.
Proof. exact dec_other_refused. Qed.

(** ---- non-vacuity ---- *)

Example C18_text_nonvacuous :
  kind_of Title = KText /\ (length [128512; 60; 38]%N <= 255)%nat /\ forallb xml_ok [128512; 60; 38]%N = true.
Proof. repeat split. vm_compute. lia. Qed.

Example C18_text_limit_nonvacuous : (255 < length (repeat 97%N 256))%nat.
Proof. vm_compute. lia. Qed.

Example C18_date_nonvacuous :
  let d := mkPydt (mkDT 4 2 29 23 59 59) 999999 None in
  kind_of LastPrinted = KDate /\ valid_pydt d = true /\ p_tz d = None.
Proof. vm_compute. repeat split. Qed.

Example C18_date_aware_nonvacuous :
  valid_pydt dt_aware = true /\ p_tz dt_aware = Some 18000%Z /\
  in_py_range (add_seconds (p_dt dt_aware) (- 18000)) = true /\
  in_py_range (add_seconds (mkDT 1 1 1 0 0 0) (- 60)) = false.
Proof. vm_compute. repeat split. Qed.

Example C18_offset_nonvacuous :
  let t := mkDT 2020 3 1 0 30 0 in
  let st := [mkChild (TProp Created) (time_text TMin t ++ zone_str (ZOff false 1 0)) true] in
  stored st Created (time_text TMin t ++ zone_str (ZOff false 1 0)) /\
  valid_datetime t = true /\ form_ok TMin t /\ zone_ok (ZOff false 1 0) /\
  get_prop st Created = Ok (ODt (Some (mkDT 2020 2 29 23 30 0))).
Proof.
  split; [eexists; split; reflexivity|]. split; [reflexivity|]. split; [reflexivity|].
  split; [cbn; lia|]. vm_compute. reflexivity.
Qed.

Example C18_offset_fraction_nonvacuous :
  form_ok (TFrac [49; 50; 51; 52]%N) t2003 /\
  parse_w3cdtf (time_text (TFrac [49; 50; 51; 52]%N) t2003 ++ zone_str (ZOff true 14 0)) =
  Ok (mkDT 2004 1 1 0 14 55).
Proof. split; [split; [discriminate|reflexivity]|]. vm_compute. reflexivity. Qed.

Example C18_revision_nonvacuous : (1 <= 4294967296)%Z /\ (dec_len 4294967296 <= 4300)%N.
Proof. vm_compute. split; discriminate. Qed.

Example C18_history_nonvacuous :
  let ops := [(Title, VStr [97]%N); (Revision, VInt 0); (Created, VDt (mkPydt (mkDT 2001 2 3 4 5 6) 7 None));
              (Title, VStr (repeat 98%N 256)); (Revision, VInt 7); (Title, VStr [99]%N); (Created, VNone);
              (Revision, VBool true); (Modified, VDt (mkPydt (mkDT 1 1 1 0 0 0) 0 (Some 60%Z)));
              (LastPrinted, VDt dt_aware)] in
  Forall (fun o => goodb o || rejb o || ovfb o = true) ops /\
  get_prop (run ops []) Title = Ok (OStr [99]%N) /\
  get_prop (run ops []) Revision = Ok (OInt 7) /\
  get_prop (run ops []) Created = Ok (ODt (Some (mkDT 2001 2 3 4 5 6))) /\
  get_prop (run ops []) Modified = Ok (ODt None) /\
  get_prop (run ops []) LastPrinted = Ok (ODt (Some (mkDT 2020 2 29 18 59 59))) /\
  valid_cp (run ops []) = true.
Proof. split; [repeat constructor|]. vm_compute. repeat split. Qed.

Example C18_default_part_nonvacuous :
  let now := mkPydt (mkDT 2024 1 2 3 4 5) 678 None in
  valid_pydt now = true /\ p_tz now = None.
Proof. vm_compute. split; reflexivity. Qed.

(** ---- regression: the inputs on which the code failed before it was repaired ---- *)

(** datetime(999,1,2,3,4,5) now round-trips and the part stays schema-valid. *)
Example C18_regress_year_999 :
  valid_pydt dt999 = true /\
  snd (set_prop Created (VDt dt999) []) = Ok tt /\
  get_prop (fst (set_prop Created (VDt dt999) [])) Created = Ok (ODt (Some (mkDT 999 1 2 3 4 5))) /\
  valid_cp (fst (set_prop Created (VDt dt999) [])) = true.
Proof. exact regress_year_999. Qed.

(** 23:59:59+05:00 now reads 18:59:59. *)
Example C18_regress_aware :
  valid_pydt dt_aware = true /\
  get_prop (fst (set_prop Created (VDt dt_aware) [])) Created = Ok (ODt (Some (mkDT 2020 2 29 18 59 59))).
Proof. exact regress_aware. Qed.

(** revision = True is refused. *)
Example C18_regress_revision_true : set_prop Revision (VBool true) [] = ([], Err ValueErr).
Proof. exact regress_revision_true. Qed.

(** 2003-12-31T10:14+01:00, 2003-12-31T10:14:55.5+01:00, 2003-12-31T10:14:55.1234Z *)
Example C18_regress_minutes :
  parse_w3cdtf (w3c_date 2003 12 31 ++ c_T :: pad2 10 ++ c_colon :: pad2 14 ++ off_str false 1 0) =
  Ok (mkDT 2003 12 31 9 14 0).
Proof. exact regress_minutes. Qed.

Example C18_regress_fraction_offset :
  parse_w3cdtf (w3c_full t2003 ++ [46; 53]%N ++ off_str false 1 0) = Ok (mkDT 2003 12 31 9 14 55).
Proof. exact regress_fraction_offset. Qed.

Example C18_regress_fraction_z :
  parse_w3cdtf (w3c_full t2003 ++ [46; 49; 50; 51; 52; 90]%N) = Ok t2003.
Proof. exact regress_fraction_z. Qed.
