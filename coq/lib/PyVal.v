(** Python values and the fragment of Python's dynamic semantics that
    src/pptx/oxml/simpletypes.py, src/pptx/util.py and the enum mechanism rely on.
    The translators emit shallow Gallina over this library (monadic: every operation
    may raise).  Quirks are modelled on purpose: bool is an int, 0 == False == 0.0,
    str(True) = True, int/int true division is correctly rounded, % is floor-based. *)
From V.lib Require Import Prelude PyFloat.

Inductive pyval :=
| PInt (z : Z)
| PBool (b : bool)
| PFloat (f : pyfloat)
| PStr (s : str)
| PNone
| PTuple (l : list pyval)
| POther (n : nat).      (* any other object: list, dict, bytes, user class ... *)

Notation "x <- e ;; k" := (bind e (fun x => k)) (at level 61, e at next level, right associativity).

(** str(float): repr is not modelled digit by digit; a float rendered as text is the
    marker code point followed by the decimal text of its canonical mantissa and
    exponent.  The harness compares such strings through float(text). *)
Definition float_marker : N := 1114111%N.
Definition c_space : N := 32%N.
Definition repr_float (f : pyfloat) : str :=
  match f_canon f with
  | Fin m e => float_marker :: str_of_Z m ++ [c_space] ++ str_of_Z e
  | PInf => [105; 110; 102]%N
  | NInf => [45; 105; 110; 102]%N
  | NaN => [110; 97; 110]%N
  end.

Definition s_True : str := [84; 114; 117; 101]%N.
Definition s_False : str := [70; 97; 108; 115; 101]%N.
Definition s_None : str := [78; 111; 110; 101]%N.

(** numeric view: bool and int as exact integers, float as float *)
Inductive num := NZ (z : Z) | NF (f : pyfloat).
Definition as_num (v : pyval) : option num :=
  match v with
  | PInt z => Some (NZ z)
  | PBool b => Some (NZ (if b then 1 else 0)%Z)
  | PFloat f => Some (NF f)
  | _ => None
  end.

(** int -> float conversion inside mixed arithmetic raises OverflowError when too large *)
Definition num_float (n : num) : res pyfloat :=
  match n with NZ z => f_of_Z z | NF f => Ok f end.

(** python compares an int with a float exactly, without rounding the int *)
Definition cmp_num (a b : num) : option comparison :=
  match a, b with
  | NZ x, NZ y => Some (Z.compare x y)
  | NF x, NF y => f_cmp x y
  | NZ x, NF y => f_cmp (Fin x 0) y
  | NF x, NZ y => f_cmp x (Fin y 0)
  end.

Fixpoint compare_str (a b : str) : comparison :=
  match a, b with
  | [], [] => Eq
  | [], _ :: _ => Lt
  | _ :: _, [] => Gt
  | x :: a', y :: b' => match N.compare x y with Eq => compare_str a' b' | c => c end
  end.

(** ordering comparisons < <= > >= : numbers with numbers, str with str, else TypeError *)
Definition py_order (test : comparison -> bool) (a b : pyval) : res bool :=
  match as_num a, as_num b with
  | Some x, Some y => Ok (match cmp_num x y with Some c => test c | None => false end)
  | _, _ =>
      match a, b with
      | PStr x, PStr y => Ok (test (compare_str x y))
      | _, _ => Err TypeErr
      end
  end.
Definition py_lt := py_order (fun c => match c with Lt => true | _ => false end).
Definition py_le := py_order (fun c => match c with Gt => false | _ => true end).
Definition py_gt := py_order (fun c => match c with Gt => true | _ => false end).
Definition py_ge := py_order (fun c => match c with Lt => false | _ => true end).

(** == never raises; numbers compare by value across int/bool/float *)
Fixpoint py_eqb (a b : pyval) : bool :=
  match as_num a, as_num b with
  | Some x, Some y => match cmp_num x y with Some Eq => true | _ => false end
  | _, _ =>
      match a, b with
      | PStr x, PStr y => str_eqb x y
      | PNone, PNone => true
      | PTuple x, PTuple y =>
          (fix go (x y : list pyval) : bool :=
             match x, y with
             | [], [] => true
             | u :: x', v :: y' => py_eqb u v && go x' y'
             | _, _ => false
             end) x y
      | POther n, POther m => Nat.eqb n m
      | _, _ => false
      end
  end.
Definition py_eq (a b : pyval) : res bool := Ok (py_eqb a b).
Definition py_ne (a b : pyval) : res bool := Ok (negb (py_eqb a b)).

(** substring test used by [x in some_str] *)
Fixpoint is_substr (p s : str) : bool :=
  starts_with p s || match s with [] => false | _ :: s' => is_substr p s' end.

(** [a in b]: b a tuple (membership by ==) or a str (substring; a must be a str) *)
Definition py_in (a b : pyval) : res bool :=
  match b with
  | PTuple l => Ok (existsb (py_eqb a) l)
  | PStr s => match a with PStr p => Ok (is_substr p s) | _ => Err TypeErr end
  | _ => Err TypeErr
  end.
Definition py_not_in (a b : pyval) : res bool := r <- py_in a b ;; Ok (negb r).

(** truthiness *)
Definition py_truth (v : pyval) : bool :=
  match v with
  | PInt z => negb (Z.eqb z 0)
  | PBool b => b
  | PFloat f => negb (f_eqb f (Fin 0 0))
  | PStr s => match s with [] => false | _ => true end
  | PNone => false
  | PTuple l => match l with [] => false | _ => true end
  | POther _ => true
  end.

(** isinstance classes the sources test for *)
Inductive pyclass := C_int | C_float | C_str | C_Integral | C_bool.
Definition isinstance1 (v : pyval) (c : pyclass) : bool :=
  match c, v with
  | C_int, (PInt _ | PBool _) => true
  | C_Integral, (PInt _ | PBool _) => true
  | C_bool, PBool _ => true
  | C_float, PFloat _ => true
  | C_str, PStr _ => true
  | _, _ => false
  end.
Definition py_isinstance (v : pyval) (cs : list pyclass) : bool := existsb (isinstance1 v) cs.

(** arithmetic *)
Definition arith (zop : Z -> Z -> res pyval) (fop : pyfloat -> pyfloat -> res pyfloat)
                 (a b : pyval) : res pyval :=
  match as_num a, as_num b with
  | Some (NZ x), Some (NZ y) => zop x y
  | Some x, Some y => fx <- num_float x ;; fy <- num_float y ;; r <- fop fx fy ;; Ok (PFloat r)
  | _, _ => Err TypeErr
  end.

Definition py_add (a b : pyval) : res pyval :=
  match a, b with
  | PStr x, PStr y => Ok (PStr (x ++ y))
  | _, _ => arith (fun x y => Ok (PInt (x + y))) (fun x y => Ok (f_add x y)) a b
  end.
Definition py_sub := arith (fun x y => Ok (PInt (x - y))) (fun x y => Ok (f_sub x y)).
Definition py_mul := arith (fun x y => Ok (PInt (x * y))) (fun x y => Ok (f_mul x y)).
(** true division: int / int is the correctly rounded quotient *)
Definition py_truediv :=
  arith (fun x y => if Z.eqb y 0 then Err OtherErr
                    else if Z.ltb y 0 then
                      (match fl_div (- x) (- y) with
                       | PInf | NInf => Err OverflowErr
                       | r => Ok (PFloat r) end)
                    else (match fl_div x y with
                          | PInf | NInf => Err OverflowErr
                          | r => Ok (PFloat r) end))
        f_div.
Definition py_floordiv :=
  arith (fun x y => if Z.eqb y 0 then Err OtherErr else Ok (PInt (x / y)))
        (fun x y => Err OtherErr).           (* float // float is not used by the sources *)
Definition py_mod :=
  arith (fun x y => if Z.eqb y 0 then Err OtherErr else Ok (PInt (x mod y))) f_mod.
Definition py_neg (a : pyval) : res pyval :=
  match as_num a with
  | Some (NZ x) => Ok (PInt (- x))
  | Some (NF f) => Ok (PFloat (f_neg f))
  | None => Err TypeErr
  end.

(** builtins *)
Definition py_int (v : pyval) : res pyval :=
  match v with
  | PInt z => Ok (PInt z)
  | PBool b => Ok (PInt (if b then 1 else 0))
  | PFloat f => z <- f_trunc f ;; Ok (PInt z)
  | PStr s => z <- int_of_str false s ;; Ok (PInt z)
  | _ => Err TypeErr
  end.
Definition py_int16 (v : pyval) : res pyval :=
  match v with
  | PStr s => z <- int_of_str true s ;; Ok (PInt z)
  | _ => Err TypeErr
  end.
Definition py_float (v : pyval) : res pyval :=
  match v with
  | PInt z => f <- f_of_Z z ;; Ok (PFloat f)
  | PBool b => Ok (PFloat (Fin (if b then 1 else 0) 0))
  | PFloat f => Ok (PFloat f)
  | PStr s => f <- f_of_str s ;; Ok (PFloat f)
  | _ => Err TypeErr
  end.
Definition py_round (v : pyval) : res pyval :=
  match v with
  | PInt z => Ok (PInt z)
  | PBool b => Ok (PInt (if b then 1 else 0))
  | PFloat f => z <- f_round f ;; Ok (PInt z)
  | _ => Err TypeErr
  end.
Definition py_str (v : pyval) : res pyval :=
  match v with
  | PInt z => Ok (PStr (str_of_Z z))
  | PBool b => Ok (PStr (if b then s_True else s_False))
  | PFloat f => Ok (PStr (repr_float f))
  | PStr s => Ok (PStr s)
  | PNone => Ok (PStr s_None)
  | _ => Err OtherErr                     (* str of other objects: not modelled *)
  end.
Definition py_len (v : pyval) : res pyval :=
  match v with
  | PStr s => Ok (PInt (Z.of_nat (length s)))
  | PTuple l => Ok (PInt (Z.of_nat (length l)))
  | _ => Err TypeErr
  end.

(** str methods; calling them on a non-str raises AttributeError (OtherErr) *)
Definition ascii_upper (c : N) : N := if ((97 <=? c) && (c <=? 122))%N then (c - 32)%N else c.
Definition with_str (v : pyval) (k : str -> res pyval) : res pyval :=
  match v with PStr s => k s | _ => Err OtherErr end.
Definition py_upper (v : pyval) : res pyval := with_str v (fun s => Ok (PStr (map ascii_upper s))).
Definition py_endswith (v p : pyval) : res pyval :=
  with_str v (fun s => match p with PStr q => Ok (PBool (ends_with q s)) | _ => Err TypeErr end).
Definition py_startswith (v p : pyval) : res pyval :=
  with_str v (fun s => match p with PStr q => Ok (PBool (starts_with q s)) | _ => Err TypeErr end).
(** s.replace(old, new) for a one-character [old] *)
Definition py_replace1 (v old new : pyval) : res pyval :=
  with_str v (fun s =>
    match old, new with
    | PStr [c], PStr r => Ok (PStr (flat_map (fun x => if N.eqb x c then r else [x]) s))
    | _, _ => Err OtherErr
    end).
(** slices with constant bounds: s[:-k], s[-k:], s[k:] *)
Definition py_slice_to_neg (v : pyval) (k : nat) : res pyval :=
  with_str v (fun s => Ok (PStr (firstn (length s - k) s))).
Definition py_slice_from_neg (v : pyval) (k : nat) : res pyval :=
  with_str v (fun s => Ok (PStr (skipn (length s - k) s))).
Definition py_slice_from (v : pyval) (k : nat) : res pyval :=
  with_str v (fun s => Ok (PStr (skipn k s))).

(** all(c in allowed for c in s) for a constant string [allowed]; iterating a non-str
    that is not iterable raises TypeError (tuples of strings are not used by the sources) *)
Definition py_all_chars_in (v : pyval) (allowed : str) : res pyval :=
  match v with
  | PStr s => Ok (PBool (forallb (fun c => memN c allowed) s))
  | _ => Err TypeErr
  end.

(** dict literal lookup by == ; KeyError when absent; unhashable keys are not modelled *)
Fixpoint py_dict_get (d : list (pyval * pyval)) (k : pyval) : res pyval :=
  match d with
  | [] => Err KeyErr
  | (k', v) :: d' => if py_eqb k k' then Ok v else py_dict_get d' k
  end.

(** pptx.util: Length subclasses are ints *)
Definition py_Emu (v : pyval) : res pyval := py_int v.
Definition py_Centipoints (v : pyval) : res pyval := t <- py_mul v (PInt 127) ;; py_int t.
Definition py_centipoints_attr (v : pyval) : res pyval := py_floordiv v (PInt 127).

Definition as_bool (r : res pyval) : res bool := v <- r ;; Ok (py_truth v).
Definition of_bool (r : res bool) : res pyval := b <- r ;; Ok (PBool b).
