(** C01: opening and saving a package preserves every reachable part and relationship. *)
From V.lib Require Import Prelude.
From V.model Require Import PackUri Opc.
From V.gen Require Import GenC01.
From V.proofs Require Import Opc_proofs.

Theorem C01_no_unmodelled : unmodelled = [].
Proof. reflexivity. Qed.
Print Assumptions C01_no_unmodelled.
