"""Translator for C03: regenerate coq/gen/GenC03.v + gen/c03_meta.json from /repo's current tree.

* SCHEMA: every complex type of the XSDs xsdlib loads -> (content model, attribute
  declarations with the lexical space of their type and the required flag, child tag ->
  type id map, text content lexical space for simple-typed elements); global elements.
  Structural transcription only: validity is computed in Coq (model/XmlValid.v).
* TEMPLATES: every XML the library ships or builds from constants, serialised to `node` terms:
  templates/*.xml, every XML member of templates/default.pptx, every parse_xml / new_*
  element template of the oxml classes called with benign arguments, and the chart XML of every
  chart type ChartXmlWriter dispatches on x a small data grid.
* DECLARATIONS: child declarations (tag, successors) and attribute declarations (descriptor)
  of the registered element classes against the type ids of THIS schema table, for the
  instance of C03_ops_preserve_order.
Fail-closed: what is not understood lands in `unmodelled`.

The module is also imported by checks/c03.py for the markup-compatibility preprocessing and the
node encoder (one definition of the encoding for translator and check).
"""
import ast
import copy
import io
import json
import os
import sys
import zipfile

sys.path.insert(0, os.path.dirname(os.path.abspath(__file__)))
from xsdlib import REPO, XS, NSPFX, Schemas, Interner, coq_cm, write_if_changed  # noqa: E402

sys.path.insert(0, REPO + "/src")
VERIF = os.path.dirname(os.path.dirname(os.path.abspath(__file__)))

MC = "http://schemas.openxmlformats.org/markup-compatibility/2006"
FOREIGN = 999999          # id of every tag / attribute name the schema tables do not know
TEXT_ATTR = 0             # pseudo attribute carrying the character content of an element


# ----------------------------------------------------------------- markup compatibility
def mc_preprocess(root):
    """Deep copy with ISO/IEC 29500-3 preprocessing applied (as a consumer that understands
    no extension namespace): mc:AlternateContent -> the content of its mc:Fallback (or nothing);
    elements and attributes of namespaces declared ignorable by an mc:Ignorable in scope are
    dropped; mc:* attributes are dropped."""
    from lxml import etree

    root = copy.deepcopy(root)

    def ign_of(el, inherited):
        v = el.get("{%s}Ignorable" % MC)
        if not v:
            return inherited
        s = set(inherited)
        for p in v.split():
            uri = el.nsmap.get(p)
            if uri:
                s.add(uri)
        return frozenset(s)

    def walk(el, ign):
        ign = ign_of(el, ign)
        for a in list(el.attrib):
            q = etree.QName(a)
            if q.namespace == MC or (q.namespace and q.namespace in ign):
                del el.attrib[a]
        for k in list(el):
            if not isinstance(k.tag, str):
                continue
            q = etree.QName(k)
            if q.namespace == MC and q.localname == "AlternateContent":
                fb = k.find("{%s}Fallback" % MC)
                repl = [r for r in (list(fb) if fb is not None else []) if isinstance(r.tag, str)]
                idx = el.index(k)
                kign = ign_of(k, ign)
                el.remove(k)
                for j, r in enumerate(repl):
                    el.insert(idx + j, r)
                for r in repl:
                    walk(r, kign)
            elif q.namespace in ign:
                el.remove(k)
            else:
                walk(k, ign)

    walk(root, frozenset())
    return root


# ----------------------------------------------------------------- node encoding
def pfx_name(clark):
    """{uri}local -> 'p:local' with the translator's prefixes; no namespace -> 'local'."""
    if clark[0] != "{":
        return clark
    uri, local = clark[1:].split("}")
    p = NSPFX.get(uri)
    return "%s:%s" % (p, local) if p else "?{%s}%s" % (uri, local)


def encode(el, tag_ids, attr_ids):
    """lxml element (already mc-preprocessed) -> (tag id, [(attr id, text)], [children]).
    Character content travels as pseudo attribute 0: verbatim for a leaf; for an element with
    element children only when some text or tail is not white space."""
    from lxml import etree

    raw_text = etree._Element.text.__get__      # oxml classes shadow .text with their own property
    raw_tail = etree._Element.tail.__get__
    kids = [k for k in el if isinstance(k.tag, str)]
    attrs = [(attr_ids.get(pfx_name(a), FOREIGN), v) for a, v in el.attrib.items()]
    txt = (raw_text(el) or "") + "".join((raw_tail(k) or "") for k in el)
    if not kids:
        if txt != "":
            attrs.append((TEXT_ATTR, txt))
    elif txt.strip(" \t\r\n") != "":
        attrs.append((TEXT_ATTR, txt))
    return (tag_ids.get(pfx_name(el.tag), FOREIGN), attrs, [encode(k, tag_ids, attr_ids) for k in kids])


def stream(node, out=None):
    """node -> flat list of ints: tag, nattrs, (name, len, chars...)*, nkids, kids..."""
    out = [] if out is None else out
    t, attrs, kids = node
    out.append(t)
    out.append(len(attrs))
    for a, v in attrs:
        out.append(a)
        out.append(len(v))
        out.extend(ord(c) for c in v)
    out.append(len(kids))
    for k in kids:
        stream(k, out)
    return out


def coq_text(s):
    if s and all(32 <= ord(c) < 127 and c != '"' for c in s):
        return '(Tx "%s")' % s
    return "[" + "; ".join(str(ord(c)) for c in s) + "]"


def coq_node(node, ind=0):
    t, attrs, kids = node
    a = "; ".join("(%d, %s)" % (n, coq_text(v)) for n, v in attrs)
    if not kids:
        return "Elem %d [%s] []" % (t, a)
    pad = " " * (ind + 1)
    return "Elem %d [%s] [\n%s%s]" % (t, a, pad, (";\n" + pad).join(coq_node(k, ind + 1) for k in kids))


def node_size(node):
    return 1 + sum(node_size(k) for k in node[2])


# ----------------------------------------------------------------- schema tables
def build_schema(sch, unm):
    import tx_c11

    # the xml: prefix is implicitly bound (xml:lang in the OPC core-properties schema)
    for table in (sch.ctypes, sch.agroups, sch.gattrs):
        for k, (e, nsmap, pfx, form) in list(table.items()):
            if "xml" not in nsmap:
                table[k] = (e, dict(nsmap, xml="http://www.w3.org/XML/1998/namespace"), pfx, form)
    tags = Interner()                  # "#any" -> 0
    attrs = {"#text": TEXT_ATTR}

    def aid(name):
        if name not in attrs:
            attrs[name] = len(attrs)
        return attrs[name]

    type_ids = {}
    for q in sorted(sch.ctypes):
        type_ids[q] = len(type_ids)
    simple_ids = {}                    # simple type key -> id of the synthesised element type
    lexdefs = {}                       # qname -> (coq name, coq term, python lexspec)
    limits = set()

    def lex_of(q):
        """coq term (a name when the simple type is named) of the lexical space of q"""
        if q is None:
            return "LString", ("string",)
        if q[0] == "inline":
            lx = tx_c11.lexspec(sch, q, unm)
            note_unknown(lx, "inline")
            return tx_c11.lex_to_coq(lx), lx
        if q not in lexdefs:
            lx = tx_c11.lexspec(sch, q, unm)
            note_unknown(lx, "%s:%s" % q)
            nm = "L_%s_%s" % (q[0], "".join(c if c.isalnum() else "_" for c in q[1]))
            lexdefs[q] = (nm, tx_c11.lex_to_coq(lx), lx)
        return lexdefs[q][0], lexdefs[q][2]

    def note_unknown(lx, where):
        if lx[0] == "unknown":
            limits.add("%s: %s" % (where, lx[1] if len(lx) > 1 else "?"))
        elif lx[0] == "union":
            for m in lx[1]:
                note_unknown(m, where)

    def simple_elem_type(ty):
        key = ty
        if key not in simple_ids:
            simple_ids[key] = len(type_ids) + len(simple_ids)
        return simple_ids[key]

    rows = {}
    untyped = []
    lunm = []          # builtin types tx_c11 does not express: lexical limits, not unmodelled constructs
    unm_outer, unm = unm, lunm
    for q, tid in type_ids.items():
        cm = sch.ctype_cm(q)
        kids = {}
        acc = {}
        sch._child_types(cm, acc)
        for t, tys in sorted(acc.items()):
            tys = {x for x in tys}
            if len(tys) != 1:
                unm_outer.append("child %s of %s:%s has %d types" % (t, q[0], q[1], len(tys)))
                continue
            ty = next(iter(tys))
            if ty is None:
                untyped.append("%s:%s/%s" % (q[0], q[1], t))
                continue
            if ty in sch.ctypes:
                kids[t] = type_ids[ty]
            elif ty in sch.stypes or ty[0] == "xsd":
                kids[t] = simple_elem_type(ty)
            else:
                untyped.append("%s:%s/%s (type %s:%s not loaded)" % (q[0], q[1], t, ty[0], ty[1]))
        adecls = []
        for an, (aty, use, _dflt) in sorted(tx_c11.attrs_of(sch, q).items()):
            if use == "prohibited":
                continue
            lname, _lx = lex_of(aty)
            adecls.append((an, lname, use == "required"))
        # simple content (not used by pml/dml, present in the shared schemas)
        e = sch.ctypes[q][0]
        text = None
        sc = e.find(XS + "simpleContent")
        if sc is not None:
            ext = [x for x in sc if isinstance(x.tag, str) and x.tag != XS + "annotation"][0]
            base = sch.qn(ext.get("base"), sch.ctypes[q][1], sch.ctypes[q][2])
            text = lex_of(base)[0] if base not in sch.ctypes else "LString"
        if e.get("mixed") == "true":
            text = "LString"
        rows[tid] = {"q": "%s:%s" % q, "cm": cm, "kids": kids, "attrs": adecls, "text": text}
    for ty, tid in simple_ids.items():
        rows[tid] = {"q": "elem-of-%s:%s" % ty, "cm": ("seq", []), "kids": {}, "attrs": [], "text": lex_of(ty)[0]}
    globals_ = {}
    for q, (e, nsmap, pfx, _f) in sorted(sch.gelems.items()):
        if not e.get("type"):
            continue
        ty = sch.qn(e.get("type"), nsmap, pfx)
        tag = "%s:%s" % q
        if ty in sch.ctypes:
            globals_[tag] = type_ids[ty]
        elif ty in sch.stypes or ty[0] == "xsd":
            globals_[tag] = simple_elem_type(ty)
            if globals_[tag] not in rows:
                rows[globals_[tag]] = {"q": "elem-of-%s:%s" % ty, "cm": ("seq", []), "kids": {}, "attrs": [],
                                       "text": lex_of(ty)[0]}
    # emit
    L = []
    for q in sorted(lexdefs):
        nm, term, _lx = lexdefs[q]
        L.append("Definition %s : lexspec := %s." % (nm, term))
    tdefs = []
    for tid in sorted(rows):
        r = rows[tid]
        cmt = coq_cm(r["cm"], tags)
        al = "; ".join("{| ad_name := %d; ad_lex := %s; ad_req := %s |}" % (aid(an), ln, "true" if rq else "false")
                       for an, ln, rq in r["attrs"])
        kl = "; ".join("(%d, %d)" % (tags(t), k) for t, k in sorted(r["kids"].items()))
        tdefs.append("Definition ty_%d : ctype := (* %s *)\n  {| ct_cm := %s;\n     ct_attrs := [%s];\n     ct_kids := [%s];\n     ct_text := %s |}." % (
            tid, r["q"], cmt, al, kl, "None" if r["text"] is None else "(Some %s)" % r["text"]))
    L += tdefs
    gl = "; ".join("(%d, %d)" % (tags(t), k) for t, k in sorted(globals_.items()))
    L.append("Definition schema0 : schema :=\n  {| sc_types := [%s];\n     sc_globals := [%s] |}." % (
        "; ".join("(%d, ty_%d)" % (t, t) for t in sorted(rows)), gl))
    for u in lunm:
        limits.add(u)
    unm = unm_outer
    meta = {"types": {r["q"]: tid for tid, r in rows.items()}, "globals": globals_, "untyped_children": sorted(set(untyped)),
            "lex_limits": sorted(limits), "n_types": len(rows)}
    return L, tags, attrs, aid, type_ids, rows, meta


# ----------------------------------------------------------------- templates
def tiny_png():
    from PIL import Image
    b = io.BytesIO()
    Image.new("RGB", (3, 2), (200, 10, 10)).save(b, "PNG")
    b.seek(0)
    return b


def element_templates(unm):
    """[(name, element, xsd type 'p:CT_Shape' or None = by global element / unique tag type, complete?)]"""
    from pptx.enum.shapes import PP_PLACEHOLDER
    from pptx.oxml.chart.chart import CT_Chart
    from pptx.oxml.chart.datalabel import CT_DLbl, CT_DLbls
    from pptx.oxml.chart.series import CT_DPt
    from pptx.oxml.chart.shared import CT_Title, CT_Tx
    from pptx.oxml.coreprops import CT_CoreProperties
    from pptx.oxml.dml.fill import CT_GradientFillProperties, CT_PatternFillProperties
    from pptx.oxml.shapes.autoshape import CT_Shape
    from pptx.oxml.shapes.connector import CT_Connector
    from pptx.oxml.shapes.graphfrm import CT_GraphicalObjectFrame
    from pptx.oxml.shapes.groupshape import CT_GroupShape
    from pptx.oxml.shapes.picture import CT_Picture
    from pptx.oxml.slide import CT_Background, CT_CommonSlideData, CT_NotesMaster, CT_NotesSlide, CT_Slide, CT_TimeNodeList
    from pptx.oxml.table import CT_Table, CT_TableCell
    from pptx.oxml.text import CT_TextBody, CT_TextParagraph
    from pptx.oxml.theme import CT_OfficeStyleSheet
    from pptx.oxml.xmlchemy import OxmlElement
    from pptx.oxml import parse_xml

    E = []

    def add(name, thunk, ty=None, complete=True):
        try:
            E.append((name, thunk(), ty, complete))
        except Exception as e:  # noqa
            unm.append("template %s could not be built: %r" % (name, e))

    add("CT_Shape.new_autoshape_sp", lambda: CT_Shape.new_autoshape_sp(7, "Rounded Rectangle 6", "roundRect", 10, 20, 300, 400))
    add("CT_Shape.new_freeform_sp", lambda: CT_Shape.new_freeform_sp(8, "Freeform 7", 1, 2, 30, 40))
    add("CT_Shape.new_textbox_sp", lambda: CT_Shape.new_textbox_sp(9, "TextBox 8", 1, 2, 30, 40))
    for ph in PP_PLACEHOLDER:
        if not ph.xml_value:
            continue
        for orient, sz in (("horz", "full"), ("vert", "half")):
            add("CT_Shape.new_placeholder_sp[%s,%s,%s]" % (ph.name, orient, sz),
                lambda ph=ph, orient=orient, sz=sz: CT_Shape.new_placeholder_sp(3, "Placeholder 2", ph, orient, sz, 11))
    add("CT_Picture.new_pic", lambda: CT_Picture.new_pic(4, "Picture 3", "a <desc> & more.png", "rId7", 1, 2, 30, 40))
    add("CT_Picture.new_ph_pic", lambda: CT_Picture.new_ph_pic(4, "Picture 3", "desc.png", "rId7"))
    add("CT_Picture.new_video_pic", lambda: CT_Picture.new_video_pic(5, "movie.mp4", "rId1", "rId2", "rId3", 1, 2, 30, 40))
    for fh, fv in ((False, False), (True, False), (False, True), (True, True)):
        add("CT_Connector.new_cxnSp[%s,%s]" % (fh, fv), lambda fh=fh, fv=fv: CT_Connector.new_cxnSp(6, "Connector 5", "line", 1, 2, 30, 40, fh, fv))
    add("CT_GroupShape.new_grpSp", lambda: CT_GroupShape.new_grpSp(7, "Group 6"))
    add("CT_GraphicalObjectFrame.new_graphicFrame", lambda: CT_GraphicalObjectFrame.new_graphicFrame(8, "Frame 7", 1, 2, 30, 40),
        complete=False)   # documented intermediate: a:graphicData gets its uri from the callers below
    add("CT_GraphicalObjectFrame.new_chart_graphicFrame", lambda: CT_GraphicalObjectFrame.new_chart_graphicFrame(8, "Chart 7", "rId4", 1, 2, 30, 40))
    add("CT_GraphicalObjectFrame.new_table_graphicFrame", lambda: CT_GraphicalObjectFrame.new_table_graphicFrame(8, "Table 7", 2, 3, 1, 2, 3000, 4000))
    add("CT_GraphicalObjectFrame.new_ole_object_graphicFrame", lambda: CT_GraphicalObjectFrame.new_ole_object_graphicFrame(
        8, "Object 7", "rId5", "Excel.Sheet.12", "rId6", 1, 2, 30, 40, 965200, 609600))
    for r, c in ((1, 1), (2, 3), (3, 1)):
        add("CT_Table.new_tbl[%d,%d]" % (r, c), lambda r=r, c=c: CT_Table.new_tbl(r, c, 3000, 4000))
    add("CT_TableCell.new", CT_TableCell.new)
    add("CT_TextBody.new", CT_TextBody.new)
    add("CT_TextBody.new_a_txBody", CT_TextBody.new_a_txBody, ty="a:CT_TextBody")
    add("CT_TextBody.new_p_txBody", CT_TextBody.new_p_txBody)
    add("CT_TextBody.new_txPr", CT_TextBody.new_txPr)
    add("CT_TextParagraph._new_r", lambda: CT_TextParagraph._new_r(OxmlElement("a:p")), ty="a:CT_RegularTextRun")
    add("CT_GradientFillProperties.new_gradFill", CT_GradientFillProperties.new_gradFill)
    add("CT_GradientFillProperties.new_gsLst", lambda: OxmlElement("a:gradFill")._new_gsLst() if hasattr(OxmlElement("a:gradFill"), "_new_gsLst")
        else __import__("pptx.oxml.dml.fill", fromlist=["x"]).CT_GradientStopList.new_gsLst())
    add("CT_PatternFillProperties._new_bgClr", lambda: OxmlElement("a:pattFill")._new_bgClr())
    add("CT_PatternFillProperties._new_fgClr", lambda: OxmlElement("a:pattFill")._new_fgClr())
    add("CT_Background.add_noFill_bgPr", lambda: OxmlElement("p:bg").add_noFill_bgPr())
    add("CT_Presentation._new_sldSz", lambda: OxmlElement("p:presentation")._new_sldSz())
    add("CT_Slide.new", CT_Slide.new)
    add("CT_Slide._childTnLst_timing_xml", lambda: parse_xml(CT_Slide._childTnLst_timing_xml()),
        complete=False)   # documented intermediate: p:childTnLst is empty until add_video appends (next row but one)
    add("CT_NotesSlide.new", CT_NotesSlide.new)
    add("CT_NotesMaster.new_default", CT_NotesMaster.new_default)
    add("CT_OfficeStyleSheet.new_default", CT_OfficeStyleSheet.new_default)
    add("CT_CoreProperties.new_coreProperties", CT_CoreProperties.new_coreProperties)

    def video():
        sld = CT_Slide.new()
        tl = sld.get_or_add_childTnLst()
        tl.add_video(17)
        return sld
    add("CT_TimeNodeList.add_video (in p:sld)", video)
    add("CT_DLbl.new_dLbl", CT_DLbl.new_dLbl)
    add("CT_DLbls.new_dLbls", CT_DLbls.new_dLbls)
    for nm in ("showCatName", "showLegendKey", "showPercent", "showSerName", "showVal", "txPr", "dLbl"):
        add("CT_DLbls._new_%s" % nm, lambda nm=nm: getattr(CT_DLbls.new_dLbls(), "_new_" + nm)())
    add("CT_DLbl._new_txPr", lambda: CT_DLbl.new_dLbl()._new_txPr())
    add("CT_DPt.new_dPt", CT_DPt.new_dPt, complete=False)   # documented intermediate: c:idx/@val is set by the caller
    add("CT_Title.new_title", CT_Title.new_title)
    add("CT_Tx._new_rich", lambda: OxmlElement("c:tx")._new_rich())
    add("CT_Chart.new_chart", lambda: CT_Chart.new_chart("rId9"))
    return E


def parse_xml_sites():
    """functions of src/pptx/oxml and chart/xmlwriter.py that call parse_xml (AST)"""
    out = set()
    for sub in ("oxml", "chart"):
        for root, _d, files in os.walk(REPO + "/src/pptx/" + sub):
            for f in sorted(files):
                if not f.endswith(".py"):
                    continue
                path = os.path.join(root, f)
                rel = os.path.relpath(path, REPO + "/src/pptx")
                tree = ast.parse(open(path, encoding="utf-8").read())
                stack = []

                class V(ast.NodeVisitor):
                    def visit_FunctionDef(self, node):
                        stack.append(node.name)
                        self.generic_visit(node)
                        stack.pop()

                    def visit_ClassDef(self, node):
                        stack.append(node.name)
                        self.generic_visit(node)
                        stack.pop()

                    def visit_Call(self, node):
                        fn = node.func
                        if isinstance(fn, ast.Name) and fn.id == "parse_xml" and stack:
                            out.add("%s|%s" % (rel, ".".join(stack)))
                        self.generic_visit(node)

                V().visit(tree)
    return out


# parse_xml call sites and which template rows (or chart rows) cover them
SITE_COVER = {
    "oxml/__init__.py|parse_xml": "definition",
    "oxml/__init__.py|parse_from_template": "definition",   # templates/*.xml: the file rows
    "oxml/dml/fill.py|CT_GradientFillProperties.new_gradFill": "CT_GradientFillProperties.new_gradFill",
    "oxml/dml/fill.py|CT_GradientStopList.new_gsLst": "CT_GradientFillProperties.new_gsLst",
    "oxml/dml/fill.py|CT_PatternFillProperties._new_bgClr": "CT_PatternFillProperties._new_bgClr",
    "oxml/dml/fill.py|CT_PatternFillProperties._new_fgClr": "CT_PatternFillProperties._new_fgClr",
    "oxml/shapes/autoshape.py|CT_Shape.new_autoshape_sp": "CT_Shape.new_autoshape_sp",
    "oxml/shapes/autoshape.py|CT_Shape.new_freeform_sp": "CT_Shape.new_freeform_sp",
    "oxml/shapes/autoshape.py|CT_Shape.new_placeholder_sp": "CT_Shape.new_placeholder_sp",
    "oxml/shapes/autoshape.py|CT_Shape.new_textbox_sp": "CT_Shape.new_textbox_sp",
    "oxml/shapes/graphfrm.py|CT_GraphicalObjectFrame.new_graphicFrame": "CT_GraphicalObjectFrame.new_graphicFrame",
    "oxml/shapes/graphfrm.py|CT_GraphicalObjectFrame.new_ole_object_graphicFrame": "CT_GraphicalObjectFrame.new_ole_object_graphicFrame",
    "oxml/shapes/picture.py|CT_Picture.new_ph_pic": "CT_Picture.new_ph_pic",
    "oxml/shapes/picture.py|CT_Picture.new_pic": "CT_Picture.new_pic",
    "oxml/shapes/picture.py|CT_Picture.new_video_pic": "CT_Picture.new_video_pic",
    "oxml/shapes/groupshape.py|CT_GroupShape.new_grpSp": "CT_GroupShape.new_grpSp",
    "oxml/shapes/connector.py|CT_Connector.new_cxnSp": "CT_Connector.new_cxnSp",
    "oxml/presentation.py|CT_Presentation._new_sldSz": "CT_Presentation._new_sldSz",
    "oxml/slide.py|CT_Background.add_noFill_bgPr": "CT_Background.add_noFill_bgPr",
    "oxml/slide.py|CT_NotesMaster.new_default": "CT_NotesMaster.new_default",
    "oxml/slide.py|CT_NotesSlide.new": "CT_NotesSlide.new",
    "oxml/slide.py|CT_Slide.new": "CT_Slide.new",
    "oxml/slide.py|CT_Slide._add_childTnLst": "CT_Slide._childTnLst_timing_xml",
    "oxml/slide.py|CT_TimeNodeList.add_video": "CT_TimeNodeList.add_video (in p:sld)",
    "oxml/text.py|CT_TextBody.new": "CT_TextBody.new",
    "oxml/text.py|CT_TextBody.new_a_txBody": "CT_TextBody.new_a_txBody",
    "oxml/text.py|CT_TextBody.new_p_txBody": "CT_TextBody.new_p_txBody",
    "oxml/text.py|CT_TextBody.new_txPr": "CT_TextBody.new_txPr",
    "oxml/text.py|CT_TextParagraph._new_r": "CT_TextParagraph._new_r",
    "oxml/coreprops.py|CT_CoreProperties.new_coreProperties": "CT_CoreProperties.new_coreProperties",
    "oxml/theme.py|CT_OfficeStyleSheet.new_default": "CT_OfficeStyleSheet.new_default",
    "oxml/table.py|CT_Table.new_tbl": "CT_Table.new_tbl",
    "oxml/table.py|CT_TableCell.new": "CT_TableCell.new",
    "oxml/chart/datalabel.py|CT_DLbl.new_dLbl": "CT_DLbl.new_dLbl",
    "oxml/chart/datalabel.py|CT_DLbls.new_dLbls": "CT_DLbls.new_dLbls",
    "oxml/chart/datalabel.py|CT_DLbls._new_showCatName": "CT_DLbls._new_showCatName",
    "oxml/chart/datalabel.py|CT_DLbls._new_showLegendKey": "CT_DLbls._new_showLegendKey",
    "oxml/chart/datalabel.py|CT_DLbls._new_showPercent": "CT_DLbls._new_showPercent",
    "oxml/chart/datalabel.py|CT_DLbls._new_showSerName": "CT_DLbls._new_showSerName",
    "oxml/chart/datalabel.py|CT_DLbls._new_showVal": "CT_DLbls._new_showVal",
    "oxml/chart/shared.py|CT_Title.new_title": "CT_Title.new_title",
    "oxml/chart/shared.py|CT_Tx._new_rich": "CT_Tx._new_rich",
    "oxml/chart/chart.py|CT_Chart.new_chart": "CT_Chart.new_chart",
}
# chart/xmlwriter.py: the writers' .xml is covered by the chart rows; the series rewriters and the
# _BaseSeriesXmlWriter fragments (tx, cat, val ...) are sub-trees of the same chart XML
CHART_SITE_PREFIX = "chart/xmlwriter.py|"


def chart_templates(unm):
    from tx_c20 import data_grids, writer_dispatch_ast
    from pptx.chart.xmlwriter import ChartXmlWriter
    from pptx.enum.chart import XL_CHART_TYPE
    from pptx.oxml import parse_xml

    out = []
    for mname, wname in writer_dispatch_ast(unm):
        if mname not in XL_CHART_TYPE.__members__:
            unm.append("ChartXmlWriter dispatches on XL_CT.%s which is not a member" % mname)
            continue
        for gname, data in data_grids(wname):
            try:
                xml = ChartXmlWriter(XL_CHART_TYPE[mname], data).xml
                out.append(("chart[%s,%s]" % (mname, gname), parse_xml(xml.encode("utf-8")), None, True))
            except Exception as e:  # noqa
                unm.append("chart writer %s failed on the %s grid for %s: %r" % (wname, gname, mname, e))
    return out


def file_templates(unm):
    from lxml import etree

    out = []
    tdir = REPO + "/src/pptx/templates"
    for f in sorted(os.listdir(tdir)):
        if f.endswith(".xml"):
            out.append(("templates/" + f, etree.parse(os.path.join(tdir, f)).getroot(), None, True))
    z = zipfile.ZipFile(os.path.join(tdir, "default.pptx"))
    for i in sorted(z.infolist(), key=lambda i: i.filename):
        if i.filename.endswith((".xml", ".rels")):
            try:
                out.append(("default.pptx!" + i.filename, etree.fromstring(z.read(i)), None, True))
            except Exception as e:  # noqa
                unm.append("default.pptx member %s does not parse: %r" % (i.filename, e))
    return out


# ----------------------------------------------------------------- declarations
def decl_rows(sch, type_ids, tags, unm):
    """child declarations of registered classes x XSD types of their tags (as tx_c10, on this
    schema table's ids)"""
    import tx_c10

    regs = tx_c10.registered_classes()
    by_class = {}
    for tag, cls in sorted(regs.items()):
        by_class.setdefault(cls, []).append(tag)
    rows = []
    for cls, ctags in sorted(by_class.items(), key=lambda kv: kv[0].__name__):
        ds = tx_c10.class_decls(cls)
        tys = sorted({t for tag in ctags for t in sch.tag_types.get(tag, ()) if t in sch.ctypes})
        for name, (ctag, S, kind, custom) in sorted(ds.items()):
            if custom:
                continue
            for ty in tys:
                if ctag in sch.cm_tags(sch.ctype_cm(ty)):
                    rows.append({"cls": cls.__name__, "type": "%s:%s" % ty, "ty": type_ids[ty], "child": ctag,
                                 "succ": list(S), "kind": kind, "sig": "%s/%s" % (cls.__name__, ctag)})
    return rows


def attr_rows(sch, type_ids, aid, unm):
    """attribute declarations of registered classes x XSD types declaring the attribute, with the
    descriptor tx_c11 claims for the simple-type class (proved there for all python values)"""
    import inspect
    import tx_c11
    from pptx.enum.base import BaseXmlEnum

    regs = tx_c11.registered_classes()
    by_class = {}
    for tag, cls in sorted(regs.items()):
        by_class.setdefault(cls, []).append(tag)
    restricted = tx_c11.restricted_tag_types(sch, by_class)
    rows = []
    for cls, ctags in sorted(by_class.items(), key=lambda kv: kv[0].__name__):
        for pname, (aname, st, kind, _default) in sorted(tx_c11.attr_decls(cls).items()):
            done = set()
            for tag in ctags:
                for ty in sorted(restricted.get(tag) or sch.tag_types.get(tag, ())):
                    if ty not in sch.ctypes or ty in done:
                        continue
                    at = tx_c11.attrs_of(sch, ty)
                    if aname not in at:
                        continue
                    done.add(ty)
                    if inspect.isclass(st) and issubclass(st, BaseXmlEnum):
                        toks = list(dict.fromkeys(m.xml_value for m in st if getattr(m, "xml_value", None)))
                        d = "(DEnumTokens [%s])" % "; ".join("[" + "; ".join(str(ord(c)) for c in t) + "]" for t in toks)
                    else:
                        try:
                            d = tx_c11.probe_desc(st).replace("%N", "")
                        except Exception as e:  # noqa
                            unm.append("descriptor probe failed for %s: %r" % (st.__name__, e))
                            continue
                    rows.append({"cls": cls.__name__, "type": "%s:%s" % ty, "ty": type_ids[ty], "attr": aname, "aid": aid(aname),
                                 "st": st.__name__, "desc": d, "sig": "%s/@%s:%s" % (cls.__name__, aname, st.__name__)})
    return rows


# ----------------------------------------------------------------- main
def load_meta():
    return json.load(open(os.path.join(VERIF, "coq", "gen", "c03_meta.json")))


def main():
    unm = []
    sch = Schemas()
    unm += sch.unmodelled
    L, tags, attrs, aid, type_ids, rows, smeta = build_schema(sch, unm)
    qid = smeta["types"]

    tpls = []
    els = file_templates(unm) + element_templates(unm) + chart_templates(unm)
    # every parse_xml site of the library is covered by a template row
    names = {n.split("[")[0] for n, _e, _t, _c in els}
    for site in sorted(parse_xml_sites()):
        if site.startswith(CHART_SITE_PREFIX):
            continue
        cov = SITE_COVER.get(site)
        if cov is None:
            unm.append("parse_xml site without a template row: " + site)
        elif cov != "definition" and cov not in names:
            unm.append("template row %s (covering %s) is missing" % (cov, site))
    # declarations first: they may intern successor tags the schema tables do not hold
    drows = decl_rows(sch, type_ids, tags, unm)
    arows = attr_rows(sch, type_ids, aid, unm)
    for r in drows:
        tags(r["child"])
        for s_ in r["succ"]:
            tags(s_)
    known_exempt = []
    # VERIF_KF: alternative known-findings file, for trying out exemptions without touching the real one
    kf_path = os.environ.get("VERIF_KF") or os.path.join(VERIF, "known_findings.json")
    if os.path.exists(kf_path):
        for e in json.load(open(kf_path)):
            if e.get("property") == "C03" and e.get("status") == "known":
                for s in e.get("signature", "").split(";"):
                    s = s.strip()
                    if s.startswith("template-attr:"):
                        t, a = s[len("template-attr:"):].split("/@")
                        known_exempt.append((t, a))
                    if s.startswith("template-content:"):
                        t, c = s[len("template-content:"):].split("/")
                        known_exempt.append((t, "#child:" + c))
    tmeta = []
    tdefs = []
    for i, (name, el, ty, complete) in enumerate(els):
        root = mc_preprocess(el)
        rtag = pfx_name(root.tag)
        if ty is None:
            if rtag in smeta["globals"]:
                tid = smeta["globals"][rtag]
            else:
                cands = sorted({qid["%s:%s" % t] for t in sch.tag_types.get(rtag, ()) if "%s:%s" % t in qid})
                if len(cands) != 1:
                    unm.append("template %s: root <%s> has %d candidate types" % (name, rtag, len(cands)))
                    continue
                tid = cands[0]
        else:
            tid = qid[ty]
        node = encode(root, tags.ids, attrs)
        tmeta.append({"id": i, "name": name, "root": rtag, "ty": tid, "type": rows[tid]["q"], "complete": complete,
                      "size": node_size(node), "stream": stream(node)})
        tdefs.append("Definition tpl_%d : node := (* %s *)\n %s." % (i, name.replace("*", "x"), coq_node(node)))
    known_decl, known_attr = set(), set()
    if os.path.exists(kf_path):
        for e in json.load(open(kf_path)):
            if e.get("status") == "known" and e.get("property") in ("C03", "C10", "C11"):
                for s in e.get("signature", "").split(";"):
                    s = s.strip()
                    if s.startswith("decl:"):
                        known_decl.add(s[5:])
                    if s.startswith("attr-write:"):
                        known_attr.add(e.get("row", "") or s[len("attr-write:"):])
    out = ["(* GENERATED by tx/tx_c03.py from /repo -- do not edit *)",
           "From Coq Require Import String.",
           "From V.lib Require Import Prelude PyFloat PyVal.",
           "From V.model Require Import Schema SimpleTypeLib XmlValid.",
           "Open Scope N_scope.", "Open Scope string_scope."]
    out += L
    out += tdefs
    out.append("Definition templates : list tpl := [\n%s\n]." % ";\n".join(
        "  {| tp_id := %d; tp_ty := %d; tp_complete := %s; tp_node := tpl_%d |}" % (
            m["id"], m["ty"], "true" if m["complete"] else "false", m["id"]) for m in tmeta))
    out.append("Definition exempt : list (tag * aname) := [%s]." % "; ".join(
        "(%d, %d)" % (tags.ids.get(t, FOREIGN), (1000000 + tags.ids.get(a[7:], FOREIGN)) if a.startswith("#child:") else attrs.get(a, FOREIGN))
        for t, a in known_exempt))
    for i, r in enumerate(drows):
        r["id"] = i
    out.append("Definition decls : list decl := [\n%s\n]." % ";\n".join(
        "  {| dc_id := %d; dc_ty := %d; dc_child := %d; dc_succ := [%s] |}" % (
            r["id"], r["ty"], tags(r["child"]), "; ".join(str(tags(s)) for s in r["succ"])) for r in drows))
    out.append("Definition known_decl : list N := [%s]." % "; ".join(str(r["id"]) for r in drows if r["sig"] in known_decl))
    grp = {}
    for i, r in enumerate(arows):
        r["id"] = i
        r["grp"] = grp.setdefault((r["cls"], r["attr"]), len(grp))
    out.append("Definition adecls : list attrdecl := [\n%s\n]." % ";\n".join(
        "  {| at_id := %d; at_grp := %d; at_ty := %d; at_name := %d; at_desc := %s |}" % (r["id"], r["grp"], r["ty"], r["aid"], r["desc"]) for r in arows))
    out.append("Definition known_attr : list N := [%s]." % "; ".join(str(r["id"]) for r in arows if r["sig"] in known_attr))
    # a worked example for the non-vacuity statements: the textbox template, get_or_add of a:ln under
    # p:spPr with the successors CT_ShapeProperties declares, then a name written on p:cNvPr
    ex_t = next((m for m in tmeta if m["name"] == "CT_Shape.new_textbox_sp"), None)
    ex_d = next((r for r in drows if r["cls"] == "CT_ShapeProperties" and r["child"] == "a:ln" and r["type"] == "a:CT_ShapeProperties"), None)
    if ex_t is None or ex_d is None or "name" not in attrs:
        unm.append("worked example (textbox template / CT_ShapeProperties a:ln declaration) not available")
    else:
        out.append("Definition ex_tree : node := tpl_%d." % ex_t["id"])
        out.append("Definition ex_ty : N := %d." % ex_t["ty"])
        out.append("Definition ex_ops : list xop := [\n  {| xo_path := [1%%nat]; xo_op := GetOrAdd (Elem %d [] []) [%s] |};\n"
                   "  {| xo_path := [0%%nat; 0%%nat]; xo_op := SetAttr %d DStrAny (PStr (Tx \"renamed\")) |};\n"
                   "  {| xo_path := [1%%nat]; xo_op := Remove [%d] |}]." % (
                       tags(ex_d["child"]), "; ".join(str(tags(x)) for x in ex_d["succ"]), attrs["name"], tags("a:xfrm")))
        out.append("Definition ex_refused : xop := {| xo_path := [0%%nat; 0%%nat]; xo_op := SetAttr %d (DIntRange 0 10) (PStr (Tx \"x\")) |}." % attrs["id"])
    out.append("Close Scope string_scope.")
    out.append("Close Scope N_scope.")
    out.append("Definition n_unmodelled : nat := %d%%nat." % len(unm))
    write_if_changed(os.path.join(VERIF, "coq", "gen", "GenC03.v"), "\n".join(out) + "\n")
    names_t = {str(v): k for k, v in tags.ids.items()}
    names_a = {str(v): k for k, v in attrs.items()}
    smeta.update({"tag_ids": tags.ids, "attr_ids": attrs, "tag_names": names_t, "attr_names": names_a,
                  "templates": tmeta, "unmodelled": unm, "decls": drows, "adecls": arows,
                  "type_names": {str(tid): r["q"] for tid, r in rows.items()},
                  "exempt": known_exempt})
    json.dump(smeta, open(os.path.join(VERIF, "coq", "gen", "c03_meta.json"), "w"))
    print("tx_c03: %d types, %d tags, %d attribute names, %d templates (%d elements), %d child decls, %d attr decls, %d lexical limits, %d unmodelled" % (
        smeta["n_types"], len(tags.ids), len(attrs), len(tmeta), sum(m["size"] for m in tmeta), len(drows), len(arows),
        len(smeta["lex_limits"]), len(unm)))


if __name__ == "__main__":
    main()
