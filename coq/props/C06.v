(** C06 -- shape ids, slide ids, relationship ids and part names are unique and stable.
    Statements over model/Ids.v; proofs in proofs/Ids_proofs.v. *)
From Coq Require Import Permutation Sorted.
From V.lib Require Import Prelude Wire.
From V.model Require Import PackUri Ids.
From V.proofs Require Import Prelude_proofs PackUri_proofs Ids_proofs.
Local Open Scope Z_scope.

(* ---------------------------------------------------------------- relationship ids *)

(** For EVERY list of keys (canonical or not: rId007, RID3, anything; duplicates too) the
    downward search returns a candidate, the candidate is not a key, it is rIdK for the
    largest K <= len+1 that is free -- so the final raise of _next_rId is unreachable. *)
Theorem C06_rid_fresh : forall keys : list str,
  exists r, next_rId keys = Ok r /\ ~ In r keys /\
    exists k, (1 <= k <= N.of_nat (S (length keys)))%N /\ r = rId_name k /\
              forall j, (k < j <= N.of_nat (S (length keys)))%N -> In (rId_name j) keys.
Proof. exact rid_fresh. Qed.
Print Assumptions C06_rid_fresh.

(** over the Id attributes of a .rels file as loaded (later duplicates overwrite) *)
Theorem C06_rid_fresh_xml : forall xml_ids : list str,
  NoDup (load_keys xml_ids) /\
  exists r, next_rId (load_keys xml_ids) = Ok r /\ ~ In r xml_ids.
Proof. exact rid_fresh_xml. Qed.
Print Assumptions C06_rid_fresh_xml.

(** One relate_to / drop_rel step from any consistent collection (keys distinct, every
    r:id reference is a key): consistency is kept; a new relationship gets an rId that is
    neither a key nor referenced in the part (not reassigned while in use); drop_rel
    removes an entry only with its last reference and leaves all others as they were. *)
Theorem C06_rid_step : forall st op, rel_inv st ->
  rel_inv (fst (rstep st op)) /\
  match op with
  | Relate t =>
      exists k, snd (rstep st op) = Ok k /\ refs (fst (rstep st op)) = refs st ++ [k] /\
        ((In (k, t) (rels st) /\ rels (fst (rstep st op)) = rels st) \/
         (~ In k (rkeys st) /\ ~ In k (refs st) /\ rels (fst (rstep st op)) = rels st ++ [(k, t)]))
  | DropRef i =>
      forall k t, In (k, t) (rels st) ->
        In (k, t) (rels (fst (rstep st op))) \/
        (nth_error (refs st) i = Some k /\ ~ In k (refs (fst (rstep st op))))
  end.
Proof. exact rid_step. Qed.
Print Assumptions C06_rid_step.

(** ... hence after any history of such steps *)
Theorem C06_rid_history : forall ops st, rel_inv st -> rel_inv (fst (rrun st ops)).
Proof. exact rid_history. Qed.
Print Assumptions C06_rid_history.

(* ---------------------------------------------------------------- part names *)

(** next_partname: fresh among ALL part names of the package, of the form tmpl % k with
    k >= 1; the final raise is unreachable; it fails only when PackURI refuses a template
    that does not start with a slash. *)
Theorem C06_partname_fresh : forall pre post names,
  match next_partname pre post names with
  | Ok r => ~ In r names /\ exists k, (1 <= k)%N /\ r = tmpl_apply pre post k
  | Err e => (e = ValueErr \/ e = IndexErr) /\ forall r, pre <> c_slash :: r
  end.
Proof. exact partname_fresh. Qed.
Print Assumptions C06_partname_fresh.

(** which one: the largest free candidate not above one more than the number of distinct
    part names sharing the prefix of the template *)
Theorem C06_partname_largest : forall pre post names r,
  next_partname pre post names = Ok r ->
  exists k, (1 <= k <= N.of_nat (S (length (dedup (filter (starts_with (tmpl_prefix pre post)) names)))))%N /\
    r = tmpl_apply pre post k /\
    forall j, (k < j <= N.of_nat (S (length (dedup (filter (starts_with (tmpl_prefix pre post)) names)))))%N ->
              In (tmpl_apply pre post j) names.
Proof. exact partname_largest. Qed.
Print Assumptions C06_partname_largest.

Theorem C06_image_idx : forall names,
  (1 <= next_image_idx names /\ ~ In (next_image_idx names) (image_idxs names)) /\
  (NoDup (image_idxs names) -> (forall x, In x (image_idxs names) -> 1 <= x) ->
   forall k, 1 <= k < next_image_idx names -> In k (image_idxs names)).
Proof. exact image_idx_both. Qed.
Print Assumptions C06_image_idx.

Theorem C06_image_name_fresh : forall ext names r,
  no_dot ext = true -> forallb not_slash ext = true ->
  next_image_partname ext names = Ok r -> ~ In r names.
Proof. exact image_name_fresh. Qed.
Print Assumptions C06_image_name_fresh.

(** next_media_partname: index fresh; TypeError exactly when a part under
    /ppt/media/media... has no numeric index (there is no None filter in the code) *)
Theorem C06_media_idx : forall names,
  match next_media_idx names with
  | Ok i => 1 <= i /\
            ~ In i (map Z.of_N (opts_some (map idx (filter (starts_with s_med_prefix) names))))
  | Err e => e = TypeErr /\ exists n, In n names /\ starts_with s_med_prefix n = true /\ idx n = None
  end.
Proof. exact media_idx_spec. Qed.
Print Assumptions C06_media_idx.

Theorem C06_media_name_fresh : forall ext names r,
  no_dot ext = true -> forallb not_slash ext = true ->
  next_media_partname ext names = Ok r -> ~ In r names.
Proof. exact media_name_fresh. Qed.
Print Assumptions C06_media_name_fresh.

(* ---------------------------------------------------------------- shape ids *)

(** max+1 allocator on ANY population of @id strings: whenever it returns, the id is
    positive, greater than every numeric id present, and its decimal text is not among
    the existing attribute values. *)
Theorem C06_shape_max_fresh : forall ids r, next_shape_id_max ids = Ok r ->
  0 < r /\ (forall v, In v (num_ids ids) -> v < r) /\ ~ In r (num_ids ids) /\ ~ In (show_Z r) ids.
Proof. exact shape_max_fresh. Qed.
Print Assumptions C06_shape_max_fresh.

(** first-gap allocator: never falls off its loop; least positive integer not in use *)
Theorem C06_shape_gap_fresh : forall ids,
  next_shape_id_gap ids <> Err TypeErr /\
  forall r, next_shape_id_gap ids = Ok r ->
    1 <= r /\ ~ In r (num_ids ids) /\ (forall k, 1 <= k < r -> In k (num_ids ids)) /\
    ~ In (show_Z r) ids.
Proof. exact shape_gap_fresh. Qed.
Print Assumptions C06_shape_gap_fresh.

(** Since the repair (str.isdecimal filter): the scan raises (always ValueError) exactly
    when some all-decimal @id has more than 4300 digits (the int digit limit of CPython
    3.12) -- never because of a digit-like character. *)
Theorem C06_shape_alloc_raises_iff : forall ids,
  (exists e, next_shape_id_max ids = Err e) <->
  exists s, In s ids /\ py_isdecimal s = true /\ (max_str_digits < N.of_nat (length s))%N.
Proof. exact shape_alloc_raises_len_iff. Qed.
Print Assumptions C06_shape_alloc_raises_iff.

(** every population whose values have at most 4300 characters is served by both allocators *)
Theorem C06_shape_alloc_total : forall ids,
  (forall s, In s ids -> (N.of_nat (length s) <= max_str_digits)%N) ->
  (exists r, next_shape_id_max ids = Ok r) /\ (exists g, next_shape_id_gap ids = Ok g).
Proof. exact shape_alloc_total. Qed.
Print Assumptions C06_shape_alloc_total.

(** what isdecimal accepts and int refuses: only the length limit *)
Theorem C06_isdecimal_int_fails_iff : forall s, py_isdecimal s = true ->
  (py_int s = Err ValueErr <-> (max_str_digits < N.of_nat (length s))%N).
Proof. exact isdecimal_int_fails_iff. Qed.
Print Assumptions C06_isdecimal_int_fails_iff.

(** (about the builtins, kept: what isdigit accepts and int refuses -- the former defect) *)
Theorem C06_isdigit_int_fails_iff : forall s, py_isdigit s = true ->
  (py_int s = Err ValueErr <->
   (forallb is_dec s = false \/ (max_str_digits < N.of_nat (length s))%N)).
Proof. exact isdigit_int_fails_iff. Qed.
Print Assumptions C06_isdigit_int_fails_iff.

(** regression of the repaired defect: a pre-existing @id of SUPERSCRIPT TWO is ignored *)
Example C06_shape_nondecimal_regression :
  next_shape_id_max [[49%N]; [178%N]] = Ok 2 /\
  next_shape_id_gap [[49%N]; [178%N]] = Ok 2.
Proof. exact shape_nondecimal_regression. Qed.

(** Any history of additions WITHOUT turbo (any mix of the two allocators, through any
    number of proxies, connectors referring to shapes), from any population whose numeric
    shape ids are distinct: they stay distinct, and both populations only grow at the end
    (no existing id is rewritten). *)
Theorem C06_shape_history : forall ops st,
  shape_inv st -> forallb (fun o => negb (turbo_on o)) ops = true ->
  shape_inv (fst (run_ops st ops)) /\
  (exists n1, shape_ids (fst (run_ops st ops)) = shape_ids st ++ n1) /\
  (exists n2, other_ids (fst (run_ops st ops)) = other_ids st ++ n2).
Proof. exact shape_history. Qed.
Print Assumptions C06_shape_history.

(** each single addition from a state of such a history *)
Theorem C06_shape_step : forall st op, shape_inv st -> turbo_on op = false ->
  shape_inv (fst (step st op)) /\
  (forall n, snd (step st op) = Ok n -> is_add op = true ->
     0 < n /\ ~ In n (num_ids (all_ids st)) /\ ~ In (show_Z n) (all_ids st) /\
     shape_ids (fst (step st op)) = shape_ids st ++ [show_Z n]).
Proof. exact step_inv. Qed.
Print Assumptions C06_shape_step.

(** stability holds with or without turbo *)
Theorem C06_shape_stable : forall ops st,
  (exists n1, shape_ids (fst (run_ops st ops)) = shape_ids st ++ n1) /\
  (exists n2, other_ids (fst (run_ops st ops)) = other_ids st ++ n2).
Proof. exact shape_stable. Qed.
Print Assumptions C06_shape_stable.

(** FINDING: with turbo_add_enabled, add_group_shape then add_shape give the same id. *)
Theorem C06_turbo_refuted :
  exists ops, shape_inv fresh_slide /\
    snd (run_ops fresh_slide ops) = [Ok 1; Ok 2; Ok 2] /\
    ~ NoDup (num_ids (shape_ids (fst (run_ops fresh_slide ops)))).
Proof. exact turbo_refuted. Qed.
Print Assumptions C06_turbo_refuted.

(** What turbo mode does guarantee: enabled on the only proxy of a consistent part and
    followed only by max-allocator additions through that proxy, ids stay distinct and
    no addition fails. *)
Theorem C06_turbo_single_proxy_safe : forall k st m,
  shape_inv st -> caches st = [None] -> max_shape_id (all_ids st) = Ok m ->
  NoDup (num_ids (shape_ids (fst (run_ops st (SetTurbo 0 true :: repeat (AddMax 0) k))))) /\
  Forall (fun o => exists n, o = Ok n) (snd (run_ops st (SetTurbo 0 true :: repeat (AddMax 0) k))).
Proof. exact turbo_single_proxy_safe. Qed.
Print Assumptions C06_turbo_single_proxy_safe.

(** _next_ph_name: the unbounded loop stops within len(names)+1 rounds; the name is not in
    use in the part and carries the first free number from id-1 upwards *)
Theorem C06_ph_name_fresh : forall base n names,
  exists r, next_ph_name base n names = Some r /\ ~ In r names /\
    exists k, (n <= k)%N /\ r = ph_name base k /\ forall j, (n <= j < k)%N -> In (ph_name base j) names.
Proof. exact ph_name_fresh. Qed.
Print Assumptions C06_ph_name_fresh.

Theorem C06_ctn_fresh : forall ids r, next_cTn_id ids = Ok r ->
  exists u, mapM py_int ids = Ok u /\ u <> [] /\ forall v, In v u -> v < r.
Proof. exact ctn_fresh. Qed.
Print Assumptions C06_ctn_fresh.

(* ---------------------------------------------------------------- slide ids *)

(** Distinct ids, all in 256..2147483647: the new id is in range and fresh; the bare
    next(...) raises StopIteration only when every one of the 2147483392 valid ids is
    in use. *)
Theorem C06_slide_id : forall used, NoDup used -> (forall i, In i used -> valid_id i) ->
  match next_slide_id_Z used with
  | Ok r => valid_id r /\ ~ In r used
  | Err e => e = StopIter /\ (forall k, valid_id k -> In k used)
  end.
Proof. exact slide_id_Z. Qed.
Print Assumptions C06_slide_id.

(** Arbitrary integers present (also out of range), in-range ones distinct: an answer is
    in range and fresh, max+1 below the bound; StopIteration exactly when the maximum is
    at or above the bound and the in-range ids are 256,257,... without a gap. *)
Theorem C06_slide_id_gen : forall used, NoDup (valid_used used) ->
  match next_slide_id_Z used with
  | Ok r => valid_id r /\ ~ In r used /\
            (max_from (MIN_SLIDE_ID - 1) used < MAX_SLIDE_ID -> r = max_from (MIN_SLIDE_ID - 1) used + 1)
  | Err e => e = StopIter /\ MAX_SLIDE_ID <= max_from (MIN_SLIDE_ID - 1) used /\
             valid_used used <> [] /\
             sortZ (valid_used used) = zseq MIN_SLIDE_ID (length (valid_used used))
  end.
Proof. exact slide_id_Z_gen. Qed.
Print Assumptions C06_slide_id_gen.

(** reachable with one id above the bound (invalid per the schema): ids 256 and 2147483648 *)
Theorem C06_slide_id_oob_stop : next_slide_id_Z [256; 2147483648] = Err StopIter.
Proof. exact slide_id_oob_stop. Qed.
Print Assumptions C06_slide_id_oob_stop.

(** with duplicate pre-existing ids the fall-back can hand out a used id *)
Theorem C06_slide_id_dup_refuted :
  exists used r, (forall i, In i used -> valid_id i) /\ next_slide_id_Z used = Ok r /\ In r used.
Proof. exact slide_id_dup_refuted. Qed.
Print Assumptions C06_slide_id_dup_refuted.

(** the only failures of the allocator over the attribute strings: ValueError for a value
    int refuses, StopIteration from the fall-back *)
Theorem C06_slide_id_errors : forall ids e, next_slide_id ids = Err e ->
  (e = ValueErr /\ exists s, In s ids /\ py_int s = Err ValueErr) \/
  (e = StopIter /\ exists vals, mapM py_int ids = Ok vals /\ next_slide_id_Z vals = Err StopIter).
Proof. exact slide_id_errors. Qed.
Print Assumptions C06_slide_id_errors.

(** any number of add_slide on a good id list (attribute strings): existing entries are
    untouched, the list stays good, every outcome is an in-range id or StopIteration *)
Theorem C06_slide_history : forall n ids, slides_good ids ->
  slides_good (fst (add_slides n ids)) /\
  (exists new, fst (add_slides n ids) = ids ++ new) /\
  Forall (fun o => match o with Ok r => valid_id r | Err e => e = StopIter end)
         (snd (add_slides n ids)).
Proof. exact slide_history. Qed.
Print Assumptions C06_slide_history.

(* ---------------------------------------------------------------- rename_slide_parts *)

Theorem C06_rename : forall prels rIds targets names,
  resolves prels rIds targets -> NoDup targets -> (forall p, In p targets -> (p < length names)%nat) ->
  exists names', rename_slide_parts prels rIds names = Ok names' /\
    length names' = length names /\
    (forall j p, nth_error targets j = Some p ->
                 nth_error names' p = Some (slide_name (N.of_nat j + 1)%N)) /\
    (forall q, ~ In q targets -> nth_error names' q = nth_error names q) /\
    (forall j1 j2 p1 p2 s, nth_error targets j1 = Some p1 -> nth_error targets j2 = Some p2 ->
        nth_error names' p1 = Some s -> nth_error names' p2 = Some s -> j1 = j2).
Proof. exact rename_listed. Qed.
Print Assumptions C06_rename.

Theorem C06_rename_collision_iff : forall prels rIds targets names names',
  resolves prels rIds targets -> NoDup targets -> (forall p, In p targets -> (p < length names)%nat) ->
  rename_slide_parts prels rIds names = Ok names' ->
  ((exists p q s, p <> q /\ nth_error names' p = Some s /\ nth_error names' q = Some s) <->
   ((exists p q s, p <> q /\ ~ In p targets /\ ~ In q targets /\
                   nth_error names p = Some s /\ nth_error names q = Some s) \/
    (exists q j, ~ In q targets /\ (j < length targets)%nat /\
                 nth_error names q = Some (slide_name (N.of_nat j + 1)%N)))).
Proof. exact rename_collision_iff. Qed.
Print Assumptions C06_rename_collision_iff.

(** FINDING (known, unlisted-slide-partname-collision): a slide part related to the
    presentation but not listed in p:sldIdLst keeps its name while a listed slide is renamed
    onto it (all names distinct beforehand, hypotheses of C06_rename met). *)
Theorem C06_rename_unlisted_refuted :
  exists prels rIds targets names names',
    resolves prels rIds targets /\ NoDup targets /\ (forall p, In p targets -> (p < length names)%nat) /\
    NoDup names /\ rename_slide_parts prels rIds names = Ok names' /\
    exists p q s, p <> q /\ nth_error names' p = Some s /\ nth_error names' q = Some s.
Proof. exact rename_unlisted_refuted. Qed.
Print Assumptions C06_rename_unlisted_refuted.

Theorem C06_rename_effect_ok : forall prels rIds names names',
  rename_slide_parts prels rIds names = Ok names' -> rename_effect prels rIds names = names'.
Proof. exact rename_effect_ok. Qed.
Print Assumptions C06_rename_effect_ok.

(* ---------------------------------------------------------------- _next_slide_partname *)

(** the part name add_slide gives the new slide, for n p:sldId entries and ANY list of the
    part names reachable in the package: the call does not raise; the result is a slide part
    name slideK.xml, K at least 1; no reachable part carries it; it is the conventional
    slide(n+1).xml whenever no reachable part carries that name *)
Theorem C06_next_slide_partname : forall n names,
  exists k, (1 <= k)%N /\ next_slide_partname n names = Ok (slide_name k) /\
            ~ In (slide_name k) names /\
            (~ In (slide_name (N.of_nat n + 1)%N) names -> k = (N.of_nat n + 1)%N).
Proof. exact next_slide_partname_spec. Qed.
Print Assumptions C06_next_slide_partname.

(** otherwise it is what OpcPackage.next_partname answers over the same parts *)
Theorem C06_next_slide_partname_taken : forall n names,
  In (slide_name (N.of_nat n + 1)%N) names ->
  next_slide_partname n names = next_partname s_slide_pre s_xml_post names.
Proof. exact next_slide_partname_taken. Qed.
Print Assumptions C06_next_slide_partname_taken.

(** after prs.slides the conventional name is taken exactly when a part the id list does not
    list carries it *)
Theorem C06_next_slide_conventional_taken_iff : forall prels rIds targets names names' q,
  resolves prels rIds targets -> NoDup targets -> (forall p, In p targets -> (p < length names)%nat) ->
  rename_slide_parts prels rIds names = Ok names' ->
  (nth_error names' q = Some (slide_name (N.of_nat (length rIds) + 1)%N) <->
   ~ In q targets /\ nth_error names q = Some (slide_name (N.of_nat (length rIds) + 1)%N)).
Proof. exact next_slide_conventional_taken_iff. Qed.
Print Assumptions C06_next_slide_conventional_taken_iff.

Theorem C06_rename_keyerr : forall prels rIds names,
  (exists r, In r rIds /\ lookup_rel r prels = None) ->
  rename_slide_parts prels rIds names = Err KeyErr.
Proof. exact rename_keyerr. Qed.
Print Assumptions C06_rename_keyerr.

(* ---------------------------------------------------------------- non-vacuity *)

(** a population with a gap, a 2^31 id, a non-numeric id and an Arabic-Indic digit *)
Definition ex_ids : list str :=
  [[49]; [55]; [120; 55]; [50; 49; 52; 55; 52; 56; 51; 54; 52; 56]; [1635]]%N.
Example C06_ex_shape_max : next_shape_id_max ex_ids = Ok 2147483649.
Proof. vm_compute. reflexivity. Qed.
Example C06_ex_shape_gap : next_shape_id_gap ex_ids = Ok 2.
Proof. vm_compute. reflexivity. Qed.
Example C06_ex_num_ids : num_ids ex_ids = [1; 7; 2147483648; 3].
Proof. vm_compute. reflexivity. Qed.

Definition ex_state : sstate := mkS [[49]; [55]; [50]]%N [[120; 55]]%N [None].
Example C06_ex_shape_inv : shape_inv ex_state.
Proof.
  split; [repeat constructor|]. vm_compute.
  repeat constructor; simpl; intuition discriminate.
Qed.
Example C06_ex_history :
  snd (run_ops ex_state [AddMax 0; AddGap; NewHandle; AddMax 1; Connect 1; AddGap])
  = [Ok 8; Ok 3; Ok 0; Ok 9; Ok 7; Ok 4].
Proof. vm_compute. reflexivity. Qed.

Example C06_ex_turbo_safe :
  snd (run_ops ex_state (SetTurbo 0 true :: repeat (AddMax 0) 3)) = [Ok 7; Ok 8; Ok 9; Ok 10].
Proof. vm_compute. reflexivity. Qed.

Example C06_ex_slide_upper : next_slide_id_Z [256; 2147483647; 258] = Ok 257.
Proof. vm_compute. reflexivity. Qed.
Example C06_ex_slide_good : slides_good [[50; 53; 54]; [50; 49; 52; 55; 52; 56; 51; 54; 52; 55]]%N.
Proof.
  exists [256; 2147483647]. split; [vm_compute; reflexivity|]. split.
  - repeat constructor; simpl; intuition discriminate.
  - intros i [<-|[<-|[]]]; unfold valid_id, MIN_SLIDE_ID, MAX_SLIDE_ID; lia.
Qed.

(** non-canonical keys do not disturb the search: rId007 and RID3 are just other strings *)
Example C06_ex_rid :
  next_rId [[114; 73; 100; 49]; [114; 73; 100; 48; 48; 55]; [82; 73; 68; 51]; [114; 73; 100; 52]]%N
  = Ok (rId_name 5).
Proof. vm_compute. reflexivity. Qed.
Example C06_ex_rel_inv : rel_inv (mkR [(rId_name 1, [97%N]); (rId_name 3, [98%N])] [rId_name 3; rId_name 3]).
Proof.
  split.
  - repeat constructor; simpl; intuition discriminate.
  - intros x [<-|[<-|[]]]; simpl; auto.
Qed.
Example C06_ex_rel_history :
  snd (rrun (mkR [(rId_name 1, [97%N]); (rId_name 3, [98%N])] [rId_name 3; rId_name 3])
            [Relate [99%N]; DropRef 0; DropRef 0; Relate [100%N]])
  = [Ok (rId_name 2); Ok (rId_name 3); Ok (rId_name 3); Ok (rId_name 3)].
Proof. vm_compute. reflexivity. Qed.

Example C06_ex_partname :
  next_partname s_slide_pre s_xml_post [slide_name 1; slide_name 3] = Ok (slide_name 2).
Proof. vm_compute. reflexivity. Qed.
Example C06_ex_image :
  next_image_partname [112; 110; 103]%N
    [s_img_prefix ++ [49; 46; 112; 110; 103]; s_img_prefix ++ [51; 46; 106; 112; 103]]%N
  = Ok (s_img_prefix ++ [50; 46; 112; 110; 103])%N.
Proof. vm_compute. reflexivity. Qed.

Example C06_ex_rename :
  rename_slide_parts [(rId_name 2, 1%nat); (rId_name 5, O)] [rId_name 2; rId_name 5]
                     [slide_name 7; slide_name 9; slide_name 1 ++ [120%N]]
  = Ok [slide_name 2; slide_name 1; slide_name 1 ++ [120%N]].
Proof. vm_compute. reflexivity. Qed.
Example C06_ex_resolves :
  resolves [(rId_name 2, 1%nat); (rId_name 5, O)] [rId_name 2; rId_name 5] [1%nat; O].
Proof. repeat constructor. Qed.

(** the witness of C06_rename_unlisted_refuted: slide2.xml listed, slide1.xml related only *)
Example C06_ex_rename_unlisted :
  rename_slide_parts [(rId_name 1, O); (rId_name 2, 1%nat)] [rId_name 1] [slide_name 2; slide_name 1]
  = Ok [slide_name 1; slide_name 1].
Proof. vm_compute. reflexivity. Qed.

(** _next_slide_partname: the conventional name when it is free (hypothesis of the last
    conjunct of C06_next_slide_partname met) ... *)
Example C06_ex_next_slide_free :
  ~ In (slide_name 3) [slide_name 1; slide_name 2; s_img_prefix] /\
  next_slide_partname 2 [slide_name 1; slide_name 2; s_img_prefix] = Ok (slide_name 3).
Proof.
  split; [|vm_compute; reflexivity].
  intros [H|[H|[H|[]]]]; try (apply Ids_proofs.slide_name_inj in H; discriminate). discriminate.
Qed.
(** ... three slides, the second one removed (relationship dropped, p:sldId removed): slide3.xml is
    taken (hypothesis of C06_next_slide_partname_taken met), the downward search finds slide2.xml ... *)
Example C06_ex_next_slide_gap :
  In (slide_name 3) [slide_name 1; slide_name 3] /\
  next_slide_partname 2 [slide_name 1; slide_name 3] = Ok (slide_name 2).
Proof. split; [right; left; reflexivity|vm_compute; reflexivity]. Qed.
(** ... one slide listed, a second one related but not listed: slide2.xml is taken *)
Example C06_ex_next_slide_unlisted :
  next_slide_partname 1 [slide_name 1; slide_name 2] = Ok (slide_name 3).
Proof. vm_compute. reflexivity. Qed.
(** ... a rename that raised half way: the effect is what the search sees *)
Example C06_ex_rename_effect :
  rename_slide_parts [(rId_name 1, O)] [rId_name 1; rId_name 9] [slide_name 3; slide_name 4] = Err KeyErr /\
  rename_effect [(rId_name 1, O)] [rId_name 1; rId_name 9] [slide_name 3; slide_name 4] = [slide_name 1; slide_name 4].
Proof. vm_compute. split; reflexivity. Qed.
