(** C13 model, deck level: WHICH part each entry of the slide list designates.

    model/Placeholder.v says what a slide looks like; its deck is a plain list of slide states.
    Here the presentation part is modelled with what python-pptx really keeps:

      - the parts the presentation part is related to, identified by their POSITION in [p_parts]
        (object identity; parts are never deleted in a session, an unrelated part is simply not
        reached any more), each with its part NAME (a property of the object that can change and
        that two objects can share) and, for a slide part, the slide state of Placeholder.v;
      - the relationship collection of the presentation part, a dict in insertion order
        (PkgOps.relr, with PkgOps.get_or_add / pop_rel / related_part: a relationship is
        found by the IDENTITY of its target part, opc/package.py _Relationships._get_matching);
      - the p:sldIdLst: (id, r:id) pairs in document order.

    Mirrors (python-pptx, src/pptx):
      slide.py              Slides.__getitem__ / __iter__ / __len__ (sldId -> related_part(rId).slide),
                            Slides.add_slide (part + relationship first, placeholders next, p:sldId last)
      parts/presentation.py add_slide, _next_slide_partname (slide<len(sldIdLst)+1>.xml when no reachable
                            part carries that name, else OpcPackage.next_partname, since 086e8ef1),
                            rename_slide_parts, notes_master_part (lazily created and related)
      presentation.py       Presentation.slides (lazyproperty: renames the listed slide parts once)
      oxml/presentation.py  CT_SlideIdList.add_sldId / _next_id              (Ids.next_slide_id_Z)
      opc/package.py        XmlPart.drop_rel + _rel_ref_count, _Relationships._next_rId (Ids.next_rId),
                            OpcPackage.save / iter_parts, _PackageLoader, _Relationships.xml (numeric
                            order, Opc.rid_leb); opc/serialized.py _ZipPkgReader._blobs (of two members
                            with one name the LAST one written is read)
    and the usual recipe for deleting a slide, which python-pptx has no API for:
      sldId = prs.element.sldIdLst.sldId_lst[i]; prs.part.drop_rel(sldId.rId); sldIdLst.remove(sldId)

    Executable definitions only. *)
From V.lib Require Import Prelude.
From V.gen Require Import GenC13.
From V.model Require Import Placeholder.
From V.model Require Ids Opc PkgOps.

(** a part related from the presentation part: a slide part with its state, or any other part
    (master, theme, notes master, properties: only its name matters here) *)
Record ppart := mk_ppart { pp_name : str; pp_slide : option slide }.

Record pres := mk_pres {
  p_deck : deck;                  (* masters, layouts, notes master; its d_slides and d_orphans are not used *)
  p_parts : list ppart;           (* identity = position *)
  p_rels : list PkgOps.relr;      (* relationships of the presentation part, dict order *)
  p_ids : list (Z * str);         (* p:sldIdLst: id, r:id *)
  p_xrefs : list str }.           (* every other r:id attribute value in the presentation XML *)

Definition pp_is_slide (x : ppart) : bool := match pp_slide x with Some _ => true | None => false end.

Definition name_of (ps : pres) (p : nat) : str :=
  match nth_error (p_parts ps) p with Some x => pp_name x | None => [] end.

(** ** prs.slides[i] *)
(** sldId_lst[i].rId, then related_part *)
Definition part_at (ps : pres) (i : nat) : res nat :=
  match nth_error (p_ids ps) i with
  | None => Err IndexErr
  | Some e => PkgOps.related_part (snd e) (p_rels ps)
  end.

(** ... then .slide (an attribute only slide parts have) *)
Definition slide_of (ps : pres) (p : nat) : res slide :=
  match nth_error (p_parts ps) p with
  | Some x => match pp_slide x with Some sl => Ok sl | None => Err OtherErr end
  | None => Err OtherErr
  end.

Definition slide_at (ps : pres) (i : nat) : res (nat * slide) :=
  bind (part_at ps i) (fun p => bind (slide_of ps p) (fun sl => Ok (p, sl))).

(** list(prs.slides): the part each p:sldId designates *)
Definition lparts (ps : pres) : list (res nat) :=
  map (fun e => PkgOps.related_part (snd e) (p_rels ps)) (p_ids ps).

(** the slide states in presentation order (entries that do not resolve are left out; a well-formed
    presentation has none, theorem pres_wf_resolves) *)
Definition listed (ps : pres) : list slide :=
  flat_map (fun i => match slide_at ps i with Ok (_, sl) => [sl] | Err _ => [] end)
           (seq 0 (length (p_ids ps))).

(** the deck of Placeholder.v this presentation shows: same masters, layouts and notes master *)
Definition deck_for (ps : pres) (ss : list slide) : deck :=
  mk_deck (d_masters (p_deck ps)) (d_layouts (p_deck ps)) ss [] (d_notes_master (p_deck ps)).
Definition view (ps : pres) : deck := deck_for ps (listed ps).

Definition strip (d : deck) : deck := mk_deck (d_masters d) (d_layouts d) [] [] (d_notes_master d).

Definition with_deck (ps : pres) (d : deck) : pres := mk_pres (strip d) (p_parts ps) (p_rels ps) (p_ids ps) (p_xrefs ps).
Definition with_parts (ps : pres) (l : list ppart) : pres := mk_pres (p_deck ps) l (p_rels ps) (p_ids ps) (p_xrefs ps).
Definition with_rels (ps : pres) (l : list PkgOps.relr) : pres := mk_pres (p_deck ps) (p_parts ps) l (p_ids ps) (p_xrefs ps).
Definition with_ids (ps : pres) (l : list (Z * str)) : pres := mk_pres (p_deck ps) (p_parts ps) (p_rels ps) l (p_xrefs ps).

(** ** the slide-position operations of Placeholder.step, applied to the part a position designates *)
Definition op_slide (o : op) : option nat :=
  match o with
  | NotesSlide s | AddTextbox s _ _ _ _ | ClonePh s _ _ | Edit (TSlide s _) _ | Edit (TNotes s _) _ => Some s
  | AddSlide _ | Edit (TLayout _ _) _ | Edit (TMaster _ _) _ | Edit (TNotesMaster _) _ => None
  end.

(** the same operation aimed at the only slide of a one-slide deck *)
Definition retarget (o : op) : op :=
  match o with
  | NotesSlide _ => NotesSlide 0
  | AddTextbox _ x y cx cy => AddTextbox 0 x y cx cy
  | ClonePh _ l i => ClonePh 0 l i
  | Edit (TSlide _ i) e => Edit (TSlide 0 i) e
  | Edit (TNotes _ i) e => Edit (TNotes 0 i) e
  | o => o
  end.

Definition has_nm (ps : pres) : bool :=
  match d_notes_master (p_deck ps) with Some _ => true | None => false end.

(** PresentationPart.notes_master_part: the first use creates the default notes master part and
    relates the presentation part to it (one more rId taken) *)
Definition sync_nm (had : bool) (ps : pres) : pres :=
  if had || negb (has_nm ps) then ps
  else match PkgOps.add_rel PkgOps.rt_notes_master (PkgOps.TInt (length (p_parts ps))) (p_rels ps) with
       | Ok (rs, _) => with_rels (with_parts ps (p_parts ps ++ [mk_ppart PkgOps.n_notes_master None])) rs
       | Err _ => ps
       end.

Definition set_slide (p : nat) (sl : slide) (l : list ppart) : list ppart :=
  upd_nth p (fun x => mk_ppart (pp_name x) (Some sl)) l.

Definition on_slide (c : cfg) (ps : pres) (s : nat) (o : op) : pres * res unit :=
  match slide_at ps s with
  | Err e => (ps, Err e)
  | Ok (p, sl) =>
      let '(d', r) := step c (deck_for ps [sl]) (retarget o) in
      let sl' := match d_slides d' with x :: _ => x | [] => sl end in
      (sync_nm (has_nm ps) (with_parts (with_deck ps d') (set_slide p sl' (p_parts ps))), r)
  end.

Definition on_deck (c : cfg) (ps : pres) (o : op) : pres * res unit :=
  let '(d', r) := step c (deck_for ps []) o in
  (sync_nm (has_nm ps) (with_deck ps d'), r).

(** ** the parts reachable from the presentation part *)
Fixpoint dedup_nat (l : list nat) : list nat :=
  match l with
  | [] => []
  | x :: l' => x :: filter (fun y => negb (Nat.eqb x y)) (dedup_nat l')
  end.

(** the parts reached from the presentation part, in the order the writer meets them (see the
    assumptions of the check: no slide part is reached earlier through another part) *)
Definition written (ps : pres) : list nat := dedup_nat (PkgOps.int_targets (p_rels ps)).

(** the names OpcPackage.iter_parts meets (see the assumptions of the check: every reachable part whose
    name begins like a slide part name is related from the presentation part itself) *)
Definition reach_names (ps : pres) : list str := map (name_of ps) (written ps).

(** PresentationPart._next_slide_partname: Ids.next_slide_partname over those names *)
Definition next_slide_partname (ps : pres) : res str :=
  Ids.next_slide_partname (length (p_ids ps)) (reach_names ps).

(** ** Slides.add_slide *)
Definition padd_slide (c : cfg) (ps : pres) (l : nat) : pres * res unit :=
  match nth_error (d_layouts (p_deck ps)) l with
  | None => (ps, Err IndexErr)
  | Some L =>
      let p := length (p_parts ps) in
      let '(t, r0) := new_slide_tree c (l_shapes L) in
      match next_slide_partname ps, PkgOps.get_or_add PkgOps.rt_slide (PkgOps.TInt p) (p_rels ps) with
      | Err e, _ => (ps, Err e)
      | _, Err e => (ps, Err e)
      | Ok name, Ok (rs, rid) =>
          let ps1 := with_rels (with_parts ps (p_parts ps ++ [mk_ppart name (Some (mk_slide l t None))])) rs in
          match r0 with
          | Err e => (ps1, Err e)       (* a related, unlisted slide part stays behind *)
          | Ok _ =>
              match Ids.next_slide_id_Z (map fst (p_ids ps)) with
              | Err e => (ps1, Err e)
              | Ok n => if Ids.slide_id_valid n then (with_ids ps1 (p_ids ps ++ [(n, rid)]), Ok tt)
                        else (ps1, Err ValueErr)
              end
          end
      end
  end.

(** ** deleting a slide *)
(** XmlPart._rel_ref_count: occurrences of the value among the r:id attributes of the part *)
Definition ref_count (ps : pres) (rid : str) : nat :=
  length (filter (str_eqb rid) (map snd (p_ids ps) ++ p_xrefs ps)).

(** prs.part.drop_rel(sldId.rId); sldIdLst.remove(sldId) *)
Definition premove (ps : pres) (i : nat) : pres * res unit :=
  match nth_error (p_ids ps) i with
  | None => (ps, Err IndexErr)
  | Some e =>
      if Nat.ltb (ref_count ps (snd e)) 2 then
        match PkgOps.pop_rel (snd e) (p_rels ps) with
        | Err x => (ps, Err x)
        | Ok rs => (with_ids (with_rels ps rs) (remove_nth i (p_ids ps)), Ok tt)
        end
      else (with_ids ps (remove_nth i (p_ids ps)), Ok tt)
  end.

(** sldIdLst.remove(sldId) alone: the relationship (and with it the part) stays in the package *)
Definition punlist (ps : pres) (i : nat) : pres * res unit :=
  match nth_error (p_ids ps) i with
  | None => (ps, Err IndexErr)
  | Some _ => (with_ids ps (remove_nth i (p_ids ps)), Ok tt)
  end.

(** ** Presentation.slides, first access: rename_slide_parts *)
Definition rel_idx (rs : list PkgOps.relr) : list (str * nat) :=
  flat_map (fun r => match PkgOps.rr_tgt r with PkgOps.TInt p => [(PkgOps.rr_id r, p)] | PkgOps.TExt _ => [] end) rs.

Fixpoint set_names (parts : list ppart) (names : list str) : list ppart :=
  match parts, names with
  | x :: ps, n :: ns => mk_ppart n (pp_slide x) :: set_names ps ns
  | _, _ => parts
  end.

Definition prename (ps : pres) : res pres :=
  bind (Ids.rename_slide_parts (rel_idx (p_rels ps)) (map snd (p_ids ps)) (map pp_name (p_parts ps)))
       (fun names => Ok (with_parts ps (set_names (p_parts ps) names))).

(** ** prs.save(f); prs = Presentation(f); prs.slides *)
(** the object a reader finds under the name of [p]: of the members with that name the one written last *)
Definition survivor (ps : pres) (p : nat) : nat :=
  match find (fun q => str_eqb (name_of ps q) (name_of ps p)) (rev (written ps)) with
  | Some q => q
  | None => p
  end.

Definition reload_rel (ps : pres) (r : PkgOps.relr) : PkgOps.relr :=
  match PkgOps.rr_tgt r with
  | PkgOps.TInt p => PkgOps.mkR (PkgOps.rr_id r) (PkgOps.rr_type r) (PkgOps.TInt (survivor ps p)) None
  | PkgOps.TExt _ => r
  end.

Definition rel_leb (a b : PkgOps.relr) : bool := Opc.rid_leb (PkgOps.rr_id a) (PkgOps.rr_id b).

(** the relationships come back in the order _Relationships.xml wrote them; every internal target
    is looked up by name *)
Definition reloaded (ps : pres) : pres :=
  with_rels ps (Opc.sort_by rel_leb (map (reload_rel ps) (p_rels ps))).

Definition preopen (ps : pres) : pres * res unit :=
  match prename (reloaded ps) with
  | Ok ps' => (ps', Ok tt)
  | Err e => (reloaded ps, Err e)
  end.

(** no two written parts share a name: the condition under which a saved package holds every part *)
Definition clash_freeb (ps : pres) : bool := Opc.nodupb (reach_names ps).

(** ** histories *)
Inductive pop :=
| Op (o : op)           (* an operation of Placeholder.step; slide positions are positions in p:sldIdLst *)
| Remove (i : nat)      (* drop_rel + remove the p:sldId *)
| Unlist (i : nat)      (* remove the p:sldId only *)
| SaveReopen.

Definition pstep (c : cfg) (ps : pres) (o : pop) : pres * res unit :=
  match o with
  | Op (AddSlide l) => padd_slide c ps l
  | Op o' => match op_slide o' with
             | Some s => on_slide c ps s o'
             | None => on_deck c ps o'
             end
  | Remove i => premove ps i
  | Unlist i => punlist ps i
  | SaveReopen => preopen ps
  end.

Fixpoint prun (c : cfg) (ps : pres) (ops : list pop) : pres * list (res unit) :=
  match ops with
  | [] => (ps, [])
  | o :: ops' =>
      let '(ps1, r) := pstep c ps o in
      let '(ps2, rs) := prun c ps1 ops' in
      (ps2, r :: rs)
  end.

Definition pfinal (c : cfg) (ps : pres) (ops : list pop) : pres := fst (prun c ps ops).

(** operations that stay inside one session *)
Definition in_session (o : pop) : bool := match o with SaveReopen => false | _ => true end.

(** ** Vocabulary of the statements (specification level) *)
Definition is_slide_part (ps : pres) (p : nat) : Prop :=
  exists x sl, nth_error (p_parts ps) p = Some x /\ pp_slide x = Some sl.

(** a well-formed presentation: rIds are the keys of a dict, no part is the target of two relationships,
    internal targets exist, slide ids are distinct, every p:sldId designates a slide part, and no part
    is listed twice *)
Definition pres_wf (ps : pres) : Prop :=
  NoDup (map PkgOps.rr_id (p_rels ps)) /\
  NoDup (PkgOps.int_targets (p_rels ps)) /\
  (forall p, In p (PkgOps.int_targets (p_rels ps)) -> p < length (p_parts ps)) /\
  NoDup (map fst (p_ids ps)) /\
  exists l, lparts ps = map (@Ok nat) l /\ NoDup l /\ Forall (is_slide_part ps) l.

(** no two reachable parts share a name: what makes a saved package hold every part *)
Definition clash_free (ps : pres) : Prop := NoDup (reach_names ps).

(** NotesMasterPart.create_default always takes the same name *)
Definition nm_name_ok (ps : pres) : Prop :=
  has_nm ps = false -> ~ In PkgOps.n_notes_master (reach_names ps).

Definition pres_inv (ps : pres) : Prop := pres_wf ps /\ clash_free ps /\ nm_name_ok ps.

(** every related part that carries a slide part name is listed (no related, unlisted slide part):
    rename_slide_parts does not look at the parts it does not rename *)
Definition orphan_free (ps : pres) : Prop :=
  forall q k, In q (written ps) -> name_of ps q = Ids.slide_name k -> In (Ok q) (lparts ps).

Definition good (ps : pres) : Prop := pres_inv ps /\ orphan_free ps.

(** steps that cannot leave a related slide part unlisted: no removal of the p:sldId alone, no failing
    add_slide (the part is related before the placeholders are cloned), no deletion whose r:id the
    presentation XML uses elsewhere too (drop_rel keeps such a relationship) *)
Definition calm_opb (ps : pres) (o : pop) (r : res unit) : bool :=
  match o with
  | Unlist _ => false
  | Op (AddSlide _) => match r with Ok _ => true | Err _ => false end
  | Remove i => match nth_error (p_ids ps) i with
                | Some e => negb (mem_str (snd e) (p_xrefs ps))
                | None => true
                end
  | _ => true
  end.

Fixpoint calm_run (c : cfg) (ps : pres) (ops : list pop) : bool :=
  match ops with
  | [] => true
  | o :: ops' => let '(ps1, r) := pstep c ps o in calm_opb ps o r && calm_run c ps1 ops'
  end.

(** witness: the default deck's relationship table, three slides *)
Definition asc3 (a b c : N) : str := [a; b; c].
Definition rid (n : N) : str := Ids.rId_name n.
Definition ex_pres : pres :=
  mk_pres (strip ex_deck)
    [mk_ppart [109%N] None;
     mk_ppart (Ids.slide_name 1) (Some (mk_slide 0 [] None));
     mk_ppart (Ids.slide_name 2) (Some (mk_slide 0 [] None));
     mk_ppart (Ids.slide_name 3) (Some (mk_slide 0 [] None))]
    [PkgOps.mkR (rid 1) [109%N] (PkgOps.TInt 0) None;
     PkgOps.mkR (rid 2) PkgOps.rt_slide (PkgOps.TInt 1) None;
     PkgOps.mkR (rid 3) PkgOps.rt_slide (PkgOps.TInt 2) None;
     PkgOps.mkR (rid 4) PkgOps.rt_slide (PkgOps.TInt 3) None]
    [(256, rid 2); (257, rid 3); (258, rid 4)]%Z
    [rid 1].
