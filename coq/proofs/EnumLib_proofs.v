(** Generic theorems about the BaseXmlEnum model (no data). *)
From V.lib Require Import Prelude Wire.
From V.model Require Import EnumLib.

(** ** value lookup and iteration order *)

Lemma canonical_incl rows c : In c (canonical rows) -> In c rows.
Proof.
  induction rows as [|m r IH]; simpl; auto.
  intros [->|H]; auto. apply filter_In in H as [H _]. auto.
Qed.

Lemma lookup_canonical rows c : In c (canonical rows) -> lookup_value rows (m_value c) = Some c.
Proof.
  induction rows as [|m r IH]; simpl; [tauto|].
  intros [->|H].
  - rewrite Z.eqb_refl. reflexivity.
  - apply filter_In in H as [H Hne]. apply negb_true_iff in Hne.
    rewrite Z.eqb_sym in Hne. rewrite Hne. auto.
Qed.

Lemma lookup_in_canonical rows v c : lookup_value rows v = Some c ->
  In c (canonical rows) /\ m_value c = v.
Proof.
  induction rows as [|m r IH]; simpl; [discriminate|].
  destruct (Z.eqb (m_value m) v) eqn:E.
  - intros H; inversion H; subst. apply Z.eqb_eq in E. auto.
  - intros H. destruct (IH H) as [Hin Hv]. split; auto. right.
    apply filter_In. split; auto. apply negb_true_iff. subst v. rewrite Z.eqb_sym. exact E.
Qed.

Lemma lookup_total rows m : In m rows -> exists c, lookup_value rows (m_value m) = Some c.
Proof.
  induction rows as [|x r IH]; simpl; [tauto|].
  intros [->|H].
  - rewrite Z.eqb_refl. eauto.
  - destruct (Z.eqb (m_value x) (m_value m)); eauto.
Qed.

(** every row (alias or not) stands for exactly one member of the iteration order,
    the first row carrying its value *)
Theorem canon_of_spec rows m : In m rows ->
  In (canon_of rows m) (canonical rows) /\ m_value (canon_of rows m) = m_value m
  /\ lookup_value rows (m_value m) = Some (canon_of rows m).
Proof.
  intros H. unfold canon_of. destruct (lookup_total rows m H) as [c Hc]. rewrite Hc.
  destruct (lookup_in_canonical _ _ _ Hc). auto.
Qed.

Lemma canon_of_canonical rows c : In c (canonical rows) -> canon_of rows c = c.
Proof. intros H. unfold canon_of. rewrite (lookup_canonical _ _ H). reflexivity. Qed.

(** members of the iteration order have pairwise different values *)
Theorem canonical_values_distinct rows a b :
  In a (canonical rows) -> In b (canonical rows) -> m_value a = m_value b -> a = b.
Proof.
  intros Ha Hb E. pose proof (lookup_canonical _ _ Ha) as H1.
  pose proof (lookup_canonical _ _ Hb) as H2. rewrite E in H1. congruence.
Qed.

(** ** from_xml / to_xml *)

Lemma xml_is_eq s m : xml_is s m = true <-> m_xml m = Some s.
Proof.
  unfold xml_is. destruct (m_xml m) as [t|]; split; try discriminate.
  - intros H. apply str_eqb_eq in H. congruence.
  - intros H. inversion H. apply str_eqb_refl.
Qed.

Theorem from_xml_empty rows : from_xml rows [] = Err ValueErr.
Proof. reflexivity. Qed.

Theorem from_xml_sound rows t m : from_xml rows t = Ok m ->
  In m (canonical rows) /\ m_xml m = Some t /\ t <> [] /\ has_xml m = true.
Proof.
  unfold from_xml. destruct t as [|x t]; [discriminate|].
  destruct (find (xml_is (x :: t)) (canonical rows)) eqn:F; [|discriminate].
  intros H; inversion H; subst. apply find_some in F as [Hin Hx].
  apply xml_is_eq in Hx. repeat split; auto; try discriminate.
  unfold has_xml. rewrite Hx. reflexivity.
Qed.

Theorem from_xml_error rows t : (exists e, from_xml rows t = Err e) -> from_xml rows t = Err ValueErr.
Proof.
  unfold from_xml. destruct t; auto. destruct (find _ _); auto. intros [e H]. discriminate.
Qed.

Theorem to_xml_sound rows v t : to_xml rows v = Ok t ->
  exists m, In m (canonical rows) /\ m_value m = v /\ m_xml m = Some t /\ t <> [].
Proof.
  unfold to_xml. destruct (lookup_value rows v) as [m|] eqn:L; [|discriminate].
  destruct (has_xml m) eqn:Hx; [|discriminate]. intros H; inversion H; subst.
  destruct (lookup_in_canonical _ _ _ L) as [Hin Hv]. exists m.
  unfold has_xml, token in *. destruct (m_xml m) as [[|c s]|]; try discriminate.
  repeat split; auto. discriminate.
Qed.

(** reading then writing gives the token back (needs no distinctness) *)
Theorem from_then_to rows t m : from_xml rows t = Ok m -> to_xml rows (m_value m) = Ok t.
Proof.
  intros H. destruct (from_xml_sound _ _ _ H) as (Hin & Hx & _ & Hh).
  unfold to_xml. rewrite (lookup_canonical _ _ Hin), Hh. unfold token. rewrite Hx. reflexivity.
Qed.

(** ** distinct tokens *)

Definition distinct_tokens (rows : list member) : Prop :=
  forall a b, In a (canonical rows) -> In b (canonical rows) ->
  has_xml a = true -> m_xml a = m_xml b -> a = b.

Definition distinct_tokensb (rows : list member) : bool :=
  forallb (fun a => negb (has_xml a) || Nat.eqb (token_count rows (token a)) 1) (canonical rows).

Lemma two_in_length {A} (l : list A) a b : In a l -> In b l -> a <> b -> 2 <= length l.
Proof.
  intros Ha Hb Hn. destruct (in_split _ _ Ha) as (l1 & l2 & ->).
  rewrite app_length. simpl. apply in_app_or in Hb as [Hb|[Hb|Hb]].
  - destruct l1; [destruct Hb|simpl; lia].
  - congruence.
  - destruct l2; [destruct Hb|simpl; lia].
Qed.

Lemma count_one_unique {A} (f : A -> bool) l a b :
  length (filter f l) = 1 -> In a l -> In b l -> f a = true -> f b = true ->
  (forall x y : A, {x = y} + {x <> y}) -> a = b.
Proof.
  intros Hc Ha Hb Fa Fb dec. destruct (dec a b) as [|Hn]; auto.
  assert (2 <= length (filter f l)).
  { apply (two_in_length _ a b); auto; apply filter_In; auto. }
  lia.
Qed.

Lemma member_dec (x y : member) : {x = y} + {x <> y}.
Proof.
  decide equality.
  - decide equality. apply list_eq_dec. apply N.eq_dec.
  - apply Z.eq_dec.
  - apply list_eq_dec. apply N.eq_dec.
  - apply N.eq_dec.
Qed.

Lemma token_count_unique rows t a b :
  token_count rows t = 1 -> In a (canonical rows) -> In b (canonical rows) ->
  m_xml a = Some t -> m_xml b = Some t -> a = b.
Proof.
  unfold token_count. intros Hc Ha Hb Xa Xb.
  apply (count_one_unique (xml_is t) (canonical rows)); auto;
    try (apply xml_is_eq; auto); try apply member_dec.
Qed.

Theorem distinct_tokensb_sound rows : distinct_tokensb rows = true -> distinct_tokens rows.
Proof.
  unfold distinct_tokensb, distinct_tokens. intros H a b Ha Hb Hx E.
  pose proof (proj1 (forallb_forall _ _) H a Ha) as Hc. simpl in Hc.
  rewrite Hx in Hc. simpl in Hc. apply Nat.eqb_eq in Hc.
  unfold has_xml in Hx. unfold token in Hc.
  destruct (m_xml a) as [t|] eqn:Xa; [|discriminate].
  apply (token_count_unique rows t); auto; congruence.
Qed.

(** the round trip, for every member of the iteration order with an XML value *)
Theorem round_trip rows : distinct_tokens rows ->
  forall m, In m (canonical rows) -> has_xml m = true ->
  to_xml rows (m_value m) = Ok (token m) /\ from_xml rows (token m) = Ok m.
Proof.
  intros D m Hin Hx. split.
  - unfold to_xml. rewrite (lookup_canonical _ _ Hin), Hx. reflexivity.
  - unfold from_xml, token. unfold has_xml in Hx.
    destruct (m_xml m) as [[|c s]|] eqn:X; try discriminate.
    destruct (find (xml_is (c :: s)) (canonical rows)) as [m'|] eqn:F.
    + apply find_some in F as [Hin' Hx']. apply xml_is_eq in Hx'.
      f_equal. symmetry. apply D; auto.
      * unfold has_xml. rewrite X. reflexivity.
      * congruence.
    + exfalso. pose proof (find_none _ _ F m Hin) as Hn.
      assert (xml_is (c :: s) m = true) by (apply xml_is_eq; auto). congruence.
Qed.

(** ... and for every row, alias rows included: the row resolves to its canonical
    member and the round trip lands on that member *)
Theorem round_trip_rows rows : distinct_tokens rows ->
  forall r, In r rows -> has_xml (canon_of rows r) = true ->
  to_xml rows (m_value r) = Ok (token (canon_of rows r))
  /\ from_xml rows (token (canon_of rows r)) = Ok (canon_of rows r).
Proof.
  intros D r Hin Hx. destruct (canon_of_spec rows r Hin) as (Hc & Hv & _).
  destruct (round_trip rows D _ Hc Hx) as [H1 H2]. rewrite Hv in H1. auto.
Qed.

(** to_xml is injective on the members of the iteration order *)
Theorem to_xml_injective rows : distinct_tokens rows ->
  forall a b t, In a (canonical rows) -> In b (canonical rows) ->
  to_xml rows (m_value a) = Ok t -> to_xml rows (m_value b) = Ok t -> a = b.
Proof.
  intros D a b t Ha Hb Ta Tb. unfold to_xml in *.
  rewrite (lookup_canonical _ _ Ha) in Ta. rewrite (lookup_canonical _ _ Hb) in Tb.
  destruct (has_xml a) eqn:Xa; [|discriminate]. destruct (has_xml b) eqn:Xb; [|discriminate].
  inversion Ta; inversion Tb; subst. apply D; auto.
  unfold has_xml, token in *.
  destruct (m_xml a) as [[|? ?]|]; try discriminate.
  destruct (m_xml b) as [[|? ?]|]; try discriminate. congruence.
Qed.

(** without distinctness the property fails: the later of two members sharing a token
    does not come back *)
Theorem shared_token_breaks_round_trip rows a b :
  In a (canonical rows) -> In b (canonical rows) -> a <> b -> has_xml a = true ->
  m_xml a = m_xml b ->
  from_xml rows (token a) <> Ok a \/ from_xml rows (token b) <> Ok b.
Proof.
  intros Ha Hb Hn Hx E. unfold token. rewrite <- E.
  destruct (member_dec a b); [tauto|].
  destruct (from_xml rows match m_xml a with Some s => s | None => [] end) as [m|e] eqn:F.
  - destruct (member_dec m a) as [->|]; [right|left]; congruence.
  - left. discriminate.
Qed.

(** ** the decidable per-row statement *)

Lemma str_opt_eqb_eq (a b : option str) :
  match a, b with Some x, Some y => str_eqb x y | None, None => true | _, _ => false end = true -> a = b.
Proof.
  destruct a, b; try discriminate; auto. intros H. apply str_eqb_eq in H. congruence.
Qed.

Theorem bij_ok_sound rows m : In m rows -> has_xml (canon_of rows m) = true -> bij_ok rows m = true ->
  let c := canon_of rows m in
  (forall m', In m' (canonical rows) -> m_xml m' = m_xml c -> m' = c)
  /\ to_xml rows (m_value m) = Ok (token c)
  /\ from_xml rows (token c) = Ok c
  /\ m_xml m = m_xml c.
Proof.
  intros Hin Hx H c. unfold bij_ok in H. fold c in H.
  apply andb_true_iff in H as [H H3]. apply andb_true_iff in H as [H1 H2].
  apply Nat.eqb_eq in H1. apply str_opt_eqb_eq in H3.
  destruct (canon_of_spec rows m Hin) as (Hc & Hv & Hl). fold c in Hc, Hv, Hl, Hx.
  assert (Xc : m_xml c = Some (token c)).
  { unfold has_xml in Hx. unfold token. destruct (m_xml c) as [[|? ?]|]; try discriminate; auto. }
  assert (D : forall m', In m' (canonical rows) -> m_xml m' = m_xml c -> m' = c).
  { intros m' Hm' E. apply (token_count_unique rows (token c)); auto; congruence. }
  assert (T : to_xml rows (m_value m) = Ok (token c)).
  { unfold to_xml. rewrite Hl, Hx. reflexivity. }
  repeat split; auto.
  unfold from_xml. destruct (token c) as [|x t] eqn:Tk.
  { unfold has_xml in Hx. rewrite Xc in Hx. discriminate. }
  destruct (find (xml_is (x :: t)) (canonical rows)) as [m'|] eqn:F.
  - apply find_some in F as [Hin' Hx']. apply xml_is_eq in Hx'. f_equal. apply D; auto; congruence.
  - exfalso. pose proof (find_none _ _ F c Hc) as Hn.
    assert (xml_is (x :: t) c = true) by (apply xml_is_eq; auto). congruence.
Qed.

(** ** schema membership *)

Definition token_in_P (ss : list stype) (i : N) (t : str) : Prop :=
  exists s, stype_by_id ss i = Some s /\
            (s_tokens s = None \/ exists l, s_tokens s = Some l /\ In t l).

Lemma token_in_sound ss i t : token_in ss i t = true -> token_in_P ss i t.
Proof.
  unfold token_in, token_in_P. destruct (stype_by_id ss i) as [s|]; [|discriminate].
  intros H. exists s. split; auto. unfold in_stype in H.
  destruct (s_tokens s) as [l|]; auto. right. exists l. split; auto. apply mem_str_In; auto.
Qed.

(** ** preset table against the definitions *)

Lemma av_eqb_sound a d : av_eqb a d = true ->
  map fst a = map fst d /\ map (fun p => Some (snd p)) a = map (fun p => parse_val (snd p)) d.
Proof.
  revert d; induction a as [|[n v] a IH]; intros [|[n' f] d]; simpl; try discriminate; auto.
  intros H. apply andb_true_iff in H as [H H3]. apply andb_true_iff in H as [H1 H2].
  apply str_eqb_eq in H1. destruct (IH _ H3) as [E1 E2]. subst n'.
  unfold optZ_eqb in H2. destruct (parse_val f) as [z|] eqn:P; [|discriminate].
  apply Z.eqb_eq in H2. subst z. split; f_equal; auto.
Qed.

Theorem preset_ok_sound tbl defs m : preset_ok tbl defs m = true ->
  exists sp d, find_spec tbl (m_value m) = Some sp /\ sp_value sp = m_value m
    /\ find_def defs (token m) = Some d /\ In d defs /\ pd_name d = token m
    /\ has_xml m = true
    /\ map fst (sp_av sp) = map fst (pd_av d)
    /\ map (fun p => Some (snd p)) (sp_av sp) = map (fun p => parse_val (snd p)) (pd_av d).
Proof.
  unfold preset_ok. destruct (find_spec tbl (m_value m)) as [sp|] eqn:S; [|discriminate].
  destruct (find_def defs (token m)) as [d|] eqn:D; [|discriminate].
  intros H. apply andb_true_iff in H as [Hx H]. destruct (av_eqb_sound _ _ H) as [E1 E2].
  exists sp, d. unfold find_spec in S. unfold find_def in D.
  apply find_some in S as S'. destruct S' as [_ S2]. apply Z.eqb_eq in S2.
  apply find_some in D as D'. destruct D' as [D1 D2]. apply str_eqb_eq in D2.
  repeat split; auto.
Qed.

(** the defaults a new shape reports are the table row (the step the read-back uses) *)
Theorem init_adjustments_fresh rows tbl prst m av :
  from_xml rows prst = Ok m -> default_adjustments tbl (m_value m) = Ok av ->
  exists l, init_adjustments rows tbl prst [] = Ok l
    /\ map a_name l = map fst av /\ map a_def l = map snd av
    /\ forall a, In a l -> a_actual a = None.
Proof.
  intros F D. unfold init_adjustments. rewrite F. simpl. rewrite D. simpl.
  eexists. split; [reflexivity|]. repeat split.
  - rewrite map_map. reflexivity.
  - rewrite map_map. reflexivity.
  - intros a Ha. apply in_map_iff in Ha as (p & <- & _). reflexivity.
Qed.

(** ** chart types *)

Lemma memZ_In z l : memZ z l = true <-> In z l.
Proof.
  unfold memZ. rewrite existsb_exists. split.
  - intros (x & Hx & E). apply Z.eqb_eq in E. subst; auto.
  - intros H. exists z. split; auto. apply Z.eqb_refl.
Qed.

Lemma nodupZ_sound l : nodupZ l = true -> NoDup l.
Proof.
  induction l as [|x r IH]; simpl; intros H; constructor.
  - apply andb_true_iff in H as [H _]. apply negb_true_iff in H. intros Hin.
    apply memZ_In in Hin. congruence.
  - apply andb_true_iff in H as [_ H]. auto.
Qed.

Theorem chart_ok_sound ss types r : chart_ok ss types r = true ->
  In (c_value r) (map snd types)
  /\ (forall p, In p (c_tokens r) -> token_in_P ss (fst p) (snd p))
  /\ c_inspected r = Some (c_value r).
Proof.
  unfold chart_ok. intros H. apply andb_true_iff in H as [H H3]. apply andb_true_iff in H as [H1 H2].
  apply memZ_In in H1. split; auto. split.
  - intros p Hp. apply token_in_sound. exact (proj1 (forallb_forall _ _) H2 p Hp).
  - unfold optZ_eqb in H3. destruct (c_inspected r) as [z|]; [|discriminate].
    apply Z.eqb_eq in H3. congruence.
Qed.

Theorem writer_dispatch_sound rows v w : writer_dispatch rows v = Ok w ->
  exists r, In r rows /\ c_value r = v /\ c_writer r = w.
Proof.
  unfold writer_dispatch. destruct (find _ rows) as [r|] eqn:F; [|discriminate].
  intros H; inversion H; subst. apply find_some in F as [Hin E]. apply Z.eqb_eq in E. eauto.
Qed.

(** ** a toy enumeration meeting the hypotheses (non-vacuity) and one that does not *)
Definition toy : list member := [
  {| m_id := 0; m_name := [65]%N; m_value := 1%Z; m_xml := Some [97]%N |};
  {| m_id := 1; m_name := [66]%N; m_value := 2%Z; m_xml := Some [98]%N |};
  {| m_id := 2; m_name := [67]%N; m_value := 1%Z; m_xml := Some [97]%N |};   (* alias of A *)
  {| m_id := 3; m_name := [68]%N; m_value := (-2)%Z; m_xml := Some [] |};      (* no XML value *)
  {| m_id := 4; m_name := [69]%N; m_value := 5%Z; m_xml := None |}
].
Definition toy_bad : list member := toy ++ [
  {| m_id := 5; m_name := [70]%N; m_value := 6%Z; m_xml := Some [98]%N |}     (* token of B again *)
].
