"""C04 — text assigned is the text read back, with only the documented translations.
Proof: props/C04.v over model/Text.v.
Tie: correspondence of the extracted model (run_c04) with python-pptx on histories of
assignments at the four levels (text_frame.text, cell.text / shape.text, paragraph.text,
run.text, plus add_run / add_line_break / clear) applied to text bodies in generated prior
states that are parsed from XML into a real text box or table cell.
Oracle: the property's own statement evaluated on the implementation (expected read-back
from a short function written from the property text; paragraph / break counts; untouched
properties) in memory and after 1 (quick) / 3 (thorough) save + re-open cycles."""
import io
import itertools
import shutil
import tempfile
from xml.sax.saxutils import escape as xml_escape

from corr.harness import coq_build, run_model, exc_name

NS_A = "http://schemas.openxmlformats.org/drawingml/2006/main"
NS_P = "http://schemas.openxmlformats.org/presentationml/2006/main"
A = "{%s}" % NS_A

TB = [
    "lxml/libxml2 element tree (child order, addprevious/append/remove, .text get/set) is represented by the flat child lists of model/Text.v; tied by this correspondence, not verified",
    "python re.sub / re.split / str.split on single-character classes transcribed as flat_map / split_by",
    "property elements (a:bodyPr, a:pPr, a:rPr, a:endParaRPr) are opaque identities in the model; the harness reads them back through one marker attribute each (lIns, marL, sz)",
    "lxml / libxml2 serialisation of an a:txBody and pptx.oxml.parse_xml of that text are represented by enc_body / dec_body of model/TextCodec.v (tag stream, libxml2 text escaping, "
    "Escape.lex_text with the blank-text heuristic for the text of an a:t); tied byte for byte by the codec phase of this correspondence (signature correspondence-codec), not verified",
]
ASSUME = [
    "serialise + re-parse (lxml, remove_blank_text=True, XML 1.0 line-end normalisation) returns the same tree for the bodies the setters produce: a theorem about the codec of model/TextCodec.v "
    "(dec_body (enc_body b) = Some b for every body of XML characters; proofs/TextCodec_proofs.v, compiled by this check), whose agreement with the real serialiser / parser is the codec phase; "
    "the OPC package around the part (zip, relationships) is outside that model and exercised by the save/re-open cycles of every case",
    "strings containing code points that XML 1.0 cannot carry (surrogates, U+FFFE, U+FFFF) are outside the quantifier: lxml raises ValueError on assignment (recorded in input_distribution as non-xml-char, not compared with the model)",
    "prior states keep a:t in every a:r (CT_RegularTextRun.t is OneAndOnlyOne; a run without it raises InvalidXmlError on access)",
]


# ----------------------------------------------------------------------------- wire
def show(s):
    return " ".join(str(ord(c)) for c in s)


def tok(tag, *parts):
    out = tag
    for p in parts:
        out += chr(p) if isinstance(p, int) else p
    return out


# ----------------------------------------------------------------------------- prior state -> XML
def state_xml(tokens, kind):
    """XML of the text body described by the state tokens (None when the cell has none)."""
    if not tokens or tokens[0][0] == "N":
        return None
    root = "p:txBody" if kind == "T" else "a:txBody"
    out = ['<%s xmlns:a="%s" xmlns:p="%s">' % (root, NS_A, NS_P)]
    open_p = False
    for t in tokens:
        g = t[0]
        if g == "B":
            out.append('<a:bodyPr lIns="%d"/>' % ord(t[1]))
            if ord(t[1]) % 2:
                out.append("<a:lstStyle/>")
        elif g == "P":
            if open_p:
                out.append("</a:p>")
            out.append("<a:p>")
            open_p = True
        elif g == "p":
            out.append('<a:pPr marL="%d"/>' % ord(t[1]))
        elif g == "e":
            out.append('<a:endParaRPr sz="%d"/>' % ord(t[1]))
        elif g == "R":
            rpr = '<a:rPr sz="%d"/>' % ord(t[2]) if t[1] == "1" else ""
            out.append("<a:r>%s<a:t>%s</a:t></a:r>" % (rpr, xml_escape(t[3:])))
        elif g == "b":
            out.append("<a:br/>")
        elif g == "F":
            body = "<a:t>%s</a:t>" % xml_escape(t[1:]) if t[1:] else ""
            out.append('<a:fld id="{B7B5B1C1-0000-4000-8000-000000000001}" type="slidenum">%s</a:fld>' % body)
    if open_p:
        out.append("</a:p>")
    out.append("</%s>" % root)
    return "".join(out)


def skeleton(txBody):
    """Same rendering as TextRun.show_cell, read off the lxml tree."""
    if txBody is None:
        return "N"
    parts = []
    for ch in txBody:
        if ch.tag == A + "bodyPr":
            parts.append("B%d" % int(ch.get("lIns", "0")))
        elif ch.tag == A + "p":
            parts.append("P")
            for c in ch:
                if c.tag == A + "pPr":
                    parts.append("p%d" % int(c.get("marL", "0")))
                elif c.tag == A + "endParaRPr":
                    parts.append("e%d" % int(c.get("sz", "0")))
                elif c.tag == A + "br":
                    parts.append("b")
                elif c.tag == A + "r":
                    rpr = c.find(A + "rPr")
                    t = c.find(A + "t")
                    parts.append("R%s:%s" % ("-" if rpr is None else rpr.get("sz", "0"),
                                             show((t.text or "") if t is not None else "")))
                elif c.tag == A + "fld":
                    t = c.find(A + "t")
                    parts.append("F:%s" % show((t.text or "") if t is not None else ""))
    return ";".join(parts)


# ----------------------------------------------------------------------------- implementation
class Holder:
    """One case placed in a presentation: a text box (T) or a 1x1 table cell (C)."""

    def __init__(self, slide, kind, tokens):
        from pptx.oxml import parse_xml
        from pptx.util import Emu

        self.kind = kind
        if kind == "T":
            self.shape = slide.shapes.add_textbox(Emu(0), Emu(0), Emu(914400), Emu(914400))
            parent = self.shape._element
            old = parent.txBody
        else:
            self.shape = slide.shapes.add_table(1, 1, Emu(0), Emu(0), Emu(914400), Emu(914400))
            parent = self.shape.table.cell(0, 0)._tc
            old = parent.txBody
        xml = state_xml(tokens, kind)
        if xml is None:
            parent.remove(old)
        else:
            parent.replace(old, parse_xml(xml))

    @staticmethod
    def container(shape, kind):
        return shape if kind == "T" else shape.table.cell(0, 0)

    @staticmethod
    def txbody(shape, kind):
        return shape._element.txBody if kind == "T" else shape.table.cell(0, 0)._tc.txBody


def apply_op(cont, op):
    """Run one operation token through the public API; returns 'ok:<text>' or 'err:<class>'."""
    g = op[0]
    try:
        if g == "f":
            tf = cont.text_frame
            tf.text = op[1:]
            return "ok:" + show(tf.text)
        if g == "c":
            cont.text = op[1:]
            return "ok:" + show(cont.text)
        if g == "a":
            p = cont.text_frame.paragraphs[ord(op[1])]
            p.text = op[2:]
            return "ok:" + show(p.text)
        if g == "r":
            run = cont.text_frame.paragraphs[ord(op[1])].runs[ord(op[2])]
            run.text = op[3:]
            return "ok:" + show(run.text)
        if g == "+":
            cont.text_frame.paragraphs[ord(op[1])].add_run()
            return "ok:"
        if g == "/":
            cont.text_frame.paragraphs[ord(op[1])].add_line_break()
            return "ok:"
        if g == "x":
            cont.text_frame.paragraphs[ord(op[1])].clear()
            return "ok:"
        if g == "g":
            return "ok:" + show(cont.text_frame.text)
        if g == "q":
            return "ok:" + show(cont.text_frame.paragraphs[ord(op[1])].text)
    except Exception as e:  # noqa
        return "err:" + exc_name(e)
    return "badcase"


STATE_TAGS = "NBPpeRbF"


def split_case(case):
    """case = ('h', kind, tokens...) -> kind, state tokens, op tokens."""
    kind = case[1]
    toks = list(case[2:])
    n = 0
    while n < len(toks) and toks[n][0] in STATE_TAGS:
        n += 1
    return kind, toks[:n], toks[n:]


def model_fields(case):
    return ["h"] + list(case[2:])


# ----------------------------------------------------------------------------- oracle
def expect(level, s):
    """The property's statement, written from its text (not from the model)."""
    def esc(t, keep):
        return "".join(c if (ord(c) >= 32 or c in keep) else "_x%04X_" % ord(c) for c in t)
    if level in ("frame", "cell"):
        return esc(s, "\t\n\v")           # LF = paragraph boundary, VT = line break
    if level == "para":
        return esc(s.replace("\n", "\v"), "\t\v")   # both become a line break, read as VT
    return esc(s, "\t\n")                 # run: LF and TAB stay, VT and the rest escaped


def paras_of(skel):
    """skeleton -> (bodyPr token, list of paragraphs, each a list of child tokens)."""
    if skel == "N":
        return None, []
    parts = skel.split(";")
    head, ps = parts[0], []
    for t in parts[1:]:
        if t == "P":
            ps.append([])
        elif ps:
            ps[-1].append(t)
    return head, ps


def is_item(t):
    return t[0] in "RbF"


def oracle_op(ck, case, op, before, after, out):
    """Statement of C04 for one assignment, on what the implementation shows."""
    g = op[0]
    level = {"f": "frame", "c": "cell", "a": "para", "r": "run"}.get(g)
    if level is None or not out.startswith("ok:"):
        return
    s = op[1:] if g in "fc" else (op[2:] if g == "a" else op[3:])
    rec = {"entry_point": {"f": "TextFrame.text", "c": "_Cell.text / Shape.text", "a": "_Paragraph.text", "r": "_Run.text"}[g],
           "input": list(case), "assigned": s, "level": level, "impl_outcome": out, "skeleton_before": before, "skeleton_after": after}
    want = expect(level, s)
    if out != "ok:" + show(want):
        sig = "readback-" + level
        ck.violation(sig, "%s: assigned %r, documented read-back %r, got %s" % (rec["entry_point"], s, want, out), rec)
        return
    if before == "N":
        before = "B0;P"      # a cell without a:txBody gets the template body on first access
    hb, pb = paras_of(before)
    ha, pa = paras_of(after)
    if g in "fc":
        segs = s.split("\n")
        if len(pa) != len(segs):
            ck.violation("para-count", "%s: %r gives %d paragraphs, expected %d" % (rec["entry_point"], s, len(pa), len(segs)), rec)
        else:
            for seg, p in zip(segs, pa):
                if sum(1 for t in p if t == "b") != seg.count("\v"):
                    ck.violation("break-count", "%s: segment %r gives %r" % (rec["entry_point"], seg, p), rec)
                if any(t.startswith("R") and t.endswith(":") for t in p):
                    ck.violation("empty-run", "%s: %r creates an empty run: %r" % (rec["entry_point"], s, p), rec)
        if hb is not None and hb != ha:
            ck.violation("bodypr-changed", "%s: a:bodyPr %s -> %s" % (rec["entry_point"], hb, ha), rec)
    elif g == "a":
        i = ord(op[1])
        if len(pa) != len(pb) or any(x != y for k, (x, y) in enumerate(zip(pb, pa)) if k != i) or hb != ha:
            ck.violation("para-other-changed", "_Paragraph.text changed something outside paragraph %d" % i, rec)
            return
        keep_b = [t for t in pb[i] if not is_item(t)]
        keep_a = [t for t in pa[i] if not is_item(t)]
        if keep_b != keep_a:
            ck.violation("para-props-changed", "_Paragraph.text: properties %r -> %r" % (keep_b, keep_a), rec)
        nbr = sum(1 for t in pa[i] if t == "b")
        if nbr != s.count("\n") + s.count("\v"):
            ck.violation("break-count", "_Paragraph.text: %r gives %d a:br" % (s, nbr), rec)
        if any(t.startswith("R") and t.endswith(":") for t in pa[i]):
            ck.violation("empty-run", "_Paragraph.text: %r creates an empty run: %r" % (s, pa[i]), rec)
        ends = [k for k, t in enumerate(pa[i]) if t[0] == "e"]
        if ends and any(is_item(t) for t in pa[i][ends[0]:]):
            ck.violation("after-endpararpr", "_Paragraph.text: content after a:endParaRPr: %r" % pa[i], rec)
    elif g == "r":
        i, j = ord(op[1]), ord(op[2])
        # only the j-th run's text may differ
        def blank(ps):
            out_, n = [], 0
            for k, p in enumerate(ps):
                q = []
                for t in p:
                    if k == i and t[0] == "R":
                        q.append(t.split(":")[0] if n == j else t)
                        n += 1
                    else:
                        q.append(t)
                out_.append(q)
            return out_
        if hb != ha or blank(pb) != blank(pa):
            ck.violation("run-other-changed", "_Run.text changed something besides its own text", rec)


# ----------------------------------------------------------------------------- generation
LETTERS = "abz Q9"
MARKUP = ["&", "<", ">", '"', "'", "]]>", "&amp;", "<a:br/>", "&#10;"]
WIDE = ["\u00e9", "\u0085", "\u2028", "\ufffd", "\ud7ff", "\ue000", "\U0001F600", "\U0010FFFF", "\U00010000", "\x7f", "\x9f"]
FRAGS = ["_x", "_x000A_", "_x0007_", "_x000a_", "_X0041_", "_x005F_", "_", "x000B_", "_x000B", "_x0000_"]
C0_OTHER = [chr(c) for c in list(range(0, 9)) + list(range(12, 32))]
NONXML = ["\ud800", "\udfff", "\ufffe", "\uffff"]


def gen_string(rng, malformed=False):
    r = rng.random()
    if r < 0.04:
        return ""
    if r < 0.10:
        return "".join(rng.choice(" \t") for _ in range(rng.randint(1, 6)))
    if r < 0.16:
        return "".join(rng.choice("\n\v") for _ in range(rng.randint(1, 6)))
    n = rng.randint(1, 60) if rng.random() < 0.3 else rng.randint(1, 12)
    out = []
    total = 0
    while total < n:
        k = rng.random()
        if k < 0.30:
            c = rng.choice(LETTERS)
        elif k < 0.42:
            c = rng.choice(" \t")
        elif k < 0.56:
            c = "\n"
        elif k < 0.68:
            c = "\v"
        elif k < 0.78:
            c = rng.choice(C0_OTHER)
        elif k < 0.86:
            c = rng.choice(MARKUP)
        elif k < 0.93:
            c = rng.choice(WIDE)
        else:
            c = rng.choice(FRAGS)
        out.append(c)
        total += len(c)
    s = "".join(out)[:60]
    e = rng.random()
    if e < 0.15:
        s = rng.choice(["\n", "\v", " ", "\n\n", "\v\n", "\t"]) + s
    if 0.10 < e < 0.25:
        s = s + rng.choice(["\n", "\v", " ", "\n\n", "\n\v", "\t"])
    s = s[:60]
    if malformed:
        k = rng.randint(0, len(s))
        s = s[:k] + rng.choice(NONXML) + s[k:]
    return s


def gen_prior_text(rng):
    """Text already present in a prior state (arrives through the XML parser: no CR)."""
    r = rng.random()
    if r < 0.15:
        return ""
    if r < 0.25:
        return rng.choice([" ", "  ", "\t", "\n", " \n "])
    return "".join(rng.choice(list("ab c") + ["\n", "\t", "<", "&", "é", "\U0001F600", "_x0007_", "_x000A_"])
                   for _ in range(rng.randint(1, 6)))


def gen_state(rng, kind):
    if kind == "C" and rng.random() < 0.12:
        return [tok("N")]
    toks = [tok("B", rng.randint(1, 900))]
    r = rng.random()
    npara = 1 if r < 0.35 else (0 if r < 0.38 else rng.randint(2, 4))
    for _ in range(npara):
        toks.append(tok("P"))
        if rng.random() < 0.5:
            toks.append(tok("p", rng.randint(1, 900)))
        end_first = rng.random() < 0.06      # misplaced a:endParaRPr (not schema order)
        if end_first:
            toks.append(tok("e", rng.randint(1, 900)))
        for _ in range(rng.choice([0, 1, 1, 2, 3, 5])):
            k = rng.random()
            if k < 0.55:
                h = rng.random() < 0.5
                toks.append(tok("R", "1" if h else "0", rng.randint(1, 900), gen_prior_text(rng)))
            elif k < 0.8:
                toks.append(tok("b"))
            else:
                toks.append(tok("F", gen_prior_text(rng)))
        if not end_first and rng.random() < 0.45:
            toks.append(tok("e", rng.randint(1, 900)))
    return toks


def gen_ops(rng, nops, malformed=False):
    ops = []
    for k in range(nops):
        r = rng.random()
        s = gen_string(rng, malformed and k == nops - 1)
        i = rng.choice([0, 0, 0, 1, 1, 2, 3]) if not malformed or rng.random() < 0.5 else rng.randint(4, 9)
        if r < 0.27:
            ops.append(tok("f", s))
        elif r < 0.42:
            ops.append(tok("c", s))
        elif r < 0.66:
            ops.append(tok("a", i, s))
        elif r < 0.84:
            ops.append(tok("r", i, rng.choice([0, 0, 1, 2]), s))
        elif r < 0.88:
            ops.append(tok("+", i))
        elif r < 0.92:
            ops.append(tok("/", i))
        elif r < 0.95:
            ops.append(tok("x", i))
        elif r < 0.98:
            ops.append(tok("q", i))
        else:
            ops.append(tok("g"))
    return ops


def gen_cases(tier, rng):
    cases = []
    # bounded-exhaustive: every string of length <= 3 over six representative characters, each level
    small = [""]
    for n in (1, 2, 3):
        small += ["".join(t) for t in itertools.product("a \n\v\x07\t", repeat=n)]
    base_t = [tok("B", 7), tok("P"), tok("p", 3), tok("R", "1", 5, "old"), tok("b"), tok("F", "12"), tok("e", 4),
              tok("P"), tok("R", "0", 1, "second")]
    for s in small:
        cases.append(("h", "T") + tuple(base_t) + (tok("f", s),))
        cases.append(("h", "C") + tuple(base_t) + (tok("c", s),))
        cases.append(("h", "T") + tuple(base_t) + (tok("a", 0, s),))
        cases.append(("h", "C") + tuple(base_t) + (tok("r", 0, 0, s),))
    # named cases from the property text
    for s in ["_x000A_", "_x0007_", "\x07", "_x005F_x000A_", "a\n", "\na", "a\v", "\v", "\n", " ", "\r\n", "]]>", "\x00", "\x1f",
              "\U0001F600\n\U0010FFFF", " \t\n\t ", "\v\v\v", "\n\n\n", "&lt;", "<a:t>x</a:t>"]:
        for lv in range(4):
            op = [tok("f", s), tok("c", s), tok("a", 1, s), tok("r", 1, 0, s)][lv]
            cases.append(("h", "TC"[lv % 2]) + tuple(base_t) + (op, tok("g")))
    cases.append(("h", "C", tok("N"), tok("c", "x\ny")))
    cases.append(("h", "C", tok("N"), tok("g")))
    cases.append(("h", "C", tok("N")))
    n_rand = 30000 if tier == "quick" else 200000
    for _ in range(n_rand):
        kind = rng.choice("TC")
        st = gen_state(rng, kind)
        ops = gen_ops(rng, rng.choice([1, 1, 2, 3, 4, 6]))
        cases.append(("h", kind) + tuple(st) + tuple(ops))
    # malformed stream: out-of-range indices, unknown tokens, characters XML cannot carry
    n_bad = 1500 if tier == "quick" else 10000
    for _ in range(n_bad):
        kind = rng.choice("TC")
        st = gen_state(rng, kind)
        ops = gen_ops(rng, rng.choice([1, 2, 3]), malformed=True)
        if rng.random() < 0.15:
            ops.insert(rng.randint(0, len(ops)), tok(rng.choice("?Zz!")))
        cases.append(("h", kind) + tuple(st) + tuple(ops))
    return cases


def has_nonxml(case):
    return any(any(0xD800 <= ord(c) <= 0xDFFF or ord(c) in (0xFFFE, 0xFFFF) for c in t) for t in case[2:])


def nontrivial(case):
    kind, st, ops = split_case(case)
    rich_state = sum(1 for t in st if t[0] == "P") >= 2 or any(t[0] in "peFb" for t in st)
    for op in ops:
        if op[0] in "fcar":
            s = op[1:] if op[0] in "fc" else (op[2:] if op[0] == "a" else op[3:])
            if any(ord(c) < 32 for c in s) or any(c in s for c in "&<>\"'_") or s != s.strip() or any(ord(c) > 0xFFFF for c in s):
                return rich_state
    return False


def klass(case):
    kind, st, ops = split_case(case)
    if has_nonxml(case):
        return "non-xml-char"
    for op in ops:
        if op[0] in "fcar":
            return {"f": "frame", "c": "cell" if kind == "C" else "shape", "a": "paragraph", "r": "run"}[op[0]]
    return "no-assignment"


# ----------------------------------------------------------------------------- running
def run_batch(ck, cases, cycles, results):
    """Place every case of the batch in one presentation, run the histories, check the
    oracle in memory, then save + re-open [cycles] times and check the texts again."""
    from pptx import Presentation

    prs = Presentation()
    slide = prs.slides.add_slide(prs.slide_layouts[6])
    finals = []
    for case in cases:
        kind, st, ops = split_case(case)
        h = Holder(slide, kind, st)
        cont = Holder.container(h.shape, kind)
        outs = []
        for op in ops:
            before = skeleton(Holder.txbody(h.shape, kind))
            o = apply_op(cont, op)
            after = skeleton(Holder.txbody(h.shape, kind))
            outs.append(o)
            oracle_op(ck, case, op, before, after, o)
        tb = Holder.txbody(h.shape, kind)
        text = "N" if tb is None else show("\n".join(p.text for p in tb.p_lst))
        skel = skeleton(tb)
        finals.append((text, skel))
        results.append("|".join(outs + [text, skel]))
    for cyc in range(1, cycles + 1):
        buf = io.BytesIO()
        prs.save(buf)
        buf.seek(0)
        prs = Presentation(buf)
        shapes = list(prs.slides[0].shapes)
        for case, shape, (text, skel) in zip(cases, shapes, finals):
            kind = case[1]
            tb = Holder.txbody(shape, kind)
            text2 = "N" if tb is None else show("\n".join(p.text for p in tb.p_lst))
            if tb is not None and text2 == text:
                # the public getter agrees with the element-level read
                api = show(Holder.container(shape, kind).text_frame.text)
                if api != text2:
                    text2 = api
            skel2 = skeleton(tb)
            if text2 != text or skel2 != skel:
                ck.violation("reopen", "text differs after %d save/re-open cycle(s): before %r after %r" % (cyc, text, text2),
                             {"entry_point": "Presentation.save / Presentation(...)", "input": list(case), "cycle": cyc,
                              "text_before": text, "text_after": text2, "skeleton_before": skel, "skeleton_after": skel2})


def impl_one(case):
    class _Null:
        def violation(self, *a, **k):
            print("  oracle:", a[0], "-", a[1])
    res = []
    run_batch(_Null(), [case], 1, res)
    return res[0]


def c0_table():
    """What the implementation reads back for each single C0 control at run / paragraph / frame level."""
    from pptx import Presentation
    from pptx.util import Emu

    prs = Presentation()
    tf = prs.slides.add_slide(prs.slide_layouts[6]).shapes.add_textbox(Emu(0), Emu(0), Emu(9), Emu(9)).text_frame
    out = {}
    for c in range(32):
        row = []
        for level in ("run", "para", "frame"):
            try:
                if level == "run":
                    tf.text = "x"
                    r = tf.paragraphs[0].runs[0]
                    r.text = chr(c)
                    row.append(r.text)
                elif level == "para":
                    tf.paragraphs[0].text = chr(c)
                    row.append(tf.paragraphs[0].text)
                else:
                    tf.text = chr(c)
                    row.append(tf.text)
            except Exception as e:  # noqa
                row.append("err:" + exc_name(e))
        out["0x%02X" % c] = row
    return out


def leaf_roundtrip(ck, rng, n):
    """C04_reopen_text_leaf is about lxml_text_escape and the parser model: tie both to the real thing.  For strings
    of XML characters (white space at the edges, CR / CR LF / TAB runs, markup characters, astral code points):
    (1) what lxml's serialiser writes for the text of an a:t equals the model's escaped text; (2) python-pptx's parser
    reads that serialisation back as the string, and the model says the same."""
    from lxml import etree
    from pptx.oxml import parse_xml
    A = "http://schemas.openxmlformats.org/drawingml/2006/main"
    alphabet = [" ", " ", "\t", "\n", "\r", "\r\n", "a", "b", "<", ">", "&", "]]>", "&amp;", "&#13;", "\u00e9", "\U0001F600", "_x000D_", "\x7f", "\u2028"]
    strs = ["", " ", "\r", "\r\n", " \rX", "\r\n\t\r\nX", "  ", "\n", "\t", " a ", "\r" + 299 * " " + "\rX", 300 * " " + "\r"]
    while len(strs) < n:
        strs.append("".join(rng.choice(alphabet) for _ in range(rng.randint(0, 12))))
    outs = run_model("C04", [["lx", s] if s else ["lx"] for s in strs])
    diffs, first = 0, None
    for s, mo in zip(strs, outs):
        el = etree.Element("{%s}t" % A, nsmap={"a": A})
        el.text = s
        xml = etree.tostring(el, encoding="unicode")
        inner = "" if xml.endswith("/>") else xml[xml.index(">") + 1: xml.rindex("</")]
        back = parse_xml(xml).text or ""
        f = mo.split("|")
        m_esc = "".join(chr(int(t)) for t in f[0].split(" ") if t) if f else None
        m_back = ("".join(chr(int(t)) for t in f[1][3:].split(" ") if t) if len(f) > 1 and f[1].startswith("ok:") else None)
        ck.count(("lx", s), bool(s.strip() != s or "\r" in s or any(c in s for c in "<&>")), "text-leaf-serialise-parse")
        if back != s:
            ck.violation("reopen-text-leaf", "the text %r of an a:t is %r after lxml serialisation and python-pptx's parser" % (s, back),
                         {"entry_point": "lxml serialise + pptx.oxml.parse_xml (save / re-open of one a:t)", "input": s, "impl_outcome": back})
        if m_esc != inner or m_back != back:
            diffs += 1
            first = first or (s, inner, m_esc, back, m_back)
    if diffs:
        ck.violation("correspondence-leaf", "model (lxml_text_escape + Escape.lex_text) and lxml / parse_xml disagree on %d of %d strings, e.g. %r: "
                     "serialised %r vs model %r, read back %r vs model %r" % ((diffs, len(strs)) + first),
                     {"theorem_or_correspondence": "correspondence TextRun.run_lx ~ libxml2 text serialiser + oxml parser (C04_reopen_text_leaf is about the model only)",
                      "input": first[0]}, concrete=False)
    return {"strings": len(strs), "diffs": diffs}


# ----------------------------------------------------------------------------- whole-body codec (model/TextCodec.v)
FLD_ID = "{B7B5B1C1-0000-4000-8000-000000000001}"


def codec_text_xml(t):
    """Element text in a prior-state source: markup escaped, CR as a character reference (a raw CR would be
    normalised to LF by the parser before the body exists)."""
    return xml_escape(t).replace("\r", "&#13;")


def codec_state_xml(tokens):
    """The a:txBody described by the state tokens, alone in its own document: the one namespace declaration is its own
    xmlns:a; a property element gets its marker attribute unless its number is 0; a:fld has an a:t only when its
    text is not empty (the rendering model/TextCodec.v gives the opaque parts of model/Text.v)."""
    def prop(name, attr, x):
        return "<a:%s%s/>" % (name, ' %s="%d"' % (attr, x) if x else "")
    out = ['<a:txBody xmlns:a="%s">' % NS_A]
    open_p = False
    for t in tokens:
        g = t[0]
        if g == "B":
            out.append(prop("bodyPr", "lIns", ord(t[1])))
        elif g == "P":
            if open_p:
                out.append("</a:p>")
            out.append("<a:p>")
            open_p = True
        elif g == "p":
            out.append(prop("pPr", "marL", ord(t[1])))
        elif g == "e":
            out.append(prop("endParaRPr", "sz", ord(t[1])))
        elif g == "R":
            rpr = prop("rPr", "sz", ord(t[2])) if t[1] == "1" else ""
            out.append("<a:r>%s<a:t>%s</a:t></a:r>" % (rpr, codec_text_xml(t[3:])))
        elif g == "b":
            out.append("<a:br/>")
        elif g == "F":
            body = "<a:t>%s</a:t>" % codec_text_xml(t[1:]) if t[1:] else ""
            out.append('<a:fld id="%s" type="slidenum">%s</a:fld>' % (FLD_ID, body))
    if open_p:
        out.append("</a:p>")
    out.append("</a:txBody>")
    return "".join(out)


CODEC_TEXTS = ["", " ", "  ", "\t", "\n", "\r", "\r\n", " \r", "\r\n\t\r\nX", " a ", "a  ", "  a", "\n\n", " \n ", "<", ">", "&", "]]>", "&amp;", "&#13;",
               "<a:t>x</a:t>", "</a:t>", "\"", "'", "\u00e9", "\u0085", "\u2028", "\ud7ff", "\ue000", "\ufffd", "\U00010000", "\U0001F600", "\U0010FFFF",
               "_x000D_", "_x0007_", "\x7f", "a\rb", "a\r\nb", "\r" + 299 * " " + "\rX", 300 * " " + "\r", 301 * " "]
CODEC_ALPHA = [" ", " ", "\t", "\n", "\r", "\r\n", "a", "b", "<", ">", "&", "]]>", "]", "&amp;", "&#13;", "\u00e9", "\U0001F600", "_x000D_", "\x7f", "\u2028"]
# raw (unescaped) fragments put into the source text of one a:t: what the reader does with references, line ends, blanks
# and text that is not well formed
CODEC_RAW = [" ", " ", "\t", "\n", "\r", "\r\n", "a", "b", "&amp;", "&lt;", "&gt;", "&quot;", "&apos;", "&#13;", "&#10;", "&#9;", "&#x20;", "&#x1F600;", "&#65;",
             "]]", "]", ">", "\u00e9", "\U0001F600", "\"",
             "]]>", "&bogus;", "&#0;", "&#xD800;", "&#xFFFE;", "&", "&;", "&#;", "&#x;", "\x0b", "\x00", "\ufffe"]
CODEC_RAW_GOOD = 25     # the fragments before this index are well formed; at most one of the others is spliced in


def gen_codec_text(rng):
    r = rng.random()
    if r < 0.35:
        return rng.choice(CODEC_TEXTS)
    return "".join(rng.choice(CODEC_ALPHA) for _ in range(rng.randint(1, 10)))


def gen_codec_state(rng):
    zero = rng.random() < 0.2
    toks = [tok("B", 0 if zero else rng.randint(1, 900))]
    r = rng.random()
    npara = 1 if r < 0.35 else (0 if r < 0.40 else rng.randint(2, 4))
    for _ in range(npara):
        toks.append(tok("P"))
        if rng.random() < 0.5:
            toks.append(tok("p", rng.choice([0, 1, 9, 10, 342900, rng.randint(1, 900)])))
        end_first = rng.random() < 0.06
        if end_first:
            toks.append(tok("e", rng.randint(0, 900)))
        for _ in range(rng.choice([0, 0, 1, 1, 2, 3, 5])):
            k = rng.random()
            if k < 0.6:
                toks.append(tok("R", "1" if rng.random() < 0.5 else "0", rng.choice([0, 1800, rng.randint(1, 900)]), gen_codec_text(rng)))
            elif k < 0.8:
                toks.append(tok("b"))
            else:
                toks.append(tok("F", gen_codec_text(rng)))
        if not end_first and rng.random() < 0.45:
            toks.append(tok("e", rng.choice([0, 1200, rng.randint(1, 900)])))
    return toks


def gen_codec_cases(rng, n):
    base = [tok("B", 7), tok("P"), tok("p", 3), tok("R", "1", 5, "old"), tok("b"), tok("F", "12"), tok("e", 4), tok("P"), tok("R", "0", 1, " ")]
    cases = []
    small = [""]
    for k in (1, 2):
        small += ["".join(t) for t in itertools.product("a \n\v\r\t<&", repeat=k)]
    for s_ in small:
        cases.append(tuple(base) + (tok("f", s_),))
        cases.append(tuple(base) + (tok("a", 0, s_),))
        cases.append(tuple(base) + (tok("r", 0, 0, s_),))
    for s_ in CODEC_TEXTS:
        cases.append((tok("B", 0), tok("P"), tok("R", "0", 0, s_)))                       # the text arrives through the parser
        cases.append((tok("B", 0), tok("P"), tok("F", s_), tok("R", "1", 0, s_), tok("b"), tok("R", "0", 0, s_)))
        cases.append((tok("B", 0), tok("P"), tok("f", s_)))                               # ... or through a setter
        cases.append((tok("B", 0), tok("P"), tok("R", "0", 0, "x"), tok("r", 0, 0, s_)))
    cases.append((tok("B", 0),))
    cases.append((tok("B", 0), tok("P"), tok("P")))
    cases.append((tok("B", 0), tok("P"), tok("+", 0), tok("/", 0), tok("+", 0)))
    while len(cases) < n:
        st = gen_codec_state(rng)
        ops = [o for o in gen_ops(rng, rng.choice([0, 0, 1, 1, 2, 3])) if o[0] in "far+/x"]
        if ops and rng.random() < 0.15:
            o = rng.choice(ops)
            s_ = gen_codec_text(rng)
            ops[ops.index(o)] = {"f": tok("f", s_), "a": tok("a", ord(o[1]) if len(o) > 1 else 0, s_)}.get(o[0], o)
        cases.append(tuple(st) + tuple(ops))
    return cases


def codec_roundtrip(ck, rng, n):
    """The whole-body level of save / re-open (theorems about model/TextCodec.v) tied to the real serialiser and parser.
    Each case is a prior body (parsed from XML by python-pptx) plus a history of assignments through TextFrame / _Paragraph
    / _Run.  (a) the bytes lxml writes for that a:txBody (etree.tostring, UTF-8, no declaration; the element is the root
    of its own document, so the only namespace declaration is its own xmlns:a and nothing is stripped; an a:t holding an
    EMPTY text node, which lxml writes as a start and an end tag and the model does not tell from an a:t without text
    node, is rewritten as the empty-element tag before the comparison) against enc_body of the model's final body;
    (b) the skeleton python-pptx reads after parse_xml of the unmodified bytes against dec_body of the same text;
    (c) raw fragments (references, line ends, blanks, ill-formed text) spliced into the source of one a:t: the verdict
    of parse_xml (skeleton or XMLSyntaxError) against dec_body (skeleton or None)."""
    from lxml import etree
    from pptx.oxml import parse_xml
    from pptx.text.text import TextFrame

    class _Box:
        def __init__(self, tf):
            self.text_frame = tf

    cases = gen_codec_cases(rng, n)
    reals, texts = [], []
    for case in cases:
        k = 0
        while k < len(case) and case[k][0] in STATE_TAGS:
            k += 1
        el = parse_xml(codec_state_xml(case[:k]))
        box = _Box(TextFrame(el, None))
        for op in case[k:]:
            apply_op(box, op)
        reals.append(etree.tostring(el, encoding="UTF-8").decode("utf-8"))
        texts.append("\n".join(p.text for p in el.p_lst))
    # (c) spliced sources
    spliced = []
    n_splice = max(200, n // 3)
    for _ in range(n_splice):
        raw = [rng.choice(CODEC_RAW[:CODEC_RAW_GOOD]) for _ in range(rng.randint(0, 8))]
        if rng.random() < 0.3:
            raw.insert(rng.randint(0, len(raw)), rng.choice(CODEC_RAW[CODEC_RAW_GOOD:]))
        raw = "".join(raw)
        pre = rng.choice(["", "<a:r><a:t>a</a:t></a:r>", "<a:br/>", '<a:pPr marL="3"/>'])
        post = rng.choice(["", "<a:r><a:t> </a:t></a:r>", '<a:endParaRPr sz="4"/>'])
        wrap = rng.choice(["<a:r><a:t>%s</a:t></a:r>", '<a:r><a:rPr sz="5"/><a:t>%s</a:t></a:r>', '<a:fld id="' + FLD_ID + '" type="slidenum"><a:t>%s</a:t></a:fld>'])
        spliced.append('<a:txBody xmlns:a="%s"><a:bodyPr/><a:p>%s%s%s</a:p><a:p/></a:txBody>' % (NS_A, pre, wrap % raw, post))
    m_enc = run_model("C04", [["se"] + list(c) for c in cases])
    m_dec = run_model("C04", [["pa", x] for x in reals + spliced])
    diffs, first, normalised, errors = 0, None, 0, 0
    for case, real, text, me, md in zip(cases, reals, texts, m_enc, m_dec):
        f = me.split("|")
        m_text = "".join(chr(int(t)) for t in f[0].split(" ") if t) if f else None
        m_flag = f[1] if len(f) > 1 else None
        norm = real.replace("<a:t></a:t>", "<a:t/>")
        normalised += norm != real
        back = parse_xml(real.encode("utf-8"))
        skel = "ok:" + skeleton(back)
        text2 = "\n".join(p.text for p in back.p_lst)
        hard = any(c in real for c in "&\r\t\n") or "> " in real or " <" in real or any(ord(c) > 127 for c in real) or "<a:t/>" in norm
        ck.count(("codec", case), hard, "codec")
        if text2 != text:
            ck.violation("reopen-body", "the text of an a:txBody is %r before and %r after lxml serialisation + python-pptx's parser" % (text, text2),
                         {"entry_point": "etree.tostring + pptx.oxml.parse_xml (save / re-open of one a:txBody)", "input": list(case), "serialised": real,
                          "text_before": text, "text_after": text2})
        if m_text != norm or m_flag != "True" or md != skel:
            diffs += 1
            first = first or ("body", list(case), norm, m_text, skel, md)
    for src, md in zip(spliced, m_dec[len(reals):]):
        try:
            skel = "ok:" + skeleton(parse_xml(src.encode("utf-8")))
        except etree.XMLSyntaxError:
            skel = "None"
            errors += 1
        ck.count(("codec-src", src), True, "codec")
        if md != skel:
            diffs += 1
            first = first or ("source", src, None, None, skel, md)
    if diffs:
        kind, inp, norm, m_text, skel, md = first
        ck.violation("correspondence-codec", "model/TextCodec.v and lxml / parse_xml disagree on %d of %d cases, e.g. %s %r: lxml wrote %r, enc_body %r; "
                     "python-pptx read %s, dec_body %s" % (diffs, len(cases) + len(spliced), kind, inp, norm, m_text, skel, md),
                     {"theorem_or_correspondence": "correspondence TextCodec.enc_body / dec_body ~ libxml2 serialiser of the a:txBody python-pptx built + oxml parser "
                                                   "(the C04_reopen_* theorems are about the model only)", "input": inp}, concrete=False)
    return {"bodies": len(cases), "spliced_sources": len(spliced), "spliced_rejected_by_parser": errors,
            "empty_text_node_rewritten": normalised, "diffs": diffs}


def run(ck, tier, rng):
    ck.build = coq_build("C04", extra_targets=["proofs/TextCodec_proofs.vo"])
    scratch = tempfile.mkdtemp(prefix="c04-")
    try:
        cases = gen_cases(tier, rng)
        cycles = 1 if tier == "quick" else 3
        impl_out = []
        B = 120
        for k in range(0, len(cases), B):
            run_batch(ck, cases[k:k + B], cycles, impl_out)
        for c in cases:
            ck.count(c, nontrivial(c), klass(c))
        for c in cases[:2] + cases[1100:1102] + cases[-400:-396] + cases[-3:]:
            ck.sample([repr(t) for t in c], limit=11)
        c0_readback = c0_table()
        c0 = {}
        for c, o in zip(cases, impl_out):
            if has_nonxml(c):
                _k, _st, ops = split_case(c)
                outs = o.split("|")
                for op, r in zip(ops, outs):
                    if has_nonxml(("", "", op)):
                        key = "non-xml-char -> " + {"err:Value": "ValueError", "err:Index": "IndexError before the text is touched"}.get(r, r[:12])
                        c0[key] = c0.get(key, 0) + 1
        diffs = 0
        first = None
        if ck.build.ok:
            model_out = run_model("C04", [model_fields(c) for c in cases])
            for c, mo, io_ in zip(cases, model_out, impl_out):
                if has_nonxml(c):
                    continue
                if mo != io_:
                    diffs += 1
                    if first is None:
                        first = (c, mo, io_)
                    if diffs <= 5:
                        ck.notes.append("diff %r model=%s impl=%s" % (list(c), mo, io_))
            if diffs and not ck.violations:
                ck.violation("correspondence", "model/Text.v and pptx text assignment disagree on %d cases, e.g. %r: model=%s impl=%s; "
                             "the oracle found no input on which the property itself fails" % (diffs, list(first[0]), first[1], first[2]),
                             {"theorem_or_correspondence": "correspondence Text.v ~ pptx/text/text.py + pptx/oxml/text.py (theorems C04_* are about the model only)",
                              "input": list(first[0]), "model_outcome": first[1], "impl_outcome": first[2]}, concrete=False)
        # leaf level of save / re-open: libxml2's serialiser and python-pptx's parser against the model (op lx)
        leaf = leaf_roundtrip(ck, rng, 1500 if tier == "quick" else 20000) if ck.build.ok else {}
        # whole-body level: lxml's bytes for the a:txBody python-pptx built, and what the parser reads back, against model/TextCodec.v
        codec = codec_roundtrip(ck, rng, 12000 if tier == "quick" else 100000) if ck.build.ok else {}
        # the one place where the real parser is known to leave the reader the codec theorems are about (recorded finding)
        from checks import xmltree_phase
        codec = dict(codec, blank_text_at_block_boundary=xmltree_phase.boundary_probe(ck))
        ck.broken_build(oracle_found_concrete=len(ck.violations) > 0)
        return ck.finish(
            rule="every string of length <= 3 over {a, space, LF, VT, BEL, TAB} at each of the four levels; named strings from the property text; "
                 "random histories (1-6 operations: assignments at the four levels, add_run, add_line_break, clear, reads) with strings of length 0-60 over letters, blanks, "
                 "LF, VT, the other C0 controls, markup characters, non-ASCII / astral code points and _xHHHH_-shaped fragments, onto random prior bodies "
                 "(0-4 paragraphs, runs with / without a:rPr, a:br, a:fld, a:pPr, a:endParaRPr incl. misplaced, cells without a:txBody); a malformed stream "
                 "(indices out of range, unknown tokens, code points XML cannot carry); every case re-read after %d save/re-open cycle(s); "
                 "codec phase (klass codec): generated bodies (texts with markup characters, CR, CR LF, TAB, LF, blanks only, edge blanks, 300 blanks, non-ASCII, astral, empty runs / fields / paragraphs, "
                 "property numbers incl. 0) + assignment histories, lxml's bytes for the a:txBody vs enc_body and parse_xml of those bytes vs dec_body, plus a:t sources with spliced references / line ends / ill-formed text; "
                 "non-trivial = an assignment whose string has a control, markup, underscore, astral or edge-blank character onto a prior body with >= 2 paragraphs or properties/fields/breaks" % cycles,
            trusted_base=TB, assumptions=ASSUME,
            extra={"correspondence_diffs": diffs, "exhaustive": False, "save_reopen_cycles": cycles, "non_xml_char_behaviour": c0,
                   "c0_readback_run_para_frame": c0_readback, "text_leaf_serialise_parse": leaf, "text_body_codec": codec},
        )
    finally:
        shutil.rmtree(scratch, ignore_errors=True)


def replay(rec):
    case = tuple(rec["input"])
    io_ = impl_one(case)
    print("case ", [repr(t) for t in case])
    print("impl ", io_)
    if has_nonxml(case):
        print("model (not applicable: code point outside XML 1.0)")
        return 0
    mo = run_model("C04", [model_fields(case)])[0]
    print("model", mo)
    return 0 if io_ == mo else 1


CLAIM = {
    "tech": "Coq proof over a Gallina model of the text setters/getters (all strings, all prior bodies, all operation histories) + extracted-model correspondence on real shapes/cells + independent oracle incl. save/re-open",
    "text": "33 theorems closed under the global context: save and re-open of a whole text body is the identity for a CONCRETE writer and reader of a:txBody (C04_codec_roundtrip, C04_reopen_frame / _para / _run / _history: every body whose texts are XML characters, every history of assignments of strings lxml accepts, any number of cycles), tied to lxml byte for byte; read-back at run/paragraph/frame/cell level equals the documented character-level translation for every string and every prior body; paragraph count, line-break count, no empty runs, pPr/endParaRPr/bodyPr untouched, whitespace verbatim, schema order invariant over any history (fold over operations). The model is tied to text/text.py, oxml/text.py and table.py by running ~32k (quick) / ~211k (thorough) assignments and histories on real lxml-backed objects and on the extracted model, comparing read-backs and the a:p/a:r/a:br/a:fld skeleton. The leaf level of save / re-open is a theorem as well: the text of an a:t written with libxml2's text escaping is read back exactly by the parser model of C05, which contains libxml2's blank-text removal (C04_reopen_text_leaf), tied to the real serialiser and parser on 1,500 / 20,000 strings. The whole-body level is proved for a concrete codec (model/TextCodec.v: dec_body (enc_body b) = Some b for every body whose texts are XML characters, which every body the setters build from XML characters and C0 controls is; statements C04_codec_* / C04_api_* / C04_reopen_frame|para|run|history|cycles, ready in proofs/TextCodec_proofs.v) and that codec is compared byte for byte with lxml's serialisation of the a:txBody python-pptx built and with parse_xml on 16,000 / 133,000 bodies and sources.",
    "note": "save/re-open of a whole body: the generic theorem C04_reopen keeps the hypothesis reparse (ser b) = b; the concrete codec of model/TextCodec.v discharges it (proofs/TextCodec_proofs.v) and is tied to lxml by the codec phase; the OPC package level is exercised at run time (1 or 3 cycles per case); property elements are opaque ids (one marker attribute in the codec); the model does not tell an a:t with an empty text node from one without (the codec phase rewrites the former before comparing bytes, the reader is compared on the unmodified bytes); code points outside XML 1.0 are rejected by lxml and not compared.",
    "ref": "6/C04",
}
