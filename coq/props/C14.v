(** C14 — tables stay rectangular; merges stay consistent.
    Statements over model/Table.v (tied to python-pptx by the correspondence of
    checks/c14.py); vocabulary (region, Inv_at, Inv, overlaps, texts, ...) is defined in
    proofs/Table_proofs.v.  Each theorem is closed by the lemma of the same content. *)
From V.lib Require Import Prelude.
From V.model Require Import Table.
From V.proofs Require Import Table_proofs.

(* ------------------------------------------------------------------ creation *)
(** A table created with positive counts has [rows] rows of exactly [cols] plain cells
    with one empty paragraph each; the column widths sum to the requested width and the
    row heights to the requested height, whatever the remainders; the frame has the
    requested size; the invariant holds with no merged region. *)
Theorem C14_new : forall rows cols w h t,
  new_tbl rows cols w h = Ok t ->
  0 < rows /\ 0 < cols /\
  length (grid t) = rows /\ rect_grid cols (grid t) /\
  length (widths t) = cols /\ length (heights t) = rows /\
  sumZ (widths t) = w /\ sumZ (heights t) = h /\ cx t = w /\ cy t = h /\
  (forall r c cl, get (grid t) r c = Some cl -> cl = new_cell) /\
  Inv_at t [].
Proof. exact new_tbl_spec. Qed.
Print Assumptions C14_new.

(** ... and such a table is produced for every positive count and every non-negative
    size a coordinate can hold. *)
Theorem C14_new_accepts : forall rows cols w h,
  0 < rows -> 0 < cols -> (0 <= w <= 27273042316900)%Z -> (0 <= h <= 27273042316900)%Z ->
  exists t, new_tbl rows cols w h = Ok t.
Proof. exact new_tbl_accepts. Qed.
Print Assumptions C14_new_accepts.

Example C14_new_nonvacuous :
  match new_tbl 3 4 101 200 with
  | Ok t => widths t = [25; 25; 25; 26]%Z /\ heights t = [66; 66; 68]%Z /\ cx t = 101%Z /\ cy t = 200%Z
  | Err _ => False
  end.
Proof. vm_compute. repeat split. Qed.

(* ------------------------------------------------------------------ invariant *)
(** Inv_at t regs: every row has as many cells as there are grid columns; as many row
    heights as rows; every cell has a paragraph; [regs] are pairwise disjoint blocks of
    at least two cells inside the grid; and the four merge attributes of EVERY cell are
    the ones determined by [regs]: in a region the left column carries gridSpan = width,
    the top row rowSpan = height, every other column hMerge, every other row vMerge;
    outside every region the cell is plain.  Preserved by every operation ... *)
Theorem C14_inv_step : forall t o, Inv t -> Inv (fst (step t o)).
Proof. exact step_Inv. Qed.
Print Assumptions C14_inv_step.

(** ... hence along every history from a new table, where the row and column counts
    never change either. *)
Theorem C14_inv : forall rows cols w h t ops,
  new_tbl rows cols w h = Ok t ->
  let t' := run_ops t ops in
  Inv t' /\ length (grid t') = rows /\ Forall (fun row => length row = cols) (grid t') /\
  length (widths t') = cols /\ length (heights t') = rows.
Proof. exact run_ops_rectangular. Qed.
Print Assumptions C14_inv.

(** What the public observers report under the invariant: the top-left cell of a region
    is a merge origin whose span_height / span_width are the region's size, every other
    cell of the region is spanned, a cell outside every region is neither. *)
Theorem C14_inv_observers : forall t regs r c cl,
  Inv_at t regs -> get (grid t) r c = Some cl ->
  match find (fun rg => in_reg rg r c) regs with
  | Some rg =>
      if (r =? rtop rg) && (c =? rleft rg)
      then is_merge_origin cl = true /\ is_spanned cl = false /\ rowSpan cl = rh rg /\ gridSpan cl = rw rg
      else is_merge_origin cl = false /\ is_spanned cl = true
  | None => is_merge_origin cl = false /\ is_spanned cl = false /\ rowSpan cl = 1 /\ gridSpan cl = 1
  end.
Proof. exact Inv_observers. Qed.
Print Assumptions C14_inv_observers.

(* ------------------------------------------------------------------ refusals *)
(** A merge whose two corner cells exist is refused exactly when its block shares a cell
    with an existing merged region: then ValueError and the state is unchanged; otherwise
    it succeeds and the block becomes a region (add_reg keeps the list for a one-cell
    block). *)
Theorem C14_refuse : forall t regs r1 c1 r2 c2 a b,
  Inv_at t regs -> get (grid t) r1 c1 = Some a -> get (grid t) r2 c2 = Some b ->
  let rg := merge_rect r1 c1 r2 c2 in
  (overlaps regs rg /\ step t (Merge r1 c1 r2 c2) = (t, Err ValueErr)) \/
  (~ overlaps regs rg /\
   exists g', merge (grid t) r1 c1 r2 c2 = Ok g' /\
              step t (Merge r1 c1 r2 c2) = (with_grid t g', Ok tt) /\
              Inv_at (with_grid t g') (add_reg rg regs)).
Proof. exact merge_behaviour. Qed.
Print Assumptions C14_refuse.

(** A merge reaching into another table is always refused and changes nothing. *)
Theorem C14_refuse_foreign : forall t r c cl,
  get (grid t) r c = Some cl -> step t (MergeForeign r c) = (t, Err ValueErr).
Proof. exact merge_foreign_refused. Qed.
Print Assumptions C14_refuse_foreign.

(** Whatever ANY operation raises (merge, split, text assignment, row height, column
    width), the state is unchanged: in particular a rejected resize changes nothing. *)
Theorem C14_refuse_unchanged : forall t o e,
  snd (step t o) = Err e -> fst (step t o) = t.
Proof. exact step_err_unchanged. Qed.
Print Assumptions C14_refuse_unchanged.

Theorem C14_refuse_index : forall t r1 c1 r2 c2,
  get (grid t) r1 c1 = None \/ get (grid t) r2 c2 = None ->
  step t (Merge r1 c1 r2 c2) = (t, Err IndexErr).
Proof. exact merge_index_error. Qed.
Print Assumptions C14_refuse_index.

(* ------------------------------------------------------------------ split *)
(** Split of the origin of a region resets the four attributes of exactly the cells of
    that region (paragraphs kept), changes nothing else (sizes included: with_grid), and
    the region leaves the list; split of any other cell is refused with ValueError and
    changes nothing. *)
Theorem C14_split : forall t regs r c cl,
  Inv_at t regs -> get (grid t) r c = Some cl ->
  (exists rg, In rg regs /\ rtop rg = r /\ rleft rg = c /\
     let g' := map_grid (fun r' c' cl' => if in_reg rg r' c' then plain_cell cl' else cl') (grid t) in
     step t (Split r c) = (with_grid t g', Ok tt) /\
     Inv_at (with_grid t g') (remove_reg rg regs) /\
     (forall r' c', get g' r' c' =
        if in_reg rg r' c' then option_map plain_cell (get (grid t) r' c') else get (grid t) r' c'))
  \/
  ((forall rg, In rg regs -> ~ (rtop rg = r /\ rleft rg = c)) /\
   step t (Split r c) = (t, Err ValueErr)).
Proof. exact split_behaviour. Qed.
Print Assumptions C14_split.

(* ------------------------------------------------------------------ text *)
(** After an accepted merge the origin holds exactly the non-empty paragraphs of the whole
    block in reading order; every other cell of the block is left with one empty
    paragraph (so nothing is duplicated and the block as a whole reads the same); cells
    outside the block are untouched. *)
Theorem C14_text : forall n g r1 c1 r2 c2 a b g',
  rect_grid n g -> get g r1 c1 = Some a -> get g r2 c2 = Some b ->
  merge g r1 c1 r2 c2 = Ok g' ->
  let rg := merge_rect r1 c1 r2 c2 in
  let block g := range_cells g (rtop rg) (rleft rg) (rh rg) (rw rg) in
  (exists o', get g' (rtop rg) (rleft rg) = Some o' /\
              filter nonempty_str (paras o') = texts (block g)) /\
  (forall r c cl', in_reg rg r c = true -> (r, c) <> (rtop rg, rleft rg) ->
                   get g' r c = Some cl' -> paras cl' = [[]]) /\
  (forall r c, in_reg rg r c = false -> get g' r c = get g r c) /\
  texts (block g') = texts (block g).
Proof. exact merge_text. Qed.
Print Assumptions C14_text.

(* ------------------------------------------------------------------ frame size *)
(** An accepted row-height (column-width) assignment leaves the frame height (width) equal
    to the sum of the row heights (column widths) and changes nothing else. *)
Theorem C14_frame_size : forall t i h t',
  step t (SetRowH i h) = (t', Ok tt) ->
  cy t' = sumZ (heights t') /\ heights t' = set_nth i h (heights t) /\
  widths t' = widths t /\ cx t' = cx t /\ grid t' = grid t.
Proof. exact set_row_h_ok. Qed.
Print Assumptions C14_frame_size.

Theorem C14_frame_size_col : forall t j w t',
  step t (SetColW j w) = (t', Ok tt) ->
  cx t' = sumZ (widths t') /\ widths t' = set_nth j w (widths t) /\
  heights t' = heights t /\ cy t' = cy t /\ grid t' = grid t.
Proof. exact set_col_w_ok. Qed.
Print Assumptions C14_frame_size_col.

(** frame = sums is kept by every operation, accepted or rejected ... *)
Theorem C14_frame_size_history : forall t o, frame_ok t -> frame_ok (fst (step t o)).
Proof. exact step_frame_ok. Qed.
Print Assumptions C14_frame_size_history.

(** ... hence along every history from a new table the frame width is the sum of the
    column widths and the frame height the sum of the row heights. *)
Theorem C14_frame_size_all : forall rows cols w h t ops,
  new_tbl rows cols w h = Ok t ->
  cx (run_ops t ops) = sumZ (widths (run_ops t ops)) /\
  cy (run_ops t ops) = sumZ (heights (run_ops t ops)).
Proof. exact new_run_ops_frame_ok. Qed.
Print Assumptions C14_frame_size_all.

(** Regression for the repaired defect: the assignment that used to leave the row height
    written and the frame stale (1x1 table 100x100, rows[0].height = -5) is rejected with
    ValueError and the state is exactly the old state. *)
Example C14_frame_size_regression :
  exists t, new_tbl 1 1 100 100 = Ok t /\ step t (SetRowH 0 (-5)) = (t, Err ValueErr).
Proof. exact resize_rejected_regression. Qed.

(* ------------------------------------------------------------------ non-vacuity *)
(** One concrete history exercising the hypotheses of the theorems above: text in three
    cells, a merge given bottom-right corner first, then a refused overlapping merge, a
    refused foreign merge, a refused split of a spanned cell, the split of the origin, and
    a row-height change. *)
Example C14_history_nonvacuous :
  match new_tbl 3 3 901 601 with
  | Ok t =>
      let t1 := run_ops t [SetText 0 1 [97]%N; SetText 1 0 [98; 10; 99]%N; SetText 2 2 [100]%N;
                           Merge 1 1 0 0] in
      option_map (fun c => (cell_flags c, paras c)) (get (grid t1) 0 0)
        = Some ((2, 2, false, false), [[97]; [98]; [99]]%N) /\
      option_map cell_flags (get (grid t1) 0 1) = Some (1, 2, true, false) /\
      option_map cell_flags (get (grid t1) 1 0) = Some (2, 1, false, true) /\
      option_map (fun c => (cell_flags c, paras c)) (get (grid t1) 1 1)
        = Some ((1, 1, true, true), [[]]) /\
      option_map (fun c => (cell_flags c, paras c)) (get (grid t1) 2 2)
        = Some ((1, 1, false, false), [[100]]%N) /\
      step t1 (Merge 1 1 2 2) = (t1, Err ValueErr) /\
      step t1 (MergeForeign 2 2) = (t1, Err ValueErr) /\
      step t1 (Split 1 1) = (t1, Err ValueErr) /\
      snd (step t1 (Split 0 0)) = Ok tt /\
      option_map cell_flags (get (grid (fst (step t1 (Split 0 0)))) 1 1) = Some (1, 1, false, false) /\
      snd (step t1 (SetRowH 0 1000)) = Ok tt /\
      cy (fst (step t1 (SetRowH 0 1000))) = 1401%Z
  | Err _ => False
  end.
Proof. vm_compute. repeat split. Qed.

(** the hypotheses of C14_refuse / C14_split / C14_text are met by a real state *)
Example C14_hypotheses_nonvacuous :
  exists t regs a b, Inv_at t regs /\ regs <> [] /\
    get (grid t) 0 0 = Some a /\ get (grid t) 1 1 = Some b /\ is_merge_origin a = true /\
    rect_grid 3 (grid t).
Proof.
  destruct (new_tbl 3 3 901 601) as [t|] eqn:E; [|vm_compute in E; discriminate].
  destruct (C14_new _ _ _ _ _ E) as (_ & _ & _ & HR & HW & _ & _ & _ & _ & _ & _ & HI).
  pose proof (C14_refuse t [] 1 1 0 0) as H.
  assert (exists a, get (grid t) 1 1 = Some a) as [a Ha].
  { vm_compute in E. injection E as <-. vm_compute. eauto. }
  assert (exists b, get (grid t) 0 0 = Some b) as [b Hb].
  { vm_compute in E. injection E as <-. vm_compute. eauto. }
  specialize (H a b HI Ha Hb). cbv zeta in H.
  destruct H as [[(x & _ & _ & [] & _) _]|(_ & g' & Hm & _ & HI')].
  exists (with_grid t g'), (add_reg (merge_rect 1 1 0 0) []).
  assert (Hg' : g' = match merge (grid t) 1 1 0 0 with Ok g => g | Err _ => [] end) by (rewrite Hm; reflexivity).
  vm_compute in E. injection E as <-.
  vm_compute in Hg'. subst g'.
  eexists. eexists. split; [exact HI'|].
  split; [vm_compute; discriminate|].
  split; [vm_compute; reflexivity|]. split; [vm_compute; reflexivity|].
  split; [vm_compute; reflexivity|].
  vm_compute. repeat constructor.
Qed.
