(** Diagnostics for C03: templates the validator rejects (with the errors), rows of the
    declaration instance that fail.  No obligations here: compiles whenever gen does. *)
From V.lib Require Import Prelude PyFloat PyVal.
From V.model Require Import Schema SchemaMatch Xmlchemy SimpleTypeLib XmlValid.
From V.gen Require Import GenC03.
(* one row per complete template rejected WITHOUT exemptions (recorded deviations included, so
   that the check can show them as known findings): id :: 7701 :: (kind elem what pos) ... *)
Eval vm_compute in
  map (fun t => tp_id t :: 7701%N :: flat_map (fun e => [ve_kind e; ve_elem e; ve_what e; ve_pos e])
                                        (errs_node schema0 [] (tp_ty t) (tp_node t)))
      (filter (fun t => tp_complete t && negb (valid_node schema0 [] (tp_ty t) (tp_node t))) templates).
Eval vm_compute in [7702%N :: map dc_id (filter (fun r => negb (memN (dc_id r) known_decl || decl_row_ok schema0 r)) decls)].
Eval vm_compute in [7703%N :: map at_id (filter (fun r => negb (memN (at_id r) known_attr) && N.eqb (attr_row_verdict schema0 r) 1
      && negb (existsb (fun r' => N.eqb (at_grp r') (at_grp r) && N.eqb (attr_row_verdict schema0 r') 0) adecls)) adecls)].
Eval vm_compute in [7704%N :: map at_id (filter (fun r => N.eqb (attr_row_verdict schema0 r) 2) adecls)].
(* templates that are not in order (base case of the operation theorem) *)
Eval vm_compute in [7705%N :: map tp_id (filter (fun t => tp_complete t && negb (order_valid schema0 (tp_ty t) (tp_node t))) templates)].
