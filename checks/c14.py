"""C14 — tables stay rectangular; merges stay consistent.
Proof: props/C14.v over model/Table.v.
Tie: correspondence of the extracted model (run_c14) with real tables made by
shapes.add_table(...).table: every merge/split sequence (all corner-pair orientations,
split on every cell) to depth 2 on every shape up to 3x3 (quick) / depth 3 up to 4x4
(thorough; sequences that reach an XML state already expanded are not expanded again),
random histories on tables up to 12x12 with text in arbitrary cells, a sweep of
(rows, cols, width, height) including non-divisible sizes, and a malformed stream.
Oracle: the property's own statement evaluated on the real XML and the values the
public API reports, independent of the model."""
import multiprocessing
import os

from corr.harness import coq_build, run_model, exc_name

NS = "{http://schemas.openxmlformats.org/drawingml/2006/main}"
MAXC = 27273042316900
MINC = -27273042329600

TB = [
    "lxml element tree operations used by the table code (append of an a:p moves it, remove, getparent().index, xpath ancestor::a:tbl, list slicing of tr_lst / tc_lst) are modelled, not verified: model/Table.v represents a:tbl as list (list cell) with per-cell attributes and paragraph texts, tied by this correspondence",
    "XsdInt / XsdBoolean / ST_Coordinate / ST_PositiveCoordinate attribute round trip (OptionalAttribute with default removes the attribute) is read through the same python-pptx accessors the property speaks about",
    "paragraph text is observed through _Paragraph.text (a:br reads as vertical tab); the run structure inside a paragraph is outside the model (C04 covers it)",
]
ASSUME = [
    "tables are those created by shapes.add_table (every a:tc has an a:txBody with at least one a:p, spans >= 1), half of them then put into a schema-valid form only other producers write (no a:tblPr, a:extLst at the end of rows and cells, cells without the optional a:txBody); tables loaded from foreign files with arbitrary span attributes or missing paragraphs are outside the model (the model answers OtherErr there)",
    "arguments are python ints, indices non-negative (negative python indices and non-int sizes are outside the model)",
    "ZeroDivisionError for rows = 0 or cols = 0 is reported as the error class Other on both sides",
]


# ----------------------------------------------------------------------------- implementation side
class Impl:
    """Real python-pptx tables; one presentation reused, each case's graphic frame removed afterwards."""

    def __init__(self):
        from pptx import Presentation

        self.prs = Presentation()
        layout = self.prs.slide_layouts[6]
        self.slide = self.prs.slides.add_slide(layout)
        other = self.prs.slides.add_slide(layout)
        self.foreign = other.shapes.add_table(2, 2, 0, 0, 1000, 1000).table
        # a second table on the SAME slide, before the table under test in document order, with text in its cells: it must
        # stay as it is whatever is done to the table under test, and a merge reaching into it is refused like any other
        from lxml import etree
        self.neighbour_gf = self.slide.shapes.add_table(2, 3, 0, 0, 3000, 2000)
        for r in range(2):
            for c in range(3):
                self.neighbour_gf.table.cell(r, c).text = "n%d%d" % (r, c)
        self.neighbour = self.neighbour_gf.table
        self.neighbour_xml = etree.tostring(self.neighbour_gf._element)

    def observe(self, gf):
        """Structured observation of the real XML + what the public API reports."""
        from lxml import etree
        from pptx.table import _Cell

        table = gf.table
        tbl = table._tbl
        rows = []
        for tr in tbl.findall(NS + "tr"):
            cells = []
            for tc in tr.findall(NS + "tc"):
                cell = _Cell(tc, table)
                txBody = tc.find(NS + "txBody")
                # a cell without the optional a:txBody has no text: the same content as one empty paragraph
                paras = [""] if txBody is None else [p.text for p in cell.text_frame.paragraphs]
                cells.append((cell.span_width, cell.span_height, bool(tc.hMerge), bool(tc.vMerge),
                              bool(cell.is_merge_origin), bool(cell.is_spanned), tuple(paras)))
            rows.append(cells)
        return {
            "cx": int(gf.width), "cy": int(gf.height),
            "widths": [int(c.width) for c in table.columns],
            "heights": [int(r.height) for r in table.rows],
            "rows": rows,
            "xml": etree.tostring(gf._element.xfrm) + etree.tostring(tbl),
        }

    def other_producer_form(self, gf, case):
        """Half of the tables are put (with lxml, before the history starts) into a schema-valid form python-pptx
        never writes but other producers do: a:tbl without the optional a:tblPr, a:extLst at the end of rows and
        cells.  Nothing the property speaks about changes, so model, oracle and expected outcomes are the same."""
        import zlib
        from lxml import etree
        v = zlib.crc32(repr(case).encode("utf-8", "surrogatepass")) % 4
        A = "{http://schemas.openxmlformats.org/drawingml/2006/main}"
        tbl = gf._element.graphic.graphicData.tbl
        if v in (1, 3):
            pr = tbl.find(A + "tblPr")
            if pr is not None:
                tbl.remove(pr)
        if v in (2, 3):
            for tr in tbl.findall(A + "tr"):
                for tc in tr.findall(A + "tc"):
                    etree.SubElement(tc, A + "extLst")
                etree.SubElement(tr, A + "extLst")
        # a:tc without the optional a:txBody (an empty cell as other producers write it): about half of the cells of
        # every other such table; python-pptx creates the text body on demand (merge, text assignment)
        if (zlib.crc32(repr(case).encode("utf-8", "surrogatepass")) >> 3) % 2:
            for i, tc in enumerate(tbl.iter(A + "tc")):
                body = tc.find(A + "txBody")
                if body is not None and (i + v) % 2 == 0:
                    tc.remove(body)

    def apply(self, table, op):
        k = op[0]
        if k == "M":
            table.cell(op[1], op[2]).merge(table.cell(op[3], op[4]))
        elif k == "X":
            table.cell(op[1], op[2]).merge((self.foreign if (op[1] + op[2]) % 2 == 0 else self.neighbour).cell(0, 0))
        elif k == "S":
            table.cell(op[1], op[2]).split()
        elif k == "H":
            table.rows[op[1]].height = op[2]
        elif k == "W":
            table.columns[op[1]].width = op[2]
        elif k == "T":
            table.cell(op[1], op[2]).text = op[3]
        else:
            raise RuntimeError("bad op")

    def run(self, case):
        """case = (rows, cols, width, height, ops); ops = [(quiet, (kind, args...))].
        Returns (wire string, trace); trace[0] = (None, 'ok:', None, obs after creation), then one
        (op, outcome, obs before, obs after) per non-quiet operation."""
        rows, cols, width, height, ops = case
        try:
            gf = self.slide.shapes.add_table(rows, cols, 0, 0, width, height)
        except Exception as e:  # noqa
            return "err:" + exc_name(e), []
        try:
            self.other_producer_form(gf, case)
            obs = self.observe(gf)
            trace = [(None, "ok:", None, obs)]
            out = ["ok:@" + show_obs(obs)]
            table = gf.table
            stale = False
            for q, op in ops:
                if not q and stale:
                    obs = self.observe(gf)
                    stale = False
                try:
                    self.apply(table, op)
                    oc = "ok:"
                except Exception as e:  # noqa
                    oc = "err:" + exc_name(e)
                if q:
                    stale = True
                else:
                    after = self.observe(gf)
                    from lxml import etree
                    after["neighbour_same"] = etree.tostring(self.neighbour_gf._element) == self.neighbour_xml
                    trace.append((op, oc, obs, after))
                    out.append(oc + "@" + show_obs(after))
                    obs = after
            return "#".join(out), trace
        finally:
            el = gf._element
            el.getparent().remove(el)


def show_str(s):
    return " ".join(str(ord(c)) for c in s)


def show_obs(o):
    rows = "!".join(
        ";".join("%d %d %d %d %d %d %d/%s" % (c[0], c[1], c[2], c[3], c[4], c[5], len(c[6]),
                                                ",".join(show_str(p) for p in c[6])) for c in r)
        for r in o["rows"])
    return "|".join(["%d %d" % (o["cx"], o["cy"]), " ".join(map(str, o["widths"])),
                     " ".join(map(str, o["heights"])), rows])


def op_field(q, op):
    k = op[0]
    if k == "T":
        toks = ["T", str(op[1]), str(op[2])] + [str(ord(ch)) for ch in op[3]]
    else:
        toks = [k] + [str(a) for a in op[1:]]
    return ("q " if q else "") + " ".join(toks)


def wire(case):
    rows, cols, width, height, ops = case
    return [str(rows), str(cols), str(width), str(height)] + [op_field(q, op) for q, op in ops]


# ----------------------------------------------------------------------------- oracle
def regions(obs):
    return [(r, c, cell[1], cell[0]) for r, row in enumerate(obs["rows"]) for c, cell in enumerate(row) if cell[4]]


def nonempty(paras):
    return [p for p in paras if p != ""]


def state_faults(obs, nrows, ncols):
    """The state part of the statement: r rows of c cells; regions are disjoint rectangles
    inside the grid; origin reports its span; exactly the other cells of a region report spanned."""
    f = []
    if len(obs["rows"]) != nrows or any(len(r) != ncols for r in obs["rows"]):
        f.append(("not-rectangular", "rows have %r cells, expected %d rows of %d" % ([len(r) for r in obs["rows"]], nrows, ncols)))
        return f
    if len(obs["widths"]) != ncols or len(obs["heights"]) != nrows:
        f.append(("not-rectangular", "%d gridCol / %d tr for a %dx%d table" % (len(obs["widths"]), len(obs["heights"]), nrows, ncols)))
    owner = {}
    for (r, c, h, w) in regions(obs):
        if h < 1 or w < 1 or r + h > nrows or c + w > ncols:
            f.append(("region-outside-grid", "origin (%d,%d) reports span %dx%d in a %dx%d table" % (r, c, h, w, nrows, ncols)))
            continue
        for rr in range(r, r + h):
            for cc in range(c, c + w):
                if (rr, cc) in owner:
                    f.append(("regions-overlap", "cell (%d,%d) lies in the regions of origins %r and %r" % (rr, cc, owner[(rr, cc)], (r, c))))
                owner[(rr, cc)] = (r, c)
    for r, row in enumerate(obs["rows"]):
        for c, cell in enumerate(row):
            o = owner.get((r, c))
            if o is None:
                if cell[5]:
                    f.append(("stray-spanned", "cell (%d,%d) reports is_spanned outside every merged region" % (r, c)))
            elif o != (r, c):
                if not cell[5] or cell[4]:
                    f.append(("spanned-flag", "cell (%d,%d) inside the region of %r reports is_spanned=%r is_merge_origin=%r" % (r, c, o, cell[5], cell[4])))
    return f


def rect_of(op):
    _, r1, c1, r2, c2 = op
    return min(r1, r2), min(c1, c2), abs(r1 - r2) + 1, abs(c1 - c2) + 1


def in_rect(rect, r, c):
    t, l, h, w = rect
    return t <= r < t + h and l <= c < l + w


def step_faults(op, oc, before, after, nrows, ncols):
    """The transition part of the statement."""
    f = []
    k = op[0]
    unchanged = after["xml"] == before["xml"]
    inside = lambda r, c: 0 <= r < nrows and 0 <= c < ncols  # noqa
    if not after.get("neighbour_same", True):
        f.append(("other-table-changed", "%r on one table changed ANOTHER table of the same slide (outcome %s)" % (op, oc)))
    if k in ("M", "X", "S") and oc != "ok:" and not unchanged:
        f.append(("refusal-changes-state", "%r raised %s and changed the table" % (op, oc)))
    if k == "X" and inside(op[1], op[2]) and oc != "err:Value":
        f.append(("merge-foreign-accepted", "merge with a cell of another table gave %s" % oc))
    if k == "M" and inside(op[1], op[2]) and inside(op[3], op[4]):
        rect = rect_of(op)
        overlap = any(in_rect(rect, rr, cc) for (r, c, h, w) in regions(before)
                      for rr in range(r, r + h) for cc in range(c, c + w))
        if overlap and (oc != "err:Value" or not unchanged):
            f.append(("merge-overlap-not-refused", "%r overlaps an existing merged region: outcome %s, unchanged=%r" % (op, oc, unchanged)))
        if oc == "ok:":
            t, l, h, w = rect
            if h * w > 1 and (t, l, h, w) not in regions(after):
                f.append(("merge-region-missing", "after %r the block %r is not reported as a merged region (origins: %r)" % (op, rect, regions(after))))
            want = [p for r in range(t, t + h) for c in range(l, l + w) for p in nonempty(before["rows"][r][c][6])]
            got = nonempty(after["rows"][t][l][6])
            if got != want:
                f.append(("merge-text", "after %r the origin holds %r, the range held %r" % (op, got, want)))
            for r in range(nrows):
                for c in range(ncols):
                    if in_rect(rect, r, c):
                        if (r, c) != (t, l) and nonempty(after["rows"][r][c][6]):
                            f.append(("merge-text-duplicated", "after %r cell (%d,%d) still holds %r" % (op, r, c, after["rows"][r][c][6])))
                    elif after["rows"][r][c] != before["rows"][r][c]:
                        f.append(("merge-changes-outside", "after %r cell (%d,%d) outside the range changed" % (op, r, c)))
            if (after["widths"], after["heights"], after["cx"], after["cy"]) != (before["widths"], before["heights"], before["cx"], before["cy"]):
                f.append(("merge-changes-sizes", "%r changed sizes" % (op,)))
    if k == "S" and inside(op[1], op[2]):
        r0, c0 = op[1], op[2]
        cell = before["rows"][r0][c0]
        if cell[4]:
            rect = (r0, c0, cell[1], cell[0])
            if oc != "ok:":
                f.append(("split-refused", "split of merge origin (%d,%d) gave %s" % (r0, c0, oc)))
            else:
                for r in range(nrows):
                    for c in range(ncols):
                        a, b = after["rows"][r][c], before["rows"][r][c]
                        if in_rect(rect, r, c):
                            if a != (1, 1, False, False, False, False, b[6]):
                                f.append(("split-not-restored", "after %r cell (%d,%d) reads %r" % (op, r, c, a)))
                        elif a != b:
                            f.append(("split-changes-outside", "after %r cell (%d,%d) outside the region changed" % (op, r, c)))
    if k == "H" and after["cy"] != sum(after["heights"]):
        sig = "frame-size" if oc == "ok:" else "frame-size-after-rejected-resize"
        f.append((sig, "rows[%d].height = %d -> %s: frame height %d, row heights %r sum to %d" % (
            op[1], op[2], oc, after["cy"], after["heights"], sum(after["heights"]))))
    if k == "W" and after["cx"] != sum(after["widths"]):
        sig = "frame-size" if oc == "ok:" else "frame-size-after-rejected-resize"
        f.append((sig, "columns[%d].width = %d -> %s: frame width %d, column widths %r sum to %d" % (
            op[1], op[2], oc, after["cx"], after["widths"], sum(after["widths"]))))
    return f


def oracle(case, out, trace):
    """All faults of one case: [(sig, what, step index)]."""
    rows, cols, width, height, ops = case
    faults = []
    if not trace:
        if rows > 0 and cols > 0 and MINC <= width <= MAXC and MINC <= height <= MAXC and width >= 0 and height >= 0:
            faults.append(("new-refused", "add_table(%d, %d, .., %d, %d) gave %s" % (rows, cols, width, height, out), 0))
        return faults
    first = trace[0][3]
    if (len(first["rows"]) != rows or any(len(r) != cols for r in first["rows"])
            or sum(first["widths"]) != width or sum(first["heights"]) != height
            or first["cx"] != width or first["cy"] != height
            or len(first["widths"]) != cols or len(first["heights"]) != rows):
        faults.append(("new-size", "add_table(%d, %d, .., %d, %d): widths %r heights %r frame %dx%d cells %r" % (
            rows, cols, width, height, first["widths"], first["heights"], first["cx"], first["cy"], [len(r) for r in first["rows"]]), 0))
    for i, (op, oc, before, obs) in enumerate(trace):
        for sig, what in state_faults(obs, rows, cols):
            faults.append((sig, what, i))
        if op is not None:
            for sig, what in step_faults(op, oc, before, obs, rows, cols):
                faults.append((sig, what, i))
    return faults


# ----------------------------------------------------------------------------- generation
def init_text_ops(rows, cols):
    ops = []
    for r in range(rows):
        for c in range(cols):
            k = r * cols + c
            m = k % 4
            if m == 1:
                ops.append((True, ("T", r, c, "A%d" % k)))
            elif m == 2:
                ops.append((True, ("T", r, c, "B%d\nC%d" % (k, k))))
            elif m == 3:
                ops.append((True, ("T", r, c, "D%d\n" % k)))
    return ops


def all_ops(rows, cols):
    cells = [(r, c) for r in range(rows) for c in range(cols)]
    return [("M", a[0], a[1], b[0], b[1]) for a in cells for b in cells] + [("S", r, c) for r, c in cells]


def exh_setup(rows, cols):
    return init_text_ops(rows, cols), all_ops(rows, cols), 1000 * cols + 1, 700 * rows + (1 if rows > 1 else 0)


ALPHA = ["a", "b", " ", "\v", "\t", "\n", "\n", "é", "\U0001F600", "Z"]


def rand_text(rng):
    n = rng.choice([0, 0, 1, 2, 3, 5, 8])
    return "".join(rng.choice(ALPHA) for _ in range(n))


def random_case(rng, maxdim=12):
    rows, cols = rng.randint(1, maxdim), rng.randint(1, maxdim)
    width = rng.choice([rng.randint(0, 50), rng.randint(0, 10 ** 7), 9144000, cols * rng.randint(1, 1000)])
    height = rng.choice([rng.randint(0, 50), rng.randint(0, 10 ** 7), 6858000, rows * rng.randint(1, 1000)])
    ops = []
    origins = []
    for _ in range(rng.randint(3, 24)):
        x = rng.random()
        if x < 0.35:
            r1, c1 = rng.randrange(rows), rng.randrange(cols)
            r2 = min(rows - 1, max(0, r1 + rng.choice([-3, -2, -1, -1, 0, 0, 1, 1, 2, 3])))
            c2 = min(cols - 1, max(0, c1 + rng.choice([-3, -2, -1, -1, 0, 0, 1, 1, 2, 3])))
            if rng.random() < 0.1:
                r2, c2 = rng.randrange(rows), rng.randrange(cols)
            ops.append(("M", r1, c1, r2, c2))
            origins.append((min(r1, r2), min(c1, c2)))
        elif x < 0.5:
            if origins and rng.random() < 0.8:
                r, c = rng.choice(origins)
            else:
                r, c = rng.randrange(rows), rng.randrange(cols)
            ops.append(("S", r, c))
        elif x < 0.8:
            ops.append(("T", rng.randrange(rows), rng.randrange(cols), rand_text(rng)))
        elif x < 0.88:
            ops.append(("H", rng.randrange(rows), rng.choice([0, 1, rng.randint(0, 10 ** 6), 370840])))
        elif x < 0.96:
            ops.append(("W", rng.randrange(cols), rng.choice([0, 1, rng.randint(0, 10 ** 6), 914400])))
        else:
            ops.append(("X", rng.randrange(rows), rng.randrange(cols)))
    return (rows, cols, width, height, [(False, o) for o in ops])


def enclosure_cases(tier):
    """Directed two-step histories: merge an inner region, then request a merge whose block
    strictly encloses it (every corner orientation), plus border-touching controls.  Needs a
    table of at least 3x4 / 4x3, which the depth-bounded exhaustive sweep of the quick tier
    (shapes up to 3x3) never reaches."""
    shapes = [(3, 4), (4, 3), (4, 4), (4, 5), (5, 5)] if tier == "quick" else \
             [(3, 4), (4, 3), (4, 4), (4, 5), (5, 4), (5, 5), (5, 6), (6, 6)]
    out = []
    for rows, cols in shapes:
        base = init_text_ops(rows, cols)
        for r1 in range(1, rows - 1):
            for r2 in range(r1, rows - 1):
                for c1 in range(1, cols - 1):
                    for c2 in range(c1, cols - 1):
                        if (r2 - r1 + 1) * (c2 - c1 + 1) < 2:
                            continue
                        inner = ("M", r1, c1, r2, c2)
                        outers = {(r1 - 1, c1 - 1, r2 + 1, c2 + 1), (0, 0, rows - 1, cols - 1),
                                  (r1 - 1, c1 - 1, rows - 1, cols - 1), (0, 0, r2 + 1, c2 + 1),
                                  (r1, c1 - 1, r2, c2 + 1), (r1 - 1, c1, r2 + 1, c2)}   # last two: partial, touch the border
                        for (a, b, c, d) in sorted(outers):
                            for o in (("M", a, b, c, d), ("M", c, d, a, b), ("M", a, d, c, b), ("M", c, b, a, d)):
                                out.append((rows, cols, 1000 * cols + 1, 700 * rows + 1,
                                            base + [(False, inner), (False, o), (False, ("S", r1, c1))]))
    return out


def new_cases(tier):
    if tier == "quick":
        dims = range(1, 7)
        sizes = list(range(0, 14)) + [97, 100, 914399, 9144000]
        hs = [0, 1, 5, 7, 12, 101, 6858000]
    else:
        dims = range(1, 13)
        sizes = list(range(0, 40)) + [97, 100, 914399, 914400, 9144000, 9143999, MAXC, MAXC + 1]
        hs = [0, 1, 2, 3, 5, 7, 11, 12, 13, 101, 6858000, 6857999]
    out = []
    for r in dims:
        for c in dims:
            for w in sizes:
                for h in hs:
                    out.append((r, c, w, h, []))
    return out


def malformed_cases(rng, n):
    # regression witnesses of the repaired non-atomic resize (frame-size-after-rejected-resize)
    out = [(1, 1, 100, 100, [(False, ("H", 0, -5))]),
           (2, 2, 100, 100, [(False, ("W", 0, MAXC))]),
           (2, 2, 100, 100, [(False, ("M", 0, 0, 0, 1)), (False, ("H", 1, MINC)), (False, ("S", 0, 0))])]
    for _ in range(n):
        x = rng.random()
        rows, cols = rng.randint(0, 4), rng.randint(0, 4)
        w = rng.choice([100, -7, MAXC, MAXC + 1, MINC, MINC - 1, 2 * MAXC + 3, -1])
        h = rng.choice([100, -7, MAXC, MAXC + 1, MINC, 5])
        ops = []
        for _ in range(rng.randint(0, 6)):
            k = rng.choice("MXSHWT")
            big = lambda d: rng.randint(0, d + 2)  # noqa  (indices may fall outside the table)
            if k == "M":
                ops.append(("M", big(rows), big(cols), big(rows), big(cols)))
            elif k == "X":
                ops.append(("X", big(rows), big(cols)))
            elif k == "S":
                ops.append(("S", big(rows), big(cols)))
            elif k == "H":
                ops.append(("H", big(rows), rng.choice([-1000, -1, 0, 10, MAXC, MAXC + 1, MINC, MINC - 1])))
            elif k == "W":
                ops.append(("W", big(cols), rng.choice([-1000, -1, 0, 10, MAXC, MAXC + 1, MINC, MINC - 1])))
            else:
                ops.append(("T", big(rows), big(cols), rand_text(rng)))
        if x < 0.5:
            rows, cols = max(rows, 1), max(cols, 1)
        out.append((rows, cols, w, h, [(False, o) for o in ops]))
    return out


def nontrivial(case, trace):
    rows, cols, width, height, ops = case
    if not ops:
        return rows > 0 and cols > 0 and (width % cols != 0 or height % rows != 0)
    for op, oc, _b, _a in trace[1:]:
        if oc == "ok:" and op[0] == "S":
            return True
        if oc == "ok:" and op[0] == "M" and (op[1], op[2]) != (op[3], op[4]):
            return True
    return False


# ----------------------------------------------------------------------------- jobs
# A job is run by one process: the implementation, the oracle and the extracted model on a chunk
# of cases; it returns a summary that the parent merges (in job order, so the run is deterministic).
_W = {}


def _impl():
    if "impl" not in _W:
        _W["impl"] = Impl()
    return _W["impl"]


def run_job(job):
    import hashlib

    impl = _impl()
    kind = job[0]
    res = {"n": 0, "klass": None, "nontrivial": [], "faults": [], "diffs": 0, "first_diff": None,
           "notes": [], "new_states": [], "samples": []}
    batch = []

    def one(case, klass):
        out, trace = impl.run(case)
        res["n"] += 1
        if nontrivial(case, trace):
            res["nontrivial"].append(hashlib.sha1(repr(wire(case)).encode("utf-8", "surrogatepass")).hexdigest()[:16])
        for sig, what, stepi in oracle(case, out, trace):
            if sum(1 for f in res["faults"] if f[0] == sig) < 3:
                res["faults"].append((sig, what, stepi, case_json(case), out[:4000]))
        batch.append((case, out))
        return trace

    if kind == "cases":
        _, klass, cases = job
        res["klass"] = klass
        for case in cases:
            one(case, klass)
        res["samples"] = [case_json(c) for c in cases[:2]]
    else:
        # expand: every operation from every given path of one shape
        _, rows, cols, paths = job
        res["klass"] = "exh"
        base, ops, w, h = exh_setup(rows, cols)
        seen = set()
        for path in paths:
            for op in ops:
                case = (rows, cols, w, h, base + [(False, o) for o in tuple(path) + (op,)])
                trace = one(case, "exh")
                if trace:
                    hx = hashlib.sha1(trace[-1][3]["xml"]).hexdigest()
                    if hx not in seen:
                        seen.add(hx)
                        res["new_states"].append((tuple(path) + (op,), hx))
    if job[-1] != "nomodel":
        mo = run_model("C14", [wire(c) for c, _ in batch])
        for (c, io), m in zip(batch, mo):
            if m != io:
                res["diffs"] += 1
                if res["first_diff"] is None:
                    res["first_diff"] = (case_json(c), m, io)
                if res["diffs"] <= 2:
                    res["notes"].append("diff %r model=%s impl=%s" % (case_json(c), m[:600], io[:600]))
    return res


def chunks(lst, n):
    return [lst[i:i + n] for i in range(0, len(lst), n)]


def case_json(case):
    rows, cols, width, height, ops = case
    return [rows, cols, width, height, [[bool(q)] + list(op) for q, op in ops]]


def case_from_json(j):
    rows, cols, width, height, ops = j
    return (rows, cols, width, height, [(bool(o[0]), tuple(o[1:])) for o in ops])


def run(ck, tier, rng):
    import hashlib

    ck.build = coq_build("C14")
    quick = tier == "quick"
    tot = {"diffs": 0, "first_diff": None}
    pool = None
    if not quick:
        nproc = min(16, os.cpu_count() or 1)
        pool = multiprocessing.get_context("fork").Pool(nproc)

    def run_jobs(jobs):
        if not ck.build.ok:
            jobs = [j + ("nomodel",) for j in jobs]
        results = pool.imap(run_job, jobs) if pool else map(run_job, jobs)
        out = []
        for res in results:
            ck.evaluations += res["n"]
            ck.dist[res["klass"]] = ck.dist.get(res["klass"], 0) + res["n"]
            ck.nontrivial.update(res["nontrivial"])
            for sig, what, stepi, cj, o in res["faults"]:
                ck.violation(sig, what, {"entry_point": "shapes.add_table / _Cell.merge / _Cell.split / _Row.height / _Column.width",
                                         "input": cj, "step": stepi, "impl_outcome": o})
            tot["diffs"] += res["diffs"]
            if tot["first_diff"] is None:
                tot["first_diff"] = res["first_diff"]
            if len(ck.notes) < 5:
                ck.notes.extend(res["notes"])
            for smp in res["samples"]:
                if sum(1 for x in ck.samples if x[-1:] == [res["klass"]]) < 3:
                    ck.sample(smp + [res["klass"]], limit=12)
            out.append(res)
        return out

    try:
        # 1. bounded-exhaustive merge/split sequences, level by level, states deduplicated by XML
        maxdim, depth = (3, 2) if quick else (4, 3)
        states = {}
        for r in range(1, maxdim + 1):
            for c in range(1, maxdim + 1):
                base, _ops, w, h = exh_setup(r, c)
                _o, t0 = _impl().run((r, c, w, h, base + [(False, ("S", 0, 0))]))
                seen = {hashlib.sha1(t0[1][2]["xml"]).hexdigest()}
                level = [()]
                per_level = []
                for d in range(depth):
                    step = max(1, -(-len(level) // 64))
                    nxt = []
                    for res in run_jobs([("expand", r, c, ch) for ch in chunks(level, step)]):
                        for path, hx in res["new_states"]:
                            if hx not in seen:
                                seen.add(hx)
                                nxt.append(path)
                    per_level.append(len(nxt))
                    level = nxt
                states["%dx%d" % (r, c)] = per_level
        # 2. random histories on tables up to 12x12
        rand = [random_case(rng) for _ in range(600 if quick else 8000)]
        run_jobs([("cases", "rand", ch) for ch in chunks(rand, 100)])
        # 2b. directed enclosure histories (a merge strictly enclosing an existing merged region)
        run_jobs([("cases", "enclosure", ch) for ch in chunks(enclosure_cases(tier), 100)])
        # 3. creation sweep
        run_jobs([("cases", "new", ch) for ch in chunks(new_cases(tier), 2000)])
        # 4. malformed stream
        run_jobs([("cases", "malformed", ch) for ch in chunks(malformed_cases(rng, 600 if quick else 8000), 500)])
    finally:
        if pool:
            pool.close()
            pool.join()
    if tot["diffs"] and len(ck.violations) == 0:
        cj, m, io = tot["first_diff"]
        ck.violation("correspondence",
                     "model/Table.v and python-pptx tables disagree on %d cases, e.g. %r: model=%s impl=%s; the oracle found no "
                     "input on which the property itself fails" % (tot["diffs"], cj, m[:500], io[:500]),
                     {"theorem_or_correspondence": "correspondence Table.v ~ pptx.table / pptx.oxml.table (theorems C14_* are about the model only)",
                      "input": cj, "model_outcome": m, "impl_outcome": io}, concrete=False)
    elif tot["diffs"]:
        ck.notes.append("%d model/impl diffs besides the concrete oracle failures" % tot["diffs"])
    ck.broken_build(oracle_found_concrete=len(ck.violations) > 0)
    return ck.finish(
        rule="every sequence of merges (all ordered corner pairs) and splits (every cell) to depth %d on every table shape up to %dx%d from a "
             "fixed initial text pattern (empty / one / two paragraphs / trailing empty paragraph), sequences reaching an already expanded XML "
             "state not expanded again; random histories of 3-24 operations (merge, split, text, row height, column width, foreign merge) on tables "
             "up to 12x12; creation sweep over (rows, cols, width, height) incl. non-divisible sizes; malformed stream (zero counts, indices outside "
             "the table, negative and out-of-range sizes). non-trivial = a history with an accepted merge of >= 2 cells or an accepted split, "
             "or a creation whose width or height is not divisible" % (depth, maxdim, maxdim),
        trusted_base=TB, assumptions=ASSUME,
        extra={"correspondence_diffs": tot["diffs"], "exhaustive": True, "new_states_per_level": states},
    )


def replay(rec):
    case = case_from_json(rec["input"])
    impl = Impl()
    io, trace = impl.run(case)
    mo = run_model("C14", [wire(case)])[0]
    print("case ", rec["input"])
    print("impl ", io)
    print("model", mo)
    for sig, what, i in oracle(case, io, trace):
        print("oracle: [%s] step %d: %s" % (sig, i, what))
    return 0 if io == mo and not oracle(case, io, trace) else 1


CLAIM = {
    "tech": "Coq proof over a Gallina model of table creation / merge / split / resize (all sizes, all states satisfying the invariant, all operation histories) + extracted-model correspondence on real add_table tables + independent oracle on the real XML",
    "text": "19 obligations, 15 theorems closed under the global context: a new table has r rows of c cells with widths/heights summing to the request for any remainder; an invariant (rectangular; merged regions pairwise disjoint blocks inside the grid; the four span attributes of EVERY cell are exactly those the regions dictate) is preserved by every operation and every history; a merge is refused with ValueError exactly when its block touches a merged region (or the other cell is foreign), any raised error leaves the state unchanged (rejected resizes included); split resets exactly its region; after a merge the origin holds the non-empty paragraphs of the block in reading order, none lost or duplicated; frame size = sums along every history. The model is tied to pptx.table / pptx.oxml.table by running every merge/split sequence to depth 2 on shapes up to 3x3 (quick; depth 3 up to 4x4 thorough, ~650k sequences), random histories on tables up to 12x12, a creation sweep and a malformed stream on real tables and on the extracted model, comparing every cell's attributes, observers and paragraphs, sizes and frame after every step.",
    "note": "tables are those made by shapes.add_table (spans >= 1, every cell has a paragraph); int arguments and non-negative indices; lxml tree operations and the attribute simple types are modelled (tied by the correspondence), not verified; paragraph text is observed through _Paragraph.text, run structure is C04's.",
    "ref": "6/C14",
}
