(** C19: part-name arithmetic of PackURI.  Statements only; every proof is [exact] of a
    lemma of proofs/PackUri_proofs.v.  Names are given as segment lists ([render]
    puts the slashes back); [wf_name] says every segment is non-empty, slash-free
    and neither dot nor dot-dot. *)
From V.lib Require Import Prelude.
From V.model Require Import PackUri.
From V.proofs Require Import PackUri_proofs.

Theorem C19_baseURI : forall d f, wf_name d -> wf_segb f = true ->
  baseURI (render (d ++ [f])) = render d.
Proof. exact baseURI_render. Qed.
Print Assumptions C19_baseURI.

Theorem C19_baseURI_root : baseURI (render []) = render [].
Proof. exact baseURI_root. Qed.
Print Assumptions C19_baseURI_root.

Theorem C19_filename : forall d f, wf_name d -> wf_segb f = true ->
  filename (render (d ++ [f])) = f.
Proof. exact filename_render. Qed.
Print Assumptions C19_filename.

Theorem C19_membername : forall P, membername (render P) = join_with s_slash P.
Proof. exact membername_render. Qed.
Print Assumptions C19_membername.

Theorem C19_rels_uri : forall d f, wf_name d -> wf_segb f = true ->
  rels_uri (render (d ++ [f])) = Ok (render (d ++ [s_rels_dir; f ++ s_rels_ext])).
Proof. exact rels_uri_render. Qed.
Print Assumptions C19_rels_uri.

Theorem C19_rels_uri_root : rels_uri (render []) = Ok (render [s_rels_dir; s_rels_ext]).
Proof. exact rels_uri_root. Qed.
Print Assumptions C19_rels_uri_root.

Theorem C19_ext : forall d stem e, wf_name d -> wf_segb (stem ++ c_dot :: e) = true ->
  existsb (fun c => negb (is_dot c)) stem = true -> no_dot e = true ->
  ext (render (d ++ [stem ++ c_dot :: e])) = e.
Proof. exact ext_render. Qed.
Print Assumptions C19_ext.

Theorem C19_ext_none : forall d f, wf_name d -> wf_segb f = true -> no_dot f = true ->
  ext (render (d ++ [f])) = [].
Proof. exact ext_none. Qed.
Print Assumptions C19_ext_none.

Theorem C19_idx_some : forall d letters digits rest e, wf_name d ->
  letters <> [] -> forallb is_alpha_ascii letters = true ->
  digits <> [] -> forallb is_digit digits = true ->
  (match rest with [] => true | c :: _ => negb (is_digit c) end) = true ->
  no_dot (letters ++ digits ++ rest) = true -> forallb not_slash rest = true ->
  no_dot e = true -> forallb not_slash e = true ->
  idx (render (d ++ [letters ++ digits ++ rest ++ c_dot :: e])) = Some (dec_value digits).
Proof. exact idx_some. Qed.
Print Assumptions C19_idx_some.

Theorem C19_idx_none : forall d letters rest e, wf_name d ->
  forallb is_alpha_ascii letters = true ->
  (match rest with [] => true | c :: _ => negb (is_digit c) && negb (is_alpha_ascii c) end) = true ->
  no_dot (letters ++ rest) = true -> forallb not_slash rest = true ->
  letters ++ rest <> [] ->
  no_dot e = true -> forallb not_slash e = true ->
  idx (render (d ++ [letters ++ rest ++ c_dot :: e])) = None.
Proof. exact idx_none. Qed.
Print Assumptions C19_idx_none.

Theorem C19_idx_root : idx (render []) = None.
Proof. exact idx_root. Qed.
Print Assumptions C19_idx_root.

Theorem C19_reject : forall s, (forall r, s <> c_slash :: r) ->
  packuri_new s = Err IndexErr \/ packuri_new s = Err ValueErr.
Proof. exact reject_not_rooted. Qed.
Print Assumptions C19_reject.

Theorem C19_roundtrip_dir : forall D Q, wf_name D -> wf_name Q ->
  bind (relative_ref (render Q) (render D)) (from_rel_ref (render D)) = Ok (render Q).
Proof. exact roundtrip_dir. Qed.
Print Assumptions C19_roundtrip_dir.

Theorem C19_roundtrip : forall P Q, wf_name P -> wf_name Q ->
  bind (relative_ref (render Q) (baseURI (render P))) (from_rel_ref (baseURI (render P)))
  = Ok (render Q).
Proof. exact roundtrip. Qed.
Print Assumptions C19_roundtrip.

Theorem C19_rfc3986 : forall D ref, wf_name D -> ref_ok ref = true ->
  from_rel_ref (render D) ref = Ok (render (rfc_resolve_segs D ref)).
Proof. exact rfc3986. Qed.
Print Assumptions C19_rfc3986.

(** ---- non-vacuity: concrete values meeting the hypotheses ---- *)

(* the segments of /ppt/slides/slide12.xml *)
Example C19_ex_wf_slide12 : wf_name [[112; 112; 116]%N; [115; 108; 105; 100; 101; 115]%N; [115; 108; 105; 100; 101; 49; 50; 46; 120; 109; 108]%N].
Proof. repeat constructor. Qed.

Example C19_ex_render_slide12 :
  render [[112; 112; 116]%N; [115; 108; 105; 100; 101; 115]%N; [115; 108; 105; 100; 101; 49; 50; 46; 120; 109; 108]%N]
  = [47; 112; 112; 116; 47; 115; 108; 105; 100; 101; 115; 47; 115; 108; 105; 100; 101; 49; 50; 46; 120; 109; 108]%N.
Proof. vm_compute. reflexivity. Qed.

(* the segments of /a.b/c *)
Example C19_ex_wf_ab_c : wf_name [[97; 46; 98]%N; [99]%N].
Proof. repeat constructor. Qed.

(* the root: the package pseudo-name *)
Example C19_ex_wf_root : wf_name [].
Proof. constructor. Qed.

Example C19_ex_wf_segb : wf_segb [115; 108; 105; 100; 101; 49; 50; 46; 120; 109; 108]%N = true.
Proof. vm_compute. reflexivity. Qed.

(* dot and dot-dot and the empty string are not segments *)
Example C19_ex_wf_segb_neg :
  wf_segb s_dot = false /\ wf_segb s_dotdot = false /\ wf_segb [] = false
  /\ wf_segb [97; 47; 98]%N = false.
Proof. vm_compute. repeat split. Qed.

(* ref_ok for ../slideLayouts/slideLayout1.xml *)
Example C19_ex_ref_ok_up :
  ref_ok [46; 46; 47; 115; 108; 105; 100; 101; 76; 97; 121; 111; 117; 116; 115; 47; 115; 108; 105; 100; 101; 76; 97; 121; 111; 117; 116; 49; 46; 120; 109; 108]%N = true.
Proof. vm_compute. reflexivity. Qed.

(* ref_ok for /ppt/media/image1.png *)
Example C19_ex_ref_ok_abs :
  ref_ok [47; 112; 112; 116; 47; 109; 101; 100; 105; 97; 47; 105; 109; 97; 103; 101; 49; 46; 112; 110; 103]%N = true.
Proof. vm_compute. reflexivity. Qed.

(* ref_ok for ./x *)
Example C19_ex_ref_ok_dot : ref_ok [46; 47; 120]%N = true.
Proof. vm_compute. reflexivity. Qed.

(* ref_ok excludes the empty reference, a trailing slash, a doubled slash, a final dot-dot *)
Example C19_ex_ref_ok_neg :
  ref_ok [] = false /\ ref_ok [97; 47]%N = false /\ ref_ok [97; 47; 47; 98]%N = false
  /\ ref_ok [97; 47; 46; 46]%N = false.
Proof. vm_compute. repeat split. Qed.

(* hypotheses of C19_ext: stem slide12, extension xml *)
Example C19_ex_ext_hyps :
  wf_segb ([115; 108; 105; 100; 101; 49; 50]%N ++ c_dot :: [120; 109; 108]%N) = true
  /\ existsb (fun c => negb (is_dot c)) [115; 108; 105; 100; 101; 49; 50]%N = true
  /\ no_dot [120; 109; 108]%N = true
  /\ ext [47; 112; 112; 116; 47; 115; 108; 105; 100; 101; 115; 47; 115; 108; 105; 100; 101; 49; 50; 46; 120; 109; 108]%N = [120; 109; 108]%N.
Proof. vm_compute. repeat split. Qed.

(* hypotheses of C19_ext_none: file name c of /a.b/c *)
Example C19_ex_ext_none_hyps :
  wf_segb [99]%N = true /\ no_dot [99]%N = true
  /\ ext [47; 97; 46; 98; 47; 99]%N = [].
Proof. vm_compute. repeat split. Qed.

(* hypotheses of C19_idx_some: letters slide, digits 12, nothing after, extension xml *)
Example C19_ex_idx_some_hyps :
  [115; 108; 105; 100; 101]%N <> [] /\ forallb is_alpha_ascii [115; 108; 105; 100; 101]%N = true
  /\ [49; 50]%N <> [] /\ forallb is_digit [49; 50]%N = true
  /\ no_dot ([115; 108; 105; 100; 101]%N ++ [49; 50]%N ++ []) = true
  /\ no_dot [120; 109; 108]%N = true /\ forallb not_slash [120; 109; 108]%N = true
  /\ idx [47; 112; 112; 116; 47; 115; 108; 105; 100; 101; 115; 47; 115; 108; 105; 100; 101; 49; 50; 46; 120; 109; 108]%N = Some 12%N.
Proof. repeat split; try discriminate; vm_compute; reflexivity. Qed.

(* hypotheses of C19_idx_none: letters presentation, nothing after, extension xml *)
Example C19_ex_idx_none_hyps :
  forallb is_alpha_ascii [112; 114; 101; 115; 101; 110; 116; 97; 116; 105; 111; 110]%N = true
  /\ no_dot ([112; 114; 101; 115; 101; 110; 116; 97; 116; 105; 111; 110]%N ++ []) = true
  /\ [112; 114; 101; 115; 101; 110; 116; 97; 116; 105; 111; 110]%N ++ [] <> []
  /\ idx [47; 112; 112; 116; 47; 112; 114; 101; 115; 101; 110; 116; 97; 116; 105; 111; 110; 46; 120; 109; 108]%N = None.
Proof. repeat split; try discriminate; vm_compute; reflexivity. Qed.

(* hypothesis of C19_reject: the string ppt/x does not start with a slash *)
Example C19_ex_reject_hyp : forall r, [112; 112; 116; 47; 120]%N <> c_slash :: r.
Proof. intros r H. discriminate H. Qed.

Example C19_ex_reject_values :
  packuri_new [] = Err IndexErr /\ packuri_new [112; 112; 116; 47; 120]%N = Err ValueErr.
Proof. vm_compute. split; reflexivity. Qed.

(* the round trip on /ppt/slides/slide12.xml versus /ppt/slideLayouts/slideLayout1.xml *)
Example C19_ex_wf_layout : wf_name [[112; 112; 116]%N; [115; 108; 105; 100; 101; 76; 97; 121; 111; 117; 116; 115]%N; [115; 108; 105; 100; 101; 76; 97; 121; 111; 117; 116; 49; 46; 120; 109; 108]%N].
Proof. repeat constructor. Qed.

Example C19_ex_relative_ref :
  relative_ref (render [[112; 112; 116]%N; [115; 108; 105; 100; 101; 76; 97; 121; 111; 117; 116; 115]%N; [115; 108; 105; 100; 101; 76; 97; 121; 111; 117; 116; 49; 46; 120; 109; 108]%N])
               (baseURI (render [[112; 112; 116]%N; [115; 108; 105; 100; 101; 115]%N; [115; 108; 105; 100; 101; 49; 50; 46; 120; 109; 108]%N]))
  = Ok [46; 46; 47; 115; 108; 105; 100; 101; 76; 97; 121; 111; 117; 116; 115; 47; 115; 108; 105; 100; 101; 76; 97; 121; 111; 117; 116; 49; 46; 120; 109; 108]%N.
Proof. vm_compute. reflexivity. Qed.

Example C19_ex_roundtrip :
  bind (relative_ref (render [[112; 112; 116]%N; [115; 108; 105; 100; 101; 76; 97; 121; 111; 117; 116; 115]%N; [115; 108; 105; 100; 101; 76; 97; 121; 111; 117; 116; 49; 46; 120; 109; 108]%N])
                     (baseURI (render [[112; 112; 116]%N; [115; 108; 105; 100; 101; 115]%N; [115; 108; 105; 100; 101; 49; 50; 46; 120; 109; 108]%N])))
       (from_rel_ref (baseURI (render [[112; 112; 116]%N; [115; 108; 105; 100; 101; 115]%N; [115; 108; 105; 100; 101; 49; 50; 46; 120; 109; 108]%N])))
  = Ok [47; 112; 112; 116; 47; 115; 108; 105; 100; 101; 76; 97; 121; 111; 117; 116; 115; 47; 115; 108; 105; 100; 101; 76; 97; 121; 111; 117; 116; 49; 46; 120; 109; 108]%N.
Proof. vm_compute. reflexivity. Qed.

(* the RFC statement on the same pair: base directory /ppt/slides *)
Example C19_ex_rfc3986 :
  from_rel_ref (render [[112; 112; 116]%N; [115; 108; 105; 100; 101; 115]%N])
               [46; 46; 47; 115; 108; 105; 100; 101; 76; 97; 121; 111; 117; 116; 115; 47; 115; 108; 105; 100; 101; 76; 97; 121; 111; 117; 116; 49; 46; 120; 109; 108]%N
  = Ok [47; 112; 112; 116; 47; 115; 108; 105; 100; 101; 76; 97; 121; 111; 117; 116; 115; 47; 115; 108; 105; 100; 101; 76; 97; 121; 111; 117; 116; 49; 46; 120; 109; 108]%N
  /\ rfc_resolve_segs [[112; 112; 116]%N; [115; 108; 105; 100; 101; 115]%N]
                      [46; 46; 47; 115; 108; 105; 100; 101; 76; 97; 121; 111; 117; 116; 115; 47; 115; 108; 105; 100; 101; 76; 97; 121; 111; 117; 116; 49; 46; 120; 109; 108]%N
     = [[112; 112; 116]%N; [115; 108; 105; 100; 101; 76; 97; 121; 111; 117; 116; 115]%N; [115; 108; 105; 100; 101; 76; 97; 121; 111; 117; 116; 49; 46; 120; 109; 108]%N].
Proof. vm_compute. split; reflexivity. Qed.
