#!/usr/bin/env python3
"""bin/seedtest.py <name> <change-dir> <Cxx> [<Cyy> ...]
Confirms a seeded change (patch.diff + demo.py + meta.json) and runs the named checks against
a tree with the change applied, then undoes it, and stores everything under
/verif/seeded/<name>/.  By default the tree is /repo itself (git apply / git checkout -- .);
with SEED_TREE=<dir> (a scratch worktree of /repo at HEAD) the checks run against that tree
through VERIF_REPO, leaving /repo untouched.  Never commits anywhere."""
import json, os, shutil, subprocess, sys, time
V = os.path.dirname(os.path.dirname(os.path.abspath(__file__)))
name, cdir, checks = sys.argv[1], sys.argv[2], sys.argv[3:]
TREE = os.environ.get("SEED_TREE", "/repo")
env = dict(os.environ, PYTHONPATH=TREE + "/src", PYTHONHASHSEED="0", VERIF_REPO=TREE)
def sh(cmd, **kw):
    p = subprocess.run(cmd, shell=isinstance(cmd, str), stdout=subprocess.PIPE, stderr=subprocess.STDOUT, text=True, **kw)
    return p.returncode, p.stdout
assert sh("git -C " + TREE + " status --porcelain -uno")[1].strip() == "", "tree not clean"
out = os.path.join(V, "seeded", name)
os.makedirs(out, exist_ok=True)
for f in ("patch.diff", "demo.py", "meta.json"):
    shutil.copy(os.path.join(cdir, f), out)
res = {"name": name, "checks": {}, "ran": []}
rc0, o0 = sh(["/venv/bin/python", os.path.join(out, "demo.py")], env=env, cwd="/tmp")
res["demo_clean_rc"] = rc0
rc, o = sh("git -C " + TREE + " apply " + os.path.join(out, "patch.diff"))
assert rc == 0, o
try:
    rc1, o1 = sh(["/venv/bin/python", os.path.join(out, "demo.py")], env=env, cwd="/tmp")
    res["demo_patched_rc"] = rc1
    res["demo_patched_out"] = o1[-400:]
    rcb, ob = sh("cd %s && /venv/bin/python -m pytest -q -p no:cacheprovider --timeout=900 --continue-on-collection-errors 2>&1 | tail -1" % TREE, env=env)
    res["baseline_patched"] = ob.strip().split("\n")[0]
    for c in checks:
        t = time.time()
        rcc, oc = sh([os.path.join(V, "bin", "check"), c, "--tier", "quick"], cwd=V, env=env)
        lines = [l for l in oc.split("\n") if l.startswith("VIOLATION") or l.startswith("  what:")]
        res["checks"][c] = {"rc": rcc, "detected": rcc != 0, "wall_s": round(time.time() - t, 1), "lines": [l[:300] for l in lines[:6]]}
        res["ran"].append("./bin/check %s --tier quick" % c)
finally:
    sh("git -C " + TREE + " checkout -- .")
assert sh("git -C " + TREE + " status --porcelain -uno")[1].strip() == ""
res["confirmed"] = (rc0 == 0 and res.get("demo_patched_rc") not in (0, None) and "566 pass" in res.get("baseline_patched", ""))
meta = json.load(open(os.path.join(out, "meta.json")))
meta["verification"] = res
json.dump(meta, open(os.path.join(out, "meta.json"), "w"), indent=1)
print(json.dumps(res, indent=1)[:1500])
