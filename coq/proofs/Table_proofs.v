(** Proofs about model/Table.v.  The statements used by props/C14.v are at the end
    of each section; everything is closed under the global context. *)
From V.lib Require Import Prelude.
From V.model Require Import Table.
From V.proofs Require Import Prelude_proofs.

(* ================================================================== generic lists *)
Lemma nth_error_mapi_from {A B} (f : nat -> A -> B) l k i :
  nth_error (mapi_from k f l) i = option_map (f (k + i)) (nth_error l i).
Proof.
  revert k i; induction l as [|x l IH]; intros k [|i]; simpl; auto.
  - rewrite Nat.add_0_r; reflexivity.
  - rewrite IH. replace (S k + i) with (k + S i) by lia. reflexivity.
Qed.

Lemma nth_error_mapi {A B} (f : nat -> A -> B) l i :
  nth_error (mapi f l) i = option_map (f i) (nth_error l i).
Proof. unfold mapi. rewrite nth_error_mapi_from. reflexivity. Qed.

Lemma length_mapi_from {A B} (f : nat -> A -> B) l k : length (mapi_from k f l) = length l.
Proof. revert k; induction l; intros; simpl; auto. Qed.

Lemma length_mapi {A B} (f : nat -> A -> B) l : length (mapi f l) = length l.
Proof. apply length_mapi_from. Qed.

Lemma Forall_mapi_from {A B} (P : A -> Prop) (Q : B -> Prop) (f : nat -> A -> B) l k :
  (forall i x, P x -> Q (f i x)) -> Forall P l -> Forall Q (mapi_from k f l).
Proof.
  intros H; revert k; induction l; intros k HF; simpl; constructor; inversion HF; subst; auto.
Qed.

Lemma get_map_grid f g r c : get (map_grid f g) r c = option_map (f r c) (get g r c).
Proof.
  unfold get, map_grid. rewrite nth_error_mapi.
  destruct (nth_error g r) as [row|]; simpl; auto.
  apply nth_error_mapi.
Qed.

Lemma length_map_grid f g : length (map_grid f g) = length g.
Proof. apply length_mapi. Qed.

Definition rect_grid (n : nat) (g : list (list cell)) : Prop :=
  Forall (fun row => length row = n) g.

Lemma rect_map_grid f n g : rect_grid n g -> rect_grid n (map_grid f g).
Proof.
  unfold rect_grid, map_grid. unfold mapi at 1.
  apply (Forall_mapi_from (fun row => length row = n) (fun row => length row = n)).
  intros i x Hx. rewrite length_mapi. exact Hx.
Qed.

Lemma get_Some_lt n g r c cl : rect_grid n g -> get g r c = Some cl -> r < length g /\ c < n.
Proof.
  unfold get; intros HR H. destruct (nth_error g r) as [row|] eqn:E; try discriminate.
  split.
  - apply nth_error_Some; congruence.
  - apply nth_error_In in E. unfold rect_grid in HR. rewrite Forall_forall in HR.
    rewrite <- (HR _ E). apply nth_error_Some; congruence.
Qed.

Lemma get_lt_Some n g r c : rect_grid n g -> r < length g -> c < n -> exists cl, get g r c = Some cl.
Proof.
  unfold get; intros HR Hr Hc.
  destruct (nth_error g r) as [row|] eqn:E.
  - assert (length row = n).
    { apply nth_error_In in E. unfold rect_grid in HR. rewrite Forall_forall in HR. auto. }
    destruct (nth_error row c) eqn:E2; eauto.
    apply nth_error_None in E2. lia.
  - apply nth_error_None in E. lia.
Qed.

Lemma length_set_nth {A} i (v : A) l : length (set_nth i v l) = length l.
Proof. revert i; induction l; intros [|i]; simpl; auto. Qed.

Lemma find_none_iff {A} (f : A -> bool) l :
  find f l = None <-> (forall x, In x l -> f x = false).
Proof.
  split. apply find_none.
  induction l as [|x l IH]; simpl; auto. intros H.
  rewrite (H x) by auto. apply IH. intros; apply H; auto.
Qed.

Lemma find_skip {A} (f : A -> bool) a x b :
  f x = false -> find f (a ++ x :: b) = find f (a ++ b).
Proof.
  intros Hx. induction a as [|y a IH]; simpl.
  - rewrite Hx; reflexivity.
  - destruct (f y); auto.
Qed.

Lemma sumZ_app a b : sumZ (a ++ b) = (sumZ a + sumZ b)%Z.
Proof. unfold sumZ. induction a; simpl; auto. rewrite IHa. lia. Qed.

(* ================================================================== rectangles *)
Lemma in_rect_spec top lft h w r c :
  in_rect top lft h w r c = true <-> (top <= r < top + h /\ lft <= c < lft + w).
Proof.
  unfold in_rect. rewrite !andb_true_iff, !Nat.leb_le, !Nat.ltb_lt. lia.
Qed.

Lemma in_rect_coords top lft h w r c :
  In (r, c) (rect_coords top lft h w) <-> in_rect top lft h w r c = true.
Proof.
  rewrite in_rect_spec. unfold rect_coords. rewrite in_flat_map. split.
  - intros [r' [Hr Hc]]. apply in_map_iff in Hc as [c' [E Hc]]. inversion E; subst.
    apply in_seq in Hr. apply in_seq in Hc. lia.
  - intros H. exists r. split. apply in_seq; lia.
    apply in_map_iff. exists c; split; auto. apply in_seq; lia.
Qed.

Lemma in_range_cells g top lft h w cl :
  In cl (range_cells g top lft h w) <->
  exists r c, in_rect top lft h w r c = true /\ get g r c = Some cl.
Proof.
  unfold range_cells. rewrite in_flat_map. split.
  - intros [[r c] [Hin H]]. simpl in H. apply in_rect_coords in Hin.
    destruct (get g r c) eqn:E; simpl in H; [|tauto]. destruct H as [->|[]]. eauto.
  - intros [r [c [Hin H]]]. exists (r, c). split. apply in_rect_coords; auto.
    simpl. rewrite H. simpl; auto.
Qed.

(** first coordinate of a non-empty block, and what the others look like *)
Lemma rect_coords_cons top lft h w :
  exists rest, rect_coords top lft (S h) (S w) = (top, lft) :: rest /\
    forall r c, In (r, c) rest ->
      in_rect top lft (S h) (S w) r c = true /\ (r =? top) && (c =? lft) = false.
Proof.
  exists (map (fun c => (top, c)) (seq (S lft) w) ++
          flat_map (fun r => map (fun c => (r, c)) (seq lft (S w))) (seq (S top) h)).
  split; [reflexivity|].
  intros r c Hin. apply in_app_or in Hin as [Hin|Hin].
  - apply in_map_iff in Hin as [c' [E Hc]]. inversion E; subst. apply in_seq in Hc.
    split. apply in_rect_spec; lia.
    apply andb_false_iff; right. apply Nat.eqb_neq; lia.
  - apply in_flat_map in Hin as [r' [Hr Hc]]. apply in_map_iff in Hc as [c' [E Hc]].
    inversion E; subst. apply in_seq in Hr. apply in_seq in Hc.
    split. apply in_rect_spec; lia.
    apply andb_false_iff; left. apply Nat.eqb_neq; lia.
Qed.

Lemma start_and_size_spec i j :
  start_and_size i j = (Nat.min i j, S (Nat.max i j - Nat.min i j)).
Proof. unfold start_and_size. rewrite Nat.add_1_r. reflexivity. Qed.

(* ================================================================== regions / invariant *)
(** A merged region: top row, left column, height, width. *)
Record region := mkReg { rtop : nat; rleft : nat; rh : nat; rw : nat }.

Definition in_reg (rg : region) (r c : nat) : bool :=
  in_rect (rtop rg) (rleft rg) (rh rg) (rw rg) r c.

(** inside an nr x nc grid and covering at least two cells *)
Definition reg_ok (nr nc : nat) (rg : region) : Prop :=
  1 <= rh rg /\ 1 <= rw rg /\ (1 < rh rg \/ 1 < rw rg) /\
  rtop rg + rh rg <= nr /\ rleft rg + rw rg <= nc.

(** (gridSpan, rowSpan, hMerge, vMerge) *)
Definition cell_flags (cl : cell) : nat * nat * bool * bool :=
  (gridSpan cl, rowSpan cl, hMerge cl, vMerge cl).

Definition plain_flags : nat * nat * bool * bool := (1, 1, false, false).

(** what _Cell.merge leaves at (r, c) of a region: the left column carries gridSpan =
    width, the top row rowSpan = height, every other column hMerge, every other row vMerge *)
Definition region_flags (rg : region) (r c : nat) : nat * nat * bool * bool :=
  (if c =? rleft rg then rw rg else 1, if r =? rtop rg then rh rg else 1,
   rleft rg <? c, rtop rg <? r).

Definition expected (regs : list region) (r c : nat) : nat * nat * bool * bool :=
  match find (fun rg => in_reg rg r c) regs with
  | Some rg => region_flags rg r c
  | None => plain_flags
  end.

Definition regions_disjoint (regs : list region) : Prop :=
  forall a b, In a regs -> In b regs -> a <> b ->
  forall r c, in_reg a r c = true -> in_reg b r c = false.

(** The state invariant, relative to the list of merged regions [regs]. *)
Definition Inv_at (t : table) (regs : list region) : Prop :=
  rect_grid (length (widths t)) (grid t) /\
  length (heights t) = length (grid t) /\
  (forall r c cl, get (grid t) r c = Some cl -> paras cl <> []) /\
  Forall (reg_ok (length (grid t)) (length (widths t))) regs /\
  NoDup regs /\
  regions_disjoint regs /\
  (forall r c cl, get (grid t) r c = Some cl -> cell_flags cl = expected regs r c).

Definition Inv (t : table) : Prop := exists regs, Inv_at t regs.

Lemma region_eq_dec (a b : region) : {a = b} + {a <> b}.
Proof. decide equality; apply Nat.eq_dec. Qed.

(** flags inside a region always trip the contains_merged_cell test *)
Lemma region_flags_merged nr nc rg r c cl :
  reg_ok nr nc rg -> in_reg rg r c = true -> cell_flags cl = region_flags rg r c ->
  is_merged cl = true.
Proof.
  intros (H1 & H2 & H3 & _) Hin Hf. unfold in_reg in Hin. apply in_rect_spec in Hin.
  unfold cell_flags, region_flags in Hf. injection Hf as Hg Hr Hh Hv.
  unfold is_merged. rewrite Hg, Hr, Hh, Hv.
  destruct (Nat.eqb_spec c (rleft rg)) as [->|Hc].
  - destruct (Nat.eqb_spec r (rtop rg)) as [->|Hr'].
    + destruct H3 as [H3|H3].
      * replace (1 <? rh rg) with true by (symmetry; apply Nat.ltb_lt; lia).
        rewrite orb_true_r; reflexivity.
      * replace (1 <? rw rg) with true by (symmetry; apply Nat.ltb_lt; lia). reflexivity.
    + replace (rtop rg <? r) with true by (symmetry; apply Nat.ltb_lt; lia).
      rewrite !orb_true_r; reflexivity.
  - replace (rleft rg <? c) with true by (symmetry; apply Nat.ltb_lt; lia).
    rewrite orb_true_r; reflexivity.
Qed.

Lemma Inv_unmerged_plain t regs r c cl :
  Inv_at t regs -> get (grid t) r c = Some cl -> is_merged cl = false ->
  find (fun rg => in_reg rg r c) regs = None /\ cell_flags cl = plain_flags.
Proof.
  intros (_ & _ & _ & Hok & _ & _ & Hfl) Hg Hm.
  specialize (Hfl _ _ _ Hg). unfold expected in Hfl.
  destruct (find (fun rg => in_reg rg r c) regs) as [rg|] eqn:E; auto.
  apply find_some in E as [Hin Hr]. rewrite Forall_forall in Hok.
  rewrite (region_flags_merged _ _ rg r c cl (Hok _ Hin) Hr Hfl) in Hm. discriminate.
Qed.

(** a merge origin is the top-left cell of one of the regions, with its size as spans *)
Lemma Inv_origin t regs r c cl :
  Inv_at t regs -> get (grid t) r c = Some cl -> is_merge_origin cl = true ->
  exists rg, In rg regs /\ rtop rg = r /\ rleft rg = c /\ rowSpan cl = rh rg /\ gridSpan cl = rw rg
             /\ hMerge cl = false /\ vMerge cl = false.
Proof.
  intros (_ & _ & _ & Hok & _ & _ & Hfl) Hg Ho.
  specialize (Hfl _ _ _ Hg). unfold expected in Hfl.
  destruct (find (fun rg => in_reg rg r c) regs) as [rg|] eqn:E.
  - apply find_some in E as [Hin Hr]. exists rg. split; auto.
    unfold in_reg in Hr. apply in_rect_spec in Hr.
    unfold cell_flags, region_flags in Hfl. injection Hfl as Hgs Hrs Hh Hv.
    unfold is_merge_origin in Ho. rewrite Hgs, Hrs, Hh, Hv in Ho.
    destruct (Nat.eqb_spec c (rleft rg)) as [->|Hc].
    + destruct (Nat.eqb_spec r (rtop rg)) as [->|Hr'].
      * rewrite Nat.ltb_irrefl in *. auto 10.
      * replace (rtop rg <? r) with true in Ho by (symmetry; apply Nat.ltb_lt; lia).
        simpl in Ho. rewrite andb_false_r in Ho. discriminate.
    + replace (rleft rg <? c) with true in Ho by (symmetry; apply Nat.ltb_lt; lia).
      simpl in Ho. rewrite andb_false_r in Ho. discriminate.
  - unfold cell_flags, plain_flags in Hfl. injection Hfl as Hgs Hrs Hh Hv.
    unfold is_merge_origin in Ho. rewrite Hgs, Hrs, !Nat.ltb_irrefl in Ho. simpl in Ho. discriminate.
Qed.

(** conversely the top-left cell of a region reports as merge origin, every other cell
    of it as spanned, and a cell outside every region as neither *)
Lemma Inv_observers t regs r c cl :
  Inv_at t regs -> get (grid t) r c = Some cl ->
  match find (fun rg => in_reg rg r c) regs with
  | Some rg =>
      if (r =? rtop rg) && (c =? rleft rg)
      then is_merge_origin cl = true /\ is_spanned cl = false /\ rowSpan cl = rh rg /\ gridSpan cl = rw rg
      else is_merge_origin cl = false /\ is_spanned cl = true
  | None => is_merge_origin cl = false /\ is_spanned cl = false /\ rowSpan cl = 1 /\ gridSpan cl = 1
  end.
Proof.
  intros (_ & _ & _ & Hok & _ & _ & Hfl) Hg.
  specialize (Hfl _ _ _ Hg). unfold expected in Hfl.
  destruct (find (fun rg => in_reg rg r c) regs) as [rg|] eqn:E.
  - apply find_some in E as [Hin Hr]. rewrite Forall_forall in Hok.
    destruct (Hok _ Hin) as (H1 & H2 & H3 & _).
    unfold in_reg in Hr. apply in_rect_spec in Hr.
    unfold cell_flags, region_flags in Hfl. injection Hfl as Hgs Hrs Hh Hv.
    unfold is_merge_origin, is_spanned. rewrite Hgs, Hrs, Hh, Hv.
    destruct (Nat.eqb_spec r (rtop rg)) as [->|Hr']; destruct (Nat.eqb_spec c (rleft rg)) as [->|Hc]; simpl.
    + rewrite !Nat.ltb_irrefl. simpl. rewrite !andb_true_r.
      split; [|auto].
      destruct H3 as [H3|H3].
      * destruct (1 <? rw rg); auto. apply Nat.ltb_lt; lia.
      * replace (1 <? rw rg) with true by (symmetry; apply Nat.ltb_lt; lia). reflexivity.
    + replace (rleft rg <? c) with true by (symmetry; apply Nat.ltb_lt; lia).
      rewrite andb_false_r. auto.
    + replace (rtop rg <? r) with true by (symmetry; apply Nat.ltb_lt; lia).
      simpl. rewrite andb_false_r, orb_true_r. auto.
    + replace (rleft rg <? c) with true by (symmetry; apply Nat.ltb_lt; lia). auto.
  - unfold cell_flags, plain_flags in Hfl. injection Hfl as Hgs Hrs Hh Hv.
    unfold is_merge_origin, is_spanned. rewrite Hgs, Hrs, Hh, Hv. simpl. auto.
Qed.

(* ================================================================== creation *)
Lemma sumZ_const q l : sumZ (map (fun _ : nat => q) l) = (Z.of_nat (length l) * q)%Z.
Proof. unfold sumZ. induction l; simpl fold_right; simpl length; auto. rewrite IHl. lia. Qed.

Lemma distribute_sum n total : 0 < n -> sumZ (distribute n total) = total.
Proof.
  intros Hn. destruct n as [|m]; [lia|]. unfold distribute.
  replace (S m - 1) with m by lia.
  rewrite seq_S, map_app, sumZ_app. simpl seq. simpl map.
  rewrite Nat.eqb_refl.
  rewrite (map_ext_in _ (fun _ => (total / Z.of_nat (S m))%Z)).
  - rewrite sumZ_const, seq_length. unfold sumZ; simpl fold_right. lia.
  - intros k Hk. apply in_seq in Hk. destruct (Nat.eqb_spec k m); auto. lia.
Qed.

Lemma distribute_length n total : length (distribute n total) = n.
Proof. unfold distribute. rewrite map_length, seq_length. reflexivity. Qed.

(** every share of a non-negative total lies between 0 and the total *)
Lemma distribute_bounds n total x :
  0 < n -> (0 <= total)%Z -> In x (distribute n total) -> (0 <= x <= total)%Z.
Proof.
  intros Hn Ht Hin. unfold distribute in Hin. apply in_map_iff in Hin as [k [E Hk]].
  apply in_seq in Hk.
  assert (Hq0 : (0 <= total / Z.of_nat n)%Z) by (apply Z.div_pos; lia).
  assert (Hq1 : (Z.of_nat n * (total / Z.of_nat n) <= total)%Z) by (apply Z.mul_div_le; lia).
  destruct (Nat.eqb_spec k (n - 1)); subst x.
  - replace (Z.of_nat (n - 1)) with (Z.of_nat n - 1)%Z by lia. nia.
  - nia.
Qed.

Lemma get_repeat n m r c cl : get (repeat (repeat new_cell n) m) r c = Some cl -> cl = new_cell.
Proof.
  unfold get. intros H. destruct (nth_error (repeat (repeat new_cell n) m) r) as [row|] eqn:E; try discriminate.
  apply nth_error_In in E. apply repeat_spec in E. subst row.
  apply nth_error_In in H. apply repeat_spec in H. auto.
Qed.

Lemma new_tbl_spec rows cols w h t :
  new_tbl rows cols w h = Ok t ->
  0 < rows /\ 0 < cols /\
  length (grid t) = rows /\ rect_grid cols (grid t) /\
  length (widths t) = cols /\ length (heights t) = rows /\
  sumZ (widths t) = w /\ sumZ (heights t) = h /\ cx t = w /\ cy t = h /\
  (forall r c cl, get (grid t) r c = Some cl -> cl = new_cell) /\
  Inv_at t [].
Proof.
  unfold new_tbl. destruct rows as [|r']; [discriminate|]. destruct cols as [|c']; [discriminate|].
  destruct (forallb in_coord (distribute (S c') w) && forallb in_coord (distribute (S r') h)); [|discriminate].
  intros E; injection E as <-. cbn [grid widths heights cx cy].
  assert (HR : rect_grid (S c') (repeat (repeat new_cell (S c')) (S r'))).
  { unfold rect_grid. apply Forall_forall. intros row Hin. apply repeat_spec in Hin. subst.
    apply repeat_length. }
  assert (HG : forall r c cl, get (repeat (repeat new_cell (S c')) (S r')) r c = Some cl -> cl = new_cell)
    by (intros; eapply get_repeat; eauto).
  split; [lia|]. split; [lia|]. split; [exact (repeat_length (repeat new_cell (S c')) (S r'))|]. split; [exact HR|].
  split; [apply distribute_length|]. split; [apply distribute_length|].
  split; [apply distribute_sum; lia|]. split; [apply distribute_sum; lia|].
  split; [reflexivity|]. split; [reflexivity|]. split; [exact HG|].
  unfold Inv_at; cbn [grid widths heights]. rewrite !distribute_length.
  change (length (repeat (repeat new_cell (S c')) (S r'))) with (length (repeat (repeat new_cell (S c')) (S r'))).
  rewrite (repeat_length (repeat new_cell (S c')) (S r')).
  split; [exact HR|]. split; [reflexivity|].
  split. { intros r c cl Hg. apply HG in Hg; subst; discriminate. }
  split; [constructor|]. split; [constructor|].
  split. { intros a b []. }
  intros r c cl Hg. apply HG in Hg. subst. reflexivity.
Qed.

Lemma new_tbl_accepts rows cols w h :
  0 < rows -> 0 < cols -> (0 <= w <= 27273042316900)%Z -> (0 <= h <= 27273042316900)%Z ->
  exists t, new_tbl rows cols w h = Ok t.
Proof.
  intros Hr Hc Hw Hh. unfold new_tbl.
  destruct rows as [|r']; [lia|]. destruct cols as [|c']; [lia|].
  assert (forall n total, 0 < n -> (0 <= total <= 27273042316900)%Z ->
                          forallb in_coord (distribute n total) = true) as HF.
  { intros n total Hn Ht. apply forallb_forall. intros x Hx.
    apply distribute_bounds in Hx; try lia. unfold in_coord.
    apply andb_true_iff; split; apply Z.leb_le; lia. }
  rewrite !HF by lia. simpl. eauto.
Qed.

(* ================================================================== frame size *)
Definition frame_ok (t : table) : Prop := cx t = sumZ (widths t) /\ cy t = sumZ (heights t).

Lemma set_row_h_ok t i h t' :
  step t (SetRowH i h) = (t', Ok tt) ->
  cy t' = sumZ (heights t') /\ heights t' = set_nth i h (heights t) /\
  widths t' = widths t /\ cx t' = cx t /\ grid t' = grid t.
Proof.
  simpl. unfold set_row_h.
  destruct (i <? length (heights t)); [|discriminate].
  destruct (in_coord h); [|discriminate].
  destruct (in_poscoord _); [|discriminate].
  intros E; injection E as <-. simpl. auto.
Qed.

Lemma set_col_w_ok t j w t' :
  step t (SetColW j w) = (t', Ok tt) ->
  cx t' = sumZ (widths t') /\ widths t' = set_nth j w (widths t) /\
  heights t' = heights t /\ cy t' = cy t /\ grid t' = grid t.
Proof.
  simpl. unfold set_col_w.
  destruct (j <? length (widths t)); [|discriminate].
  destruct (in_coord w); [|discriminate].
  destruct (in_poscoord _); [|discriminate].
  intros E; injection E as <-. simpl. auto.
Qed.

(** Operations other than the two resizes leave the state alone when they raise. *)
Definition is_resize (o : op) : bool :=
  match o with SetRowH _ _ | SetColW _ _ => true | _ => false end.

Lemma lift_grid_err t r e : snd (lift_grid t r) = Err e -> fst (lift_grid t r) = t.
Proof. destruct r; simpl; auto. discriminate. Qed.

Lemma step_err_unchanged t o e :
  is_resize o = false -> snd (step t o) = Err e -> fst (step t o) = t.
Proof. destruct o; simpl; try discriminate; intros _; apply lift_grid_err. Qed.

Lemma lift_grid_sizes t r :
  widths (fst (lift_grid t r)) = widths t /\ heights (fst (lift_grid t r)) = heights t /\
  cx (fst (lift_grid t r)) = cx t /\ cy (fst (lift_grid t r)) = cy t.
Proof. destruct r; simpl; auto. Qed.

Lemma step_frame_ok t o :
  frame_ok t -> (is_resize o = true -> snd (step t o) = Ok tt) -> frame_ok (fst (step t o)).
Proof.
  unfold frame_ok. intros [Hx Hy] Hres.
  destruct o; simpl in *;
    try (match goal with |- context [lift_grid t ?r] =>
           destruct (lift_grid_sizes t r) as (-> & -> & -> & ->); auto end).
  - specialize (Hres eq_refl). destruct (set_row_h t i h) as [t' r] eqn:E. simpl in *. subst r.
    apply (set_row_h_ok t i h t') in E as (H1 & H2 & H3 & H4 & H5). rewrite H1, H3, H4. auto.
  - specialize (Hres eq_refl). destruct (set_col_w t j w) as [t' r] eqn:E. simpl in *. subst r.
    apply (set_col_w_ok t j w t') in E as (H1 & H2 & H3 & H4 & H5). rewrite H1, H3, H4. auto.
Qed.

(** The faithful model refutes the unconditional reading: a resize whose new total is
    not a valid frame extent raises ValueError AFTER the row height has been written. *)
Lemma frame_size_refuted :
  exists t i h t',
    new_tbl 1 1 100 100 = Ok t /\ frame_ok t /\
    step t (SetRowH i h) = (t', Err ValueErr) /\ cy t' <> sumZ (heights t').
Proof.
  eexists. exists 0, (-5)%Z. eexists. split; [vm_compute; reflexivity|].
  split; [split; vm_compute; reflexivity|].
  split; [vm_compute; reflexivity|]. vm_compute. discriminate.
Qed.
