#!/bin/sh
# regenerate _CoqProject (all .v files present under lib model proofs gen props) and the Makefile
cd "$(dirname "$0")"
{ cat _CoqProject.head; find lib model proofs gen props extract -name '*.v' 2>/dev/null | sort; } > _CoqProject.new
if ! cmp -s _CoqProject.new _CoqProject 2>/dev/null; then mv _CoqProject.new _CoqProject; coq_makefile -f _CoqProject -o Makefile >/dev/null; else rm _CoqProject.new; [ -f Makefile ] || coq_makefile -f _CoqProject -o Makefile >/dev/null; fi
