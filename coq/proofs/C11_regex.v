(** Regular expressions over code points, for the XSD pattern facets that lexspec does
    not express (chart percent strings, the fixed-percentage string, OPC content types
    and extensions, xsd:double).  A pattern is transcribed constructor by constructor
    ( concatenation, alternation, star, character class with XSD class subtraction ),
    so that the transcription can be read against the pattern text.

    Two semantics: an executable matcher by derivatives ( [re_matches], runs under
    vm_compute ) and a denotational one ( [re_den] ); they are proved equivalent, so
    theorems quantify over ALL strings of the language through [re_den] inversion while
    witnesses are decided by computation. *)
From V.lib Require Import Prelude.
Local Open Scope N_scope.

(** a character class: code point c belongs when it lies in one of the inclusive ranges
    of [pos] and in none of [neg]  ( XSD  [pos-[neg]] ) *)
Definition in_ranges (c : N) (l : list (N * N)) : bool :=
  existsb (fun r => (fst r <=? c) && (c <=? snd r)) l.

Inductive re :=
| R0                                   (* no string *)
| R1                                   (* the empty string *)
| RCls (pos neg : list (N * N))
| RCat (a b : re)
| RAlt (a b : re)
| RStar (a : re).

Definition cls_mem (pos neg : list (N * N)) (c : N) : bool :=
  in_ranges c pos && negb (in_ranges c neg).

Fixpoint nullable (r : re) : bool :=
  match r with
  | R0 => false
  | R1 => true
  | RCls _ _ => false
  | RCat a b => nullable a && nullable b
  | RAlt a b => nullable a || nullable b
  | RStar _ => true
  end.

Fixpoint deriv (c : N) (r : re) : re :=
  match r with
  | R0 | R1 => R0
  | RCls pos neg => if cls_mem pos neg c then R1 else R0
  | RCat a b => if nullable a then RAlt (RCat (deriv c a) b) (deriv c b) else RCat (deriv c a) b
  | RAlt a b => RAlt (deriv c a) (deriv c b)
  | RStar a => RCat (deriv c a) (RStar a)
  end.

(** simplification keeps derivative terms small on long inputs; it is part of the
    executable matcher only and is proved language-preserving below *)
Definition mk_cat (a b : re) : re :=
  match a, b with
  | R0, _ => R0
  | _, R0 => R0
  | R1, _ => b
  | _, _ => RCat a b
  end.
Definition mk_alt (a b : re) : re :=
  match a, b with
  | R0, _ => b
  | _, R0 => a
  | _, _ => RAlt a b
  end.
Fixpoint simp (r : re) : re :=
  match r with
  | RCat a b => mk_cat (simp a) (simp b)
  | RAlt a b => mk_alt (simp a) (simp b)
  | _ => r
  end.

Fixpoint re_run (r : re) (s : str) : bool :=
  match s with
  | [] => nullable r
  | c :: s' => re_run (simp (deriv c r)) s'
  end.
Definition re_matches (r : re) (s : str) : bool := re_run r s.

Inductive re_den : re -> str -> Prop :=
| D1 : re_den R1 []
| DCls pos neg c : cls_mem pos neg c = true -> re_den (RCls pos neg) [c]
| DCat a b s t : re_den a s -> re_den b t -> re_den (RCat a b) (s ++ t)
| DAltL a b s : re_den a s -> re_den (RAlt a b) s
| DAltR a b s : re_den b s -> re_den (RAlt a b) s
| DStar0 a : re_den (RStar a) []
| DStarS a s t : re_den a s -> re_den (RStar a) t -> re_den (RStar a) (s ++ t).

(** inversion lemmas with named components *)
Lemma inv_R0 u : re_den R0 u -> False.
Proof. intros H. inversion H. Qed.
Lemma inv_R1 u : re_den R1 u -> u = [].
Proof. intros H. inversion H. reflexivity. Qed.
Lemma inv_cls pos neg u : re_den (RCls pos neg) u -> exists c, u = [c] /\ cls_mem pos neg c = true.
Proof. intros H. inversion H as [|p0 n0 c Hc| | | | |]. subst. eauto. Qed.
Lemma inv_cat a b u : re_den (RCat a b) u -> exists s t, u = s ++ t /\ re_den a s /\ re_den b t.
Proof. intros H. inversion H as [| |a0 b0 s t Hs Ht| | | |]. subst. eauto. Qed.
Lemma inv_alt a b u : re_den (RAlt a b) u -> re_den a u \/ re_den b u.
Proof. intros H. inversion H as [| | |a0 b0 s Hs|a0 b0 s Hs| |]; subst; auto. Qed.

Lemma nullable_den r : nullable r = true <-> re_den r [].
Proof.
  induction r as [| |pos neg|a IHa b IHb|a IHa b IHb|a IHa]; cbn [nullable].
  - split; [discriminate|]. intros H. destruct (inv_R0 _ H).
  - split; [constructor|reflexivity].
  - split; [discriminate|]. intros H. destruct (inv_cls _ _ _ H) as (c & E & _). discriminate E.
  - rewrite andb_true_iff, IHa, IHb. split.
    + intros [Ha Hb]. change (@nil N) with (@nil N ++ []). now constructor.
    + intros H. destruct (inv_cat _ _ _ H) as (s & t & E & Hs & Ht).
      symmetry in E. apply app_eq_nil in E as [-> ->]. now split.
  - rewrite orb_true_iff, IHa, IHb. split.
    + intros [H|H]; [now apply DAltL|now apply DAltR].
    + apply inv_alt.
  - split; [constructor|reflexivity].
Qed.

Lemma star_cons a c s :
  re_den (RStar a) (c :: s) ->
  exists s1 s2, s = s1 ++ s2 /\ re_den a (c :: s1) /\ re_den (RStar a) s2.
Proof.
  intros H. remember (RStar a) as r eqn:Er. remember (c :: s) as u eqn:Eu.
  revert a c s Er Eu.
  induction H as [|p0 n0 c0 Hc0|a0 b0 s0 t0 Hs _ Ht _|a0 b0 s0 Hs _|a0 b0 s0 Hs _| a0 |a0 s0 t0 Hs _ Ht IHt];
    intros a c s Er Eu; try discriminate.
  injection Er as ->. destruct s0 as [|c0 s0'].
  - cbn [app] in Eu. eapply IHt; [reflexivity|exact Eu].
  - cbn [app] in Eu. injection Eu as -> <-. exists s0', t0. auto.
Qed.

Lemma deriv_den c r : forall s, re_den (deriv c r) s <-> re_den r (c :: s).
Proof.
  induction r as [| |pos neg|a IHa b IHb|a IHa b IHb|a IHa]; intros s; cbn [deriv].
  - split; intros H; destruct (inv_R0 _ H).
  - split; intros H; [destruct (inv_R0 _ H)|apply inv_R1 in H; discriminate H].
  - destruct (cls_mem pos neg c) eqn:E.
    + split; intros H.
      * apply inv_R1 in H. subst. now constructor.
      * destruct (inv_cls _ _ _ H) as (c' & E' & _). injection E' as _ ->. constructor.
    + split; intros H; [destruct (inv_R0 _ H)|].
      destruct (inv_cls _ _ _ H) as (c' & E' & M). injection E' as -> _. congruence.
  - assert (L : re_den (RCat (deriv c a) b) s -> re_den (RCat a b) (c :: s)).
    { intros H. destruct (inv_cat _ _ _ H) as (s1 & t1 & -> & Hs & Ht).
      apply IHa in Hs. change (c :: s1 ++ t1) with ((c :: s1) ++ t1). now constructor. }
    assert (Rg : re_den (RCat a b) (c :: s) ->
                 re_den (RCat (deriv c a) b) s \/ (re_den a [] /\ re_den b (c :: s))).
    { intros H. destruct (inv_cat _ _ _ H) as (s1 & t1 & E2 & Hs & Ht).
      destruct s1 as [|c1 s1'].
      - cbn [app] in E2. subst t1. right; auto.
      - cbn [app] in E2. injection E2 as <- ->. left. constructor; [now apply IHa|assumption]. }
    destruct (nullable a) eqn:Na.
    + split.
      * intros H. destruct (inv_alt _ _ _ H) as [H1|H2]; [now apply L|].
        apply IHb in H2. apply nullable_den in Na.
        change (c :: s) with ([] ++ c :: s). now constructor.
      * intros H. destruct (Rg H) as [H1|[_ H2]]; [now apply DAltL|apply DAltR; now apply IHb].
    + split; [exact L|]. intros H. destruct (Rg H) as [H1|[H1 _]]; [assumption|].
      apply nullable_den in H1. congruence.
  - split; intros H; destruct (inv_alt _ _ _ H) as [H1|H1];
      solve [apply DAltL; now apply IHa | apply DAltR; now apply IHb].
  - split.
    + intros H. destruct (inv_cat _ _ _ H) as (s1 & t1 & -> & Hs & Ht).
      apply IHa in Hs. change (c :: s1 ++ t1) with ((c :: s1) ++ t1). now constructor.
    + intros H. destruct (star_cons a c s H) as (s1 & s2 & -> & H1 & H2).
      constructor; [now apply IHa|assumption].
Qed.

Lemma cat_R0_l b s : re_den (RCat R0 b) s -> False.
Proof. intros H. destruct (inv_cat _ _ _ H) as (s1 & t1 & _ & Hs & _). destruct (inv_R0 _ Hs). Qed.
Lemma cat_R0_r a s : re_den (RCat a R0) s -> False.
Proof. intros H. destruct (inv_cat _ _ _ H) as (s1 & t1 & _ & _ & Ht). destruct (inv_R0 _ Ht). Qed.
Lemma cat_R1_l b s : re_den b s <-> re_den (RCat R1 b) s.
Proof.
  split.
  - intros H. change s with ([] ++ s). constructor; [constructor|assumption].
  - intros H. destruct (inv_cat _ _ _ H) as (s1 & t1 & -> & Hs & Ht). apply inv_R1 in Hs. now subst.
Qed.

Lemma mk_cat_den a b s : re_den (mk_cat a b) s <-> re_den (RCat a b) s.
Proof.
  destruct a; destruct b; cbn [mk_cat]; try tauto;
    try (split; [intros H; destruct (inv_R0 _ H)|intros H; exfalso; first [exact (cat_R0_l _ _ H)|exact (cat_R0_r _ _ H)]]; fail);
    try (apply cat_R1_l).
Qed.

Lemma alt_R0_l b s : re_den b s <-> re_den (RAlt R0 b) s.
Proof. split; [apply DAltR|]. intros H. destruct (inv_alt _ _ _ H) as [H1|H1]; [destruct (inv_R0 _ H1)|assumption]. Qed.
Lemma alt_R0_r a s : re_den a s <-> re_den (RAlt a R0) s.
Proof. split; [apply DAltL|]. intros H. destruct (inv_alt _ _ _ H) as [H1|H1]; [assumption|destruct (inv_R0 _ H1)]. Qed.

Lemma mk_alt_den a b s : re_den (mk_alt a b) s <-> re_den (RAlt a b) s.
Proof.
  destruct a; destruct b; cbn [mk_alt]; try tauto; try apply alt_R0_l; try apply alt_R0_r.
Qed.

Lemma simp_den r : forall s, re_den (simp r) s <-> re_den r s.
Proof.
  induction r as [| |pos neg|a IHa b IHb|a IHa b IHb|a IHa]; intros s; cbn [simp]; try tauto.
  - rewrite mk_cat_den. split; intros H; destruct (inv_cat _ _ _ H) as (s1 & t1 & -> & Hs & Ht);
      (constructor; [now apply IHa|now apply IHb]).
  - rewrite mk_alt_den. split; intros H; destruct (inv_alt _ _ _ H) as [H1|H1];
      solve [apply DAltL; now apply IHa | apply DAltR; now apply IHb].
Qed.

Theorem re_matches_den r s : re_matches r s = true <-> re_den r s.
Proof.
  unfold re_matches. revert r. induction s as [|c s IH]; intros r; cbn [re_run].
  - apply nullable_den.
  - rewrite IH, simp_den. apply deriv_den.
Qed.

(** ---- building blocks ---- *)
Definition rch (c : N) : re := RCls [(c, c)] [].
Definition rrange (lo hi : N) : re := RCls [(lo, hi)] [].
Definition rdigit : re := rrange 48 57.
Fixpoint rlit (s : str) : re :=
  match s with [] => R1 | c :: s' => RCat (rch c) (rlit s') end.
Definition ropt (a : re) : re := RAlt a R1.
Definition rplus (a : re) : re := RCat a (RStar a).

Lemma cls_mem_single c d : cls_mem [(c, c)] [] d = true -> d = c.
Proof.
  unfold cls_mem, in_ranges. cbn [existsb fst snd negb]. rewrite orb_false_r, andb_true_r.
  rewrite andb_true_iff, !N.leb_le. lia.
Qed.

Lemma rch_den c s : re_den (rch c) s -> s = [c].
Proof. intros H. destruct (inv_cls _ _ _ H) as (d & -> & M). apply cls_mem_single in M. now subst. Qed.

Lemma rlit_den l s : re_den (rlit l) s -> s = l.
Proof.
  revert s. induction l as [|c l IH]; intros s H; cbn [rlit] in H.
  - now apply inv_R1.
  - destruct (inv_cat _ _ _ H) as (s1 & t1 & -> & Hs & Ht).
    apply rch_den in Hs. apply IH in Ht. now subst.
Qed.

Lemma ropt_den a s : re_den (ropt a) s -> s = [] \/ re_den a s.
Proof. intros H. destruct (inv_alt _ _ _ H) as [H1|H1]; [now right|]. apply inv_R1 in H1. now left. Qed.

(** every character a regular expression can consume satisfies [q], when all its
    classes do: decided syntactically for range classes *)
Definition ranges_within (lo hi : N) (pos : list (N * N)) : bool :=
  forallb (fun r => (lo <=? fst r) && (snd r <=? hi)) pos.
Fixpoint re_within (lo hi : N) (r : re) : bool :=
  match r with
  | R0 | R1 => true
  | RCls pos _ => ranges_within lo hi pos
  | RCat a b | RAlt a b => re_within lo hi a && re_within lo hi b
  | RStar a => re_within lo hi a
  end.

Lemma re_within_den lo hi r s :
  re_den r s -> re_within lo hi r = true -> forallb (fun c => (lo <=? c) && (c <=? hi)) s = true.
Proof.
  intros H. induction H as [|pos neg c Hc|a b s t Hs IHs Ht IHt|a b s Hs IHs|a b s Hs IHs|a|a s t Hs IHs Ht IHt];
    cbn [re_within]; intros W.
  - reflexivity.
  - cbn [forallb]. rewrite andb_true_r.
    unfold cls_mem in Hc. apply andb_true_iff in Hc as [Hc _]. unfold in_ranges in Hc.
    apply existsb_exists in Hc as [[a b] [Hin Hab]]. unfold ranges_within in W.
    rewrite forallb_forall in W. specialize (W _ Hin). cbn [fst snd] in *.
    rewrite andb_true_iff, !N.leb_le in *. lia.
  - apply andb_true_iff in W as [Wa Wb]. rewrite forallb_app, IHs, IHt; auto.
  - apply andb_true_iff in W as [Wa Wb]. auto.
  - apply andb_true_iff in W as [Wa Wb]. auto.
  - reflexivity.
  - rewrite forallb_app, IHs, IHt; auto.
Qed.

Lemma re_digits_den r s : re_den r s -> re_within 48 57 r = true -> forallb is_digit s = true.
Proof. intros H W. exact (re_within_den 48 57 r s H W). Qed.

Lemma re_nonnull_den r s : re_den r s -> nullable r = false -> s <> [].
Proof. intros H N E. subst. apply nullable_den in H. congruence. Qed.

Example re_examples :
  re_matches (RCat (RStar (rch 48)) (RCat (RAlt rdigit (rlit [53; 48; 48])) (rch 37))) [48; 48; 53; 48; 48; 37] = true
  /\ re_matches (RCat (RStar (rch 48)) (RCat (RAlt rdigit (rlit [53; 48; 48])) (rch 37))) [53; 48; 49; 37] = false
  /\ re_matches (rplus (RCls [(0, 127)] [(0, 32); (47, 47)])) [97; 98] = true
  /\ re_matches (rplus (RCls [(0, 127)] [(0, 32); (47, 47)])) [97; 47] = false
  /\ re_matches (rplus rdigit) [] = false.
Proof. vm_compute. repeat split. Qed.
